/-
C12 — Tree utilities are faithful to the tree's decision function.
Property theorems only (+ non-vacuity examples). `MlVerif.Gen.C12` is regenerated from
mlinsights/mltree/tree_digitize.py and tree_structure.py on every run: `add_nodes_step_spec`,
`root_step_spec`, `direction_test_spec`, `desc_value_spec` and `box_rows_ok` are statements about what
the source says *now*; every other theorem follows from them and from the hand-written models
(validated against the Cython build by the correspondence run).

Numbers: bin edges / thresholds are the float64 values the tree stores, `x` is the value the
tree compares (float32(x), scikit-learn casts X to float32), both as the exact rationals they
denote. For an x that float32 rounding moves across an edge the prediction therefore differs
from numpy.digitize(x, bins): known finding `digitize2tree:float32-cast-of-x`.
  FULL STATEMENT (not provable, scikit-learn's cast): ∀ x : float64, predict(x) = digitize(x, bins).
  PROVED: ∀ x, predict(x) = digitize(float32(x), bins)   (digitize_asc / digitize_desc below).
-/
import MlVerif.Lemmas.Digitize
import MlVerif.Lemmas.TreeStruct
import MlVerif.Lemmas.DigitizeWF

namespace MlVerif.C12
open MlVerif.Gen MlVerif.Gen.C12 MlVerif.Digitize MlVerif.TreeStruct

/-! ### digitize2tree -/

/-- One activation of `add_nodes(parent, i, j, is_left)` as the source writes it: a left call
with `i = j` / a right call with `i + 1 = j` makes the leaf valued `i` / `j`; otherwise it splits
at some `k` with `i ≤ k < j` (`i < k` on the right side), threshold `bins[k]`, and recurses with
`(i, k, True)` then `(k, j, False)`; it never reaches `raise NotImplementedError`. -/
theorem add_nodes_step_spec (i j : Int) (isLeft : Bool) (h : if isLeft then i ≤ j else i < j) :
    StepOk i j isLeft (addNodes i j isLeft) := addNodes_spec i j isLeft h

/-- `add_root` and the two top-level calls: the assert holds, the root splits at an index
`k ∈ [0, n)` with threshold `bins[k]`, children `(0, k, True)` then `(k, n, False)`. -/
theorem root_step_spec (n : Int) (hn : 1 ≤ n) : RootOk n := root_spec n hn

/-- the direction test `ascending = ...`: true for a single edge and for increasing first edges,
false for decreasing first edges of two or more -/
theorem direction_test_spec (n : Int) (b0 b1 : Rat) :
    (n ≤ 1 → ascending n b0 b1 = true) ∧ (b0 < b1 → ascending n b0 b1 = true) ∧
    (1 < n → b1 < b0 → ascending n b0 b1 = false) :=
  ascending_spec n b0 b1

/-- the descending case remaps every value `v` to `len(bins) - v`, on the reversed bins -/
theorem desc_value_spec (n v : Int) : descValue n v = n - v ∧ descReversesBins = true ∧ rightRequired = true :=
  ⟨descValue_spec n v, by unfold descReversesBins; rfl, by unfold rightRequired; rfl⟩

/-- the recursion returns a tree for every call in range (no IndexError / NotImplementedError,
depth within the budget) and that tree is correct for every x the call can receive -/
theorem add_nodes_correct (bins : List Rat) (hm : StrictAsc bins) (x : Rat) (fuel : Nat) (i j : Int) (fl : Bool)
    (hfuel : (2 * (j - i) + (if fl then 1 else 0)).toNat < fuel) (hi : 0 ≤ i)
    (hL : fl = true → i ≤ j ∧ j < bins.length ∧ x ≤ B bins j ∧ (i = 0 ∨ B bins (i - 1) < x))
    (hR : fl = false → i < j ∧ j ≤ bins.length ∧ B bins i < x ∧ (j = bins.length ∨ x ≤ B bins j)) :
    ∃ T, build bins fuel ⟨i, j, fl⟩ = .ok T ∧ T.eval x = countLt bins x :=
  build_correct bins hm x fuel i j fl hfuel hi hL hR

/-- **digitize_asc.** For every bins of length ≥ 1, strictly increasing, and every x:
`digitize2tree(bins, right=True)` returns a tree whose decision function at x — also when
evaluated the scikit-learn way (preorder node arrays, `apply`, `value[leaf]`) — is
`#{k | bins[k] < x}` = `numpy.digitize(x, bins, right=True)`. -/
theorem digitize_asc (bins : List Rat) (hn : 1 ≤ bins.length) (hm : StrictAsc bins) (x : Rat) :
    ∃ T, digitize2tree bins true = .ok T ∧ T.eval x = countLt bins x ∧
      predictArrays (toArrays T) x = some (countLt bins x : Int) := by
  obtain ⟨T, hT, he⟩ := digitizeAsc_correct bins hn hm x
  refine ⟨T, ?_, he, by rw [predictArrays_toArrays, he]⟩
  unfold digitize2tree
  simp only [Bool.not_true, Bool.and_false, Bool.false_eq_true, if_false, asc_branch bins hn hm, if_true]
  exact hT

/-- **digitize_desc.** For every bins of length ≥ 2, strictly decreasing, and every x: the tree
(reverse, build, remap `n - value`) evaluates to `#{k | bins[k] ≥ x}` =
`numpy.digitize(x, bins, right=True)` for decreasing bins. -/
theorem digitize_desc (bins : List Rat) (hn : 2 ≤ bins.length) (hm : StrictDesc bins) (x : Rat) :
    ∃ T, digitize2tree bins true = .ok T ∧ T.eval x = countGe bins x ∧
      predictArrays (toArrays T) x = some (countGe bins x : Int) := by
  have hasc := strictAsc_reverse bins hm
  have hlen : bins.reverse.length = bins.length := List.length_reverse
  obtain ⟨T, hT, he⟩ := digitizeAsc_correct bins.reverse (by omega) hasc x
  have hval : (T.mapValues (descValue bins.length)).eval x = countGe bins x := by
    rw [eval_mapValues, he, descValue_spec, countLt_reverse]
    have := countLt_add_countGe bins x
    omega
  refine ⟨T.mapValues (descValue bins.length), ?_, hval, by rw [predictArrays_toArrays, hval]⟩
  unfold digitize2tree
  have h2 := asc_branch bins.reverse (by omega) hasc
  rw [hlen] at h2
  have hrev : descReversesBins = true := by unfold descReversesBins; rfl
  simp only [Bool.not_true, Bool.and_false, Bool.false_eq_true, if_false, desc_branch bins hn hm,
    hrev, h2, if_true, hT]
  rfl

/-- the guard the code enforces: `right=False` is rejected (RuntimeError) -/
theorem digitize_rejects_right_false (bins : List Rat) : digitize2tree bins false = .error .runtime := by
  unfold digitize2tree rightRequired; rfl

/-! ### tree_structure.py on well-formed array trees -/

/-- the executable well-formedness check evaluated on every real tree implies `WF` -/
theorem wf_check_sound (t : ATree) (d : Nat) (h : wfb t d = true) : WF t d := wfb_sound t d h

/-- **leave_index_exact.** `tree_leave_index` lists exactly the leaves (nodes whose
`children_left` is TREE_LEAF), each once, in increasing order, and every point is routed to
one of them. -/
theorem leave_index_exact (t : ATree) (d : Nat) (hw : WF t d) :
    (∀ i, i ∈ treeLeaveIndex t ↔ ∃ nd, t[i]? = some nd ∧ nd.left = TREE_LEAF) ∧
    (treeLeaveIndex t).Pairwise (· < ·) ∧
    (∀ x : List Rat, d ≤ x.length → ∃ l, TreeStruct.apply t x = some l ∧ l ∈ treeLeaveIndex t) := by
  refine ⟨mem_treeLeaveIndex t, treeLeaveIndex_sorted t, ?_⟩
  intro x hx
  obtain ⟨p, hp, hr⟩ := decisionPath_total hw x hx
  obtain ⟨l, nd, hlast, hnd, hl⟩ := hr.last_leaf
  exact ⟨l, by rw [apply_eq hp, hlast], (mem_treeLeaveIndex t l).mpr ⟨nd, hnd, hl⟩⟩

/-- **predict_leaves_eq_apply.** For every well-formed tree and every batch: the argmax over
the leaf columns of the decision-path indicator, mapped back through the leaf list, is `apply`. -/
theorem predict_leaves_eq_apply (t : ATree) (d : Nat) (hw : WF t d) (X : List (List Rat))
    (hX : ∀ x ∈ X, d ≤ x.length) : predictLeaves t X = X.mapM (TreeStruct.apply t) :=
  predictLeaves_eq_apply hw X hX

/-- exactly one leaf lies on a decision path: the last node -/
theorem one_leaf_on_path (t : ATree) (d : Nat) (hw : WF t d) (x : List Rat) (hx : d ≤ x.length) :
    ∃ p l, decisionPath t x = some p ∧ p.getLast? = some l ∧
      ∀ a ∈ p, a ∈ treeLeaveIndex t ↔ a = l := by
  obtain ⟨p, hp, hr⟩ := decisionPath_total hw x hx
  obtain ⟨l, nd, hlast, hnd, hl⟩ := hr.last_leaf
  refine ⟨p, l, hp, hlast, ?_⟩
  intro a ha
  constructor
  · intro hal
    obtain ⟨nda, hnda, hla⟩ := (mem_treeLeaveIndex t a).mp hal
    have := hr.leaf_is_last ha hnda hla
    rw [hlast] at this
    exact (Option.some.inj this).symm
  · intro h; subst h; exact (mem_treeLeaveIndex t a).mpr ⟨nd, hnd, hl⟩

/-- the number of rows `tree_node_range` allocates (regenerated expression) is never negative
and covers every split feature met on the path -/
theorem box_rows_ok : BoxRowsOk := by
  intro mx nf hnf hmx
  have hu : boxUsesMx = true ∨ boxUsesMx = false := by cases boxUsesMx <;> simp
  unfold boxRows
  rcases hu with hu | hu
  · first
    | (exfalso; simp [boxUsesMx] at hu; done)
    | (have := hmx hu
       refine ⟨by omega, ?_⟩
       intro f h0 hfn hfm
       have := hfm hu
       omega)
  · first
    | (exfalso; simp [boxUsesMx] at hu; done)
    | (refine ⟨by omega, ?_⟩
       intro f h0 hfn _
       omega)

/-- `tree_find_path_to_root` over `tree_node_parents` returns the chain of ancestors, root first -/
theorem path_to_root_is_ancestor_chain (t : ATree) (d : Nat) (hw : WF t d) (c : Nat) (hc : c < t.length) :
    ∃ up, treeFindPathToRoot (treeNodeParents t) c = some (c :: up).reverse ∧ Chain t (c :: up) ∧
      ∀ a ∈ up, a < c := by
  obtain ⟨up, hup, hchain, hlt⟩ := climb_chain hw (max (treeNodeParents t).length c + 1) c hc (by omega)
  exact ⟨up, by simp [treeFindPathToRoot, hup], hchain, hlt⟩

/-- **node_range_box.** For every well-formed tree, every leaf l and every point x:
`tree_node_range(tree, l)` returns a box, and x is routed to l iff for every feature f
`lo_f < x_f ≤ hi_f` (nan = unbounded; `inBox`). -/
theorem node_range_box (t : ATree) (d : Nat) (hw : WF t d) (l : Nat) (hl : l ∈ treeLeaveIndex t) :
    ∃ box, treeNodeRange t d l = .ok box ∧
      ∀ x : List Rat, d ≤ x.length →
        (TreeStruct.apply t x = some l ↔
          ∀ f, f < box.length → ∀ r v, box[f]? = some r → x[f]? = some v →
            (match r.1 with | some lo => lo < v | none => True) ∧
            (match r.2 with | some hi => v ≤ hi | none => True)) :=
  treeNodeRange_leaf hw box_rows_ok l hl

/-- the same for any node: the box of node c holds exactly the points whose path visits c -/
theorem node_range_any_node (t : ATree) (d : Nat) (hw : WF t d) (c : Nat) (hc : c < t.length) :
    ∃ box, treeNodeRange t d c = .ok box ∧
      ∀ x : List Rat, d ≤ x.length → ∀ p, decisionPath t x = some p → (inBox box x ↔ c ∈ p) :=
  treeNodeRange_spec hw box_rows_ok c hc

/-- the node arrays of every tree the digitize2tree model returns are a well-formed
one-feature scikit-learn tree, so the theorems above apply to them as well -/
theorem digitize_tree_wf (bins : List Rat) (right : Bool) (T : DTree) (_h : digitize2tree bins right = .ok T) :
    WF (toArrays T).1 1 := toArrays_wf T

/-! ### the tie to the functions the model transcribes -/

/-- the functions the hand-written model transcribes have, in the current source, the control skeleton (tests, loop
headers, kinds of statements and the names they bind) they had when the model was written and validated: no branch,
loop, early exit or rebinding has been added that the model does not describe -/
theorem modelled_functions_have_the_transcribed_shape :
    MlVerif.Gen.C12.shapeDigitize2tree =
      "sig(bins, right=False)|if not right: raise RuntimeError(f'right must be True not right={right!r}') ; ascending = len(bins) <= 1 or bins[0] < bins[1] ; if not ascending: bins2 = bins[::-1] cl = digitize2tree(bins2, right=right) n = len(bins) for i in range(cl.tree_.value.shape[0]): cl.tree_.value[i, 0, 0] = n - cl.tree_.value[i, 0, 0] return cl ; tree = Tree(1, numpy.array([1], dtype=numpy.intp), 1) ; values = [] ; UNUSED = numpy.nan ; n_nodes = [] ; def add_root(index): assert index >= 0 and index < len(bins), 'Unexpected index %d / len(bins)=%d.' % (index, len(bins)) parent = -1 is_left = False is_leaf = False threshold = bins[index] n = tree_add_node(tree, parent, is_left, is_leaf, 0, threshold, 0, 1, 1.0, 0) values.append(UNUSED) n_nodes.append(n) return n ; def add_nodes(parent, i, j, is_left): if is_left: if i == j: n = tree_add_node(tree, parent, is_left, True, 0, 0, 0, 1, 1.0, 0) n_nodes.append(n) values.append(i) return n if i + 1 == j: values.append(UNUSED) th = bins[i] n = tree_add_node(tree, parent, is_left, False, 0, th, 0, 1, 1.0, 0) n_nodes.append(n) add_nodes(n, i, i, True) add_nodes(n, i, j, False) return n if i + 1 < j: values.append(UNUSED) index = (i + j) // 2 th = bins[index] n = tree_add_node(tree, parent, is_left, False, 0, th, 0, 1, 1.0, 0) n_nodes.append(n) add_nodes(n, i, index, True) add_nodes(n, index, j, False) return n else: if i + 1 == j: values.append(j) n = tree_add_node(tree, parent, is_left, True, 0, 0, 0, 1, 1.0, 0) n_nodes.append(n) return n if i + 1 < j: values.append(UNUSED) index = (i + j) // 2 th = bins[index] n = tree_add_node(tree, parent, is_left, False, 0, th, 0, 1, 1.0, 0) n_nodes.append(n) add_nodes(n, i, index, True) add_nodes(n, index, j, False) return n raise NotImplementedError(f'Unexpected case where i={i!r}, j={j!r}, is_left={is_left!r}.') ; index = len(bins) // 2 ; add_root(index) ; add_nodes(0, 0, index, True) ; add_nodes(0, index, len(bins), False) ; cl = DecisionTreeRegressor() ; cl.tree_ = tree ; cl.tree_.value[:, 0, 0] = numpy.array(values, dtype=numpy.float64) ; cl.n_outputs = 1 ; cl.n_outputs_ = 1 ; cl.n_features_in_ = 1 ; return cl" ∧
    MlVerif.Gen.C12.shapeTreeLeaveIndex =
      "sig(model)|tree = _get_tree(model) ; res = [] ; for i in range(tree.node_count): if tree.children_left[i] == TREE_LEAF: res.append(i) ; return res" ∧
    MlVerif.Gen.C12.shapeTreeNodeRange =
      "sig(tree, i, parents=None)|tree=;if(parents is None){parents=};path=;res=;for((ind,p) in enumerate(path)){if(p == i){break};fn=;lr=;th=;if(lr){res[]=}else{res[]=}};return" ∧
    MlVerif.Gen.C12.shapePredictLeaves =
      "sig(model, X)|if hasattr(model, 'get_leaves_index'): leaves_index = model.get_leaves_index() else: leaves_index = [i for i in range(len(model.tree_.children_left)) if model.tree_.children_left[i] == TREE_LEAF] ; leaves = model.decision_path(X) ; leaves = leaves[:, leaves_index] ; mat = numpy.argmax(leaves, 1) ; res = numpy.asarray(mat).ravel() ; res = numpy.array([leaves_index[r] for r in res]) ; return res" ∧
    MlVerif.Gen.C12.shapeTreeNodeParents =
      "sig(tree)|tree=;parents=;for(i in range(tree.node_count)){if(tree.children_left[i] == TREE_LEAF){continue};parents[]=;parents[]=};return" :=
  ⟨rfl, rfl, rfl, rfl, rfl⟩

/-! ### non-vacuity: concrete instances satisfying the hypotheses -/

example : StrictAsc [1, 2, 5/2, 4, 7] ∧ StrictDesc [5, 3, 1] := by
  unfold StrictAsc StrictDesc; decide +kernel
example : (digitize2tree [1, 2, 5/2, 4, 7] true).toOption.map (fun T => [T.eval 0, T.eval 1, T.eval 3, T.eval 4, T.eval 8])
    = some [0, 0, 3, 3, 5] := by
  decide +kernel
example : (digitize2tree [5, 3, 1] true).toOption.map (fun T => predictArrays (toArrays T) 4) = some (some 1) := by
  decide +kernel
example : (match addNodes 3 7 true with
    | .split k c1 c2 => decide (3 ≤ k ∧ k < 7 ∧ c1 = ⟨3, k, true⟩ ∧ c2 = ⟨k, 7, false⟩)
    | _ => false) = true := by
  decide +kernel
/-- a two-feature tree: root splits feature 0 at 1/2, its right child splits feature 1 at 3/2 -/
def exTree : ATree := [⟨1, 2, 0, 1/2⟩, ⟨-1, -1, -2, -2⟩, ⟨3, 4, 1, 3/2⟩, ⟨-1, -1, -2, -2⟩, ⟨-1, -1, -2, -2⟩]
example : WF exTree 2 := wfb_sound _ _ (by decide +kernel)
example : treeLeaveIndex exTree = [1, 3, 4] ∧ TreeStruct.apply exTree [1, 2] = some 4 ∧
    predictLeaves exTree [[1, 2], [0, 0], [1, 1]] = some [4, 1, 3] := by decide +kernel
example : (treeNodeRange exTree 2 4).toOption = some [(some (1/2), none), (some (3/2), none)] := by decide +kernel
/-- a single-leaf tree is well formed and its box is the whole space -/
example : WF [⟨-1, -1, -2, -2⟩] 2 ∧
    (match treeNodeRange [⟨-1, -1, -2, -2⟩] 2 0 with | .ok box => inBoxB box [7, -3] | .error _ => false) = true :=
  ⟨wfb_sound _ _ (by decide +kernel), by decide +kernel⟩

end MlVerif.C12
