/-
C11 — canonical forms of the REGENERATED index expressions (`MlVerif.Gen.C11`).
Each lemma is proved by `unfold …; omega`, so a harmless re-ordering of the source expression
still checks, while an off-by-one / dropped term / swapped sign does not.
Everything downstream uses only these canonical forms, never the generated text.
-/
import MlVerif.Gen.C11

namespace MlVerif.Gen.C11

namespace Iall
theorem posBias_eq (v : Env) : posBias v = 1 := by unfold posBias; omega
theorem posNoBias_eq (v : Env) : posNoBias v = 0 := by unfold posNoBias; omega
theorem degLo_eq (v : Env) : degLo v = 0 := by unfold degLo; omega
theorem degHi_eq (v : Env) : degHi v = v.degree := by unfold degHi; omega
theorem isInit_iff (v : Env) : isInit v = true ↔ v.d = 0 := by
  unfold isInit; exact ⟨fun h => by have := of_decide_eq_true h; omega, fun h => decide_eq_true (by omega)⟩
theorem initDstLo_eq (v : Env) : initDstLo v = v.pos := by unfold initDstLo; omega
theorem initDstHi_eq (v : Env) : initDstHi v = v.pos + v.n := by unfold initDstHi; omega
theorem initIdxLo_eq (v : Env) : initIdxLo v = v.pos := by unfold initIdxLo; omega
theorem initIdxHi_eq (v : Env) : initIdxHi v = v.pos + v.n := by unfold initIdxHi; omega
theorem initPosInc_eq (v : Env) : initPosInc v = v.n := by unfold initPosInc; omega
theorem endSub_eq (v : Env) : endSub v = -1 := by unfold endSub; omega
theorem varLo_eq (v : Env) : varLo v = 0 := by unfold varLo; omega
theorem varHi_eq (v : Env) : varHi v = v.n := by unfold varHi; omega
theorem aSub_eq (v : Env) : aSub v = v.i := by unfold aSub; omega
theorem newPos_eq (v : Env) : newPos v = v.pos + v.end_ - v.a := by unfold newPos; omega
theorem srcLo_eq (v : Env) : srcLo v = v.a := by unfold srcLo; omega
theorem srcHi_eq (v : Env) : srcHi v = v.end_ := by unfold srcHi; omega
theorem colLo_eq (v : Env) : colLo v = v.i := by unfold colLo; omega
theorem colHi_eq (v : Env) : colHi v = v.i + 1 := by unfold colHi; omega
theorem dstLo_eq (v : Env) : dstLo v = v.pos := by unfold dstLo; omega
theorem dstHi_eq (v : Env) : dstHi v = v.newPos := by unfold dstHi; omega
end Iall

namespace Ionly
theorem posBias_eq (v : Env) : posBias v = 1 := by unfold posBias; omega
theorem posNoBias_eq (v : Env) : posNoBias v = 0 := by unfold posNoBias; omega
theorem degLo_eq (v : Env) : degLo v = 0 := by unfold degLo; omega
theorem degHi_eq (v : Env) : degHi v = v.degree := by unfold degHi; omega
theorem isInit_iff (v : Env) : isInit v = true ↔ v.d = 0 := by
  unfold isInit; exact ⟨fun h => by have := of_decide_eq_true h; omega, fun h => decide_eq_true (by omega)⟩
theorem initDstLo_eq (v : Env) : initDstLo v = v.pos := by unfold initDstLo; omega
theorem initDstHi_eq (v : Env) : initDstHi v = v.pos + v.n := by unfold initDstHi; omega
theorem initIdxLo_eq (v : Env) : initIdxLo v = v.pos := by unfold initIdxLo; omega
theorem initIdxHi_eq (v : Env) : initIdxHi v = v.pos + v.n := by unfold initIdxHi; omega
theorem initPosInc_eq (v : Env) : initPosInc v = v.n := by unfold initPosInc; omega
theorem endSub_eq (v : Env) : endSub v = -1 := by unfold endSub; omega
theorem varLo_eq (v : Env) : varLo v = 0 := by unfold varLo; omega
theorem varHi_eq (v : Env) : varHi v = v.n := by unfold varHi; omega
theorem aSub_eq (v : Env) : aSub v = v.i := by unfold aSub; omega
theorem decSub0_eq (v : Env) : decSub0 v = v.i + 1 := by unfold decSub0; omega
theorem decSub1_eq (v : Env) : decSub1 v = v.i := by unfold decSub1; omega
theorem dec_eq (v : Env) : dec v = v.sub0 - v.sub1 := by unfold dec; omega
theorem newPos_eq (v : Env) : newPos v = v.pos + v.end_ - v.a - v.dec := by unfold newPos; omega
theorem breakCond_iff (v : Env) : breakCond v = true ↔ v.newPos ≤ v.pos := by
  unfold breakCond; exact ⟨fun h => by have := of_decide_eq_true h; omega, fun h => decide_eq_true (by omega)⟩
theorem srcLo_eq (v : Env) : srcLo v = v.a + v.dec := by unfold srcLo; omega
theorem srcHi_eq (v : Env) : srcHi v = v.end_ := by unfold srcHi; omega
theorem colLo_eq (v : Env) : colLo v = v.i := by unfold colLo; omega
theorem colHi_eq (v : Env) : colHi v = v.i + 1 := by unfold colHi; omega
theorem dstLo_eq (v : Env) : dstLo v = v.pos := by unfold dstLo; omega
theorem dstHi_eq (v : Env) : dstHi v = v.newPos := by unfold dstHi; omega
end Ionly

namespace Names
theorem degLo_eq (v : Env) : degLo v = 0 := by unfold degLo; omega
theorem degHi_eq (v : Env) : degHi v = v.degree := by unfold degHi; omega
theorem isInit_iff (v : Env) : isInit v = true ↔ v.d = 0 := by
  unfold isInit; exact ⟨fun h => by have := of_decide_eq_true h; omega, fun h => decide_eq_true (by omega)⟩
theorem initIdxLo_eq (v : Env) : initIdxLo v = v.pos := by unfold initIdxLo; omega
theorem initIdxHi_eq (v : Env) : initIdxHi v = v.lenNames := by unfold initIdxHi; omega
theorem endSub_eq (v : Env) : endSub v = -1 := by unfold endSub; omega
theorem varLo_eq (v : Env) : varLo v = 0 := by unfold varLo; omega
theorem varHi_eq (v : Env) : varHi v = v.n := by unfold varHi; omega
theorem aSub_eq (v : Env) : aSub v = v.i := by unfold aSub; omega
theorem startSub0_eq (v : Env) : startSub0 v = v.i + 1 := by unfold startSub0; omega
theorem startSub1_eq (v : Env) : startSub1 v = v.i := by unfold startSub1; omega
theorem start_io (v : Env) (h : v.io = true) : start v = v.a + (v.sub0 - v.sub1) := by
  unfold start; simp only [h, if_true] <;> omega
theorem start_all (v : Env) (h : v.io = false) : start v = v.a := by
  unfold start; simp only [h, Bool.false_eq_true, if_false] <;> omega
theorem srcHi_eq (v : Env) : srcHi v = v.end_ := by unfold srcHi; omega
theorem nameSub_eq (v : Env) : nameSub v = v.i := by unfold nameSub; omega
end Names

namespace Slow
theorem combIo_eq (v : Env) : combIo v = v.io := by
  unfold combIo; cases v.io <;> rfl
theorem start_bias (v : Env) (h : v.bias = true) : start v = 0 := by
  unfold start; simp only [h, if_true] <;> omega
theorem start_nobias (v : Env) (h : v.bias = false) : start v = 1 := by
  unfold start; simp only [h, Bool.false_eq_true, if_false] <;> omega
theorem rangeHi_eq (v : Env) : rangeHi v = v.degree + 1 := by unfold rangeHi; omega
end Slow

namespace SlowFill
theorem wholeColumns_eq (v : Env) : wholeColumns v = true := by unfold wholeColumns; rfl
end SlowFill

end MlVerif.Gen.C11
