/-
C05 helper lemmas (core Lean only): sums over rows, the per-row pinball algebra, the subgradient
inequality, normal equations in basis / direction form, replication of rows.
-/
import MlVerif.Model.Quantile

namespace MlVerif.Quantile
open Lean.Grind Std
set_option linter.unusedSectionVars false

section
variable {α : Type} [Field α]

/-! ### sums (no order needed) -/

@[simp] theorem sumL_nil : sumL ([] : List α) = 0 := rfl
@[simp] theorem sumL_cons (x : α) (xs : List α) : sumL (x :: xs) = x + sumL xs := rfl

theorem sumL_append (a b : List α) : sumL (a ++ b) = sumL a + sumL b := by
  induction a with
  | nil => simp [sumL]; grind
  | cons x xs ih => simp [ih]; grind

theorem sumL_map_mul_left {β : Type} (c : α) (g : β → α) (l : List β) :
    sumL (l.map (fun b => c * g b)) = c * sumL (l.map g) := by
  induction l with
  | nil => simp; grind
  | cons x xs ih => simp [ih]; grind

theorem sumL_map_add {β : Type} (g h : β → α) (l : List β) :
    sumL (l.map (fun b => g b + h b)) = sumL (l.map g) + sumL (l.map h) := by
  induction l with
  | nil => simp; grind
  | cons x xs ih => simp [ih]; grind

theorem sumL_map_congr {β : Type} (g h : β → α) (l : List β) (e : ∀ b ∈ l, g b = h b) :
    sumL (l.map g) = sumL (l.map h) := by
  induction l with
  | nil => rfl
  | cons x xs ih =>
    simp only [List.map_cons, sumL_cons]
    rw [e x (by simp), ih (fun b hb => e b (by simp [hb]))]

theorem sumL_map_zero {β : Type} (l : List β) : sumL (l.map (fun _ => (0 : α))) = 0 := by
  induction l with
  | nil => rfl
  | cons x xs ih => simp [ih]; grind

theorem sumL_replicate (k : Nat) (a : α) : sumL (List.replicate k a) = natTo k * a := by
  induction k with
  | zero => simp [natTo]; grind
  | succ k ih => simp [List.replicate_succ, natTo, ih]; grind

/-! ### dot products -/

theorem dot_nil_right (x : List α) : dot x ([] : List α) = 0 := by
  cases x <;> rfl

theorem dot_nil_left (b : List α) : dot ([] : List α) b = 0 := rfl

theorem dot_cons_cons (a b : α) (x v : List α) : dot (a :: x) (b :: v) = a * b + dot x v := rfl

/-- `x·(b' − b) = x·b' − x·b` for coefficient vectors of the same length -/
theorem dot_sub (x b' b : List α) (h : b'.length = b.length) :
    dot x (List.zipWith (fun u v => u - v) b' b) = dot x b' - dot x b := by
  induction x generalizing b' b with
  | nil => simp [dot_nil_left]; grind
  | cons a x ih =>
    cases b' with
    | nil =>
      cases b with
      | nil => simp [dot_nil_right]; grind
      | cons _ _ => simp at h
    | cons u us =>
      cases b with
      | nil => simp at h
      | cons v vs =>
        simp only [List.zipWith_cons_cons, dot_cons_cons]
        rw [ih us vs (by simpa using h)]
        grind

/-- with an intercept the last column of the design matrix is constant 1: direction `e_d` -/
theorem dot_intercept_direction (x : List α) : dot (x ++ [1]) (basis x.length : List α) = 1 := by
  induction x with
  | nil => simp [basis, dot]; grind
  | cons a x ih => simp only [List.cons_append, List.length_cons, basis, dot_cons_cons, ih]; grind

theorem dot_append (x c b d : List α) (h : x.length = b.length) :
    dot (x ++ c) (b ++ d) = dot x b + dot c d := by
  induction x generalizing b with
  | nil =>
    cases b with
    | nil => simp [dot_nil_left]; grind
    | cons _ _ => simp at h
  | cons a x ih =>
    cases b with
    | nil => simp at h
    | cons v vs =>
      simp only [List.cons_append, dot_cons_cons]
      rw [ih vs (by simpa using h)]
      grind

/-! ### normal equations: basis form implies every direction -/

/-- `Σ_i c_i (x_i · v)` -/
def lin (cx : List (α × List α)) (v : List α) : α := sumL (cx.map (fun p => p.1 * dot p.2 v))

def head0 : List α → α
  | [] => 0
  | a :: _ => a

theorem dot_cons_right (x : List α) (a : α) (v : List α) : dot x (a :: v) = head0 x * a + dot x.tail v := by
  cases x with
  | nil => simp [dot, head0]; grind
  | cons b x => rfl

theorem lin_cons_right (cx : List (α × List α)) (a : α) (v : List α) :
    lin cx (a :: v) = a * sumL (cx.map (fun p => p.1 * head0 p.2)) + lin (cx.map (fun p => (p.1, p.2.tail))) v := by
  unfold lin
  induction cx with
  | nil => simp; grind
  | cons p ps ih =>
    simp only [List.map_cons, sumL_cons, List.map_map] at ih ⊢
    rw [ih, dot_cons_right]
    grind

theorem lin_basis_all (cx : List (α × List α)) (h : ∀ j, lin cx (basis j) = 0) (v : List α) : lin cx v = 0 := by
  induction v generalizing cx with
  | nil =>
    unfold lin
    rw [sumL_map_congr _ (fun _ => (0 : α)) _ (fun p _ => by rw [dot_nil_right]; grind)]
    exact sumL_map_zero _
  | cons a v ih =>
    rw [lin_cons_right]
    have h0 := h 0
    simp only [basis] at h0
    rw [lin_cons_right] at h0
    have hz : lin (cx.map (fun p => (p.1, p.2.tail))) ([] : List α) = 0 := by
      unfold lin
      rw [sumL_map_congr _ (fun _ => (0 : α)) _ (fun p _ => by rw [dot_nil_right]; grind)]
      exact sumL_map_zero _
    have hs : sumL (cx.map (fun p => p.1 * head0 p.2)) = 0 := by
      rw [hz] at h0; grind
    have ht : ∀ j, lin (cx.map (fun p => (p.1, p.2.tail))) (basis j) = 0 := by
      intro j
      have hj := h (j + 1)
      simp only [basis] at hj
      rw [lin_cons_right] at hj
      grind
    rw [ih _ ht, hs]
    grind

theorem normalEq_eq_lin (W : Row α → α) (beta u : List α) (rows : List (Row α)) :
    normalEq W beta u rows = lin (rows.map (fun r => (W r * (dot r.x beta - r.y), r.x))) u := by
  unfold normalEq lin
  rw [List.map_map]
  rfl

/-- the normal equations (one per column, `v = e_j`) give orthogonality to every direction -/
theorem normalEq_all_directions (W : Row α → α) (beta : List α) (rows : List (Row α))
    (h : ∀ j, normalEq W beta (basis j) rows = 0) (v : List α) : normalEq W beta v rows = 0 := by
  rw [normalEq_eq_lin]
  exact lin_basis_all _ (fun j => by rw [← normalEq_eq_lin]; exact h j) v

end

/-! ### order-dependent part -/
section
variable {α : Type} [Field α] [LE α] [LT α] [DecidableLE α] [DecidableLT α] [DecidableEq α]
  [IsLinearOrder α] [LawfulOrderLT α] [OrderedRing α]

theorem sumL_le_sumL {β : Type} (g h : β → α) (l : List β) (e : ∀ b ∈ l, g b ≤ h b) :
    sumL (l.map g) ≤ sumL (l.map h) := by
  induction l with
  | nil => simp
  | cons x xs ih =>
    have h1 := e x (by simp)
    have h2 := ih (fun b hb => e b (by simp [hb]))
    simp only [List.map_cons, sumL_cons]
    grind

theorem sumL_nonneg {β : Type} (g : β → α) (l : List β) (e : ∀ b ∈ l, 0 ≤ g b) : 0 ≤ sumL (l.map g) := by
  have := sumL_le_sumL (fun _ => (0 : α)) g l e
  rw [sumL_map_zero] at this
  exact this

/-- pinball loss as a function of the signed error `r = f − y` -/
def rho (q r : α) : α := if 0 ≤ r then (1 - q) * r else q * (-r)
/-- a subgradient of `rho q` at `r ≠ 0` -/
def grad (q r : α) : α := if 0 < r then 1 - q else -q

theorem pinball_eq_rho (q y f : α) : pinball q y f = rho q (f - y) := by
  unfold pinball rho maxR
  split <;> split <;> split <;> grind

theorem rho_subgrad (q r r' : α) (hr : r ≠ 0) : rho q r + grad q r * (r' - r) ≤ rho q r' := by
  unfold rho grad
  split <;> split <;> split <;> grind

theorem absR_nonneg (r : α) : 0 ≤ absR r := by
  unfold absR; split <;> grind

theorem absR_mul_sign (r : α) (hr : r ≠ 0) : 1 / absR r * r = if 0 < r then 1 else -1 := by
  unfold absR
  split <;> split <;> grind

end
end MlVerif.Quantile
