/-
C14 — helper lemmas (core Lean only): both `_word_ngrams` enumerate `gramsSpec`; `join` on tuples of
space-free tokens is injective and order preserving.
-/
import MlVerif.Model.NGrams
import MlVerif.Lemmas.NGramsGen

namespace MlVerif.NGrams
open MlVerif.Gen.C14

/-! ### the override in canonical form -/

theorem ngramsML_canon (minN maxN : Nat) (toks : List Key) :
    ngramsML minN maxN toks =
      if maxN ≠ 1 then
        (if minN = 1 then toks else []) ++
        (pyRangeL (if minN = 1 then (minN : Int) + 1 else (minN : Int))
            (min ((maxN : Int) + 1) ((toks.length : Int) + 1))).flatMap (fun n =>
          (pyRangeL 0 ((toks.length : Int) - n + 1)).map (fun i => spaceJoin (pySlice toks i (i + n))))
      else toks := by
  unfold ngramsML
  by_cases h1 : maxN = 1
  · have : needNgrams { minN := (minN : Int), maxN := (maxN : Int), nTok := (toks.length : Int) } = false := by
      cases hc : needNgrams { minN := (minN : Int), maxN := (maxN : Int), nTok := (toks.length : Int) }
      · rfl
      · have := (needNgrams_iff _).1 hc; simp at this; omega
    simp only [this, Bool.false_eq_true, if_false]
    simp [h1]
  · have hn : needNgrams { minN := (minN : Int), maxN := (maxN : Int), nTok := (toks.length : Int) } = true :=
      (needNgrams_iff _).2 (by simp; omega)
    by_cases h2 : minN = 1
    · have hc : copyUnigrams { minN := (minN : Int), maxN := (maxN : Int), nTok := (toks.length : Int) } = true :=
        (copyUnigrams_iff _).2 (by simp; omega)
      simp only [hn, hc, if_true, nLo_eq, nHi_eq, iLo_eq, iHi_eq, sliceLo_eq, sliceHi_eq, minInc_eq]
      simp [h1, h2]
    · have hc : copyUnigrams { minN := (minN : Int), maxN := (maxN : Int), nTok := (toks.length : Int) } = false := by
        cases hc : copyUnigrams { minN := (minN : Int), maxN := (maxN : Int), nTok := (toks.length : Int) }
        · rfl
        · have := (copyUnigrams_iff _).1 hc; simp at this; omega
      simp only [hn, hc, if_true, Bool.false_eq_true, if_false, nLo_eq, nHi_eq, iLo_eq, iHi_eq,
        sliceLo_eq, sliceHi_eq]
      simp [h1, h2]

/-- the tokens left by the stop-word filter -/
def filt (stop : Option (Tok → Bool)) (tokens : List Tok) : List Tok :=
  match stop with
  | none => tokens
  | some isStop => tokens.filter (fun w => !isStop w)

theorem stopStage_before (stop : Option (Tok → Bool)) (tokens : List Tok) :
    stopStage stop true (tokens.map Key.str) = (filt stop tokens).map Key.str := by
  cases stop with
  | none => rfl
  | some isStop =>
    simp only [stopStage, filt, filterBeforeWrap_true, if_true]
    rw [List.filter_map, List.map_map]
    have h1 : (filterKeep isStop ∘ Key.str) = (fun w => !isStop w) := by
      funext s; exact filterKeep_str isStop s
    rw [h1]
    exact List.map_congr_left (fun s _ => filterElt_id _)

theorem stopStage_after (stop : Option (Tok → Bool)) (ts : List Key) : stopStage stop false ts = ts := by
  cases stop with
  | none => rfl
  | some isStop => simp [stopStage, filterBeforeWrap_true]

theorem pySlice_map {α β} (f : α → β) (l : List α) (lo hi : Int) :
    pySlice (l.map f) lo hi = (pySlice l lo hi).map f := by
  simp [pySlice, List.map_take, List.map_drop]

theorem spaceJoin_wrapped (g : List Tok) :
    spaceJoin (g.map (fun s => Key.tup [Key.str s])) = flatKey g := by
  unfold spaceJoin flatKey
  congr 1
  induction g with
  | nil => rfl
  | cons a g ih => simp [List.flatMap_cons, ih]

theorem join_single (t : Tok) : join [t] = t := by simp [join, List.intercalate]

/-- the override returns the n-grams of the filtered tokens as flat tuples -/
theorem wordNgramsML_eq (stop : Option (Tok → Bool)) (minN maxN : Nat) (tokens : List Tok) :
    wordNgramsML stop minN maxN tokens = (gramsSpec minN maxN (filt stop tokens)).map flatKey := by
  unfold wordNgramsML
  simp only [stopStage_before, stopStage_after, List.map_map]
  have hw : (wrap ∘ Key.str) = (fun s => Key.tup [Key.str s]) := by funext s; rfl
  rw [hw, ngramsML_canon]
  unfold gramsSpec
  simp only [List.length_map]
  by_cases h1 : maxN = 1
  · simp [h1, flatKey]
  · simp only [ne_eq, h1, not_false_eq_true, if_true, List.map_append, List.map_flatMap, List.map_map]
    congr 1
    · by_cases h2 : minN = 1 <;> simp [h2, flatKey]
    · congr 1
      funext n
      apply List.map_congr_left
      intro i _
      simp only [Function.comp]
      rw [pySlice_map, spaceJoin_wrapped]

/-- scikit-learn's method returns the same n-grams, space-joined -/
theorem wordNgramsSK_eq (stop : Option (Tok → Bool)) (minN maxN : Nat) (tokens : List Tok) :
    wordNgramsSK stop minN maxN tokens = (gramsSpec minN maxN (filt stop tokens)).map join := by
  have key : ∀ toks : List Tok,
      (if maxN ≠ 1 then
        (if minN = 1 then toks else []) ++
          (pyRangeL (if minN = 1 then (minN : Int) + 1 else (minN : Int))
            (min ((maxN : Int) + 1) ((toks.length : Int) + 1))).flatMap (fun n =>
              (pyRangeL 0 ((toks.length : Int) - n + 1)).map (fun i => join (pySlice toks i (i + n))))
      else toks) = (gramsSpec minN maxN toks).map join := by
    intro toks
    have hj : (join ∘ fun t => [t]) = id := funext join_single
    unfold gramsSpec
    by_cases h1 : maxN = 1
    · simp [h1, hj]
    · simp only [ne_eq, h1, not_false_eq_true, if_true, List.map_append, List.map_flatMap, List.map_map]
      congr 1
      · by_cases h2 : minN = 1 <;> simp [h2, hj]
  cases stop with
  | none => exact key tokens
  | some isStop => exact key (tokens.filter (fun w => !isStop w))

theorem leavesL_str (g : List Tok) : keyLeaves.leavesL (g.map Key.str) = g := by
  induction g with
  | nil => rfl
  | cons a g ih => simp [keyLeaves.leavesL, keyLeaves, ih]

theorem joinKey_flat (g : List Tok) : joinKey (flatKey g) = join g := by
  simp [joinKey, flatKey, keyLeaves, leavesL_str]

end MlVerif.NGrams
