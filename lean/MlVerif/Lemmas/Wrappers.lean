/-
Helper lemmas for C15 (core Lean only): the heap-lite store (get/put/alloc frame lemmas), row-wise
concatenation, and the effect of every wrapper operation on the store.
-/
import MlVerif.Model.Wrappers

namespace MlVerif.Wrappers
open MlVerif.Gen.C15

/-! ### store -/

theorem lookup_putObj_self (id : Nat) (o : Obj) (l : List (Nat × Obj)) : (putObj id o l).lookup id = some o := by
  induction l with
  | nil => simp [putObj, List.lookup]
  | cons hd tl ih =>
    obtain ⟨i, o'⟩ := hd
    unfold putObj
    by_cases h : (i == id) = true
    · simp [h, List.lookup]
    · have hne : i ≠ id := by simpa using h
      have h' : (id == i) = false := by simp [Ne.symm hne]
      simp [h, List.lookup, h', ih]

theorem lookup_putObj_ne (id j : Nat) (o : Obj) (l : List (Nat × Obj)) (h : j ≠ id) :
    (putObj id o l).lookup j = l.lookup j := by
  induction l with
  | nil =>
    have : (j == id) = false := by simp [h]
    simp [putObj, List.lookup, this]
  | cons hd tl ih =>
    obtain ⟨i, o'⟩ := hd
    unfold putObj
    by_cases hi : (i == id) = true
    · have e : i = id := by simpa using hi
      have : (j == id) = false := by simp [h]
      simp [hi, List.lookup, e, this]
    · simp only [hi, Bool.false_eq_true, ↓reduceIte, List.lookup]
      cases (j == i) <;> simp [ih]

theorem get_put_self (st : Store) (id : Nat) (o : Obj) : (st.put id o).get id = some o := by
  simp [Store.get, Store.put, lookup_putObj_self]

theorem get_put_ne (st : Store) (id j : Nat) (o : Obj) (h : j ≠ id) : (st.put id o).get j = st.get j := by
  simp [Store.get, Store.put, lookup_putObj_ne _ _ _ _ h]

theorem put_next (st : Store) (id : Nat) (o : Obj) : (st.put id o).next = st.next := rfl

theorem get_alloc_new (st : Store) (o : Obj) : (st.alloc o).1.get st.next = some o := by
  simp [Store.get, Store.alloc, lookup_putObj_self]

theorem get_alloc_old (st : Store) (o : Obj) (j : Nat) (h : j ≠ st.next) : (st.alloc o).1.get j = st.get j := by
  simp [Store.get, Store.alloc, lookup_putObj_ne _ _ _ _ h]

theorem alloc_id (st : Store) (o : Obj) : (st.alloc o).2 = st.next := rfl
theorem alloc_next (st : Store) (o : Obj) : (st.alloc o).1.next = st.next + 1 := rfl

/-- every object of the store has an id below the allocation counter -/
def Store.WF (st : Store) : Prop := ∀ j o, st.get j = some o → j < st.next

theorem wf_put (st : Store) (id : Nat) (o : Obj) (h : st.WF) (hid : id < st.next) : (st.put id o).WF := by
  intro j o' hj
  by_cases e : j = id
  · subst e; exact hid
  · rw [get_put_ne _ _ _ _ e] at hj; exact h j o' hj

theorem wf_alloc (st : Store) (o : Obj) (h : st.WF) : (st.alloc o).1.WF := by
  intro j o' hj
  rw [alloc_next]
  by_cases e : j = st.next
  · omega
  · rw [get_alloc_old _ _ _ e] at hj
    have := h j o' hj; omega

/-! ### 2-D blocks -/

theorem as2D_true (o : Out) : as2D true o = .mat (toMat o) := by
  cases o <;> simp [as2D, toMat]

/-- row `r` of `hstack blocks` is the concatenation, in order, of row `r` of every block -/
theorem hstack_row (blocks : List Mat) (n r : Nat) (hne : blocks ≠ [])
    (hlen : ∀ b ∈ blocks, b.length = n) (hr : r < n) :
    (hstack blocks)[r]? = some ((blocks.map (fun b => b[r]?.getD [])).flatten) := by
  induction blocks with
  | nil => exact absurd rfl hne
  | cons b rest ih =>
    cases rest with
    | nil =>
      have hb := hlen b (by simp)
      simp [hstack, List.getElem?_eq_getElem (by omega : r < b.length)]
    | cons b2 rest2 =>
      have hb := hlen b (by simp)
      have ih' := ih (by simp) (fun x hx => hlen x (by simp [hx]))
      show (List.zipWith (· ++ ·) b (hstack (b2 :: rest2)))[r]? = _
      rw [List.getElem?_zipWith, ih']
      simp [List.getElem?_eq_getElem (by omega : r < b.length)]

theorem hstack_length (blocks : List Mat) (n : Nat) (hne : blocks ≠ []) (hlen : ∀ b ∈ blocks, b.length = n) :
    (hstack blocks).length = n := by
  induction blocks with
  | nil => exact absurd rfl hne
  | cons b rest ih =>
    cases rest with
    | nil => simpa [hstack] using hlen b (by simp)
    | cons b2 rest2 =>
      have hb := hlen b (by simp)
      have ih' := ih (by simp) (fun x hx => hlen x (by simp [hx]))
      show (List.zipWith (· ++ ·) b (hstack (b2 :: rest2))).length = n
      simp [List.length_zipWith, hb, ih']

/-! ### fit of a wrapped model: exactly one more call, nothing else touched -/

theorem fitModel_spec (st st' : Store) (id : Nat) (c : FitCall) (h : fitModel st id c = .ok st') :
    ∃ r, st.get id = some (.model r) ∧ st'.get id = some (.model { r with fits := r.fits ++ [c] }) ∧
      (∀ j, j ≠ id → st'.get j = st.get j) ∧ st'.next = st.next := by
  unfold fitModel at h
  cases hg : st.get id with
  | none => simp [hg] at h
  | some o =>
    cases o with
    | model r =>
      simp only [hg, Except.ok.injEq] at h
      subst h
      exact ⟨r, rfl, get_put_self _ _ _, fun j hj => get_put_ne _ _ _ _ hj, rfl⟩
    | learner _ _ _ => simp [hg] at h
    | stacking _ => simp [hg] at h
    | transfer _ _ _ _ _ => simp [hg] at h

theorem callModel_congr (beh : Beh) (st st' : Store) (id : Nat) (attr : String) (X : Mat)
    (h : st'.get id = st.get id) : callModel beh st' id attr X = callModel beh st id attr X := by
  simp [callModel, h]

/-! ### wrapper fits -/

/-- the call a wrapper forwards: `fit(X, y=y, **kw)` -/
def directCall (X : Mat) (y : Option Vec) (kw : List (String × Vec)) : FitCall :=
  { X := X, y := y, yKeyword := true, kw := kw }

theorem learnerFit_eq (st : Store) (id m b : Nat) (meth : MethodSel) (X : Mat) (y : Option Vec)
    (kw : List (String × Vec)) (h : st.get id = some (.learner m meth b)) :
    learnerFit st id X y kw = fitModel st m (directCall X y kw) := by
  have : learnerFitYKeyword = true := rfl
  simp [learnerFit, h, directCall, this]

/-- `t` is the model that member `m` trains -/
def IsTarget (st : Store) (m t : Nat) : Prop :=
  (∃ r, st.get m = some (.model r) ∧ t = m) ∨
  (∃ meth b r, st.get m = some (.learner t meth b) ∧ st.get t = some (.model r))

theorem memberFit_eq (st : Store) (m t : Nat) (X : Mat) (y : Option Vec) (kw : List (String × Vec))
    (h : IsTarget st m t) : memberFit st m X y kw = fitModel st t (directCall X y kw) := by
  have h1 : stackingFitYKeyword = true := rfl
  rcases h with ⟨r, hm, rfl⟩ | ⟨meth, b, r, hm, _⟩
  · simp [memberFit, hm, directCall, h1]
  · simp [memberFit, hm, learnerFit_eq st m t b meth X y kw hm]

theorem isTarget_model (st : Store) (m t : Nat) (h : IsTarget st m t) : ∃ r, st.get t = some (.model r) := by
  rcases h with ⟨r, hm, rfl⟩ | ⟨_, _, r, _, ht⟩
  · exact ⟨r, hm⟩
  · exact ⟨r, ht⟩

theorem isTarget_frame (st st1 : Store) (m t t0 : Nat) (h : IsTarget st m t) (hne : t ≠ t0)
    (ht0 : ∃ r, st.get t0 = some (.model r)) (hfr : ∀ j, j ≠ t0 → st1.get j = st.get j) : IsTarget st1 m t := by
  rcases h with ⟨r, hm, rfl⟩ | ⟨meth, b, r, hm, ht⟩
  · exact Or.inl ⟨r, by rw [hfr _ hne]; exact hm, rfl⟩
  · have hmne : m ≠ t0 := by
      intro e; subst e
      obtain ⟨r0, h0⟩ := ht0
      rw [hm] at h0; cases h0
    exact Or.inr ⟨meth, b, r, by rw [hfr _ hmne]; exact hm, by rw [hfr _ hne]; exact ht⟩

/-- `ts` lists, member by member, the model each member trains -/
inductive AllTargets (st : Store) : List Nat → List Nat → Prop
  | nil : AllTargets st [] []
  | cons {m t ms ts} : IsTarget st m t → AllTargets st ms ts → AllTargets st (m :: ms) (t :: ts)

theorem allTargets_frame (st st1 : Store) (t0 : Nat) (ht0 : ∃ r, st.get t0 = some (.model r))
    (hfr : ∀ j, j ≠ t0 → st1.get j = st.get j) :
    ∀ ms ts, AllTargets st ms ts → t0 ∉ ts → AllTargets st1 ms ts := by
  intro ms ts h
  induction h with
  | nil => intro _; exact AllTargets.nil
  | cons hI _ ih =>
    intro hn
    refine AllTargets.cons (isTarget_frame st st1 _ _ t0 hI (fun e => hn (by simp [e])) ht0 hfr) (ih ?_)
    intro e; exact hn (by simp [e])

/-- fitting the members one after the other trains every target exactly once, with the same call, and nothing else -/
theorem foldFit_spec (X : Mat) (y : Option Vec) (kw : List (String × Vec)) :
    ∀ (ms ts : List Nat) (st st' : Store), AllTargets st ms ts → ts.Nodup →
      ms.foldlM (fun s m => memberFit s m X y kw) st = .ok st' →
      (∀ t ∈ ts, ∃ r, st.get t = some (.model r) ∧
          st'.get t = some (.model { r with fits := r.fits ++ [directCall X y kw] })) ∧
      (∀ j, j ∉ ts → st'.get j = st.get j) ∧ st'.next = st.next := by
  intro ms
  induction ms with
  | nil =>
    intro ts st st' hf _ h
    cases hf
    simp [List.foldlM, pure, Except.pure] at h
    subst h
    exact ⟨by simp, fun _ _ => rfl, rfl⟩
  | cons m ms ih =>
    intro ts st st' hf hnd h
    cases hf with
    | cons hmt hrest =>
      rename_i t ts'
      simp only [List.foldlM, bind, Except.bind] at h
      rw [memberFit_eq st m t X y kw hmt] at h
      cases h1 : fitModel st t (directCall X y kw) with
      | error e => simp [h1] at h
      | ok st1 =>
        simp only [h1] at h
        obtain ⟨r, hg, hg1, hfr, hnx⟩ := fitModel_spec st st1 t _ h1
        have hnd' := List.nodup_cons.mp hnd
        have hrest1 : AllTargets st1 ms ts' := allTargets_frame st st1 t ⟨r, hg⟩ hfr ms ts' hrest hnd'.1
        obtain ⟨a1, a2, a3⟩ := ih ts' st1 st' hrest1 hnd'.2 h
        refine ⟨?_, ?_, by rw [a3, hnx]⟩
        · intro t' ht'
          rcases List.mem_cons.mp ht' with e | e
          · subst e
            exact ⟨r, hg, by rw [a2 _ hnd'.1]; exact hg1⟩
          · obtain ⟨r', b1, b2⟩ := a1 t' e
            have : t' ≠ t := fun e2 => hnd'.1 (e2 ▸ e)
            exact ⟨r', by rw [← hfr _ this]; exact b1, b2⟩
        · intro j hj
          have hj1 : j ≠ t := fun e => hj (by simp [e])
          have hj2 : j ∉ ts' := fun e => hj (by simp [e])
          rw [a2 j hj2, hfr j hj1]

/-! ### TransferTransformer.fit -/

/-- what one `TransferTransformer.fit` does to the store -/
theorem transferFit_spec (st st' : Store) (id est : Nat) (meth : String) (cp tr : Bool) (f : Option Nat) (r : Rec)
    (X : Mat) (y w : Option Vec) (hw : st.WF)
    (hid : st.get id = some (.transfer est meth cp tr f)) (hest : st.get est = some (.model r))
    (h : transferFit st id X y w = .ok st') :
    ∃ target r', st'.get id = some (.transfer est meth cp tr (some target)) ∧ st'.get target = some (.model r') ∧
      (r' = r ∨ (tr = true ∧ r' = { r with fits := r.fits ++ [transferFitCall r X y w] })) ∧
      (tr = false → r' = r) ∧
      (cp = true → target = st.next ∧ st'.next = st.next + 1 ∧ ∀ j, j < st.next → j ≠ id → st'.get j = st.get j) ∧
      (cp = false → target = est ∧ st'.next = st.next ∧ ∀ j, j ≠ id → j ≠ est → st'.get j = st.get j) ∧
      st'.WF := by
  have hg : transferTrainableGuard = true := rfl
  have hc : transferCopyBranch = true := rfl
  have hidlt : id < st.next := hw _ _ hid
  have hestlt : est < st.next := hw _ _ hest
  have hne : est ≠ id := by intro e; rw [e, hid] at hest; cases hest
  unfold transferFit at h
  simp only [hid, hg, hc, Bool.and_true, Bool.not_true, Bool.or_false] at h
  cases cp with
  | true =>
    simp only [deepCopy, hest, ↓reduceIte, bind, Except.bind] at h
    have hnid : st.next ≠ id := by omega
    have e1 : ((st.alloc (.model r)).1.put id (.transfer est meth true tr (some st.next))).get st.next = some (.model r) := by
      rw [get_put_ne _ _ _ _ hnid, get_alloc_new]
    have wf2 : ((st.alloc (.model r)).1.put id (.transfer est meth true tr (some st.next))).WF :=
      wf_put _ _ _ (wf_alloc _ _ hw) (by rw [alloc_next]; omega)
    cases tr with
    | false =>
      simp only [alloc_id, Bool.false_eq_true, ↓reduceIte, Except.ok.injEq] at h
      subst h
      refine ⟨st.next, r, ?_, ?_, ?_, ?_, ?_, ?_, ?_⟩
      · exact get_put_self _ _ _
      · exact e1
      · exact Or.inl rfl
      · intro _; rfl
      · intro _
        refine ⟨rfl, rfl, ?_⟩
        intro j hj hji
        rw [get_put_ne _ _ _ _ hji, get_alloc_old _ _ _ (by omega)]
      · intro e; cases e
      · exact wf2
    | true =>
      simp only [alloc_id, ↓reduceIte, e1] at h
      obtain ⟨r0, g0, g1, gfr, gnx⟩ := fitModel_spec _ _ _ _ h
      rw [e1] at g0; cases g0
      refine ⟨st.next, { r with fits := r.fits ++ [transferFitCall r X y w] }, ?_, ?_, ?_, ?_, ?_, ?_, ?_⟩
      · rw [gfr _ (Ne.symm hnid)]; exact get_put_self _ _ _
      · exact g1
      · exact Or.inr ⟨rfl, rfl⟩
      · intro e; cases e
      · intro _
        refine ⟨rfl, by rw [gnx]; rfl, ?_⟩
        intro j hj hji
        rw [gfr _ (by omega), get_put_ne _ _ _ _ hji, get_alloc_old _ _ _ (by omega)]
      · intro e; cases e
      · intro j o hj
        rw [gnx]
        by_cases e : j = st.next
        · subst e; show st.next < st.next + 1; omega
        · rw [gfr _ e] at hj; exact wf2 j o hj
  | false =>
    simp only [Bool.false_eq_true, ↓reduceIte, bind, Except.bind] at h
    have e1 : (st.put id (.transfer est meth false tr (some est))).get est = some (.model r) := by
      rw [get_put_ne _ _ _ _ hne]; exact hest
    have wf2 : (st.put id (.transfer est meth false tr (some est))).WF := wf_put _ _ _ hw hidlt
    cases tr with
    | false =>
      simp only [Bool.false_eq_true, ↓reduceIte, Except.ok.injEq] at h
      subst h
      refine ⟨est, r, ?_, ?_, ?_, ?_, ?_, ?_, ?_⟩
      · exact get_put_self _ _ _
      · exact e1
      · exact Or.inl rfl
      · intro _; rfl
      · intro e; cases e
      · intro _
        exact ⟨rfl, rfl, fun j hj _ => get_put_ne _ _ _ _ hj⟩
      · exact wf2
    | true =>
      simp only [↓reduceIte, e1] at h
      obtain ⟨r0, g0, g1, gfr, gnx⟩ := fitModel_spec _ _ _ _ h
      rw [e1] at g0; cases g0
      refine ⟨est, { r with fits := r.fits ++ [transferFitCall r X y w] }, ?_, ?_, ?_, ?_, ?_, ?_, ?_⟩
      · rw [gfr _ (Ne.symm hne)]; exact get_put_self _ _ _
      · exact g1
      · exact Or.inr ⟨rfl, rfl⟩
      · intro e; cases e
      · intro e; cases e
      · intro _
        refine ⟨rfl, by rw [gnx]; rfl, ?_⟩
        intro j hj hje
        rw [gfr _ hje, get_put_ne _ _ _ _ hj]
      · intro j o hj
        rw [gnx]
        by_cases e : j = est
        · subst e; exact hestlt
        · rw [gfr _ e] at hj; exact wf2 j o hj

/-! ### histories -/

/-! histories of a learner -/

/-- the learner's `method_` is bound to the model it reports -/
def LearnerBound (st : Store) (id : Nat) : Prop := ∃ m meth, st.get id = some (.learner m meth m)

def isLearnerOp : Op → Bool
  | .lFit _ _ _ _ => true
  | .lTransform _ _ => true
  | .lSetModel _ _ => true
  | _ => false

theorem learnerFit_frame (st st' : Store) (j : Nat) (X : Mat) (y : Option Vec) (kw : List (String × Vec))
    (h : learnerFit st j X y kw = .ok st') (id m b : Nat) (meth : MethodSel)
    (hid : st.get id = some (.learner m meth b)) : st'.get id = st.get id := by
  unfold learnerFit at h
  cases hj : st.get j with
  | none => simp [hj] at h
  | some o =>
    cases o with
    | learner mj methj bj =>
      simp only [hj] at h
      obtain ⟨r, g0, _, gfr, _⟩ := fitModel_spec _ _ _ _ h
      apply gfr
      intro e; subst e; rw [hid] at g0; cases g0
    | model _ => simp [hj] at h
    | stacking _ => simp [hj] at h
    | transfer _ _ _ _ _ => simp [hj] at h

theorem step_learnerBound (beh : Beh) (st : Store) (op : Op) (id : Nat) (hop : isLearnerOp op = true)
    (h : LearnerBound st id) : LearnerBound (step beh st op).1 id := by
  have hreb : learnerSetParamsRebinds = true := rfl
  obtain ⟨m, meth, hid⟩ := h
  cases op with
  | lFit j X y kw =>
    simp only [step]
    cases hf : learnerFit st j X y kw with
    | error e => exact ⟨m, meth, hid⟩
    | ok st' => exact ⟨m, meth, by rw [learnerFit_frame st st' j X y kw hf id m m meth hid]; exact hid⟩
  | lTransform j X => exact ⟨m, meth, hid⟩
  | lSetModel j new =>
    simp only [step, learnerSetModel]
    cases hj : st.get j with
    | none => exact ⟨m, meth, hid⟩
    | some o =>
      cases o with
      | learner mj methj bj =>
        simp only [hreb, ↓reduceIte]
        by_cases e : id = j
        · subst e; exact ⟨new, methj, get_put_self _ _ _⟩
        · exact ⟨m, meth, by rw [get_put_ne _ _ _ _ e]; exact hid⟩
      | model _ => exact ⟨m, meth, hid⟩
      | stacking _ => exact ⟨m, meth, hid⟩
      | transfer _ _ _ _ _ => exact ⟨m, meth, hid⟩
  | sFit _ _ _ _ => simp [isLearnerOp] at hop
  | sTransform _ _ => simp [isLearnerOp] at hop
  | tFit _ _ _ _ => simp [isLearnerOp] at hop
  | tTransform _ _ => simp [isLearnerOp] at hop

theorem run_learnerBound (beh : Beh) : ∀ (ops : List Op) (st : Store) (id : Nat),
    (∀ op ∈ ops, isLearnerOp op = true) → LearnerBound st id → LearnerBound (run beh st ops).1 id := by
  intro ops
  induction ops with
  | nil => intro st id _ h; exact h
  | cons op rest ih =>
    intro st id hops h
    exact ih _ id (fun o ho => hops o (by simp [ho])) (step_learnerBound beh st op id (hops op (by simp)) h)

theorem resolve_table (n attr : String) (h : resolveMethod n = some attr) : attr = n := by
  unfold resolveMethod at h
  have : ∀ p ∈ setMethodTable, p.1 = p.2 := by decide
  have hm : (n, attr) ∈ setMethodTable := by
    clear this
    revert h
    generalize setMethodTable = tbl
    intro h
    induction tbl with
    | nil => simp [List.lookup] at h
    | cons hd tl ih =>
      obtain ⟨a, b⟩ := hd
      simp only [List.lookup] at h
      split at h
      · rename_i he
        have : n = a := by simpa using he
        simp at h; subst h; subst this; simp
      · exact List.mem_cons_of_mem _ (ih h)
  exact (this _ hm).symm

/-- invariant of a transfer transformer `id` wrapping `est` (record `r0`) that copies or is frozen -/
def TransferInv (st : Store) (id est : Nat) (meth : String) (cp tr : Bool) (r0 : Rec) : Prop :=
  st.WF ∧ st.get est = some (.model r0) ∧
  ∃ f, st.get id = some (.transfer est meth cp tr f) ∧
    (tr = false → ∀ t, f = some t → st.get t = some (.model r0))

def isTransferOpOn (id : Nat) : Op → Bool
  | .tFit j _ _ _ => j == id
  | .tTransform j _ => j == id
  | _ => false

theorem step_transferInv (beh : Beh) (st : Store) (op : Op) (id est : Nat) (meth : String) (cp tr : Bool) (r0 : Rec)
    (hmode : cp = true ∨ tr = false) (hop : isTransferOpOn id op = true)
    (h : TransferInv st id est meth cp tr r0) : TransferInv (step beh st op).1 id est meth cp tr r0 := by
  obtain ⟨hw, hest, f, hid, hfz⟩ := h
  have hne : est ≠ id := by intro e; rw [e, hid] at hest; cases hest
  have hestlt : est < st.next := hw _ _ hest
  cases op with
  | tTransform j X => exact ⟨hw, hest, f, hid, hfz⟩
  | tFit j X y w =>
    have e : j = id := by simpa [isTransferOpOn] using hop
    subst e
    simp only [step]
    cases hf : transferFit st j X y w with
    | error e => exact ⟨hw, hest, f, hid, hfz⟩
    | ok st' =>
      obtain ⟨target, r', g1, g2, g3, g4, g5, g6, g7⟩ := transferFit_spec st st' j est meth cp tr f r0 X y w hw hid hest hf
      have hest' : st'.get est = some (.model r0) := by
        cases cp with
        | true =>
          obtain ⟨_, _, gfr⟩ := g5 rfl
          rw [gfr est hestlt hne]; exact hest
        | false =>
          obtain ⟨e1, _, _⟩ := g6 rfl
          have htr : tr = false := by rcases hmode with h | h <;> simp_all
          subst e1
          rw [g2, g4 htr]
      refine ⟨g7, hest', some target, g1, ?_⟩
      intro htr t ht
      cases ht
      rw [g2, g4 htr]
  | lFit _ _ _ _ => simp [isTransferOpOn] at hop
  | lTransform _ _ => simp [isTransferOpOn] at hop
  | lSetModel _ _ => simp [isTransferOpOn] at hop
  | sFit _ _ _ _ => simp [isTransferOpOn] at hop
  | sTransform _ _ => simp [isTransferOpOn] at hop

theorem run_transferInv (beh : Beh) (id est : Nat) (meth : String) (cp tr : Bool) (r0 : Rec)
    (hmode : cp = true ∨ tr = false) : ∀ (ops : List Op) (st : Store),
    (∀ op ∈ ops, isTransferOpOn id op = true) → TransferInv st id est meth cp tr r0 →
    TransferInv (run beh st ops).1 id est meth cp tr r0 := by
  intro ops
  induction ops with
  | nil => intro st _ h; exact h
  | cons op rest ih =>
    intro st hops h
    exact ih _ (fun o ho => hops o (by simp [ho]))
      (step_transferInv beh st op id est meth cp tr r0 hmode (hops op (by simp)) h)

def StackInv (st : Store) (id : Nat) (ms ts : List Nat) : Prop :=
  st.get id = some (.stacking ms) ∧ AllTargets st ms ts ∧ ts.Nodup

def isStackOpOn (id : Nat) : Op → Bool
  | .sFit j _ _ _ => j == id
  | .sTransform j _ => j == id
  | _ => false

/-- the calls a history of stacking operations forwards, in order -/
def callsOf : List Op → List FitCall
  | [] => []
  | .sFit _ X y kw :: rest => directCall X y kw :: callsOf rest
  | _ :: rest => callsOf rest

theorem allTargets_mem_model (st : Store) : ∀ ms ts, AllTargets st ms ts → ∀ t ∈ ts, ∃ r, st.get t = some (.model r) := by
  intro ms ts h
  induction h with
  | nil => intro t ht; simp at ht
  | cons hI _ ih =>
    intro t ht
    rcases List.mem_cons.mp ht with e | e
    · subst e; exact isTarget_model st _ _ hI
    · exact ih t e

theorem allTargets_after (st st' : Store) (hm : ∀ j, (∃ r, st.get j = some (.model r)) → ∃ r', st'.get j = some (.model r'))
    (hfr : ∀ j, (¬ ∃ r, st.get j = some (.model r)) → st'.get j = st.get j) :
    ∀ ms ts, AllTargets st ms ts → AllTargets st' ms ts := by
  intro ms ts h
  induction h with
  | nil => exact AllTargets.nil
  | cons hI _ ih =>
    refine AllTargets.cons ?_ ih
    rcases hI with ⟨r, hmm, rfl⟩ | ⟨meth, b, r, hmm, ht⟩
    · obtain ⟨r', hr'⟩ := hm _ ⟨r, hmm⟩
      exact Or.inl ⟨r', hr', rfl⟩
    · obtain ⟨r', hr'⟩ := hm _ ⟨r, ht⟩
      refine Or.inr ⟨meth, b, r', ?_, hr'⟩
      rw [hfr]; exact hmm
      rintro ⟨r2, h2⟩; rw [hmm] at h2; cases h2

theorem stackingFit_spec (st : Store) (id : Nat) (ms ts : List Nat) (X : Mat) (y : Option Vec) (kw : List (String × Vec))
    (h : StackInv st id ms ts) :
    ∃ st', stackingFit st id X y kw = .ok st' ∧ StackInv st' id ms ts ∧
      (∀ t ∈ ts, ∃ r, st.get t = some (.model r) ∧
          st'.get t = some (.model { r with fits := r.fits ++ [directCall X y kw] })) ∧
      (∀ j, j ∉ ts → st'.get j = st.get j) := by
  obtain ⟨hid, hat, hnd⟩ := h
  -- the fold cannot fail: every member's target is a model
  have hok : ∀ (ms ts : List Nat) (st : Store), AllTargets st ms ts → ts.Nodup →
      ∃ st', ms.foldlM (fun s m => memberFit s m X y kw) st = .ok st' := by
    intro ms
    induction ms with
    | nil => intro ts st _ _; exact ⟨st, rfl⟩
    | cons m ms ih =>
      intro ts st hat hnd
      cases hat with
      | cons hI hrest =>
        rename_i t ts'
        obtain ⟨r, hr⟩ := isTarget_model st m t hI
        have hnd' := List.nodup_cons.mp hnd
        have hf : fitModel st t (directCall X y kw) = .ok (st.put t (.model { r with fits := r.fits ++ [directCall X y kw] })) := by
          simp [fitModel, hr]
        obtain ⟨_, _, _, hfr, _⟩ := fitModel_spec _ _ _ _ hf
        obtain ⟨st', hst'⟩ := ih ts' _ (allTargets_frame st _ t ⟨r, hr⟩ hfr ms ts' hrest hnd'.1) hnd'.2
        exact ⟨st', by simp only [List.foldlM, bind, Except.bind, memberFit_eq st m t X y kw hI, hf]; exact hst'⟩
  obtain ⟨st', hst'⟩ := hok ms ts st hat hnd
  obtain ⟨a1, a2, _⟩ := foldFit_spec X y kw ms ts st st' hat hnd hst'
  have hidts : id ∉ ts := by
    intro hmem
    obtain ⟨r, hr⟩ := allTargets_mem_model st ms ts hat id hmem
    rw [hid] at hr; cases hr
  refine ⟨st', by simp [stackingFit, hid, hst'], ⟨by rw [a2 id hidts]; exact hid, ?_, hnd⟩, a1, a2⟩
  apply allTargets_after st st' _ _ ms ts hat
  · rintro j ⟨r, hr⟩
    by_cases hj : j ∈ ts
    · obtain ⟨r1, _, h2⟩ := a1 j hj; exact ⟨_, h2⟩
    · exact ⟨r, by rw [a2 j hj]; exact hr⟩
  · intro j hj
    apply a2
    intro hmem
    exact hj (allTargets_mem_model st ms ts hat j hmem)

theorem run_stacking (beh : Beh) (id : Nat) (ms ts : List Nat) : ∀ (ops : List Op) (st : Store),
    (∀ op ∈ ops, isStackOpOn id op = true) → StackInv st id ms ts →
    StackInv (run beh st ops).1 id ms ts ∧
    ∀ t ∈ ts, ∃ r, st.get t = some (.model r) ∧
      (run beh st ops).1.get t = some (.model { r with fits := r.fits ++ callsOf ops }) := by
  intro ops
  induction ops with
  | nil =>
    intro st _ h
    refine ⟨h, ?_⟩
    intro t ht
    obtain ⟨r, hr⟩ := allTargets_mem_model st ms ts h.2.1 t ht
    exact ⟨r, hr, by simp [run, callsOf, hr]⟩
  | cons op rest ih =>
    intro st hops h
    have hop := hops op (by simp)
    cases op with
    | sTransform j X =>
      have := ih st (fun o ho => hops o (by simp [ho])) h
      simpa [run, step, callsOf] using this
    | sFit j X y kw =>
      have e : j = id := by simpa [isStackOpOn] using hop
      subst e
      obtain ⟨st', hf, hinv, hcalls, _⟩ := stackingFit_spec st j ms ts X y kw h
      obtain ⟨i1, i2⟩ := ih st' (fun o ho => hops o (by simp [ho])) hinv
      have hrun : (run beh st (Op.sFit j X y kw :: rest)).1 = (run beh st' rest).1 := by
        simp [run, step, hf]
      rw [hrun]
      refine ⟨i1, ?_⟩
      intro t ht
      obtain ⟨r, hr, hr'⟩ := hcalls t ht
      obtain ⟨r2, hr2, hr2'⟩ := i2 t ht
      rw [hr'] at hr2; cases hr2
      exact ⟨r, hr, by rw [hr2']; simp [callsOf, List.append_assoc]⟩
    | lFit _ _ _ _ => simp [isStackOpOn] at hop
    | lTransform _ _ => simp [isStackOpOn] at hop
    | lSetModel _ _ => simp [isStackOpOn] at hop
    | tFit _ _ _ _ => simp [isStackOpOn] at hop
    | tTransform _ _ => simp [isStackOpOn] at hop

/-! ### learners under arbitrary operations -/

/-- a store operation that only ever rewrites model records, writes transfer objects in place and allocates:
learner objects are never touched, well-formedness is kept -/
def KeepsLearners (st st' : Store) : Prop :=
  (st.WF → st'.WF) ∧ st.next ≤ st'.next ∧
  ∀ id m meth b, st.get id = some (.learner m meth b) → id < st.next → st'.get id = some (.learner m meth b)

theorem keeps_refl (st : Store) : KeepsLearners st st := ⟨id, Nat.le_refl _, fun _ _ _ _ h _ => h⟩

theorem keeps_trans {a b c : Store} (h1 : KeepsLearners a b) (h2 : KeepsLearners b c) : KeepsLearners a c :=
  ⟨fun h => h2.1 (h1.1 h), Nat.le_trans h1.2.1 h2.2.1,
   fun id m meth bb hg hlt => h2.2.2 id m meth bb (h1.2.2 id m meth bb hg hlt) (Nat.lt_of_lt_of_le hlt h1.2.1)⟩

theorem fitModel_keeps (st st' : Store) (t : Nat) (c : FitCall) (h : fitModel st t c = .ok st') : KeepsLearners st st' := by
  obtain ⟨r, g0, g1, gfr, gnx⟩ := fitModel_spec st st' t c h
  refine ⟨?_, by omega, ?_⟩
  · intro hw j o hj
    rw [gnx]
    by_cases e : j = t
    · subst e; exact hw _ _ g0
    · rw [gfr _ e] at hj; exact hw _ _ hj
  · intro id m meth b hg _
    rw [gfr]; exact hg
    intro e; subst e; rw [hg] at g0; cases g0

theorem learnerFit_keeps (st st' : Store) (j : Nat) (X : Mat) (y : Option Vec) (kw : List (String × Vec))
    (h : learnerFit st j X y kw = .ok st') : KeepsLearners st st' := by
  unfold learnerFit at h
  cases hj : st.get j with
  | none => simp [hj] at h
  | some o =>
    cases o with
    | learner mj methj bj => simp only [hj] at h; exact fitModel_keeps _ _ _ _ h
    | model _ => simp [hj] at h
    | stacking _ => simp [hj] at h
    | transfer _ _ _ _ _ => simp [hj] at h

theorem memberFit_keeps (st st' : Store) (j : Nat) (X : Mat) (y : Option Vec) (kw : List (String × Vec))
    (h : memberFit st j X y kw = .ok st') : KeepsLearners st st' := by
  unfold memberFit at h
  cases hj : st.get j with
  | none => simp [hj] at h
  | some o =>
    cases o with
    | learner _ _ _ => simp only [hj] at h; exact learnerFit_keeps _ _ _ _ _ _ h
    | model _ => simp only [hj] at h; exact fitModel_keeps _ _ _ _ h
    | stacking _ => simp [hj] at h
    | transfer _ _ _ _ _ => simp [hj] at h

theorem foldFit_keeps (X : Mat) (y : Option Vec) (kw : List (String × Vec)) :
    ∀ (ms : List Nat) (st st' : Store), ms.foldlM (fun s m => memberFit s m X y kw) st = .ok st' → KeepsLearners st st' := by
  intro ms
  induction ms with
  | nil => intro st st' h; simp [List.foldlM, pure, Except.pure] at h; subst h; exact keeps_refl _
  | cons m rest ih =>
    intro st st' h
    simp only [List.foldlM, bind, Except.bind] at h
    cases h1 : memberFit st m X y kw with
    | error e => simp [h1] at h
    | ok st1 =>
      simp only [h1] at h
      exact keeps_trans (memberFit_keeps _ _ _ _ _ _ h1) (ih st1 st' h)

theorem put_keeps (st : Store) (j : Nat) (o : Obj) (hj : j < st.next) (hnl : ∀ m meth b, st.get j ≠ some (.learner m meth b)) :
    KeepsLearners st (st.put j o) := by
  refine ⟨fun hw => wf_put _ _ _ hw hj, Nat.le_refl _, ?_⟩
  intro id m meth b hg _
  rw [get_put_ne]; exact hg
  intro e; subst e; exact hnl m meth b hg

theorem alloc_keeps (st : Store) (o : Obj) : KeepsLearners st (st.alloc o).1 := by
  refine ⟨fun hw => wf_alloc _ _ hw, by rw [alloc_next]; omega, ?_⟩
  intro id m meth b hg hlt
  rw [get_alloc_old _ _ _ (by omega)]; exact hg

theorem transferFit_keeps (st st' : Store) (j : Nat) (X : Mat) (y w : Option Vec) (hw : st.WF)
    (h : transferFit st j X y w = .ok st') : KeepsLearners st st' := by
  have hg : transferTrainableGuard = true := rfl
  have hcb : transferCopyBranch = true := rfl
  unfold transferFit at h
  cases hj : st.get j with
  | none => simp [hj] at h
  | some o =>
    cases o with
    | model _ => simp [hj] at h
    | learner _ _ _ => simp [hj] at h
    | stacking _ => simp [hj] at h
    | transfer est meth cp tr f =>
      simp only [hj, hg, hcb, Bool.and_true, Bool.not_true, Bool.or_false, bind, Except.bind] at h
      have hjlt : j < st.next := hw _ _ hj
      -- the part after the target is known
      have tail : ∀ (st1 : Store) (target : Nat), KeepsLearners st st1 → st1.get j = st.get j →
          (if tr = true then
              match (st1.put j (.transfer est meth cp tr (some target))).get target with
              | some (.model r) => fitModel (st1.put j (.transfer est meth cp tr (some target))) target (transferFitCall r X y w)
              | _ => .error .missing
            else .ok (st1.put j (.transfer est meth cp tr (some target)))) = .ok st' → KeepsLearners st st' := by
        intro st1 target k1 hsame h2
        have k2 : KeepsLearners st1 (st1.put j (.transfer est meth cp tr (some target))) :=
          put_keeps _ _ _ (Nat.lt_of_lt_of_le hjlt k1.2.1) (by intro m me b; rw [hsame, hj]; simp)
        split at h2
        · cases hgt : (st1.put j (.transfer est meth cp tr (some target))).get target with
          | none => simp [hgt] at h2
          | some ot =>
            cases ot with
            | model r =>
              simp only [hgt] at h2
              exact keeps_trans k1 (keeps_trans k2 (fitModel_keeps _ _ _ _ h2))
            | learner _ _ _ => simp [hgt] at h2
            | stacking _ => simp [hgt] at h2
            | transfer _ _ _ _ _ => simp [hgt] at h2
        · simp only [Except.ok.injEq] at h2
          subst h2
          exact keeps_trans k1 k2
      cases cp with
      | true =>
        simp only [↓reduceIte, deepCopy] at h
        cases he : st.get est with
        | none => simp [he] at h
        | some oe =>
          cases oe with
          | model r =>
            simp only [he] at h
            exact tail (st.alloc (.model r)).1 st.next (alloc_keeps _ _) (get_alloc_old _ _ _ (by omega)) h
          | learner _ _ _ => simp [he] at h
          | stacking _ => simp [he] at h
          | transfer _ _ _ _ _ => simp [he] at h
      | false =>
        simp only [Bool.false_eq_true, ↓reduceIte] at h
        exact tail st est (keeps_refl _) rfl h

/-- the invariant of a learner under *every* operation on *any* object of the store -/
def LearnerBoundWF (st : Store) (id : Nat) : Prop := st.WF ∧ LearnerBound st id

theorem step_learnerBound_all (beh : Beh) (st : Store) (op : Op) (id : Nat) (h : LearnerBoundWF st id) :
    LearnerBoundWF (step beh st op).1 id := by
  obtain ⟨hw, m, meth, hid⟩ := h
  have hidlt : id < st.next := hw _ _ hid
  have keep : ∀ st', KeepsLearners st st' → LearnerBoundWF st' id :=
    fun st' k => ⟨k.1 hw, m, meth, k.2.2 id m meth m hid hidlt⟩
  cases op with
  | lFit j X y kw =>
    simp only [step]
    cases hf : learnerFit st j X y kw with
    | error e => exact ⟨hw, m, meth, hid⟩
    | ok st' => exact keep st' (learnerFit_keeps _ _ _ _ _ _ hf)
  | lTransform j X => exact ⟨hw, m, meth, hid⟩
  | lSetModel j new =>
    have hb := step_learnerBound beh st (.lSetModel j new) id rfl ⟨m, meth, hid⟩
    refine ⟨?_, hb⟩
    simp only [step, learnerSetModel]
    cases hj : st.get j with
    | none => exact hw
    | some o =>
      cases o with
      | learner mj methj bj => exact wf_put _ _ _ hw (hw _ _ hj)
      | model _ => exact hw
      | stacking _ => exact hw
      | transfer _ _ _ _ _ => exact hw
  | sFit j X y kw =>
    simp only [step]
    cases hf : stackingFit st j X y kw with
    | error e => exact ⟨hw, m, meth, hid⟩
    | ok st' =>
      apply keep
      unfold stackingFit at hf
      cases hj : st.get j with
      | none => simp [hj] at hf
      | some o =>
        cases o with
        | stacking ms => simp only [hj] at hf; exact foldFit_keeps X y kw ms st st' hf
        | model _ => simp [hj] at hf
        | learner _ _ _ => simp [hj] at hf
        | transfer _ _ _ _ _ => simp [hj] at hf
  | sTransform j X => exact ⟨hw, m, meth, hid⟩
  | tFit j X y w =>
    simp only [step]
    cases hf : transferFit st j X y w with
    | error e => exact ⟨hw, m, meth, hid⟩
    | ok st' => exact keep st' (transferFit_keeps _ _ _ _ _ _ hw hf)
  | tTransform j X => exact ⟨hw, m, meth, hid⟩

theorem run_learnerBound_all (beh : Beh) : ∀ (ops : List Op) (st : Store) (id : Nat),
    LearnerBoundWF st id → LearnerBoundWF (run beh st ops).1 id := by
  intro ops
  induction ops with
  | nil => intro st id h; exact h
  | cons op rest ih => intro st id h; exact ih _ id (step_learnerBound_all beh st op id h)

end MlVerif.Wrappers
