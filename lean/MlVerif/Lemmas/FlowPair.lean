/-
Two executions in lockstep.  `pairSem sem` runs the same program on a PAIR of states with the same
oracle, taking every branch decision from the first component.  If an abstract domain is sound for
the pair semantics with a relation `Rel` between the two components, and `Rel` (at states the
analysis accepts) forces both components to take the same branch, then the pair execution IS the
two independent executions side by side: same outcome, same oracle consumption, component-wise
states.  Used by C03 to turn "accepted by the definite-rewrite analysis" into a genuine two-run
non-interference statement (refit from any state vs fit from a fresh state).
-/
import MlVerif.Lemmas.Flow
namespace MlVerif.Flow

variable {A S D : Type}

def pairSem (sem : Sem A S) : Sem A (S × S) where
  step a n st := (sem.step a n st.1, sem.step a n st.2)
  test c n st := sem.test c n st.1

/-- the pair result built from two single results -/
def zipR (r1 r2 : Outcome × S × Oracle) : Outcome × (S × S) × Oracle := (r1.1, (r1.2.1, r2.2.1), r1.2.2)

/-- same outcome and same remaining oracle -/
def Lock (r1 r2 : Outcome × S × Oracle) : Prop := r2.1 = r1.1 ∧ r2.2.2 = r1.2.2

section
variable {sem : Sem A S} {dom : Dom A D} {Rel : D → S × S → Prop}

theorem zipR_eta (out : Outcome) (s t : S) (o : Oracle) :
    zipR (out, s, o) (out, t, o) = (out, (s, t), o) := rfl

/-- helper: rebuild the second result from `Lock` -/
theorem lock_eq {r1 r2 : Outcome × S × Oracle} (h : Lock r1 r2) : r2 = (r1.1, r2.2.1, r1.2.2) := by
  obtain ⟨a, b, c⟩ := r2
  obtain ⟨h1, h2⟩ := h
  simp only at h1 h2
  subst h1; subst h2; rfl

theorem iterate_pair
    (b : Prog A) (H : D) (h : Sound (pairSem sem) dom Rel)
    (hokb : (analyze dom b H).ok = true)
    (hleN : leO dom.le (analyze dom b H).norm H = true)
    (hleB : leO dom.le (analyze dom b H).brk H = true)
    (ih : ∀ (s t : S) (o : Oracle), Rel H (s, t) →
      exec (pairSem sem) b o (s, t) = zipR (exec sem b o s) (exec sem b o t) ∧ Lock (exec sem b o s) (exec sem b o t)) :
    ∀ (n : Nat) (o : Oracle) (s t : S), Rel H (s, t) →
      iterate (exec (pairSem sem) b) n o (s, t) = zipR (iterate (exec sem b) n o s) (iterate (exec sem b) n o t) ∧
      Lock (iterate (exec sem b) n o s) (iterate (exec sem b) n o t) := by
  intro n
  induction n with
  | zero => intro o s t _; exact ⟨rfl, rfl, rfl⟩
  | succ n ihn =>
    intro o s t hs
    obtain ⟨he, hl⟩ := ih s t o hs
    have hcov := analyze_sound h b H (s, t) o hs hokb
    rw [he] at hcov
    simp only [iterate, he]
    rcases hx : exec sem b o s with ⟨out3, s', o3⟩
    rcases hz : exec sem b o t with ⟨out2, t', o2⟩
    rw [hx, hz] at hl hcov
    obtain ⟨e1, e2⟩ := hl
    simp only at e1 e2
    subst e1; subst e2
    simp only [zipR] at hcov ⊢
    cases out2 with
    | norm => exact ihn o2 s' t' (leO_sound h hleN hcov)
    | brk => exact ihn o2 s' t' (leO_sound h hleB hcov)
    | exc => exact ⟨rfl, rfl, rfl⟩
    | ret => exact ⟨rfl, rfl, rfl⟩

/-- **Lockstep**: under the hypotheses above, the pair execution is the two single executions. -/
theorem pair_exec (h : Sound (pairSem sem) dom Rel)
    (hagree : ∀ c d n s t, dom.check c d = true → Rel d (s, t) → sem.test c n t = sem.test c n s) :
    ∀ (p : Prog A) (d : D) (s t : S) (o : Oracle), Rel d (s, t) → (analyze dom p d).ok = true →
      exec (pairSem sem) p o (s, t) = zipR (exec sem p o s) (exec sem p o t) ∧
      Lock (exec sem p o s) (exec sem p o t) := by
  intro p
  induction p with
  | skip => intro d s t o _ _; exact ⟨rfl, rfl, rfl⟩
  | atom a => intro d s t o _ _; exact ⟨rfl, rfl, rfl⟩
  | call =>
    intro d s t o _ _
    exact ⟨rfl, rfl, rfl⟩
  | raise_ => intro d s t o _ _; exact ⟨rfl, rfl, rfl⟩
  | ret => intro d s t o _ _; exact ⟨rfl, rfl, rfl⟩
  | brk => intro d s t o _ _; exact ⟨rfl, rfl, rfl⟩
  | seq p q ihp ihq =>
    intro d s t o hd hok
    simp only [analyze] at hok
    have hokp : (analyze dom p d).ok = true := by
      cases hn : (analyze dom p d).norm with
      | none => rw [hn] at hok; exact hok
      | some d' => rw [hn] at hok; exact (merge_ok _ hok).1
    obtain ⟨he, hl⟩ := ihp d s t o hd hokp
    have hcov := analyze_sound h p d (s, t) o hd hokp
    rw [he] at hcov
    simp only [exec, he]
    rcases hx : exec sem p o s with ⟨out3, s', o3⟩
    rcases hz : exec sem p o t with ⟨out2, t', o2⟩
    rw [hx, hz] at hl hcov
    obtain ⟨e1, e2⟩ := hl
    simp only at e1 e2
    subst e1; subst e2
    simp only [zipR] at hcov ⊢
    cases out2 with
    | norm =>
      obtain ⟨d1, h1, hr⟩ := hcov
      have hokq : (analyze dom q d1).ok = true := by
        rw [h1] at hok; exact (merge_ok _ hok).2
      exact ihq d1 s' t' o2 hr hokq
    | exc => exact ⟨rfl, rfl, rfl⟩
    | ret => exact ⟨rfl, rfl, rfl⟩
    | brk => exact ⟨rfl, rfl, rfl⟩
  | ite c p q ihp ihq =>
    intro d s t o hd hok
    simp only [analyze, Bool.and_eq_true] at hok
    obtain ⟨hm, hc⟩ := hok
    obtain ⟨hokp, hokq⟩ := merge_ok _ hm
    have hag := hagree c d o.next.1 s t hc hd
    have ha : Rel (dom.assume c (sem.test c o.next.1 s) d) (s, t) := h.assume_sound c d o.next.1 (s, t) hc hd
    simp only [exec]
    rw [show (pairSem sem).test c o.next.1 (s, t) = sem.test c o.next.1 s from rfl, hag]
    cases ht : sem.test c o.next.1 s with
    | true =>
      rw [ht] at ha
      simp only [if_true]
      exact ihp _ s t o.next.2 ha hokp
    | false =>
      rw [ht] at ha
      simp only [Bool.false_eq_true, if_false]
      exact ihq _ s t o.next.2 ha hokq
  | loop b ih =>
    intro d s t o hd hok
    simp only [analyze, Bool.and_eq_true] at hok
    obtain ⟨⟨hokb, hle0⟩, hst⟩ := hok
    obtain ⟨hspec, hstable⟩ := loopFix_spec dom.join dom.le (analyze dom b) dom.fuel d
    obtain ⟨hleN, hleB⟩ := hstable hst
    rw [hspec] at hokb
    simp only [exec]
    generalize (loopFix dom.join dom.le (analyze dom b) dom.fuel d).1 = H at *
    have hH0 : Rel H (s, t) := h.le_sound _ _ _ hle0 hd
    exact iterate_pair b H h hokb hleN hleB (fun s t o hs => ih H s t o hs hokb) o.next.1 o.next.2 s t hH0
  | tryFinally b f ihb ihf =>
    intro d s t o hd hok
    simp only [analyze, Bool.and_eq_true] at hok
    obtain ⟨⟨⟨⟨hokb, hokN⟩, hokE⟩, hokR⟩, hokB⟩ := hok
    obtain ⟨he, hl⟩ := ihb d s t o hd hokb
    have hcov := analyze_sound h b d (s, t) o hd hokb
    rw [he] at hcov
    simp only [exec, he]
    rcases hx : exec sem b o s with ⟨out3, s', o3⟩
    rcases hz : exec sem b o t with ⟨out2, t', o2⟩
    rw [hx, hz] at hl hcov
    obtain ⟨e1, e2⟩ := hl
    simp only at e1 e2
    subst e1; subst e2
    simp only [zipR] at hcov ⊢
    -- the `finally` block runs from a related pair whatever the outcome of the body
    have hfin : ∃ d1, Rel d1 (s', t') ∧ (analyze dom f d1).ok = true := by
      cases out2 <;> obtain ⟨d1, h1, hr⟩ := hcov
      · exact ⟨d1, hr, by simpa [h1] using hokN⟩
      · exact ⟨d1, hr, by simpa [h1] using hokE⟩
      · exact ⟨d1, hr, by simpa [h1] using hokR⟩
      · exact ⟨d1, hr, by simpa [h1] using hokB⟩
    obtain ⟨d1, hr1, hokf⟩ := hfin
    obtain ⟨hef, hlf⟩ := ihf d1 s' t' o2 hr1 hokf
    cases out2 with
    | norm => exact ⟨hef, hlf⟩
    | exc =>
      simp only [hef]
      rcases hx2 : exec sem f o2 s' with ⟨outf3, s'', o3'⟩
      rcases hz2 : exec sem f o2 t' with ⟨outf2, t'', o''⟩
      rw [hx2, hz2] at hlf
      obtain ⟨e3, e4⟩ := hlf
      simp only at e3 e4
      subst e3; subst e4
      simp only [zipR]
      cases outf2 <;> exact ⟨rfl, rfl, rfl⟩
    | ret =>
      simp only [hef]
      rcases hx2 : exec sem f o2 s' with ⟨outf3, s'', o3'⟩
      rcases hz2 : exec sem f o2 t' with ⟨outf2, t'', o''⟩
      rw [hx2, hz2] at hlf
      obtain ⟨e3, e4⟩ := hlf
      simp only at e3 e4
      subst e3; subst e4
      simp only [zipR]
      cases outf2 <;> exact ⟨rfl, rfl, rfl⟩
    | brk =>
      simp only [hef]
      rcases hx2 : exec sem f o2 s' with ⟨outf3, s'', o3'⟩
      rcases hz2 : exec sem f o2 t' with ⟨outf2, t'', o''⟩
      rw [hx2, hz2] at hlf
      obtain ⟨e3, e4⟩ := hlf
      simp only at e3 e4
      subst e3; subst e4
      simp only [zipR]
      cases outf2 <;> exact ⟨rfl, rfl, rfl⟩
  | tryExcept b hd' ihb ihh =>
    intro d s t o hd hok
    simp only [analyze] at hok
    have hokb : (analyze dom b d).ok = true := by
      cases hn : (analyze dom b d).exc with
      | none => rw [hn] at hok; exact hok
      | some x => rw [hn] at hok; exact (merge_ok _ hok).1
    obtain ⟨he, hl⟩ := ihb d s t o hd hokb
    have hcov := analyze_sound h b d (s, t) o hd hokb
    rw [he] at hcov
    simp only [exec, he]
    rcases hx : exec sem b o s with ⟨out3, s', o3⟩
    rcases hz : exec sem b o t with ⟨out2, t', o2⟩
    rw [hx, hz] at hl hcov
    obtain ⟨e1, e2⟩ := hl
    simp only at e1 e2
    subst e1; subst e2
    simp only [zipR] at hcov ⊢
    cases out2 with
    | exc =>
      obtain ⟨d1, h1, hr⟩ := hcov
      have hokh : (analyze dom hd' d1).ok = true := by
        rw [h1] at hok; exact (merge_ok _ hok).2
      simp only
      split
      · exact ihh d1 s' t' _ hr hokh
      · exact ⟨rfl, rfl, rfl⟩
    | norm => exact ⟨rfl, rfl, rfl⟩
    | ret => exact ⟨rfl, rfl, rfl⟩
    | brk => exact ⟨rfl, rfl, rfl⟩
  | scope b ih =>
    intro d s t o hd hok
    simp only [analyze] at hok
    obtain ⟨he, hl⟩ := ih d s t o hd hok
    simp only [exec, he]
    rcases hx : exec sem b o s with ⟨out3, s', o3⟩
    rcases hz : exec sem b o t with ⟨out2, t', o2⟩
    rw [hx, hz] at hl
    obtain ⟨e1, e2⟩ := hl
    simp only at e1 e2
    subst e1; subst e2
    simp only [zipR]
    cases out2 <;> exact ⟨rfl, rfl, rfl⟩

end
end MlVerif.Flow
