/-
Soundness of the generic abstract interpreter of `Model/Flow.lean`, proved once for all
programs of the IR, all oracles (= all executions) and every abstract domain satisfying the
five local conditions of `Sound`.
-/
import MlVerif.Model.Flow
namespace MlVerif.Flow

variable {A S D : Type}

structure Sound (sem : Sem A S) (dom : Dom A D) (Rel : D → S → Prop) : Prop where
  join_l : ∀ a b s, Rel a s → Rel (dom.join a b) s
  join_r : ∀ a b s, Rel b s → Rel (dom.join a b) s
  le_sound : ∀ a b s, dom.le a b = true → Rel a s → Rel b s
  step_sound : ∀ x d n s, dom.check x d = true → Rel d s → Rel (dom.transfer x d) (sem.step x n s)
  assume_sound : ∀ c d n s, dom.check c d = true → Rel d s → Rel (dom.assume c (sem.test c n s) d) s

/-- the abstract result covers a concrete outcome -/
def CovO (Rel : D → S → Prop) (a : Option D) (s : S) : Prop := ∃ d, a = some d ∧ Rel d s

def Covers (Rel : D → S → Prop) (r : Res D) (out : Outcome) (s : S) : Prop :=
  match out with
  | .norm => CovO Rel r.norm s
  | .exc => CovO Rel r.exc s
  | .ret => CovO Rel r.ret s
  | .brk => CovO Rel r.brk s

section
variable {sem : Sem A S} {dom : Dom A D} {Rel : D → S → Prop}

theorem covO_join_l (h : Sound sem dom Rel) {a b : Option D} {s : S} :
    CovO Rel a s → CovO Rel (joinO dom.join a b) s := by
  rintro ⟨d, rfl, hd⟩
  cases b with
  | none => exact ⟨d, rfl, hd⟩
  | some b => exact ⟨_, rfl, h.join_l _ _ _ hd⟩

theorem covO_join_r (h : Sound sem dom Rel) {a b : Option D} {s : S} :
    CovO Rel b s → CovO Rel (joinO dom.join a b) s := by
  rintro ⟨d, rfl, hd⟩
  cases a with
  | none => exact ⟨d, rfl, hd⟩
  | some a => exact ⟨_, rfl, h.join_r _ _ _ hd⟩

theorem covers_merge_l (h : Sound sem dom Rel) {a b : Res D} {out : Outcome} {s : S} :
    Covers Rel a out s → Covers Rel (Res.merge dom.join a b) out s := by
  cases out <;> exact covO_join_l h

theorem covers_merge_r (h : Sound sem dom Rel) {a b : Res D} {out : Outcome} {s : S} :
    Covers Rel b out s → Covers Rel (Res.merge dom.join a b) out s := by
  cases out <;> exact covO_join_r h

theorem merge_ok {a b : Res D} (j : D → D → D) (h : (Res.merge j a b).ok = true) :
    a.ok = true ∧ b.ok = true := by
  simpa [Res.merge] using h

theorem loopFix_spec {D : Type} (j : D → D → D) (le : D → D → Bool) (f : D → Res D) :
    ∀ n h, (loopFix j le f n h).2.1 = f (loopFix j le f n h).1 ∧
      ((loopFix j le f n h).2.2 = true →
        leO le (f (loopFix j le f n h).1).norm (loopFix j le f n h).1 = true ∧
        leO le (f (loopFix j le f n h).1).brk (loopFix j le f n h).1 = true) := by
  intro n
  induction n with
  | zero =>
    intro h
    refine ⟨rfl, fun hs => ?_⟩
    simpa [loopFix] using hs
  | succ n ih =>
    intro h
    simp only [loopFix]
    split
    · rename_i hst
      refine ⟨rfl, fun _ => ?_⟩
      simpa using hst
    · exact ih _

theorem leO_sound (h : Sound sem dom Rel) {a : Option D} {b : D} {s : S}
    (hle : leO dom.le a b = true) (hc : CovO Rel a s) : Rel b s := by
  obtain ⟨d, rfl, hd⟩ := hc
  exact h.le_sound _ _ _ hle hd

/-- **Soundness**: for every program, abstract pre-state, concrete pre-state it describes and
every oracle, if the analysis accepts (`ok`) then the abstract result covers the concrete
outcome and final state. -/
theorem analyze_sound (h : Sound sem dom Rel) :
    ∀ (p : Prog A) (d : D) (s : S) (o : Oracle), Rel d s → (analyze dom p d).ok = true →
      Covers Rel (analyze dom p d) (exec sem p o s).1 (exec sem p o s).2.1 := by
  intro p
  induction p with
  | skip => intro d s o hd _; exact ⟨d, rfl, hd⟩
  | atom a =>
    intro d s o hd hok
    simp only [analyze] at hok
    exact ⟨_, rfl, h.step_sound _ _ _ _ hok hd⟩
  | call =>
    intro d s o hd _
    simp only [exec]
    split <;> exact ⟨d, rfl, hd⟩
  | raise_ => intro d s o hd _; exact ⟨d, rfl, hd⟩
  | ret => intro d s o hd _; exact ⟨d, rfl, hd⟩
  | brk => intro d s o hd _; exact ⟨d, rfl, hd⟩
  | seq p q ihp ihq =>
    intro d s o hd hok
    have hp := ihp d s o hd
    simp only [analyze] at hok ⊢
    simp only [exec]
    cases hn : (analyze dom p d).norm with
    | none =>
      rw [hn] at hok
      have hp' := hp hok
      rcases hx : exec sem p o s with ⟨out, s', o'⟩
      rw [hx] at hp'
      cases out with
      | norm => obtain ⟨_, h1, _⟩ := hp'; simp [hn] at h1
      | exc => exact hp'
      | ret => exact hp'
      | brk => exact hp'
    | some d' =>
      rw [hn] at hok
      obtain ⟨hokp, hokq⟩ := merge_ok _ hok
      have hp' := hp hokp
      rcases hx : exec sem p o s with ⟨out, s', o'⟩
      rw [hx] at hp'
      cases out with
      | norm =>
        obtain ⟨d1, h1, hr⟩ := hp'
        have : d1 = d' := by rw [hn] at h1; exact (Option.some.inj h1).symm
        subst this
        exact covers_merge_r h (ihq d1 s' o' hr hokq)
      | exc => exact covers_merge_l h (a := { analyze dom p d with norm := none }) hp'
      | ret => exact covers_merge_l h (a := { analyze dom p d with norm := none }) hp'
      | brk => exact covers_merge_l h (a := { analyze dom p d with norm := none }) hp'
  | ite c p q ihp ihq =>
    intro d s o hd hok
    simp only [analyze, Bool.and_eq_true] at hok
    obtain ⟨hm, hc⟩ := hok
    obtain ⟨hokp, hokq⟩ := merge_ok _ hm
    simp only [exec, analyze]
    have ha := h.assume_sound c d o.next.1 s hc hd
    cases ht : sem.test c o.next.1 s with
    | true =>
      rw [ht] at ha
      simp only [if_true]
      have := ihp _ s o.next.2 ha hokp
      cases hout : (exec sem p o.next.2 s).1 <;> rw [hout] at this <;> exact covO_join_l h this
    | false =>
      rw [ht] at ha
      simp only [Bool.false_eq_true, if_false]
      have := ihq _ s o.next.2 ha hokq
      cases hout : (exec sem q o.next.2 s).1 <;> rw [hout] at this <;> exact covO_join_r h this
  | loop b ih =>
    intro d s o hd hok
    simp only [analyze, Bool.and_eq_true] at hok
    obtain ⟨⟨hokb, hle0⟩, hst⟩ := hok
    obtain ⟨hspec, hstable⟩ := loopFix_spec dom.join dom.le (analyze dom b) dom.fuel d
    obtain ⟨hleN, hleB⟩ := hstable hst
    simp only [exec, analyze]
    rw [hspec] at hokb ⊢
    generalize (loopFix dom.join dom.le (analyze dom b) dom.fuel d).1 = H at *
    have hH0 : Rel H s := h.le_sound _ _ _ hle0 hd
    -- inner induction on the iteration count
    have key : ∀ (n : Nat) (o : Oracle) (s : S), Rel H s →
        Covers Rel ⟨true, some H, (analyze dom b H).exc, (analyze dom b H).ret, none⟩
          (iterate (exec sem b) n o s).1 (iterate (exec sem b) n o s).2.1 := by
      intro n
      induction n with
      | zero => intro o s hs; exact ⟨H, rfl, hs⟩
      | succ n ihn =>
        intro o s hs
        have hb := ih H s o hs hokb
        simp only [iterate]
        rcases hx : exec sem b o s with ⟨out, s', o'⟩
        rw [hx] at hb
        cases out with
        | norm => exact ihn o' s' (leO_sound h hleN hb)
        | brk => exact ihn o' s' (leO_sound h hleB hb)
        | exc => exact hb
        | ret => exact hb
    exact key o.next.1 o.next.2 s hH0
  | tryFinally b f ihb ihf =>
    intro d s o hd hok
    simp only [analyze, Bool.and_eq_true] at hok
    obtain ⟨⟨⟨⟨hokb, hokN⟩, hokE⟩, hokR⟩, hokB⟩ := hok
    have hb := ihb d s o hd hokb
    simp only [exec, analyze]
    rcases hx : exec sem b o s with ⟨out, s', o'⟩
    rw [hx] at hb
    cases out with
    | norm =>
      obtain ⟨d1, h1, hr⟩ := hb
      simp only [h1] at hokN ⊢
      have hf := ihf d1 s' o' hr hokN
      rcases hy : exec sem f o' s' with ⟨out2, s'', o''⟩
      rw [hy] at hf
      cases out2 with
      | norm => exact hf
      | exc => exact covO_join_l h (covO_join_l h (covO_join_l h hf))
      | ret => exact covO_join_l h (covO_join_l h (covO_join_l h hf))
      | brk => exact covO_join_l h (covO_join_l h (covO_join_l h hf))
    | exc =>
      obtain ⟨d1, h1, hr⟩ := hb
      simp only [h1] at hokE ⊢
      have hf := ihf d1 s' o' hr hokE
      rcases hy : exec sem f o' s' with ⟨out2, s'', o''⟩
      rw [hy] at hf
      cases out2 with
      | norm => exact covO_join_l h (covO_join_l h (covO_join_r h hf))
      | exc => exact covO_join_l h (covO_join_r h (covO_join_l h hf))
      | ret => exact covO_join_l h (covO_join_r h (covO_join_l h hf))
      | brk => exact covO_join_l h (covO_join_r h (covO_join_l h hf))
    | ret =>
      obtain ⟨d1, h1, hr⟩ := hb
      simp only [h1] at hokR ⊢
      have hf := ihf d1 s' o' hr hokR
      rcases hy : exec sem f o' s' with ⟨out2, s'', o''⟩
      rw [hy] at hf
      cases out2 with
      | norm => exact covO_join_l h (covO_join_l h (covO_join_r h hf))
      | exc => exact covO_join_l h (covO_join_r h (covO_join_r h hf))
      | ret => exact covO_join_l h (covO_join_r h (covO_join_r h hf))
      | brk => exact covO_join_l h (covO_join_r h (covO_join_r h hf))
    | brk =>
      obtain ⟨d1, h1, hr⟩ := hb
      simp only [h1] at hokB ⊢
      have hf := ihf d1 s' o' hr hokB
      rcases hy : exec sem f o' s' with ⟨out2, s'', o''⟩
      rw [hy] at hf
      cases out2 with
      | norm => exact covO_join_l h (covO_join_l h (covO_join_r h hf))
      | exc => exact covO_join_r h hf
      | ret => exact covO_join_r h hf
      | brk => exact covO_join_r h hf
  | tryExcept b hd' ihb ihh =>
    intro d s o hd hok
    simp only [analyze] at hok ⊢
    simp only [exec]
    cases he : (analyze dom b d).exc with
    | none =>
      rw [he] at hok
      have hb := ihb d s o hd hok
      rcases hx : exec sem b o s with ⟨out, s', o'⟩
      rw [hx] at hb
      cases out with
      | exc => obtain ⟨_, h1, _⟩ := hb; simp [he] at h1
      | norm => exact hb
      | ret => exact hb
      | brk => exact hb
    | some x =>
      rw [he] at hok
      obtain ⟨hokb, hokh⟩ := merge_ok _ hok
      have hb := ihb d s o hd hokb
      rcases hx : exec sem b o s with ⟨out, s', o'⟩
      rw [hx] at hb
      cases out with
      | exc =>
        obtain ⟨d1, h1, hr⟩ := hb
        have : d1 = x := by rw [he] at h1; exact (Option.some.inj h1).symm
        subst this
        simp only
        split
        · exact covers_merge_r h (ihh d1 s' _ hr hokh)
        · exact covers_merge_l h (out := .exc) ⟨d1, he, hr⟩
      | norm => exact covers_merge_l h hb
      | ret => exact covers_merge_l h hb
      | brk => exact covers_merge_l h hb
  | scope b ih =>
    intro d s o hd hok
    simp only [analyze] at hok ⊢
    have hb := ih d s o hd hok
    simp only [exec]
    rcases hx : exec sem b o s with ⟨out, s', o'⟩
    rw [hx] at hb
    cases out with
    | norm => exact covO_join_l h (covO_join_l h hb)
    | ret => exact covO_join_l h (covO_join_r h hb)
    | brk => exact covO_join_r h hb
    | exc => exact hb

/-- Corollary used by the properties: if every abstract exit is `good` for its kind, and `good`
abstract states only describe concrete states satisfying `P`, then `P` holds after EVERY execution,
however it ends (normally, by an exception at any call, or by return). -/
theorem exits_good_sound (h : Sound sem dom Rel) (good : Outcome → D → Bool) (P : Outcome → S → Prop)
    (hgood : ∀ out d s, good out d = true → Rel d s → P out s)
    (p : Prog A) (d : D) (s : S) (o : Oracle) (hd : Rel d s)
    (hex : exitsGood good (analyze dom p d) = true) :
    P (exec sem p o s).1 (exec sem p o s).2.1 := by
  simp only [exitsGood, Bool.and_eq_true] at hex
  obtain ⟨⟨⟨⟨hok, hn⟩, he⟩, hr⟩, hb⟩ := hex
  have hc := analyze_sound h p d s o hd hok
  cases hout : (exec sem p o s).1 <;> rw [hout] at hc <;> obtain ⟨d', h1, hrel⟩ := hc
  · rw [h1] at hn; exact hgood _ _ _ (by simpa using hn) hrel
  · rw [h1] at he; exact hgood _ _ _ (by simpa using he) hrel
  · rw [h1] at hr; exact hgood _ _ _ (by simpa using hr) hrel
  · rw [h1] at hb; exact hgood _ _ _ (by simpa using hb) hrel

end
end MlVerif.Flow
