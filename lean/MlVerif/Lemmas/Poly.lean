/-
C11 — helper lemmas (core Lean only): Python index helpers, the combinatorial specification
(`combs`, `seg`), and the loop invariant shared by the three recurrences.
-/
import MlVerif.Model.Poly

namespace MlVerif.Poly
open MlVerif.Gen.C11

variable {β : Type}

/-! ### Python helpers on the values that actually occur -/

theorem natOf_cast (k : Nat) : natOf (k : Int) = some k := by
  simp [natOf]

theorem natOf_eq {v : Int} {k : Nat} (h : v = (k : Int)) : natOf v = some k := by
  subst h; exact natOf_cast k

theorem pyIndex_nat (l : List Nat) (i : Nat) : pyIndex l (i : Int) = l[i]? := by
  simp [pyIndex]

theorem pyIndex_eq {l : List Nat} {k : Int} {i : Nat} (h : k = (i : Int)) : pyIndex l k = l[i]? := by
  subst h; exact pyIndex_nat l i

theorem pyIndex_last {l : List Nat} {k : Int} {m : Nat} (h : k = -1) (hl : l.length = m + 1) :
    pyIndex l k = l[m]? := by
  subst h
  have : l.length - 1 = m := by omega
  simp [pyIndex, hl]

theorem pyRange_eq {lo hi : Int} {a c : Nat} (h1 : lo = (a : Int)) (h2 : hi = (a : Int) + (c : Int)) :
    pyRange lo hi = some (a, c) := by
  subst h1 h2
  simp [pyRange, natOf_cast]; omega

theorem writeAt_eq {xp blk : List β} {lo hi : Int} (h1 : lo = (xp.length : Int))
    (h2 : hi = (xp.length : Int) + (blk.length : Int)) : writeAt xp lo hi blk = some (xp ++ blk) := by
  subst h1 h2
  simp [writeAt]; omega

theorem colOf_eq {n i : Nat} {lo hi : Int} (h1 : lo = (i : Int)) (h2 : hi = (i : Int) + 1) (hi' : i < n) :
    colOf n lo hi = some i := by
  subst h1 h2
  simp [colOf]; omega

theorem slice_append_left (A B : List β) (a : Nat) (ha : a ≤ A.length) :
    slice (A ++ B) a A.length = A.drop a := by
  unfold slice
  rw [List.drop_append_of_le_length ha, List.take_append_of_le_length (by simp)]
  rw [List.take_of_length_le (by simp)]

/-! ### the specification -/

/-- blocks of degree d+1 for variables i .. j-1 -/
def seg (io : Bool) (n d i j : Nat) : List Mono :=
  (List.range' i (j - i)).flatMap (fun v => (combs io n d (nxt io v)).map (v :: ·))

theorem combs_succ (io : Bool) (n d lo : Nat) : combs io n (d+1) lo = seg io n d lo n := rfl

theorem seg_self (io : Bool) (n d i : Nat) : seg io n d i i = [] := by simp [seg]

theorem seg_snoc (io : Bool) (n d i j : Nat) (h : i ≤ j) :
    seg io n d i (j+1) = seg io n d i j ++ (combs io n d (nxt io j)).map (j :: ·) := by
  unfold seg
  have h1 : j + 1 - i = (j - i) + 1 := by omega
  have h2 : i + (j - i) = j := by omega
  rw [h1, List.range'_concat, List.flatMap_append]
  simp [h2]

theorem seg_split (io : Bool) (n d i j k : Nat) (h1 : i ≤ j) (h2 : j ≤ k) :
    seg io n d i k = seg io n d i j ++ seg io n d j k := by
  unfold seg
  have : k - i = (j - i) + (k - j) := by omega
  rw [this, ← List.range'_append_1, List.flatMap_append]
  congr 3; omega

theorem combs_length (io : Bool) (n : Nat) : ∀ d lo m, m ∈ combs io n d lo → m.length = d := by
  intro d
  induction d with
  | zero => intro lo m h; simp [combs] at h; simp [h]
  | succ d ih =>
    intro lo m h
    simp only [combs, List.mem_flatMap, List.mem_map] at h
    obtain ⟨i, _, m', hm', rfl⟩ := h
    simp [ih _ _ hm']

theorem combs_nil_mono (io : Bool) (n d lo lo' : Nat) (h : combs io n d lo = []) (hl : lo ≤ lo') :
    combs io n d lo' = [] := by
  cases d with
  | zero => simp [combs] at h
  | succ d =>
    simp only [combs, List.flatMap_eq_nil_iff, List.mem_range', List.map_eq_nil_iff] at h ⊢
    rintro v ⟨k, hk, rfl⟩
    exact h (lo' + 1 * k) ⟨lo' - lo + k, by omega, by omega⟩

theorem combs_ge_n (io : Bool) (n d lo : Nat) (h : n ≤ lo) : combs io n (d+1) lo = [] := by
  have : n - lo = 0 := by omega
  simp [combs, this]

/-- once a block is empty every later block of the same degree is empty -/
theorem seg_nil_of (io : Bool) (n d i j k : Nat) (h : combs io n d (nxt io i) = []) (hij : i ≤ j) :
    seg io n d j k = [] := by
  simp only [seg, List.flatMap_eq_nil_iff, List.mem_range', List.map_eq_nil_iff]
  rintro v ⟨t, _, rfl⟩
  apply combs_nil_mono io n d _ _ h
  unfold nxt; split <;> omega

theorem interp_cons (ops : Ops β) (i : Nat) (m : Mono) (h : m ≠ []) :
    interp ops (i :: m) = ops.mul (interp ops m) i := by
  cases m with
  | nil => exact absurd rfl h
  | cons j m => rfl

/-- multiplying the columns that hold the degree-`d` monomials (d ≥ 1) by variable `i` gives the
columns that hold `i ::` those monomials -/
theorem map_mul_interp (ops : Ops β) (io : Bool) (n d lo i : Nat) (hd : 1 ≤ d) :
    ((combs io n d lo).map (interp ops)).map (ops.mul · i) =
      ((combs io n d lo).map (i :: ·)).map (interp ops) := by
  simp only [List.map_map]
  apply List.map_congr_left
  intro m hm
  have := combs_length io n d lo m hm
  have hne : m ≠ [] := by intro h; subst h; simp at this; omega
  simp [interp_cons ops i m hne]

/-! ### the invariant between two degree steps -/

/-- `index` (length `L+1`, `L ≤ n`) delimits, inside the written columns `xp`, the degree-`d`
monomials by least variable: `xp[index[j]:]` holds `combs io n d j`; variables `≥ L` have none. -/
structure IdxOk (ops : Ops β) (io : Bool) (n d L : Nat) (xp : List β) (index : List Nat) : Prop where
  dpos : 1 ≤ d
  len : index.length = L + 1
  hL : L ≤ n
  Lpos : 1 ≤ n → 1 ≤ L
  last : index[L]? = some xp.length
  suf : ∀ j, j ≤ L → ∃ a, index[j]? = some a ∧ a ≤ xp.length ∧
          xp.drop a = (combs io n d j).map (interp ops)
  tail : ∀ j, L ≤ j → j ≤ n → combs io n d j = []

/-- position of the block of variable `j` in the next degree -/
def posOf (io : Bool) (n d base j : Nat) : Nat := base + (seg io n d 0 j).length

/-- what every inner loop establishes, and why it re-establishes the invariant one degree up -/
theorem idxOk_next (ops : Ops β) (io : Bool) (n d L' : Nat) (xpOld : List β) (hd : 1 ≤ d)
    (hL : L' ≤ n) (hLpos : 1 ≤ n → 1 ≤ L')
    (htail : ∀ j, L' ≤ j → j ≤ n → combs io n (d+1) j = []) :
    IdxOk ops io n (d+1) L' (xpOld ++ (seg io n d 0 n).map (interp ops))
      ((List.range (L'+1)).map (posOf io n d xpOld.length)) := by
  have hget : ∀ j, j ≤ L' → ((List.range (L'+1)).map (posOf io n d xpOld.length))[j]?
      = some (posOf io n d xpOld.length j) := by
    intro j hj
    simp [List.getElem?_map, List.getElem?_range (show j < L' + 1 by omega)]
  have hsplit : ∀ j, j ≤ n → seg io n d 0 n = seg io n d 0 j ++ seg io n d j n :=
    fun j hj => seg_split io n d 0 j n (by omega) hj
  refine ⟨by omega, by simp, hL, hLpos, ?_, ?_, htail⟩
  · rw [hget L' (Nat.le_refl _)]
    have h0 : seg io n d L' n = [] := by
      have := htail L' (Nat.le_refl _) hL; rwa [combs_succ] at this
    rw [hsplit L' hL, h0]; simp [posOf]
  · intro j hj
    refine ⟨_, hget j hj, ?_, ?_⟩
    · rw [hsplit j (by omega)]; simp [posOf]
    · rw [hsplit j (by omega), List.map_append, ← List.append_assoc]
      have h3 : (xpOld ++ (seg io n d 0 j).map (interp ops)).length = posOf io n d xpOld.length j := by
        simp [posOf]
      rw [← h3, List.drop_left, combs_succ]

/-- `for d in range(d0, d0+cnt)` preserves an invariant -/
theorem loopD_inv {σ} (f : Nat → σ → Option σ) (P : Nat → σ → Prop)
    (hstep : ∀ d s, P d s → ∃ s', f d s = some s' ∧ P (d+1) s') :
    ∀ cnt d s, P d s → ∃ s', loopD f d cnt s = some s' ∧ P (d+cnt) s' := by
  intro cnt
  induction cnt with
  | zero => intro d s h; exact ⟨s, rfl, h⟩
  | succ cnt ih =>
    intro d s h
    obtain ⟨s1, h1, p1⟩ := hstep d s h
    obtain ⟨s2, h2, p2⟩ := ih (d+1) s1 p1
    refine ⟨s2, ?_, ?_⟩
    · simp [loopD, h1, h2]
    · have : d + (cnt + 1) = d + 1 + cnt := by omega
      rw [this]; exact p2

theorem combs_one (io : Bool) (n lo : Nat) : combs io n 1 lo = (List.range' lo (n - lo)).map (fun i => [i]) := by
  simp only [combs, List.map_cons, List.map_nil]
  induction (List.range' lo (n - lo)) with
  | nil => rfl
  | cons a l ih => simp [List.flatMap_cons, ih]

theorem drop_range (n j : Nat) : (List.range n).drop j = List.range' j (n - j) := by
  rw [List.range_eq_range', List.drop_range']
  simp

end MlVerif.Poly
