/-
C12 — the arrays `toArrays T` of any tree built by the digitize2tree model form a well-formed
scikit-learn tree (core Lean only): the theorems about tree_leave_index / tree_node_range /
apply therefore cover the trees digitize2tree returns.
-/
import MlVerif.Lemmas.Digitize
import MlVerif.Lemmas.TreeStruct
set_option linter.unusedSimpArgs false
namespace MlVerif.Digitize
open MlVerif.TreeStruct

/-- invariant of the block of nodes `flatten T off` occupies in the arrays -/
def BlockOk (N : List Node) (off : Nat) : Prop :=
  (∀ (k : Nat) (nd : Node), N[k]? = some nd →
      (nd.left = -1 ∧ nd.right = -1 ∧ nd.feature = -2) ∨
      (((off + k : Nat) : Int) < nd.left ∧ nd.left < ((off + N.length : Nat) : Int) ∧
        ((off + k : Nat) : Int) < nd.right ∧ nd.right < ((off + N.length : Nat) : Int) ∧
        nd.left ≠ nd.right ∧ nd.feature = 0)) ∧
  (∀ (k k' : Nat) (a b : Node), N[k]? = some a → N[k']? = some b → k ≠ k' → a.left ≠ -1 → b.left ≠ -1 → disjointKids a b) ∧
  (∀ k, 0 < k → k < N.length → ∃ k' nd, k' < k ∧ N[k']? = some nd ∧ nd.left ≠ -1 ∧
      (nd.left = ((off + k : Nat) : Int) ∨ nd.right = ((off + k : Nat) : Int)))

theorem get_block {r : Node} {NL NR : List Node} {k : Nat} {nd : Node}
    (h : (r :: (NL ++ NR))[k]? = some nd) :
    (k = 0 ∧ nd = r) ∨ (∃ k1, k = k1 + 1 ∧ k1 < NL.length ∧ NL[k1]? = some nd) ∨
      (∃ k2, k = k2 + 1 + NL.length ∧ NR[k2]? = some nd) := by
  cases k with
  | zero => left; simp at h; exact ⟨rfl, h.symm⟩
  | succ k1 =>
    right
    simp only [List.getElem?_cons_succ] at h
    by_cases hk : k1 < NL.length
    · left; rw [List.getElem?_append_left hk] at h; exact ⟨k1, rfl, hk, h⟩
    · right
      rw [List.getElem?_append_right (by omega)] at h
      exact ⟨k1 - NL.length, by omega, h⟩

theorem flatten_blockOk (T : DTree) : ∀ off, BlockOk ((flatten T off).map (·.1)) off := by
  induction T with
  | leaf v =>
    intro off
    refine ⟨?_, ?_, ?_⟩
    · intro k nd h
      cases k with
      | zero => simp [flatten] at h; subst h; left; simp
      | succ k => simp [flatten] at h
    · intro k k' a b ha hb hne hla _
      cases k with
      | zero => simp [flatten] at ha; subst ha; simp at hla
      | succ k => simp [flatten] at ha
    · intro k h0 hk; simp [flatten] at hk; omega
  | node th l r ihl ihr =>
    intro off
    obtain ⟨l1, l2, l3⟩ := ihl (off + 1)
    obtain ⟨r1, r2, r3⟩ := ihr (off + 1 + l.size)
    have hsl : ((flatten l (off + 1)).map (·.1)).length = l.size := by simp [flatten_length]
    have hsr : ((flatten r (off + 1 + l.size)).map (·.1)).length = r.size := by simp [flatten_length]
    have hN : (flatten (.node th l r) off).map (·.1) =
        (⟨(off + 1 : Nat), (off + 1 + l.size : Nat), 0, th⟩ : Node) ::
          ((flatten l (off + 1)).map (·.1) ++ (flatten r (off + 1 + l.size)).map (·.1)) := by
      simp [flatten]
    have hlen : ((flatten (.node th l r) off).map (·.1)).length = 1 + l.size + r.size := by
      simp [flatten_length, DTree.size]
    have hpl := size_pos l
    have hpr := size_pos r
    rw [hsl] at l1 l3
    rw [hsr] at r1 r3
    -- ranges of the children of every split node of the block
    have hrange : ∀ k nd, ((flatten (.node th l r) off).map (·.1))[k]? = some nd → nd.left ≠ -1 →
        ((off + k : Nat) : Int) < nd.left ∧ nd.left < ((off + (1 + l.size + r.size) : Nat) : Int) ∧
        ((off + k : Nat) : Int) < nd.right ∧ nd.right < ((off + (1 + l.size + r.size) : Nat) : Int) ∧
        nd.left ≠ nd.right ∧ nd.feature = 0 ∧
        ((k = 0 ∧ nd.left = ((off + 1 : Nat) : Int) ∧ nd.right = ((off + 1 + l.size : Nat) : Int)) ∨
         (1 ≤ k ∧ k ≤ l.size ∧ nd.left < ((off + 1 + l.size : Nat) : Int) ∧ nd.right < ((off + 1 + l.size : Nat) : Int)) ∨
         (l.size < k)) := by
      intro k nd h hl
      rw [hN] at h
      rcases get_block h with ⟨hk, hnd⟩ | ⟨k1, hk, hk1, hnd⟩ | ⟨k2, hk, hnd⟩
      · subst hk; subst hnd
        refine ⟨?_, ?_, ?_, ?_, ?_, rfl, Or.inl ⟨rfl, rfl, rfl⟩⟩ <;> simp <;> omega
      · rcases l1 k1 nd hnd with h' | h'
        · exact absurd h'.1 hl
        · rw [hsl] at hk1
          refine ⟨by omega, by omega, by omega, by omega, h'.2.2.2.2.1, h'.2.2.2.2.2, Or.inr (Or.inl ⟨by omega, by omega, by omega, by omega⟩)⟩
      · rcases r1 k2 nd hnd with h' | h'
        · exact absurd h'.1 hl
        · rw [hsl] at hk
          refine ⟨by omega, by omega, by omega, by omega, h'.2.2.2.2.1, h'.2.2.2.2.2, Or.inr (Or.inr (by omega))⟩
    refine ⟨?_, ?_, ?_⟩
    · intro k nd h
      by_cases hl : nd.left = -1
      · left
        rw [hN] at h
        rcases get_block h with ⟨hk, hnd⟩ | ⟨k1, hk, hk1, hnd⟩ | ⟨k2, hk, hnd⟩
        · subst hnd; simp at hl; omega
        · rcases l1 k1 nd hnd with h' | h'
          · exact h'
          · omega
        · rcases r1 k2 nd hnd with h' | h'
          · exact h'
          · omega
      · right
        have := hrange k nd h hl
        rw [hlen]
        exact ⟨this.1, this.2.1, this.2.2.1, this.2.2.2.1, this.2.2.2.2.1, this.2.2.2.2.2.1⟩
    · intro k k' a b ha hb hne hla hlb
      have ra := hrange k a ha hla
      have rb := hrange k' b hb hlb
      rw [hN] at ha hb
      unfold disjointKids
      rcases get_block ha with ⟨hk, hnda⟩ | ⟨k1, hk, hk1, hnda⟩ | ⟨k2, hk, hnda⟩ <;>
        rcases get_block hb with ⟨hk', hndb⟩ | ⟨k1', hk', hk1', hndb⟩ | ⟨k2', hk', hndb⟩
      · omega
      · rw [hsl] at hk1'; omega
      · rw [hsl] at hk'; omega
      · rw [hsl] at hk1; omega
      · exact l2 k1 k1' a b hnda hndb (by omega) hla hlb
      · rw [hsl] at hk1 hk'; omega
      · rw [hsl] at hk; omega
      · rw [hsl] at hk hk1'; omega
      · exact r2 k2 k2' a b hnda hndb (by rw [hsl] at hk hk'; omega) hla hlb
    · intro k h0 hk
      rw [hlen] at hk
      rw [hN]
      by_cases hk1 : k = 1
      · refine ⟨0, ⟨(off + 1 : Nat), (off + 1 + l.size : Nat), 0, th⟩, by omega, by simp, ?_, Or.inl ?_⟩
        · simp; omega
        · subst hk1; rfl
      · by_cases hkl : k ≤ l.size
        · obtain ⟨k', nd, hk', hnd, hl, hkid⟩ := l3 (k - 1) (by omega) (by omega)
          refine ⟨k' + 1, nd, by omega, ?_, hl, ?_⟩
          · simp only [List.getElem?_cons_succ]
            rw [List.getElem?_append_left (by rw [hsl]; omega)]
            exact hnd
          · rcases hkid with h | h
            · left; rw [h]; congr 1; omega
            · right; rw [h]; congr 1; omega
        · by_cases hkr : k = l.size + 1
          · refine ⟨0, ⟨(off + 1 : Nat), (off + 1 + l.size : Nat), 0, th⟩, by omega, by simp, ?_, Or.inr ?_⟩
            · simp; omega
            · subst hkr; simp; omega
          · obtain ⟨k', nd, hk', hnd, hl, hkid⟩ := r3 (k - 1 - l.size) (by omega) (by omega)
            refine ⟨k' + 1 + l.size, nd, by omega, ?_, hl, ?_⟩
            · rw [show k' + 1 + l.size = (k' + l.size) + 1 by omega, List.getElem?_cons_succ]
              rw [List.getElem?_append_right (by rw [hsl]; omega), hsl]
              rw [show k' + l.size - l.size = k' by omega]
              exact hnd
            · rcases hkid with h | h
              · left; rw [h]; congr 1; omega
              · right; rw [h]; congr 1; omega

/-- the arrays of any tree built by the model are a well-formed scikit-learn tree over one feature -/
theorem toArrays_wf (T : DTree) : WF (toArrays T).1 1 := by
  obtain ⟨h1, h2, h3⟩ := flatten_blockOk T 0
  have hlen : ((flatten T 0).map (·.1)).length = T.size := by simp [flatten_length]
  have hp := size_pos T
  refine ⟨by simp [toArrays, flatten_length]; exact hp, ?_, ?_, ?_⟩
  · intro i _ nd hnd
    rcases h1 i nd hnd with h | h
    · left; exact h
    · right
      simp only [Nat.zero_add] at h
      simp only [toArrays]
      refine ⟨h.1, h.2.1, h.2.2.1, h.2.2.2.1, h.2.2.2.2.1, by omega, by omega⟩
  · intro i _ j _ a b ha hb hne hla hlb
    exact h2 i j a b ha hb hne hla hlb
  · intro j hj0 hjn
    obtain ⟨k', nd, hk', hnd, hl, hkid⟩ := h3 j hj0 hjn
    simp only [Nat.zero_add] at hkid
    exact ⟨k', hk', nd, hnd, hl, hkid⟩

end MlVerif.Digitize
