/-
C20 — helper lemmas for the time-series framing model (core Lean only).
Slicing inside the bounds, the column-write loop (`writeAll`) and the generic frame theorem, stated
for any branch whose regenerated bounds satisfy `Facts`.
-/
import MlVerif.Model.TimeSeries
namespace MlVerif.TimeSeries

/-! ### slicing -/

theorem normIdx_inrange (len : Nat) (i : Int) (h0 : 0 ≤ i) (h1 : i ≤ len) : normIdx len i = i.toNat := by
  unfold normIdx
  have : ¬ i < 0 := by omega
  simp [this]; omega

theorem normIdx_clip (len : Nat) (i : Int) (h1 : (len : Int) ≤ i) : normIdx len i = len := by
  unfold normIdx
  have : ¬ i < 0 := by omega
  simp [this]; omega

theorem pySlice_inrange {α} (l : List α) (a b : Int) (h0 : 0 ≤ a) (hab : a ≤ b) (hb : b ≤ l.length) :
    pySlice l a b = (l.drop a.toNat).take (b - a).toNat := by
  unfold pySlice
  rw [normIdx_inrange _ a h0 (by omega), normIdx_inrange _ b (by omega) hb]
  congr 1; omega

theorem pySlice_inrange_length {α} (l : List α) (a b : Int) (h0 : 0 ≤ a) (hab : a ≤ b) (hb : b ≤ l.length) :
    (pySlice l a b).length = (b - a).toNat := by
  rw [pySlice_inrange l a b h0 hab hb]
  simp; omega

theorem pyRange_mem (lo hi i : Int) : i ∈ pyRange lo hi ↔ lo ≤ i ∧ i < hi := by
  unfold pyRange
  simp only [List.mem_map, List.mem_range]
  constructor
  · rintro ⟨k, hk, rfl⟩; omega
  · intro h; exact ⟨(i - lo).toNat, by omega, by omega⟩

theorem pyRange_nodup_map (lo hi : Int) (f : Int → Int)
    (hinj : ∀ a b, lo ≤ a → a < hi → lo ≤ b → b < hi → f a = f b → a = b) :
    ((pyRange lo hi).map f).Nodup := by
  unfold pyRange
  rw [List.map_map]
  rw [List.Nodup, List.pairwise_map]
  have h := List.pairwise_lt_range (n := (hi - lo).toNat)
  refine List.Pairwise.imp_of_mem ?_ h
  intro a b ha hb hab heq
  simp only [List.mem_range] at ha hb
  have := hinj (lo + a) (lo + b) (by omega) (by omega) (by omega) (by omega) heq
  omega

/-! ### column writes -/

theorem writeCol_ok (T : Table) (rowLo c : Int) (rhs : List Cell) (hc0 : 0 ≤ c) (hc1 : c < T.cols.length)
    (hlen : rhs.length = T.rows - normIdx T.rows rowLo) :
    writeCol T rowLo c rhs = .ok ⟨T.rows, T.cols.set c.toNat
      (((T.cols[c.toNat]?).getD []).take (normIdx T.rows rowLo) ++ rhs)⟩ := by
  unfold writeCol
  have h1 : ¬ c < 0 := by omega
  have h2 : ¬ ((T.cols.length : Int) ≤ c) := by omega
  simp [h1, h2, hlen]

/-- all writes of a loop land in distinct in-range columns with right-hand sides of the right length:
the loop succeeds, keeps the shape, every written column is `old[:first] ++ rhs`, the others are untouched -/
theorem writeAll_spec (its : List (Int × Int × List Cell)) :
    ∀ (T : Table) (R first : Nat), T.rows = R → (∀ col ∈ T.cols, col.length = R) → first ≤ R →
    (∀ it ∈ its, normIdx R it.1 = first ∧ 0 ≤ it.2.1 ∧ it.2.1 < T.cols.length ∧ it.2.2.length = R - first) →
    (its.map (fun it => it.2.1)).Nodup →
    ∃ T', writeAll its T = .ok T' ∧ T'.rows = R ∧ T'.cols.length = T.cols.length ∧
      (∀ col ∈ T'.cols, col.length = R) ∧
      (∀ it ∈ its, T'.cols[it.2.1.toNat]? = some (((T.cols[it.2.1.toNat]?).getD []).take first ++ it.2.2)) ∧
      (∀ j : Nat, (∀ it ∈ its, it.2.1.toNat ≠ j) → T'.cols[j]? = T.cols[j]?) := by
  induction its with
  | nil =>
    intro T R first hR hwf _ _ _
    exact ⟨T, rfl, hR, rfl, hwf, by simp, by simp⟩
  | cons it rest ih =>
    intro T R first hR hwf hfr hits hnd
    obtain ⟨rowLo, c, rhs⟩ := it
    have hit := hits (rowLo, c, rhs) (by simp)
    simp only at hit
    obtain ⟨hn, hc0, hc1, hl⟩ := hit
    have hcn : c.toNat < T.cols.length := by omega
    have hw := writeCol_ok T rowLo c rhs hc0 hc1 (by rw [hR, hn]; exact hl)
    rw [hR, hn] at hw
    have hold : ((T.cols[c.toNat]?).getD []).length = R := by
      rw [List.getElem?_eq_getElem hcn]; simp; exact hwf _ (List.getElem_mem _)
    let T1 : Table := ⟨R, T.cols.set c.toNat (((T.cols[c.toNat]?).getD []).take first ++ rhs)⟩
    have hT1wf : ∀ col ∈ T1.cols, col.length = R := by
      intro col hcol
      rcases List.mem_or_eq_of_mem_set hcol with h | h
      · exact hwf col h
      · rw [h]; simp [hold]; omega
    have hT1len : T1.cols.length = T.cols.length := by simp [T1]
    simp only [List.map_cons, List.nodup_cons] at hnd
    obtain ⟨hnotin, hnd'⟩ := hnd
    have hrest : ∀ it ∈ rest, normIdx R it.1 = first ∧ 0 ≤ it.2.1 ∧ it.2.1 < T1.cols.length ∧ it.2.2.length = R - first := by
      intro it' hit'
      have := hits it' (by simp [hit'])
      rw [hT1len]; exact this
    obtain ⟨T', hT', hrows, hlen', hwf', hset, hother⟩ := ih T1 R first rfl hT1wf hfr hrest hnd'
    refine ⟨T', ?_, hrows, by rw [hlen', hT1len], hwf', ?_, ?_⟩
    · simp only [writeAll, hw]; exact hT'
    · intro it' hit'
      simp only [List.mem_cons] at hit'
      rcases hit' with rfl | hit'
      · -- the head item: untouched by the rest
        have hne : ∀ it ∈ rest, it.2.1.toNat ≠ c.toNat := by
          intro it2 h2 heq
          have h3 := (hrest it2 h2).2.1
          have : it2.2.1 = c := by omega
          exact hnotin (List.mem_map.mpr ⟨it2, h2, this⟩)
        rw [hother c.toNat hne]
        simp [T1, hcn]
      · have := hset it' hit'
        rw [this]
        have hne : it'.2.1.toNat ≠ c.toNat := by
          intro heq
          have h3 := (hrest it' hit').2.1
          have : it'.2.1 = c := by omega
          exact hnotin (List.mem_map.mpr ⟨it', hit', this⟩)
        simp [T1, List.getElem?_set_ne (Ne.symm hne)]
    · intro j hj
      have hjc : c.toNat ≠ j := hj (rowLo, c, rhs) (by simp)
      rw [hother j (fun it' h' => hj it' (by simp [h']))]
      simp [T1, List.getElem?_set_ne hjc]

/-- the loop `for i in range(lo, hi): T[rowLo i:, col i] = rhs i` -/
theorem loop_spec (T : Table) (R pad : Nat) (lo hi : Int) (rowLo col : Int → Int) (rhs : Int → List Cell)
    (hR : T.rows = R) (hwf : ∀ c ∈ T.cols, c.length = R) (hpad : pad ≤ R)
    (h : ∀ i, lo ≤ i → i < hi → normIdx R (rowLo i) = pad ∧ 0 ≤ col i ∧ col i < T.cols.length ∧
      (rhs i).length = R - pad)
    (hinj : ∀ a b, lo ≤ a → a < hi → lo ≤ b → b < hi → col a = col b → a = b) :
    ∃ T', writeAll ((pyRange lo hi).map (fun i => (rowLo i, col i, rhs i))) T = .ok T' ∧ T'.rows = R ∧
      T'.cols.length = T.cols.length ∧ (∀ c ∈ T'.cols, c.length = R) ∧
      (∀ i, lo ≤ i → i < hi →
        T'.cols[(col i).toNat]? = some (((T.cols[(col i).toNat]?).getD []).take pad ++ rhs i)) ∧
      (∀ j : Nat, (∀ i, lo ≤ i → i < hi → (col i).toNat ≠ j) → T'.cols[j]? = T.cols[j]?) := by
  have hits : ∀ it ∈ (pyRange lo hi).map (fun i => (rowLo i, col i, rhs i)),
      normIdx R it.1 = pad ∧ 0 ≤ it.2.1 ∧ it.2.1 < T.cols.length ∧ it.2.2.length = R - pad := by
    intro it hit
    simp only [List.mem_map] at hit
    obtain ⟨i, hi', rfl⟩ := hit
    have := (pyRange_mem lo hi i).mp hi'
    exact h i this.1 this.2
  have hnd : (((pyRange lo hi).map (fun i => (rowLo i, col i, rhs i))).map (fun it => it.2.1)).Nodup := by
    rw [List.map_map]
    exact pyRange_nodup_map lo hi _ hinj
  obtain ⟨T', h1, h2, h3, h4, h5, h6⟩ := writeAll_spec _ T R pad hR hwf hpad hits hnd
  refine ⟨T', h1, h2, h3, h4, ?_, ?_⟩
  · intro i hi1 hi2
    exact h5 (rowLo i, col i, rhs i) (List.mem_map.mpr ⟨i, (pyRange_mem lo hi i).mpr ⟨hi1, hi2⟩, rfl⟩)
  · intro j hj
    apply h6
    intro it hit
    simp only [List.mem_map] at hit
    obtain ⟨i, hi', rfl⟩ := hit
    have := (pyRange_mem lo hi i).mp hi'
    exact hj i this.1 this.2

end MlVerif.TimeSeries
