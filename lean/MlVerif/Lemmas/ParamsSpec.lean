/-
C01 — specification-level definitions (path update `Upd`, leaf of an advertised key `LeafOf`) and the lemmas
that connect the string-keyed `set_params` of the model with them.  Core Lean only.
-/
import MlVerif.Lemmas.Params

namespace MlVerif.Params
open MlVerif.Gen.C01

/-! ### routing of indexed keys -/

theorem pySplitI_one_clean (a s : Key) (h : cleanName a = true) :
    pySplitI sep2 1 (a ++ sep2 ++ s) = [a, s] := by
  have e : pySplitI sep2 1 (a ++ sep2 ++ s) = pySplit sep2 1 (a ++ sep2 ++ s) := by simp [pySplitI]
  rw [e, pySplit, splitFirst_clean a s h]
  rfl

/-- the slice offset written in the source, evaluated at `len(si) = 2`, is `len(prefix) + len(si[0]) + len("__")` -/
theorem stacking_subkey_offset (L : Nat) :
    stackingSubkeyFrom stackingD 2 (L : Int) = ((stackingGetPrefix.length + L + stackingGetSep.length : Nat) : Int) := by
  unfold stackingSubkeyFrom stackingD
  simp [stackingGetPrefix, stackingGetSep]
  try omega

theorem stacking_split_offset : stackingSplitFrom stackingD = (stackingGetPrefix.length : Int) := by
  unfold stackingSplitFrom stackingD
  simp [stackingGetPrefix]

/-- **indexed keys, every index**: `models_<i>__<sub>` is routed to member `i` with sub-key `<sub>` -/
theorem stackingRoute_index (i n : Nat) (s : Key) (h : i < n) :
    stackingRoute (stackingGetPrefix ++ showNat i ++ stackingGetSep ++ s) n = .ok (i, s) := by
  have hsep : stackingGetSep = sep2 := rfl
  have hsep' : stackingSplitSep = sep2 := rfl
  have hmax : stackingSplitMax = 1 := rfl
  unfold stackingRoute
  rw [stacking_split_offset]
  have e1 : stackingGetPrefix ++ showNat i ++ stackingGetSep ++ s
      = stackingGetPrefix ++ (showNat i ++ sep2 ++ s) := by simp [hsep]
  rw [e1, sliceFrom_append, hsep', hmax, pySplitI_one_clean _ _ (showNat_clean i)]
  simp only [List.headD_cons, parseNat_showNat, h, ↓reduceIte, List.length_cons, List.length_nil]
  have := stacking_subkey_offset (showNat i).length
  rw [show ((0 + 1 + 1 : Nat) : Int) = 2 from rfl]
  rw [this, sliceFrom_nat]
  have e2 : stackingGetPrefix ++ (showNat i ++ sep2 ++ s) = (stackingGetPrefix ++ showNat i ++ stackingGetSep) ++ s := by
    simp [hsep]
  rw [e2, List.drop_left' (by simp [Nat.add_assoc])]

/-! ### one call, one key: the plan of every protocol -/

theorem foldlM_single {α β} (f : β → α → Except Err β) (b : β) (a : α) : [a].foldlM f b = f b a := by
  simp [List.foldlM]

theorem planBase_direct (kw : KW) (k : Key) (v : PVal) (hc : cleanName k = true)
    (hk : (keys kw).contains k = true) :
    planBase kw [(k, v)] = .ok { kw := replaceKey k v kw, groups := [] } := by
  unfold planBase
  rw [foldlM_single]
  simp only [baseStep, splitFirst_clean_none k hc, hk, ↓reduceIte]

theorem planBase_nested (kw : KW) (name s : Key) (v : PVal) (hc : cleanName name = true)
    (hk : (keys kw).contains name = true) :
    planBase kw [(name ++ sep2 ++ s, v)] = .ok { kw := kw, groups := [(.slot name, [(s, v)])] } := by
  unfold planBase
  rw [foldlM_single]
  simp only [baseStep, splitFirst_clean name s hc, hk, ↓reduceIte, addTo]

theorem skbaseSet_existing (kw : KW) (k : Key) (v : PVal) (hk : (keys kw).contains k = true)
    (hn : (keys kw).all skNameOk = true) :
    skbaseSet kw [(k, v)] = .ok (replaceKey k v kw) := by
  have hu : skbaseSetUpdates = true := rfl
  unfold skbaseSet
  simp only [hu, ↓reduceIte, List.foldl_cons, List.foldl_nil, upsert, hk, keys_replaceKey, hn]

theorem kModel_ne_kMethod : (kModel == kMethod) = false := by decide
theorem kMethod_ne_kModel : (kMethod == kModel) = false := by decide
theorem kModels_ne_kMethod : (kModels == kMethod) = false := by decide
theorem kMethod_ne_kModels : (kMethod == kModels) = false := by decide

theorem learner_prefix_facts (s : Key) :
    (learnerGetPrefix ++ s == kModel) = false ∧ (learnerGetPrefix ++ s == kMethod) = false ∧
    startsWith (learnerGetPrefix ++ s) learnerPrefixTest = true ∧
    sliceFrom (learnerGetPrefix ++ s) (learnerSubkeyFrom learnerD) = s := by
  refine ⟨by simp [learnerGetPrefix, kModel], by simp [learnerGetPrefix, kMethod], ?_, ?_⟩
  · have : learnerPrefixTest = learnerGetPrefix := rfl
    rw [this]; exact startsWith_append _ _
  · have : learnerSubkeyFrom learnerD = (learnerGetPrefix.length : Int) := by
      unfold learnerSubkeyFrom learnerD; simp [learnerGetPrefix]
    rw [this, sliceFrom_append]

theorem planLearner_model (kw : KW) (v m : PVal) (hm : kw.lookup kMethod = some m) :
    planLearner kw [(kModel, v)] =
      .ok ({ kw := replaceKey kModel v kw, groups := [(.slot kModel, [])] }, m) := by
  unfold planLearner
  simp only [List.lookup, beq_self_eq_true, kMethod_ne_kModel, hm, List.filter, Bool.not_true, Bool.false_and,
    List.isEmpty_nil, ↓reduceIte, List.map_nil]
  rfl

theorem planLearner_method (kw : KW) (v : PVal) :
    planLearner kw [(kMethod, v)] = .ok ({ kw := kw, groups := [(.slot kModel, [])] }, v) := by
  unfold planLearner
  simp only [List.lookup, beq_self_eq_true, kModel_ne_kMethod, List.filter, Bool.not_true, Bool.and_false,
    List.isEmpty_nil, ↓reduceIte, List.map_nil]
  rfl

theorem planLearner_own (kw : KW) (k : Key) (v m : PVal) (hm : kw.lookup kMethod = some m)
    (h1 : (k == kModel) = false) (h2 : (k == kMethod) = false) (h3 : startsWith k learnerPrefixTest = false)
    (hk : (keys kw).contains k = true) (hn : (keys kw).all skNameOk = true) :
    planLearner kw [(k, v)] = .ok ({ kw := replaceKey k v kw, groups := [(.slot kModel, [])] }, m) := by
  have hr : learnerRejectsOwnKeys = false := rfl
  have h1' : (kModel == k) = false := by rw [Bool.beq_comm]; exact h1
  have h2' : (kMethod == k) = false := by rw [Bool.beq_comm]; exact h2
  unfold planLearner
  simp only [List.lookup, h1', h2', h1, h2, hm, List.filter, Bool.not_false, Bool.and_self, h3,
    List.isEmpty_cons, List.isEmpty_nil, ↓reduceIte, List.map_nil, Bool.false_eq_true, hr,
    skbaseSet_existing kw k v hk hn]
  rfl

theorem planLearner_nested (kw : KW) (s : Key) (v m : PVal) (hm : kw.lookup kMethod = some m) :
    planLearner kw [(learnerGetPrefix ++ s, v)] = .ok ({ kw := kw, groups := [(.slot kModel, [(s, v)])] }, m) := by
  obtain ⟨h1, h2, h3, h4⟩ := learner_prefix_facts s
  have h1' : (kModel == learnerGetPrefix ++ s) = false := by rw [Bool.beq_comm]; exact h1
  have h2' : (kMethod == learnerGetPrefix ++ s) = false := by rw [Bool.beq_comm]; exact h2
  unfold planLearner
  simp only [List.lookup, h1', h2', h1, h2, hm, List.filter, Bool.not_false, Bool.and_self, h3, Bool.not_true,
    List.isEmpty_cons, List.isEmpty_nil, ↓reduceIte, List.map_cons, List.map_nil, h4]
  rfl


theorem stacking_prefix_facts (t : Key) :
    (stackingGetPrefix ++ t == kModels) = false ∧ (stackingGetPrefix ++ t == kMethod) = false ∧
    startsWith (stackingGetPrefix ++ t) stackingPrefixTest = true := by
  refine ⟨by simp [stackingGetPrefix, kModels], by simp [stackingGetPrefix, kMethod], ?_⟩
  have : stackingPrefixTest = stackingGetPrefix := rfl
  rw [this]; exact startsWith_append _ _

theorem planStacking_models (kw : KW) (l : List PVal) (hk : (keys kw).contains kModels = true) :
    planStacking kw [(kModels, .ests l)] = .ok { kw := replaceKey kModels (.ests l) kw, groups := [] } := by
  unfold planStacking
  simp only [List.lookup, beq_self_eq_true, kMethod_ne_kModels, List.filter, Bool.not_true, Bool.false_and,
    List.isEmpty_nil, ↓reduceIte, List.foldlM]
  simp only [bind, Except.bind, pure, Except.pure, lookup_replaceKey_self kModels (.ests l) kw hk]

theorem planStacking_method (kw : KW) (v : PVal) (l : List PVal) (hl : kw.lookup kModels = some (.ests l)) :
    planStacking kw [(kMethod, v)] = .ok { kw := replaceKey kMethod v kw, groups := [] } := by
  have hne : kModels ≠ kMethod := by decide
  unfold planStacking
  simp only [List.lookup, beq_self_eq_true, kModels_ne_kMethod, List.filter, Bool.not_true, Bool.and_false,
    List.isEmpty_nil, ↓reduceIte, List.foldlM]
  simp only [bind, Except.bind, pure, Except.pure, lookup_replaceKey_ne kMethod kModels v kw hne, hl]

theorem planStacking_own (kw : KW) (k : Key) (v : PVal) (l : List PVal) (hl : kw.lookup kModels = some (.ests l))
    (h1 : (k == kModels) = false) (h2 : (k == kMethod) = false) (h3 : startsWith k stackingPrefixTest = false)
    (hk : (keys kw).contains k = true) (hn : (keys kw).all skNameOk = true) :
    planStacking kw [(k, v)] = .ok { kw := replaceKey k v kw, groups := [] } := by
  have hr : stackingRejectsOwnKeys = false := rfl
  have h1' : (kModels == k) = false := by rw [Bool.beq_comm]; exact h1
  have h2' : (kMethod == k) = false := by rw [Bool.beq_comm]; exact h2
  have hne : kModels ≠ k := by simpa using h1'
  unfold planStacking
  simp only [List.lookup, h1', h2', h1, h2, List.filter, Bool.not_false, Bool.and_self, h3,
    List.isEmpty_cons, ↓reduceIte, Bool.false_eq_true, hr,
    skbaseSet_existing kw k v hk hn]
  simp only [bind, Except.bind, pure, Except.pure, lookup_replaceKey_ne k kModels v kw hne, hl, List.foldlM]

theorem planStacking_nested (kw : KW) (i : Nat) (s : Key) (v : PVal) (l : List PVal)
    (hl : kw.lookup kModels = some (.ests l)) (hi : i < l.length) :
    planStacking kw [(stackingGetPrefix ++ showNat i ++ stackingGetSep ++ s, v)] =
      .ok { kw := kw, groups := [(.idx kModels i, [(s, v)])] } := by
  have e : stackingGetPrefix ++ showNat i ++ stackingGetSep ++ s = stackingGetPrefix ++ (showNat i ++ stackingGetSep ++ s) := by
    simp
  obtain ⟨h1, h2, h3⟩ := stacking_prefix_facts (showNat i ++ stackingGetSep ++ s)
  rw [← e] at h1 h2 h3
  have h1' : (kModels == stackingGetPrefix ++ showNat i ++ stackingGetSep ++ s) = false := by rw [Bool.beq_comm]; exact h1
  have h2' : (kMethod == stackingGetPrefix ++ showNat i ++ stackingGetSep ++ s) = false := by rw [Bool.beq_comm]; exact h2
  unfold planStacking
  simp only [List.lookup, h1', h2', h1, h2, List.filter, Bool.not_false, Bool.and_self, h3, Bool.not_true,
    List.isEmpty_nil, ↓reduceIte, hl]
  simp only [bind, Except.bind, List.foldlM, stackStep, Except.map, addTo, pure, Except.pure]
  rw [hl]
  simp only [stackingRoute_index i l.length s hi]


theorem planCak_direct (kw : KW) (k : Key) (v : PVal) (hd : cakShallowKeys.contains k = true)
    (hk : (keys kw).contains k = true) :
    planCak kw [(k, v)] =
      .ok { kw := replaceKey k v kw, groups := [(.slot kClus, []), (.slot kEstimator, [])] } := by
  unfold planCak
  simp only [List.foldlM, cakStep, hd, hk, Bool.and_self, ↓reduceIte, bind, Except.bind, pure, Except.pure]

theorem planCak_est (kw : KW) (s : Key) (v : PVal)
    (hk : (keys kw).contains (cakGetEstPrefix ++ s) = false) :
    planCak kw [(cakGetEstPrefix ++ s, v)] =
      .ok { kw := kw, groups := [(.slot kClus, []), (.slot kEstimator, [(s, v)])] } := by
  have h1 : startsWith (cakGetEstPrefix ++ s) cakEstPrefixTest = true := by
    have : cakEstPrefixTest = cakGetEstPrefix := rfl
    rw [this]; exact startsWith_append _ _
  have h2 : sliceFrom (cakGetEstPrefix ++ s) cakEstSubkeyFrom = s := by
    have : cakEstSubkeyFrom = (cakGetEstPrefix.length : Int) := by
      unfold cakEstSubkeyFrom; simp [cakGetEstPrefix]
    rw [this, sliceFrom_append]
  unfold planCak
  simp only [List.foldlM, cakStep, hk, Bool.and_false, Bool.false_eq_true, ↓reduceIte, h1, h2, bind, Except.bind, pure,
    Except.pure, List.nil_append]

theorem planCak_clus (kw : KW) (s : Key) (v : PVal)
    (hk : (keys kw).contains (cakGetClusPrefix ++ s) = false) :
    planCak kw [(cakGetClusPrefix ++ s, v)] =
      .ok { kw := kw, groups := [(.slot kClus, [(s, v)]), (.slot kEstimator, [])] } := by
  have h0 : startsWith (cakGetClusPrefix ++ s) cakEstPrefixTest = false := by
    simp [startsWith, cakGetClusPrefix, cakEstPrefixTest, List.isPrefixOf]
  have h1 : startsWith (cakGetClusPrefix ++ s) cakClusPrefixTest = true := by
    have : cakClusPrefixTest = cakGetClusPrefix := rfl
    rw [this]; exact startsWith_append _ _
  have h2 : sliceFrom (cakGetClusPrefix ++ s) cakClusSubkeyFrom = s := by
    have : cakClusSubkeyFrom = (cakGetClusPrefix.length : Int) := by
      unfold cakClusSubkeyFrom; simp [cakGetClusPrefix]
    rw [this, sliceFrom_append]
  unfold planCak
  simp only [List.foldlM, cakStep, hk, Bool.and_false, Bool.false_eq_true, ↓reduceIte, h0, h1, h2, bind, Except.bind, pure,
    Except.pure, List.nil_append]

/-! ### the abstract specification: update of one slot along a path -/

/-- the prefix under which the parameters of the estimator stored in `slot` are advertised / addressed -/
def slotPrefix (p : Proto) (slot : Key) : Option Key :=
  match p with
  | .base => some (slot ++ sep2)
  | .learner => if slot == kModel then some learnerGetPrefix else none
  | .cak => if slot == kClus then some cakGetClusPrefix
            else if slot == kEstimator then some cakGetEstPrefix else none
  | _ => none

/-- what a protocol requires of a value stored directly in one of its slots (`set_params` raises otherwise) -/
def directValueOk (p : Proto) (k : Key) (v : PVal) : Bool :=
  match p with
  | .learner => if k == kModel then isEst v else if k == kMethod then methodOk v else true
  | .stacking => if k == kModels then (match v with | .ests l => l.all isEst | _ => false) else true
  | .cak => isEst v
  | _ => true

/-- `Upd e k v e'`: `e'` is `e` with the one slot addressed by the key `k` replaced by `v`; every other slot,
every other member and every object id is the same.  This is the abstract dictionary-tree update the
string-keyed `set_params` has to implement. -/
inductive Upd : PVal → Key → PVal → PVal → Prop
  | direct {i c p f kw k v} : (keys kw).contains k = true → directValueOk p k v = true →
      Upd (.est i c p f kw) k v (.est i c p f (replaceKey k v kw))
  | slot {i c p f kw slot pfx s v ch ch'} : slotPrefix p slot = some pfx → kw.lookup slot = some ch →
      isEst ch = true → Upd ch s v ch' →
      Upd (.est i c p f kw) (pfx ++ s) v (.est i c p f (replaceKey slot ch' kw))
  | idx {i c f kw j l s v ch ch'} : kw.lookup kModels = some (.ests l) → l[j]? = some ch →
      isEst ch = true → Upd ch s v ch' →
      Upd (.est i c .stacking f kw) (stackingGetPrefix ++ showNat j ++ stackingGetSep ++ s) v
        (.est i c .stacking f (replaceKey kModels (.ests (l.set j ch')) kw))

/-- `LeafOf e k p slot`: the advertised key `k` of `e` addresses the slot `slot` of an estimator whose protocol is `p` -/
inductive LeafOf : PVal → Key → Proto → Key → Prop
  | direct {i c p f kw k} : (keys kw).contains k = true → LeafOf (.est i c p f kw) k p k
  | slot {i c p f kw slot pfx s ch p' k'} : slotPrefix p slot = some pfx → kw.lookup slot = some ch →
      isEst ch = true → LeafOf ch s p' k' → LeafOf (.est i c p f kw) (pfx ++ s) p' k'
  | idx {i c f kw j l s ch p' k'} : kw.lookup kModels = some (.ests l) → l[j]? = some ch →
      isEst ch = true → LeafOf ch s p' k' →
      LeafOf (.est i c .stacking f kw) (stackingGetPrefix ++ showNat j ++ stackingGetSep ++ s) p' k'

theorem upd_of_leaf {e k p slot} (h : LeafOf e k p slot) (v : PVal) (hv : directValueOk p slot v = true) :
    ∃ e', Upd e k v e' := by
  induction h with
  | direct hk => exact ⟨_, Upd.direct hk hv⟩
  | slot hp hl he _ ih =>
    obtain ⟨c', hc'⟩ := ih hv
    exact ⟨_, Upd.slot hp hl he hc'⟩
  | idx hl hj he _ ih =>
    obtain ⟨c', hc'⟩ := ih hv
    exact ⟨_, Upd.idx hl hj he hc'⟩

/-! ### one nested call -/

theorem applyGroup_empty (rec : PVal → KW → Except Err PVal) (kw : KW) (sel : Sel) (ch : PVal)
    (hs : selGet kw sel = some ch) (he : isEst ch = true) : applyGroup rec kw (sel, []) = .ok kw := by
  cases ch with
  | est i c p f k => simp [applyGroup, hs]
  | atom _ _ => simp [isEst] at he
  | ests _ => simp [isEst] at he

theorem applyGroup_rec (rec : PVal → KW → Except Err PVal) (kw : KW) (sel : Sel) (ch ch' : PVal) (sub : KW)
    (hs : selGet kw sel = some ch) (he : isEst ch = true) (hne : sub.isEmpty = false)
    (hr : rec ch sub = .ok ch') : applyGroup rec kw (sel, sub) = .ok (selPut kw sel ch') := by
  cases ch with
  | est i c p f k => simp [applyGroup, hs, hne, hr, Except.map]
  | atom _ _ => simp [isEst] at he
  | ests _ => simp [isEst] at he

theorem setPF_step (n : Nat) (i : Nat) (c : String) (p : Proto) (f : Bool) (kw kvs : KW) (pl : Plan)
    (m : Option PVal) (kw' kw'' : KW) (hne : kvs.isEmpty = false)
    (hp : planOf p kw kvs = .ok (pl, m))
    (hg : pl.groups.foldlM (applyGroup (setPF n)) pl.kw = .ok kw')
    (hf : finish kw' m = .ok kw'') :
    setPF (n + 1) (.est i c p f kw) kvs = .ok (.est i c p f kw'') := by
  simp [setPF, hne, hp, hg, hf, Except.bind, Except.map]

/-! ### well-formedness, unfolded -/

theorem wf_est (i : Nat) (c : String) (p : Proto) (f : Bool) (kw : KW) :
    wf (.est i c p f kw) = (shapeOk p kw && wfKw kw) := by simp [wf]

theorem wfKw_lookup (kw : KW) (k : Key) (v : PVal) (h : wfKw kw = true) (hl : kw.lookup k = some v) :
    wf v = true := by
  induction kw with
  | nil => simp [List.lookup] at hl
  | cons hd tl ih =>
    obtain ⟨k', v'⟩ := hd
    simp only [wfKw, Bool.and_eq_true] at h
    simp only [List.lookup] at hl
    split at hl
    · simp at hl; subst hl; exact h.1
    · exact ih h.2 hl

theorem wfL_get (l : List PVal) (j : Nat) (v : PVal) (h : wfL l = true) (hj : l[j]? = some v) : wf v = true := by
  induction l generalizing j with
  | nil => simp at hj
  | cons hd tl ih =>
    simp only [wfL, Bool.and_eq_true] at h
    cases j with
    | zero => simp at hj; subst hj; exact h.1
    | succ j => exact ih j h.2 (by simpa using hj)
theorem all_of_contains {P : Key → Bool} (ks : List Key) (k : Key) (h : ks.all P = true) (hk : ks.contains k = true) :
    P k = true := by
  simp only [List.all_eq_true] at h
  exact h k (by simpa using hk)

theorem single_nonempty (k : Key) (v : PVal) : ([(k, v)] : KW).isEmpty = false := rfl

theorem length_lt_of_append (pfx s : Key) (n : Nat) (h : (pfx ++ s).length < n + 1) (hp : 0 < pfx.length) : s.length < n := by
  simp at h; omega

/-- direct assignment, protocols of scikit-learn -/
theorem setPF_direct_base (n i : Nat) (c : String) (p : Proto) (f : Bool) (kw : KW) (k : Key) (v : PVal)
    (hp : p = .base ∨ p = .anmf) (hw : shapeOk p kw = true) (hk : (keys kw).contains k = true) :
    setPF (n + 1) (.est i c p f kw) [(k, v)] = .ok (.est i c p f (replaceKey k v kw)) := by
  have hc : cleanName k = true := by
    rcases hp with rfl | rfl <;>
    · simp only [shapeOk, Bool.and_eq_true] at hw
      exact all_of_contains _ _ hw.2 hk
  apply setPF_step n i c p f kw _ { kw := replaceKey k v kw, groups := [] } none _ _ (single_nonempty k v)
  · rcases hp with rfl | rfl <;> simp [planOf, planBase_direct kw k v hc hk, Except.map]
  · rfl
  · rfl

theorem setPF_direct_skbase (n i : Nat) (c : String) (f : Bool) (kw : KW) (k : Key) (v : PVal)
    (hw : shapeOk .skbase kw = true) (hk : (keys kw).contains k = true) :
    setPF (n + 1) (.est i c .skbase f kw) [(k, v)] = .ok (.est i c .skbase f (replaceKey k v kw)) := by
  simp only [shapeOk, Bool.and_eq_true] at hw
  apply setPF_step n i c .skbase f kw _ { kw := replaceKey k v kw, groups := [] } none _ _ (single_nonempty k v)
  · simp [planOf, skbaseSet_existing kw k v hk hw.2, Except.map]
  · rfl
  · rfl

/-- what `shapeOk .learner` provides -/
theorem learner_shape (kw : KW) (hw : shapeOk .learner kw = true) :
    (∃ mo, kw.lookup kModel = some mo ∧ isEst mo = true) ∧
    (∃ m, kw.lookup kMethod = some m ∧ methodOk m = true) ∧
    (keys kw).all skNameOk = true ∧
    (∀ k, (keys kw).contains k = true → (k == kModel) = false → (k == kMethod) = false →
        startsWith k learnerPrefixTest = false) := by
  simp only [shapeOk, Bool.and_eq_true] at hw
  obtain ⟨hnd, ⟨h1, h2⟩, h3⟩ := hw
  refine ⟨?_, ?_, ?_, ?_⟩
  · cases h : kw.lookup kModel with
    | none => simp [h] at h1
    | some mo => exact ⟨mo, rfl, by simpa [h] using h1⟩
  · cases h : kw.lookup kMethod with
    | none => simp [h] at h2
    | some m => exact ⟨m, rfl, by simpa [h] using h2⟩
  · simp only [List.all_eq_true] at h3 ⊢
    intro k hk
    have := h3 k hk
    simp only [Bool.or_eq_true, Bool.and_eq_true] at this
    rcases this with (h | h) | h
    · have : k = kModel := by simpa using h
      subst this; decide
    · have : k = kMethod := by simpa using h
      subst this; decide
    · exact h.1
  · intro k hk n1 n2
    have := all_of_contains (P := fun k => k == kModel || k == kMethod || (skNameOk k && !startsWith k learnerPrefixTest)) _ _ h3 hk
    simp only [n1, n2, Bool.false_or, Bool.and_eq_true, Bool.not_eq_true'] at this
    exact this.2

theorem methodCheck_of_ok (m : PVal) (h : methodOk m = true) : methodCheck m = .ok () := by
  unfold methodOk at h
  cases hm : methodCheck m with
  | ok u => cases u; rfl
  | error e => simp [hm] at h

theorem finish_same (kw : KW) (m : PVal) (hm : kw.lookup kMethod = some m) (ho : methodOk m = true) :
    finish kw (some m) = .ok kw := by
  simp [finish, methodCheck_of_ok m ho, Except.map, replaceKey_same kMethod m kw hm]

theorem setPF_direct_learner (n i : Nat) (c : String) (f : Bool) (kw : KW) (k : Key) (v : PVal)
    (hw : shapeOk .learner kw = true) (hk : (keys kw).contains k = true)
    (hv : directValueOk .learner k v = true) :
    setPF (n + 1) (.est i c .learner f kw) [(k, v)] = .ok (.est i c .learner f (replaceKey k v kw)) := by
  obtain ⟨⟨mo, hmo, hmoe⟩, ⟨m, hm, hmok⟩, hnames, hown⟩ := learner_shape kw hw
  by_cases h1 : (k == kModel) = true
  · have e : k = kModel := by simpa using h1
    subst e
    have hve : isEst v = true := by simpa [directValueOk] using hv
    have hne : kMethod ≠ kModel := by decide
    apply setPF_step n i c .learner f kw _ { kw := replaceKey kModel v kw, groups := [(.slot kModel, [])] } (some m)
      (replaceKey kModel v kw) _ (single_nonempty _ v)
    · simp [planOf, planLearner_model kw v m hm, Except.map]
    · rw [foldlM_single]
      exact applyGroup_empty _ _ _ v (by simp [selGet, lookup_replaceKey_self kModel v kw hk]) hve
    · exact finish_same _ m (by rw [lookup_replaceKey_ne _ _ _ _ hne]; exact hm) hmok
  · have h1 : (k == kModel) = false := by simpa using h1
    by_cases h2 : (k == kMethod) = true
    · have e : k = kMethod := by simpa using h2
      subst e
      have hvm : methodOk v = true := by simpa [directValueOk, h1] using hv
      apply setPF_step n i c .learner f kw _ { kw := kw, groups := [(.slot kModel, [])] } (some v) kw _ (single_nonempty _ v)
      · simp [planOf, planLearner_method kw v, Except.map]
      · rw [foldlM_single]
        exact applyGroup_empty _ _ _ mo (by simp [selGet, hmo]) hmoe
      · simp [finish, methodCheck_of_ok v hvm, Except.map]
    · have h2 : (k == kMethod) = false := by simpa using h2
      have hk1 : kModel ≠ k := by intro e; simp [e] at h1
      have hk2 : kMethod ≠ k := by intro e; simp [e] at h2
      apply setPF_step n i c .learner f kw _ { kw := replaceKey k v kw, groups := [(.slot kModel, [])] } (some m)
        (replaceKey k v kw) _ (single_nonempty _ v)
      · simp [planOf, planLearner_own kw k v m hm h1 h2 (hown k hk h1 h2) hk hnames, Except.map]
      · rw [foldlM_single]
        exact applyGroup_empty _ _ _ mo (by simp [selGet, lookup_replaceKey_ne _ _ _ _ hk1, hmo]) hmoe
      · exact finish_same _ m (by rw [lookup_replaceKey_ne _ _ _ _ hk2]; exact hm) hmok

theorem stacking_shape (kw : KW) (hw : shapeOk .stacking kw = true) :
    (∃ l, kw.lookup kModels = some (.ests l) ∧ l.all isEst = true) ∧
    (keys kw).all skNameOk = true ∧
    (∀ k, (keys kw).contains k = true → (k == kModels) = false → (k == kMethod) = false →
        startsWith k stackingPrefixTest = false) := by
  simp only [shapeOk, Bool.and_eq_true] at hw
  obtain ⟨hnd, ⟨h1, h2⟩, h3⟩ := hw
  refine ⟨?_, ?_, ?_⟩
  · cases h : kw.lookup kModels with
    | none => simp [h] at h1
    | some mo =>
      cases mo with
      | ests l => exact ⟨l, rfl, by simpa [h] using h1⟩
      | atom _ _ => simp [h] at h1
      | est _ _ _ _ _ => simp [h] at h1
  · simp only [List.all_eq_true] at h3 ⊢
    intro k hk
    have := h3 k hk
    simp only [Bool.or_eq_true, Bool.and_eq_true] at this
    rcases this with (h | h) | h
    · have : k = kModels := by simpa using h
      subst this; decide
    · have : k = kMethod := by simpa using h
      subst this; decide
    · exact h.1
  · intro k hk n1 n2
    have := all_of_contains (P := fun k => k == kModels || k == kMethod || (skNameOk k && !startsWith k stackingPrefixTest)) _ _ h3 hk
    simp only [n1, n2, Bool.false_or, Bool.and_eq_true, Bool.not_eq_true'] at this
    exact this.2

theorem setPF_direct_stacking (n i : Nat) (c : String) (f : Bool) (kw : KW) (k : Key) (v : PVal)
    (hw : shapeOk .stacking kw = true) (hk : (keys kw).contains k = true)
    (hv : directValueOk .stacking k v = true) :
    setPF (n + 1) (.est i c .stacking f kw) [(k, v)] = .ok (.est i c .stacking f (replaceKey k v kw)) := by
  obtain ⟨⟨l, hl, _⟩, hnames, hown⟩ := stacking_shape kw hw
  apply setPF_step n i c .stacking f kw _ { kw := replaceKey k v kw, groups := [] } none _ _ (single_nonempty k v)
  · by_cases h1 : (k == kModels) = true
    · have e : k = kModels := by simpa using h1
      subst e
      cases v with
      | ests l' => simp [planOf, planStacking_models kw l' hk, Except.map]
      | atom _ _ => simp [directValueOk] at hv
      | est _ _ _ _ _ => simp [directValueOk] at hv
    · have h1 : (k == kModels) = false := by simpa using h1
      by_cases h2 : (k == kMethod) = true
      · have e : k = kMethod := by simpa using h2
        subst e
        simp [planOf, planStacking_method kw v l hl, Except.map]
      · have h2 : (k == kMethod) = false := by simpa using h2
        simp [planOf, planStacking_own kw k v l hl h1 h2 (hown k hk h1 h2) hk hnames, Except.map]
  · rfl
  · rfl

theorem cak_shape (kw : KW) (hw : shapeOk .cak kw = true) :
    (∃ e, kw.lookup kEstimator = some e ∧ isEst e = true) ∧
    (∃ cl, kw.lookup kClus = some cl ∧ isEst cl = true) ∧
    (∀ k, (keys kw).contains k = true → k = kEstimator ∨ k = kClus) := by
  simp only [shapeOk, Bool.and_eq_true] at hw
  obtain ⟨hnd, ⟨h1, h2⟩, h3⟩ := hw
  refine ⟨?_, ?_, ?_⟩
  · cases h : kw.lookup kEstimator with
    | none => simp [h] at h1
    | some mo => exact ⟨mo, rfl, by simpa [h] using h1⟩
  · cases h : kw.lookup kClus with
    | none => simp [h] at h2
    | some mo => exact ⟨mo, rfl, by simpa [h] using h2⟩
  · intro k hk
    have := all_of_contains (P := fun k => k == kEstimator || k == kClus) _ _ h3 hk
    simpa using this

theorem setPF_direct_cak (n i : Nat) (c : String) (f : Bool) (kw : KW) (k : Key) (v : PVal)
    (hw : shapeOk .cak kw = true) (hk : (keys kw).contains k = true)
    (hv : directValueOk .cak k v = true) :
    setPF (n + 1) (.est i c .cak f kw) [(k, v)] = .ok (.est i c .cak f (replaceKey k v kw)) := by
  obtain ⟨⟨e, he, hee⟩, ⟨cl, hcl, hcle⟩, hkeys⟩ := cak_shape kw hw
  have hve : isEst v = true := by simpa [directValueOk] using hv
  have hd : cakShallowKeys.contains k = true := by
    rcases hkeys k hk with rfl | rfl <;> decide
  have hne : kClus ≠ kEstimator := by decide
  apply setPF_step n i c .cak f kw _
    { kw := replaceKey k v kw, groups := [(.slot kClus, []), (.slot kEstimator, [])] } none (replaceKey k v kw) _
    (single_nonempty k v)
  · simp [planOf, planCak_direct kw k v hd hk, Except.map]
  · have g1 : ∃ x, selGet (replaceKey k v kw) (.slot kClus) = some x ∧ isEst x = true := by
      rcases hkeys k hk with rfl | rfl
      · exact ⟨cl, by simp [selGet, lookup_replaceKey_ne _ _ _ _ hne, hcl], hcle⟩
      · exact ⟨v, by simp [selGet, lookup_replaceKey_self _ v kw hk], hve⟩
    have g2 : ∃ x, selGet (replaceKey k v kw) (.slot kEstimator) = some x ∧ isEst x = true := by
      rcases hkeys k hk with rfl | rfl
      · exact ⟨v, by simp [selGet, lookup_replaceKey_self _ v kw hk], hve⟩
      · exact ⟨e, by simp [selGet, lookup_replaceKey_ne _ _ _ _ (Ne.symm hne), he], hee⟩
    obtain ⟨x1, hx1, hx1e⟩ := g1
    obtain ⟨x2, hx2, hx2e⟩ := g2
    simp only [List.foldlM, applyGroup_empty _ _ _ x1 hx1 hx1e, bind, Except.bind, applyGroup_empty _ _ _ x2 hx2 hx2e,
      pure, Except.pure]
  · rfl

theorem setPF_nested_base (n i : Nat) (c : String) (p : Proto) (f : Bool) (kw : KW) (slot s : Key) (v ch ch' : PVal)
    (hp : p = .base ∨ p = .anmf) (hw : shapeOk p kw = true) (hl : kw.lookup slot = some ch) (he : isEst ch = true)
    (hr : setPF n ch [(s, v)] = .ok ch') :
    setPF (n + 1) (.est i c p f kw) [(slot ++ sep2 ++ s, v)] = .ok (.est i c p f (replaceKey slot ch' kw)) := by
  have hk := contains_keys_of_lookup slot ch kw hl
  have hc : cleanName slot = true := by
    rcases hp with rfl | rfl <;>
    · simp only [shapeOk, Bool.and_eq_true] at hw
      exact all_of_contains _ _ hw.2 hk
  apply setPF_step n i c p f kw _ { kw := kw, groups := [(.slot slot, [(s, v)])] } none (replaceKey slot ch' kw) _
    (single_nonempty _ v)
  · rcases hp with rfl | rfl <;> simp only [planOf, planBase_nested kw slot s v hc hk, Except.map]
  · rw [foldlM_single]
    exact applyGroup_rec _ _ _ ch ch' _ (by simp [selGet, hl]) he rfl hr
  · rfl

theorem setPF_nested_learner (n i : Nat) (c : String) (f : Bool) (kw : KW) (s : Key) (v ch ch' : PVal)
    (hw : shapeOk .learner kw = true) (hl : kw.lookup kModel = some ch) (he : isEst ch = true)
    (hr : setPF n ch [(s, v)] = .ok ch') :
    setPF (n + 1) (.est i c .learner f kw) [(learnerGetPrefix ++ s, v)] =
      .ok (.est i c .learner f (replaceKey kModel ch' kw)) := by
  obtain ⟨_, ⟨m, hm, hmok⟩, _, _⟩ := learner_shape kw hw
  have hne : kMethod ≠ kModel := by decide
  apply setPF_step n i c .learner f kw _ { kw := kw, groups := [(.slot kModel, [(s, v)])] } (some m)
    (replaceKey kModel ch' kw) _ (single_nonempty _ v)
  · simp only [planOf, planLearner_nested kw s v m hm, Except.map]
  · rw [foldlM_single]
    exact applyGroup_rec _ _ _ ch ch' _ (by simp [selGet, hl]) he rfl hr
  · exact finish_same _ m (by rw [lookup_replaceKey_ne _ _ _ _ hne]; exact hm) hmok

theorem cak_not_key (kw : KW) (hw : shapeOk .cak kw = true) (k : Key) (h1 : k ≠ kEstimator) (h2 : k ≠ kClus) :
    (keys kw).contains k = false := by
  obtain ⟨_, _, hkeys⟩ := cak_shape kw hw
  cases h : (keys kw).contains k with
  | false => rfl
  | true => rcases hkeys k h with e | e <;> contradiction

theorem setPF_nested_cak_est (n i : Nat) (c : String) (f : Bool) (kw : KW) (s : Key) (v ch ch' : PVal)
    (hw : shapeOk .cak kw = true) (hl : kw.lookup kEstimator = some ch) (he : isEst ch = true)
    (hr : setPF n ch [(s, v)] = .ok ch') :
    setPF (n + 1) (.est i c .cak f kw) [(cakGetEstPrefix ++ s, v)] =
      .ok (.est i c .cak f (replaceKey kEstimator ch' kw)) := by
  obtain ⟨_, ⟨cl, hcl, hcle⟩, _⟩ := cak_shape kw hw
  have hnk := cak_not_key kw hw (cakGetEstPrefix ++ s) (by simp [cakGetEstPrefix, kEstimator]) (by simp [cakGetEstPrefix, kClus])
  apply setPF_step n i c .cak f kw _ { kw := kw, groups := [(.slot kClus, []), (.slot kEstimator, [(s, v)])] } none
    (replaceKey kEstimator ch' kw) _ (single_nonempty _ v)
  · simp only [planOf, planCak_est kw s v hnk, Except.map]
  · have a1 := applyGroup_empty (setPF n) kw (.slot kClus) cl (by simp [selGet, hcl]) hcle
    have a2 := applyGroup_rec (setPF n) kw (.slot kEstimator) ch ch' [(s, v)] (by simp [selGet, hl]) he rfl hr
    simp only [List.foldlM, a1, bind, Except.bind, a2, pure, Except.pure, selPut]
  · rfl

theorem setPF_nested_cak_clus (n i : Nat) (c : String) (f : Bool) (kw : KW) (s : Key) (v ch ch' : PVal)
    (hw : shapeOk .cak kw = true) (hl : kw.lookup kClus = some ch) (he : isEst ch = true)
    (hr : setPF n ch [(s, v)] = .ok ch') :
    setPF (n + 1) (.est i c .cak f kw) [(cakGetClusPrefix ++ s, v)] =
      .ok (.est i c .cak f (replaceKey kClus ch' kw)) := by
  obtain ⟨⟨e, hE, hEe⟩, _, _⟩ := cak_shape kw hw
  have hnk := cak_not_key kw hw (cakGetClusPrefix ++ s) (by simp [cakGetClusPrefix, kEstimator]) (by simp [cakGetClusPrefix, kClus])
  have hne : kEstimator ≠ kClus := by decide
  apply setPF_step n i c .cak f kw _ { kw := kw, groups := [(.slot kClus, [(s, v)]), (.slot kEstimator, [])] } none
    (replaceKey kClus ch' kw) _ (single_nonempty _ v)
  · simp only [planOf, planCak_clus kw s v hnk, Except.map]
  · have a1 := applyGroup_rec (setPF n) kw (.slot kClus) ch ch' [(s, v)] (by simp [selGet, hl]) he rfl hr
    have a2 := applyGroup_empty (setPF n) (replaceKey kClus ch' kw) (.slot kEstimator) e
      (by simp [selGet, lookup_replaceKey_ne _ _ _ _ hne, hE]) hEe
    simp only [selPut] at a1
    simp only [List.foldlM, a1, bind, Except.bind, a2, pure, Except.pure]
  · rfl

theorem setPF_nested_stacking (n i : Nat) (c : String) (f : Bool) (kw : KW) (j : Nat) (l : List PVal) (s : Key)
    (v ch ch' : PVal) (hl : kw.lookup kModels = some (.ests l)) (hj : l[j]? = some ch) (he : isEst ch = true)
    (hr : setPF n ch [(s, v)] = .ok ch') :
    setPF (n + 1) (.est i c .stacking f kw) [(stackingGetPrefix ++ showNat j ++ stackingGetSep ++ s, v)] =
      .ok (.est i c .stacking f (replaceKey kModels (.ests (l.set j ch')) kw)) := by
  have hjl : j < l.length := by
    rcases Nat.lt_or_ge j l.length with h | h
    · exact h
    · simp [List.getElem?_eq_none h] at hj
  apply setPF_step n i c .stacking f kw _ { kw := kw, groups := [(.idx kModels j, [(s, v)])] } none
    (replaceKey kModels (.ests (l.set j ch')) kw) _ (single_nonempty _ v)
  · simp only [planOf, planStacking_nested kw j s v l hl hjl, Except.map]
  · rw [foldlM_single]
    have := applyGroup_rec (setPF n) kw (.idx kModels j) ch ch' [(s, v)] (by simp [selGet, hl, hj]) he rfl hr
    simpa [selPut, hl, setNth] using this
  · rfl

theorem slotPrefix_len_pos (p : Proto) (slot pfx : Key) (h : slotPrefix p slot = some pfx) : 2 ≤ pfx.length := by
  cases p <;> simp [slotPrefix] at h
  · subst h; simp [sep2]
  · obtain ⟨_, rfl⟩ := h; simp [learnerGetPrefix]
  · split at h
    · simp at h; subst h; simp [cakGetClusPrefix]
    · split at h
      · simp at h; subst h; simp [cakGetEstPrefix]
      · simp at h

/-- **the string-keyed `set_params` implements the abstract slot update**, for every nesting depth, every
member index and every key: induction over the path. -/
theorem setPF_upd {e : PVal} {k : Key} {v e' : PVal} (h : Upd e k v e') :
    wf e = true → ∀ n, k.length < n → setPF n e [(k, v)] = .ok e' := by
  induction h with
  | @direct i c p f kw k v hk hv =>
    intro hw n hn
    rw [wf_est, Bool.and_eq_true] at hw
    obtain ⟨m, rfl⟩ : ∃ m, n = m + 1 := ⟨n - 1, by omega⟩
    cases p with
    | base => exact setPF_direct_base m i c _ f kw k v (Or.inl rfl) hw.1 hk
    | anmf => exact setPF_direct_base m i c _ f kw k v (Or.inr rfl) hw.1 hk
    | skbase => exact setPF_direct_skbase m i c f kw k v hw.1 hk
    | learner => exact setPF_direct_learner m i c f kw k v hw.1 hk hv
    | stacking => exact setPF_direct_stacking m i c f kw k v hw.1 hk hv
    | cak => exact setPF_direct_cak m i c f kw k v hw.1 hk hv
    | unknownProto => simp [shapeOk] at hw
  | @slot i c p f kw slot pfx s v ch ch' hp hl he _ ih =>
    intro hw n hn
    rw [wf_est, Bool.and_eq_true] at hw
    obtain ⟨m, rfl⟩ : ∃ m, n = m + 1 := ⟨n - 1, by omega⟩
    have hlen := slotPrefix_len_pos p slot pfx hp
    have hr := ih (wfKw_lookup kw slot ch hw.2 hl) m (by simp at hn; omega)
    cases p with
    | base =>
      simp [slotPrefix] at hp; subst hp
      exact setPF_nested_base m i c _ f kw slot s v ch ch' (Or.inl rfl) hw.1 hl he hr
    | anmf => simp [slotPrefix] at hp
    | learner =>
      simp [slotPrefix] at hp
      obtain ⟨rfl, rfl⟩ := hp
      exact setPF_nested_learner m i c f kw s v ch ch' hw.1 hl he hr
    | cak =>
      simp only [slotPrefix] at hp
      split at hp
      · rename_i h1
        have : slot = kClus := by simpa using h1
        subst this
        simp at hp; subst hp
        exact setPF_nested_cak_clus m i c f kw s v ch ch' hw.1 hl he hr
      · split at hp
        · rename_i h1 h2
          have : slot = kEstimator := by simpa using h2
          subst this
          simp at hp; subst hp
          exact setPF_nested_cak_est m i c f kw s v ch ch' hw.1 hl he hr
        · simp at hp
    | skbase => simp [slotPrefix] at hp
    | stacking => simp [slotPrefix] at hp
    | unknownProto => simp [slotPrefix] at hp
  | @idx i c f kw j l s v ch ch' hl hj he _ ih =>
    intro hw n hn
    rw [wf_est, Bool.and_eq_true] at hw
    obtain ⟨m, rfl⟩ : ∃ m, n = m + 1 := ⟨n - 1, by omega⟩
    have hwl : wf (.ests l) = true := wfKw_lookup kw kModels _ hw.2 hl
    have hr := ih (wfL_get l j ch (by simpa [wf] using hwl) hj) m (by
      simp [stackingGetPrefix] at hn; omega)
    exact setPF_nested_stacking m i c f kw j l s v ch ch' hl hj he hr

/-! ### get_params, one level -/

def deepOf : PVal → Deep
  | .atom _ _ => .none
  | .est i c p f kw => .one (getParams (.est i c p f kw) true)
  | .ests l => .many (l.map (fun v => getParams v true))

theorem deepList_eq_map (l : List PVal) : deepList l = l.map (fun v => getParams v true) := by
  induction l with
  | nil => simp [deepList]
  | cons hd tl ih =>
    cases hd <;> simp [deepList, getParams, ih]

theorem deepKw_eq_map (kw : KW) : deepKw kw = kw.map (fun kv => (kv.1, deepOf kv.2)) := by
  induction kw with
  | nil => simp [deepKw]
  | cons hd tl ih =>
    obtain ⟨k, v⟩ := hd
    cases v <;> simp [deepKw, deepOf, getParams, ih, deepList_eq_map]

theorem getParams_est (i : Nat) (c : String) (p : Proto) (f : Bool) (kw : KW) :
    getParams (.est i c p f kw) true = kw ++ nestedOf p (kw.map (fun kv => (kv.1, deepOf kv.2))) := by
  simp [getParams, assemble, deepKw_eq_map]

theorem lookup_map_snd {β} (g : PVal → β) (kw : KW) (k : Key) :
    (kw.map (fun kv => (kv.1, g kv.2))).lookup k = (kw.lookup k).map g := by
  induction kw with
  | nil => rfl
  | cons hd tl ih =>
    obtain ⟨k', v⟩ := hd
    simp only [List.map_cons, List.lookup]
    cases (k == k') <;> simp [ih]

theorem keys_prefixed (p : Key) (l : KW) : keys (prefixed p l) = (keys l).map (p ++ ·) := by
  simp [keys, prefixed, List.map_map, Function.comp_def]

theorem mem_lookup_of_mem (kw : KW) (k : Key) (v : PVal) (hnd : (keys kw).Nodup) (h : (k, v) ∈ kw) :
    kw.lookup k = some v := by
  induction kw with
  | nil => simp at h
  | cons hd tl ih =>
    obtain ⟨k', v'⟩ := hd
    simp only [keys, List.map_cons, List.nodup_cons] at hnd
    simp only [List.lookup]
    rcases List.mem_cons.mp h with e | e
    · cases e; simp
    · have : k ≠ k' := by
        intro e2; subst e2
        exact hnd.1 (List.mem_map.mpr ⟨(k, v), e, rfl⟩)
      have hb : (k == k') = false := by simp [this]
      simp only [hb]
      exact ih hnd.2 e

/-- one level of `get_params(deep=True)`: a key is a stored slot, or a prefix followed by a key of the estimator in a slot / member -/
theorem mem_getParams_cases (i : Nat) (c : String) (p : Proto) (f : Bool) (kw : KW) (k : Key)
    (hnd : (keys kw).Nodup)
    (h : k ∈ keys (getParams (.est i c p f kw) true)) :
    (keys kw).contains k = true ∨
    (∃ slot pfx ch s, slotPrefix p slot = some pfx ∧ kw.lookup slot = some ch ∧ isEst ch = true ∧
        s ∈ keys (getParams ch true) ∧ k = pfx ++ s) ∨
    (∃ j l ch s, p = .stacking ∧ kw.lookup kModels = some (.ests l) ∧ l[j]? = some ch ∧ isEst ch = true ∧
        s ∈ keys (getParams ch true) ∧ k = stackingGetPrefix ++ showNat j ++ stackingGetSep ++ s) := by
  rw [getParams_est] at h
  simp only [keys, List.map_append, List.mem_append] at h
  rcases h with h | h
  · left; simpa [keys] using h
  · right
    have deepOf_one : ∀ v ps, deepOf v = .one ps → isEst v = true ∧ ps = getParams v true := by
      intro v ps hv
      cases v <;> simp [deepOf] at hv
      exact ⟨rfl, hv.symm⟩
    cases p with
    | base =>
      left
      simp only [nestedOf, List.map_flatMap, List.mem_flatMap, List.mem_map] at h
      obtain ⟨kd, ⟨kv, hkv, rfl⟩, hk⟩ := h
      cases hd : deepOf kv.2 with
      | one ps =>
        simp only [hd] at hk
        obtain ⟨he, rfl⟩ := deepOf_one _ _ hd
        have hk' : k ∈ keys (prefixed (kv.1 ++ sep2) (getParams kv.2 true)) := by simpa [keys] using hk
        rw [keys_prefixed, List.mem_map] at hk'
        obtain ⟨s, hs, rfl⟩ := hk'
        exact ⟨kv.1, kv.1 ++ sep2, kv.2, s, rfl, mem_lookup_of_mem kw kv.1 kv.2 hnd hkv, he, hs, rfl⟩
      | none => simp [hd] at hk
      | many _ => simp [hd] at hk
    | anmf => simp [nestedOf] at h
    | skbase => simp [nestedOf] at h
    | unknownProto => simp [nestedOf] at h
    | learner =>
      left
      simp only [nestedOf, lookup_map_snd] at h
      cases hl : kw.lookup kModel with
      | none => simp [hl] at h
      | some ch =>
        cases hd : deepOf ch with
        | one ps =>
          obtain ⟨he, rfl⟩ := deepOf_one _ _ hd
          simp only [hl, Option.map_some, hd] at h
          have hk' : k ∈ keys (prefixed learnerGetPrefix (getParams ch true)) := by simpa [keys] using h
          rw [keys_prefixed, List.mem_map] at hk'
          obtain ⟨s, hs, rfl⟩ := hk'
          exact ⟨kModel, learnerGetPrefix, ch, s, by simp [slotPrefix], hl, he, hs, rfl⟩
        | none => simp [hl, hd] at h
        | many _ => simp [hl, hd] at h
    | cak =>
      left
      simp only [nestedOf, lookup_map_snd, List.map_append, List.mem_append] at h
      rcases h with h | h
      · cases hl : kw.lookup kClus with
        | none => simp [hl] at h
        | some ch =>
          cases hd : deepOf ch with
          | one ps =>
            obtain ⟨he, rfl⟩ := deepOf_one _ _ hd
            simp only [hl, Option.map_some, hd] at h
            have hk' : k ∈ keys (prefixed cakGetClusPrefix (getParams ch true)) := by simpa [keys] using h
            rw [keys_prefixed, List.mem_map] at hk'
            obtain ⟨s, hs, rfl⟩ := hk'
            exact ⟨kClus, cakGetClusPrefix, ch, s, by simp [slotPrefix], hl, he, hs, rfl⟩
          | none => simp [hl, hd] at h
          | many _ => simp [hl, hd] at h
      · cases hl : kw.lookup kEstimator with
        | none => simp [hl] at h
        | some ch =>
          cases hd : deepOf ch with
          | one ps =>
            obtain ⟨he, rfl⟩ := deepOf_one _ _ hd
            simp only [hl, Option.map_some, hd] at h
            have hk' : k ∈ keys (prefixed cakGetEstPrefix (getParams ch true)) := by simpa [keys] using h
            rw [keys_prefixed, List.mem_map] at hk'
            obtain ⟨s, hs, rfl⟩ := hk'
            have hne : (kEstimator == kClus) = false := by decide
            exact ⟨kEstimator, cakGetEstPrefix, ch, s, by simp [slotPrefix, hne], hl, he, hs, rfl⟩
          | none => simp [hl, hd] at h
          | many _ => simp [hl, hd] at h
    | stacking =>
      right
      simp only [nestedOf, lookup_map_snd] at h
      cases hl : kw.lookup kModels with
      | none => simp [hl] at h
      | some mo =>
        cases mo with
        | atom _ _ => simp [hl, deepOf] at h
        | est _ _ _ _ _ => simp [hl, deepOf] at h
        | ests l =>
          simp only [hl, Option.map_some, deepOf, List.map_flatMap, List.mem_flatMap] at h
          obtain ⟨pi, hpi, hk⟩ := h
          obtain ⟨ps, j⟩ := pi
          have hj := List.mem_zipIdx hpi
          simp only [List.length_map, Nat.zero_add, Nat.sub_zero, List.getElem_map] at hj
          obtain ⟨_, hjl, hps⟩ := hj
          have hk' : k ∈ keys (prefixed (stackingGetPrefix ++ showNat j ++ stackingGetSep) ps) := by simpa [keys] using hk
          rw [keys_prefixed, List.mem_map] at hk'
          obtain ⟨s, hs, rfl⟩ := hk'
          have hne : ps ≠ [] := by intro e; subst e; simp [keys] at hs
          refine ⟨j, l, l[j], s, rfl, rfl, by simp [hjl], ?_, by rw [← hps]; exact hs, rfl⟩
          cases hc : l[j] with
          | est _ _ _ _ _ => rfl
          | atom _ _ => rw [hc] at hps; simp [getParams] at hps; exact absurd hps hne
          | ests _ => rw [hc] at hps; simp [getParams] at hps; exact absurd hps hne
theorem sizeOf_lookup_lt (kw : KW) (k : Key) (v : PVal) (h : kw.lookup k = some v) : sizeOf v < sizeOf kw := by
  induction kw with
  | nil => simp [List.lookup] at h
  | cons hd tl ih =>
    obtain ⟨k', v'⟩ := hd
    simp only [List.lookup] at h
    split at h
    · simp at h; subst h; simp; omega
    · have := ih h; simp; omega

theorem sizeOf_get_lt (l : List PVal) (j : Nat) (v : PVal) (h : l[j]? = some v) : sizeOf v < sizeOf l := by
  have := List.mem_of_getElem? h
  have := List.sizeOf_lt_of_mem this
  exact this

theorem sizeOf_est_kw (i : Nat) (c : String) (p : Proto) (f : Bool) (kw : KW) : sizeOf kw < sizeOf (PVal.est i c p f kw) := by
  simp
theorem sizeOf_ests (l : List PVal) : sizeOf l < sizeOf (PVal.ests l) := by
  simp

theorem nodup_of_shape (p : Proto) (kw : KW) (h : shapeOk p kw = true) : (keys kw).Nodup := by
  simp only [shapeOk, Bool.and_eq_true, decide_eq_true_eq] at h
  exact h.1

/-- every key `get_params(deep=True)` advertises addresses a slot of some estimator of the configuration -/
theorem leaf_of_advertised : ∀ (n : Nat) (e : PVal) (k : Key), sizeOf e < n → wf e = true →
    k ∈ keys (getParams e true) → ∃ p slot, LeafOf e k p slot := by
  intro n
  induction n with
  | zero => intro e k h; omega
  | succ n ih =>
    intro e k hs hw hk
    cases e with
    | atom _ _ => simp [getParams, keys] at hk
    | ests _ => simp [getParams, keys] at hk
    | est i c p f kw =>
      rw [wf_est, Bool.and_eq_true] at hw
      rcases mem_getParams_cases i c p f kw k (nodup_of_shape p kw hw.1) hk with h | h | h
      · exact ⟨p, k, LeafOf.direct h⟩
      · obtain ⟨slot, pfx, ch, s, hp, hl, he, hs', rfl⟩ := h
        have h1 := sizeOf_lookup_lt kw slot ch hl
        have h2 := sizeOf_est_kw i c p f kw
        obtain ⟨p', k', hlf⟩ := ih ch s (by omega) (wfKw_lookup kw slot ch hw.2 hl) hs'
        exact ⟨p', k', LeafOf.slot hp hl he hlf⟩
      · obtain ⟨j, l, ch, s, rfl, hl, hj, he, hs', rfl⟩ := h
        have h1 := sizeOf_lookup_lt kw kModels _ hl
        have h2 := sizeOf_est_kw i c .stacking f kw
        have h3 := sizeOf_get_lt l j ch hj
        have h4 := sizeOf_ests l
        have hwl : wf (.ests l) = true := wfKw_lookup kw kModels _ hw.2 hl
        obtain ⟨p', k', hlf⟩ := ih ch s (by omega) (wfL_get l j ch (by simpa [wf] using hwl) hj) hs'
        exact ⟨p', k', LeafOf.idx hl hj he hlf⟩

/-! ### clone -/
mutual
  theorem strip_cloneV : ∀ (v : PVal) (n : Nat), strip (cloneV v n).1 = strip v
    | .atom k t, n => by simp [cloneV, strip]
    | .est i c p f kw, n => by simp [cloneV, strip, strip_cloneKw kw (n + 1)]
    | .ests l, n => by simp [cloneV, strip, strip_cloneL l n]
  theorem strip_cloneKw : ∀ (kw : List (Key × PVal)) (n : Nat), stripKw (cloneKw kw n).1 = stripKw kw
    | [], n => by simp [cloneKw, stripKw]
    | (k, v) :: rest, n => by simp [cloneKw, stripKw, strip_cloneV v n, strip_cloneKw rest _]
  theorem strip_cloneL : ∀ (l : List PVal) (n : Nat), stripL (cloneL l n).1 = stripL l
    | [], n => by simp [cloneL, stripL]
    | v :: rest, n => by simp [cloneL, stripL, strip_cloneV v n, strip_cloneL rest _]
end

mutual
  theorem unfitted_cloneV : ∀ (v : PVal) (n : Nat), anyFitted (cloneV v n).1 = false
    | .atom k t, n => by simp [cloneV, anyFitted]
    | .est i c p f kw, n => by simp [cloneV, anyFitted, unfitted_cloneKw kw (n + 1)]
    | .ests l, n => by simp [cloneV, anyFitted, unfitted_cloneL l n]
  theorem unfitted_cloneKw : ∀ (kw : List (Key × PVal)) (n : Nat), anyFittedKw (cloneKw kw n).1 = false
    | [], n => by simp [cloneKw, anyFittedKw]
    | (k, v) :: rest, n => by simp [cloneKw, anyFittedKw, unfitted_cloneV v n, unfitted_cloneKw rest _]
  theorem unfitted_cloneL : ∀ (l : List PVal) (n : Nat), anyFittedL (cloneL l n).1 = false
    | [], n => by simp [cloneL, anyFittedL]
    | v :: rest, n => by simp [cloneL, anyFittedL, unfitted_cloneV v n, unfitted_cloneL rest _]
end

/-- ids allocated by a clone: all in `[n, next)`, pairwise distinct -/
def FreshIn (is : List Nat) (n m : Nat) : Prop := (∀ i ∈ is, n ≤ i ∧ i < m) ∧ is.Nodup ∧ n ≤ m

theorem freshIn_append {a b : List Nat} {n m k : Nat} (ha : FreshIn a n m) (hb : FreshIn b m k) :
    FreshIn (a ++ b) n k := by
  obtain ⟨a1, a2, a3⟩ := ha
  obtain ⟨b1, b2, b3⟩ := hb
  refine ⟨?_, ?_, by omega⟩
  · intro i hi
    rcases List.mem_append.mp hi with h | h
    · have := a1 i h; omega
    · have := b1 i h; omega
  · rw [List.nodup_append]
    refine ⟨a2, b2, ?_⟩
    intro x hx y hy e
    have := a1 x hx; have := b1 y hy; omega

mutual
  theorem fresh_cloneV : ∀ (v : PVal) (n : Nat), FreshIn (ids (cloneV v n).1) n (cloneV v n).2
    | .atom k t, n => by simp [cloneV, ids, FreshIn]
    | .est i c p f kw, n => by
        have h := fresh_cloneKw kw (n + 1)
        have h0 : FreshIn [n] n (n + 1) := by simp [FreshIn]
        simpa [cloneV, ids] using freshIn_append h0 h
    | .ests l, n => by simpa [cloneV, ids] using fresh_cloneL l n
  theorem fresh_cloneKw : ∀ (kw : List (Key × PVal)) (n : Nat), FreshIn (idsKw (cloneKw kw n).1) n (cloneKw kw n).2
    | [], n => by simp [cloneKw, idsKw, FreshIn]
    | (k, v) :: rest, n => by
        simpa [cloneKw, idsKw] using freshIn_append (fresh_cloneV v n) (fresh_cloneKw rest _)
  theorem fresh_cloneL : ∀ (l : List PVal) (n : Nat), FreshIn (idsL (cloneL l n).1) n (cloneL l n).2
    | [], n => by simp [cloneL, idsL, FreshIn]
    | v :: rest, n => by
        simpa [cloneL, idsL] using freshIn_append (fresh_cloneV v n) (fresh_cloneL rest _)
end

/-! ### the update preserves well-formedness -/
theorem upd_isEst {e k v e'} (h : Upd e k v e') : isEst e = true ∧ isEst e' = true := by
  cases h <;> exact ⟨rfl, rfl⟩

/-- the update keeps the identity, class, protocol and fitted state of the estimator it is applied to -/
theorem upd_same_object {e k v e'} (h : Upd e k v e') :
    ∃ i c p f kw kw', e = .est i c p f kw ∧ e' = .est i c p f kw' ∧ keys kw' = keys kw := by
  cases h with
  | direct _ _ => exact ⟨_, _, _, _, _, _, rfl, rfl, keys_replaceKey _ _ _⟩
  | slot _ _ _ _ => exact ⟨_, _, _, _, _, _, rfl, rfl, keys_replaceKey _ _ _⟩
  | idx _ _ _ _ => exact ⟨_, _, _, _, _, _, rfl, rfl, keys_replaceKey _ _ _⟩

theorem wfKw_replaceKey (kw : KW) (k : Key) (v : PVal) (h : wfKw kw = true) (hv : wf v = true) :
    wfKw (replaceKey k v kw) = true := by
  induction kw with
  | nil => simp [replaceKey, wfKw]
  | cons hd tl ih =>
    obtain ⟨k', v'⟩ := hd
    simp only [wfKw, Bool.and_eq_true] at h
    unfold replaceKey
    split
    · simp [wfKw, hv, h.2]
    · simp [wfKw, h.1, ih h.2]

theorem lookup_replaceKey (kw : KW) (k k2 : Key) (v : PVal) (hk : (keys kw).contains k = true) :
    (replaceKey k v kw).lookup k2 = if k2 = k then some v else kw.lookup k2 := by
  by_cases h : k2 = k
  · subst h; simp [lookup_replaceKey_self _ v kw hk]
  · simp [h, lookup_replaceKey_ne _ _ _ _ h]

theorem shapeOk_replaceKey (p : Proto) (kw : KW) (k : Key) (v : PVal) (hs : shapeOk p kw = true)
    (hk : (keys kw).contains k = true) (hv : directValueOk p k v = true) :
    shapeOk p (replaceKey k v kw) = true := by
  cases p with
  | base => simpa [shapeOk, keys_replaceKey] using hs
  | anmf => simpa [shapeOk, keys_replaceKey] using hs
  | skbase => simpa [shapeOk, keys_replaceKey] using hs
  | unknownProto => simp [shapeOk] at hs
  | learner =>
    have hne : (kMethod == kModel) = false := by decide
    simp only [shapeOk, keys_replaceKey, lookup_replaceKey kw k _ v hk, Bool.and_eq_true] at hs ⊢
    refine ⟨hs.1, ⟨?_, ?_⟩, hs.2.2⟩
    · by_cases h : kModel = k
      · subst h; simpa [directValueOk] using hv
      · simpa [h] using hs.2.1.1
    · by_cases h : kMethod = k
      · subst h; simpa [directValueOk, hne] using hv
      · simpa [h] using hs.2.1.2
  | stacking =>
    have hne : (kMethod == kModels) = false := by decide
    simp only [shapeOk, keys_replaceKey, lookup_replaceKey kw k _ v hk, Bool.and_eq_true] at hs ⊢
    refine ⟨hs.1, ⟨?_, ?_⟩, hs.2.2⟩
    · by_cases h : kModels = k
      · subst h
        cases v <;> simp [directValueOk] at hv ⊢
        exact hv
      · simpa [h] using hs.2.1.1
    · by_cases h : kMethod = k
      · subst h; simp
      · simpa [h] using hs.2.1.2
  | cak =>
    simp only [shapeOk, keys_replaceKey, lookup_replaceKey kw k _ v hk, Bool.and_eq_true] at hs ⊢
    have hve : isEst v = true := by simpa [directValueOk] using hv
    refine ⟨hs.1, ⟨?_, ?_⟩, hs.2.2⟩
    · by_cases h : kEstimator = k
      · subst h; simpa using hve
      · simpa [h] using hs.2.1.1
    · by_cases h : kClus = k
      · subst h; simpa using hve
      · simpa [h] using hs.2.1.2

theorem wfL_set (l : List PVal) (j : Nat) (v : PVal) (h : wfL l = true) (hv : wf v = true) : wfL (l.set j v) = true := by
  induction l generalizing j with
  | nil => simp [wfL]
  | cons hd tl ih =>
    simp only [wfL, Bool.and_eq_true] at h
    cases j with
    | zero => simp [wfL, hv, h.2]
    | succ j => simp [wfL, h.1, ih j h.2]

theorem all_isEst_set (l : List PVal) (j : Nat) (v : PVal) (h : l.all isEst = true) (hv : isEst v = true) :
    (l.set j v).all isEst = true := by
  simp only [List.all_eq_true] at h ⊢
  intro x hx
  rcases List.mem_or_eq_of_mem_set hx with h1 | h1
  · exact h x h1
  · subst h1; exact hv

/-- a well-formed state stays well-formed under the update by a well-formed, acceptable value -/
theorem upd_wf {e k v e'} (h : Upd e k v e') : wf e = true → wf v = true → wf e' = true := by
  induction h with
  | @direct i c p f kw k v hk hv =>
    intro hw hwv
    rw [wf_est, Bool.and_eq_true] at hw ⊢
    exact ⟨shapeOk_replaceKey p kw k v hw.1 hk hv, wfKw_replaceKey kw k v hw.2 hwv⟩
  | @slot i c p f kw slot pfx s v ch ch' hp hl he hu ih =>
    intro hw hwv
    rw [wf_est, Bool.and_eq_true] at hw ⊢
    have hch' := ih (wfKw_lookup kw slot ch hw.2 hl) hwv
    have hk := contains_keys_of_lookup slot ch kw hl
    have hest := (upd_isEst hu).2
    refine ⟨shapeOk_replaceKey p kw slot ch' hw.1 hk ?_, wfKw_replaceKey kw slot ch' hw.2 hch'⟩
    cases p <;> simp [slotPrefix] at hp <;> simp [directValueOk, hest]
    · obtain ⟨rfl, _⟩ := hp; simp [hest]
  | @idx i c f kw j l s v ch ch' hl hj he hu ih =>
    intro hw hwv
    rw [wf_est, Bool.and_eq_true] at hw ⊢
    have hwl : wf (.ests l) = true := wfKw_lookup kw kModels _ hw.2 hl
    have hwl' : wfL l = true := by simpa [wf] using hwl
    have hch' := ih (wfL_get l j ch hwl' hj) hwv
    have hk := contains_keys_of_lookup kModels _ kw hl
    have hest := (upd_isEst hu).2
    obtain ⟨⟨l0, hl0, hall⟩, _, _⟩ := stacking_shape kw hw.1
    rw [hl] at hl0; cases hl0
    refine ⟨shapeOk_replaceKey .stacking kw kModels _ hw.1 hk ?_, wfKw_replaceKey kw kModels _ hw.2 ?_⟩
    · simpa [directValueOk] using all_isEst_set l j ch' hall hest
    · simpa [wf] using wfL_set l j ch' hwl' hch'

/-! ### what get_params reports after the update -/
theorem mem_replaceKey_self (kw : KW) (k : Key) (v : PVal) (hk : (keys kw).contains k = true) :
    (k, v) ∈ replaceKey k v kw := by
  induction kw with
  | nil => simp [keys] at hk
  | cons hd tl ih =>
    obtain ⟨k', v'⟩ := hd
    unfold replaceKey
    by_cases h : (k' == k) = true
    · simp [h]
    · have hne : k' ≠ k := by simpa using h
      simp only [h, Bool.false_eq_true, ↓reduceIte, List.mem_cons]
      right
      apply ih
      simpa [keys, Ne.symm hne] using hk

theorem deepOf_est (ch : PVal) (h : isEst ch = true) : deepOf ch = .one (getParams ch true) := by
  cases ch <;> simp [isEst] at h
  rfl

theorem mem_prefixed (p s : Key) (v : PVal) (l : KW) (h : (s, v) ∈ l) : (p ++ s, v) ∈ prefixed p l := by
  simp only [prefixed, List.mem_map]
  exact ⟨(s, v), h, rfl⟩

/-- after the update, `get_params(deep=True)` reports the new value under the key that was set -/
theorem upd_reports_value {e k v e'} (h : Upd e k v e') : (k, v) ∈ getParams e' true := by
  induction h with
  | @direct i c p f kw k v hk hv =>
    rw [getParams_est]
    exact List.mem_append_left _ (mem_replaceKey_self kw k v hk)
  | @slot i c p f kw slot pfx s v ch ch' hp hl he hu ih =>
    rw [getParams_est]
    apply List.mem_append_right
    have hk := contains_keys_of_lookup slot ch kw hl
    have hest := (upd_isEst hu).2
    have hlk : ((replaceKey slot ch' kw).map (fun kv => (kv.1, deepOf kv.2))).lookup slot
        = some (.one (getParams ch' true)) := by
      rw [lookup_map_snd, lookup_replaceKey_self _ _ _ hk]; simp [deepOf_est ch' hest]
    cases p with
    | base =>
      simp [slotPrefix] at hp; subst hp
      simp only [nestedOf, List.mem_flatMap, List.mem_map]
      refine ⟨(slot, deepOf ch'), ⟨(slot, ch'), mem_replaceKey_self kw slot ch' hk, rfl⟩, ?_⟩
      simp only [deepOf_est ch' hest]
      exact mem_prefixed _ _ _ _ ih
    | learner =>
      simp [slotPrefix] at hp
      obtain ⟨rfl, rfl⟩ := hp
      simp only [nestedOf, hlk]
      exact mem_prefixed _ _ _ _ ih
    | cak =>
      simp only [slotPrefix] at hp
      simp only [nestedOf, List.mem_append]
      split at hp
      · rename_i h1
        have : slot = kClus := by simpa using h1
        subst this
        simp at hp; subst hp
        left; simp only [hlk]; exact mem_prefixed _ _ _ _ ih
      · split at hp
        · rename_i h1 h2
          have : slot = kEstimator := by simpa using h2
          subst this
          simp at hp; subst hp
          right; simp only [hlk]; exact mem_prefixed _ _ _ _ ih
        · simp at hp
    | anmf => simp [slotPrefix] at hp
    | skbase => simp [slotPrefix] at hp
    | stacking => simp [slotPrefix] at hp
    | unknownProto => simp [slotPrefix] at hp
  | @idx i c f kw j l s v ch ch' hl hj he hu ih =>
    rw [getParams_est]
    apply List.mem_append_right
    have hk := contains_keys_of_lookup kModels _ kw hl
    have hjl : j < l.length := by
      rcases Nat.lt_or_ge j l.length with h | h
      · exact h
      · simp [List.getElem?_eq_none h] at hj
    have hlk : ((replaceKey kModels (.ests (l.set j ch')) kw).map (fun kv => (kv.1, deepOf kv.2))).lookup kModels
        = some (.many ((l.set j ch').map (fun v => getParams v true))) := by
      rw [lookup_map_snd, lookup_replaceKey_self _ _ _ hk]; simp [deepOf]
    simp only [nestedOf, hlk, List.mem_flatMap]
    refine ⟨(getParams ch' true, j), ?_, ?_⟩
    · rw [List.mem_zipIdx_iff_getElem?]
      simp [hjl]
    · have : stackingGetPrefix ++ showNat j ++ stackingGetSep ++ s = (stackingGetPrefix ++ showNat j ++ stackingGetSep) ++ s := by simp
      rw [this]
      exact mem_prefixed _ _ _ _ ih

/-! ### `setParams` (fuel chosen from the key length) and histories -/

theorem setReturnsSelf_of_known (p : Proto) (h : p ≠ .unknownProto) : setReturnsSelf p = true := by
  cases p <;> first | rfl | exact absurd rfl h

theorem maxKeyLen_single (k : Key) (v : PVal) : maxKeyLen [(k, v)] = k.length := by
  simp [maxKeyLen]

theorem proto_known_of_wf (i : Nat) (c : String) (p : Proto) (f : Bool) (kw : KW) (h : wf (.est i c p f kw) = true) :
    p ≠ .unknownProto := by
  intro e; subst e
  rw [wf_est] at h
  simp [shapeOk] at h

/-- single-key `set_params` on a well-formed state implements the abstract update and returns `self` -/
theorem setParams_upd {e : PVal} {k : Key} {v e' : PVal} (h : Upd e k v e') (hw : wf e = true) :
    setParams e [(k, v)] = .ok (e', true) := by
  obtain ⟨i, c, p, f, kw, kw', rfl, rfl, _⟩ := upd_same_object h
  unfold setParams
  rw [maxKeyLen_single, setPF_upd h hw (k.length + 1) (by omega)]
  simp [Except.map, protoOf, setReturnsSelf_of_known p (proto_known_of_wf i c p f kw hw)]

/-- a `set_params` call of a history that the property speaks about: one advertised key, a well-formed value
acceptable for the slot it addresses -/
def validOp (s : State) : Op → Prop
  | .set kvs => ∃ k v, kvs = [(k, v)] ∧ k ∈ keys (getParams s.obj true) ∧ wf v = true ∧
      ∀ p slot, LeafOf s.obj k p slot → directValueOk p slot v = true
  | _ => True

def validOps : State → List Op → Prop
  | _, [] => True
  | s, op :: rest => validOp s op ∧ validOps (step s op).1 rest

/-- one step of the abstract dictionary-tree specification -/
inductive AbsStep : State → Op → State → Out → Prop
  | get {s d} : AbsStep s (.get d) s (.params (getParams s.obj d))
  | set {s k v e'} : Upd s.obj k v e' → AbsStep s (.set [(k, v)]) { s with obj := e' } (.setOk true)
  | clone {s c n'} : strip c = strip s.obj → anyFitted c = false → FreshIn (ids c) s.next n' →
      AbsStep s .clone { s with next := n' } (.cloned c)

inductive AbsRun : State → List Op → State → List Out → Prop
  | nil {s} : AbsRun s [] s []
  | cons {s op s1 o ops s2 os} : AbsStep s op s1 o → AbsRun s1 ops s2 os → AbsRun s (op :: ops) s2 (o :: os)

theorem step_refines (s : State) (op : Op) (hw : wf s.obj = true) (hv : validOp s op) :
    AbsStep s op (step s op).1 (step s op).2 ∧ wf (step s op).1.obj = true := by
  cases op with
  | get d => exact ⟨AbsStep.get, hw⟩
  | clone =>
    refine ⟨?_, hw⟩
    exact AbsStep.clone (strip_cloneV s.obj s.next) (unfitted_cloneV s.obj s.next) (fresh_cloneV s.obj s.next)
  | set kvs =>
    obtain ⟨k, v, rfl, hk, hwv, hval⟩ := hv
    obtain ⟨p, slot, hleaf⟩ := leaf_of_advertised (sizeOf s.obj + 1) s.obj k (by omega) hw hk
    obtain ⟨e', hu⟩ := upd_of_leaf hleaf v (hval p slot hleaf)
    have hs := setParams_upd hu hw
    simp only [step, hs]
    exact ⟨AbsStep.set hu, upd_wf hu hw hwv⟩

theorem run_refines : ∀ (ops : List Op) (s : State), wf s.obj = true → validOps s ops →
    AbsRun s ops (run s ops).1 (run s ops).2 ∧ wf (run s ops).1.obj = true := by
  intro ops
  induction ops with
  | nil => intro s hw _; exact ⟨AbsRun.nil, hw⟩
  | cons op rest ih =>
    intro s hw hv
    obtain ⟨h1, h2⟩ := step_refines s op hw hv.1
    obtain ⟨h3, h4⟩ := ih (step s op).1 h2 hv.2
    exact ⟨AbsRun.cons h1 h3, h4⟩

/-! ### transfer, configurations without nested estimators -/

theorem replaceKey_cons_ne (k k' : Key) (v v' : PVal) (tl : KW) (h : k' ≠ k) :
    replaceKey k v ((k', v') :: tl) = (k', v') :: replaceKey k v tl := by
  simp [replaceKey, h]

theorem foldl_replaceKey_cons (vals : KW) (k : Key) (v : PVal) (tl : KW) (h : ∀ kv ∈ vals, kv.1 ≠ k) :
    vals.foldl (fun a kv => replaceKey kv.1 kv.2 a) ((k, v) :: tl)
      = (k, v) :: vals.foldl (fun a kv => replaceKey kv.1 kv.2 a) tl := by
  induction vals generalizing tl with
  | nil => rfl
  | cons hd rest ih =>
    simp only [List.foldl_cons]
    rw [replaceKey_cons_ne _ _ _ _ _ (Ne.symm (h hd (by simp)))]
    exact ih _ (fun kv hkv => h kv (by simp [hkv]))

/-- assigning every slot of a parameter list with the same names yields exactly the assigned list -/
theorem foldl_replaceKey_all (kw1 kw2 : KW) (hk : keys kw1 = keys kw2) (hnd : (keys kw1).Nodup) :
    kw1.foldl (fun a kv => replaceKey kv.1 kv.2 a) kw2 = kw1 := by
  induction kw1 generalizing kw2 with
  | nil =>
    cases kw2 with
    | nil => rfl
    | cons _ _ => simp [keys] at hk
  | cons hd tl ih =>
    obtain ⟨k, v⟩ := hd
    cases kw2 with
    | nil => simp [keys] at hk
    | cons hd2 tl2 =>
      obtain ⟨k2, v2⟩ := hd2
      simp only [keys, List.map_cons, List.cons.injEq] at hk
      obtain ⟨rfl, hk'⟩ := hk
      simp only [keys, List.map_cons, List.nodup_cons] at hnd
      simp only [List.foldl_cons]
      have : replaceKey k v ((k, v2) :: tl2) = (k, v) :: tl2 := by simp [replaceKey]
      rw [this, foldl_replaceKey_cons tl k v tl2]
      · rw [ih tl2 hk' hnd.2]
      · intro kv hkv e
        exact hnd.1 (List.mem_map.mpr ⟨kv, hkv, e⟩)

theorem planBase_flat_aux (names : List Key) (kvs : KW) (acc : Plan)
    (hc : ∀ kv ∈ kvs, cleanName kv.1 = true ∧ names.contains kv.1 = true) :
    kvs.foldlM (baseStep names) acc
    = .ok { kw := kvs.foldl (fun a kv => replaceKey kv.1 kv.2 a) acc.kw, groups := acc.groups } := by
  induction kvs generalizing acc with
  | nil => rfl
  | cons hd tl ih =>
    obtain ⟨h1, h2⟩ := hc hd (by simp)
    simp only [List.foldlM, baseStep, splitFirst_clean_none _ h1, h2, ↓reduceIte, bind, Except.bind, List.foldl_cons]
    rw [ih _ (fun kv hkv => hc kv (by simp [hkv]))]

theorem planBase_flat (kw1 kw2 : KW) (hk : keys kw1 = keys kw2) (hnd : (keys kw1).Nodup)
    (hc : (keys kw1).all cleanName = true) :
    planBase kw2 kw1 = .ok { kw := kw1, groups := [] } := by
  unfold planBase
  rw [planBase_flat_aux (keys kw2) kw1 { kw := kw2, groups := [] }]
  · simp [foldl_replaceKey_all kw1 kw2 hk hnd]
  · intro kv hkv
    have hm : kv.1 ∈ keys kw1 := List.mem_map.mpr ⟨kv, hkv, rfl⟩
    simp only [List.all_eq_true] at hc
    exact ⟨hc _ hm, by rw [← hk]; simpa using hm⟩

theorem nested_flat_base (kw : KW) (h : kw.all (fun kv => !isEst kv.2) = true) :
    nestedOf .base (kw.map (fun kv => (kv.1, deepOf kv.2))) = [] := by
  simp only [nestedOf, List.flatMap_eq_nil_iff, List.mem_map]
  rintro kd ⟨kv, hkv, rfl⟩
  simp only [List.all_eq_true] at h
  have := h kv hkv
  cases hv : kv.2 <;> simp [hv, isEst, deepOf] at this ⊢

/-- transfer between two instances of the same class shape without nested estimators (scikit-learn protocol) -/
theorem transfer_flat_base (i1 i2 : Nat) (c : String) (p : Proto) (f1 f2 : Bool) (kw1 kw2 : KW)
    (hp : p = .base ∨ p = .anmf) (hk : keys kw1 = keys kw2) (hw : shapeOk p kw1 = true)
    (hflat : kw1.all (fun kv => !isEst kv.2) = true) :
    setParams (.est i2 c p f2 kw2) (getParams (.est i1 c p f1 kw1) true) = .ok (.est i2 c p f2 kw1, true) := by
  have hgp : getParams (.est i1 c p f1 kw1) true = kw1 := by
    rw [getParams_est]
    rcases hp with rfl | rfl
    · simp [nested_flat_base kw1 hflat]
    · simp [nestedOf]
  have hnd := nodup_of_shape p kw1 hw
  have hc : (keys kw1).all cleanName = true := by
    rcases hp with rfl | rfl <;>
    · simp only [shapeOk, Bool.and_eq_true] at hw; exact hw.2
  rw [hgp]
  unfold setParams
  cases hkw : kw1 with
  | nil =>
    have : kw2 = [] := by
      subst hkw; cases kw2 with
      | nil => rfl
      | cons _ _ => simp [keys] at hk
    subst this
    rcases hp with rfl | rfl <;> simp [setPF, maxKeyLen, Except.map, protoOf] <;> rfl
  | cons hd tl =>
    rw [← hkw]
    have hne : kw1.isEmpty = false := by subst hkw; rfl
    rw [setPF_step (maxKeyLen kw1) i2 c p f2 kw2 kw1 { kw := kw1, groups := [] } none kw1 kw1 hne ?_ rfl rfl]
    · rcases hp with rfl | rfl <;> simp [Except.map, protoOf] <;> rfl
    · rcases hp with rfl | rfl <;> simp only [planOf, planBase_flat kw1 kw2 hk hnd hc, Except.map]

theorem foldl_upsert_eq (vals acc : KW) (h : ∀ kv ∈ vals, (keys acc).contains kv.1 = true) :
    vals.foldl (fun a kv => upsert kv.1 kv.2 a) acc = vals.foldl (fun a kv => replaceKey kv.1 kv.2 a) acc := by
  induction vals generalizing acc with
  | nil => rfl
  | cons hd tl ih =>
    simp only [List.foldl_cons]
    have h1 : upsert hd.1 hd.2 acc = replaceKey hd.1 hd.2 acc := by
      have := h hd (by simp)
      unfold upsert; rw [this]; rfl
    rw [h1]
    exact ih _ (fun kv hkv => by rw [keys_replaceKey]; exact h kv (by simp [hkv]))

/-- transfer between two `SkBase` objects that store the same parameter names -/
theorem transfer_skbase (i1 i2 : Nat) (c : String) (f1 f2 : Bool) (kw1 kw2 : KW)
    (hk : keys kw1 = keys kw2) (hw : shapeOk .skbase kw1 = true) :
    setParams (.est i2 c .skbase f2 kw2) (getParams (.est i1 c .skbase f1 kw1) true)
      = .ok (.est i2 c .skbase f2 kw1, true) := by
  have hgp : getParams (.est i1 c .skbase f1 kw1) true = kw1 := by
    rw [getParams_est]; simp [nestedOf]
  have hnd := nodup_of_shape _ kw1 hw
  have hn : (keys kw1).all skNameOk = true := by
    simp only [shapeOk, Bool.and_eq_true] at hw; exact hw.2
  have hu : skbaseSetUpdates = true := rfl
  have hset : skbaseSet kw2 kw1 = .ok kw1 := by
    unfold skbaseSet
    simp only [hu, ↓reduceIte]
    rw [foldl_upsert_eq kw1 kw2 (fun kv hkv => by
      have hm : kv.1 ∈ keys kw1 := List.mem_map.mpr ⟨kv, hkv, rfl⟩
      rw [← hk]; simpa using hm), foldl_replaceKey_all kw1 kw2 hk hnd]
    simp [hn]
  rw [hgp]
  unfold setParams
  cases hkw : kw1 with
  | nil =>
    have : kw2 = [] := by
      subst hkw; cases kw2 with
      | nil => rfl
      | cons _ _ => simp [keys] at hk
    subst this
    simp [setPF, maxKeyLen, Except.map, protoOf]; rfl
  | cons hd tl =>
    rw [← hkw]
    have hne : kw1.isEmpty = false := by subst hkw; rfl
    rw [setPF_step (maxKeyLen kw1) i2 c .skbase f2 kw2 kw1 { kw := kw1, groups := [] } none kw1 kw1 hne ?_ rfl rfl]
    · simp [Except.map, protoOf]; rfl
    · simp only [planOf, hset, Except.map]

end MlVerif.Params
