/-
C09 — a vector satisfying the normal equations of the column-major system minimises its
squared residual (certificate used for the exact reference solver of the driver).
-/
import MlVerif.Lemmas.Criterion
namespace MlVerif.Criterion

theorem rsum_add_fn (f g : Int → Rat) (lo hi : Int) :
    rsum (fun k => f k + g k) lo hi = rsum f lo hi + rsum g lo hi := by
  unfold rsum
  generalize (hi - lo).toNat = n
  induction n with
  | zero => simp only [rsumN]; grind
  | succ n ih => simp only [rsumN, ih]; grind

theorem rsum_mul_left (c : Rat) (f : Int → Rat) (lo hi : Int) :
    rsum (fun k => c * f k) lo hi = c * rsum f lo hi := by
  unfold rsum
  generalize (hi - lo).toNat = n
  induction n with
  | zero => simp only [rsumN]; grind
  | succ n ih => simp only [rsumN, ih]; grind

theorem rsum_zero_fn (f : Int → Rat) (lo hi : Int) (h : ∀ k, lo ≤ k → k < hi → f k = 0) :
    rsum f lo hi = 0 := by
  rw [rsum_congr f (fun _ => 0) lo hi h]
  unfold rsum
  generalize (hi - lo).toNat = n
  induction n with
  | zero => rfl
  | succ n ih => simp only [rsumN, ih]; grind

theorem rsum_nonneg (f : Int → Rat) (lo hi : Int) (h : ∀ k, 0 ≤ f k) : 0 ≤ rsum f lo hi := by
  unfold rsum
  generalize (hi - lo).toNat = n
  induction n with
  | zero => simp only [rsumN]; grind
  | succ n ih => simp only [rsumN]; have := h (lo + n); grind

theorem rsum_swap (f : Int → Int → Rat) (lo1 hi1 lo2 hi2 : Int) :
    rsum (fun t => rsum (fun j => f t j) lo2 hi2) lo1 hi1
      = rsum (fun j => rsum (fun t => f t j) lo1 hi1) lo2 hi2 := by
  unfold rsum
  generalize (hi1 - lo1).toNat = n
  generalize (hi2 - lo2).toNat = m
  induction n with
  | zero =>
    simp only [rsumN]
    induction m with
    | zero => rfl
    | succ m ih => simp only [rsumN, ← ih]; grind
  | succ n ih =>
    simp only [rsumN, ih]
    have := rsum_add_fn (fun j => rsumN (fun t => f t j) lo1 n) (fun j => f (lo1 + n) j) lo2 (lo2 + m)
    unfold rsum at this
    have e : (lo2 + (m : Int) - lo2).toNat = m := by omega
    rw [e] at this
    exact this.symm

theorem sq_nonneg_rat (a : Rat) : 0 ≤ a ^ 2 := by
  have : a ^ 2 = a * a := by grind
  rw [this]
  rcases (Rat.le_total : (0 : Rat) ≤ a ∨ a ≤ 0) with h | h
  · exact Rat.mul_nonneg h h
  · have h' : 0 ≤ -a := by grind
    have := Rat.mul_nonneg h' h'
    grind

/-- `Aᵀ(A x − B) = 0` implies that `x` minimises `‖A x − B‖²` -/
theorem normal_eq_min (row col : Int) (A : Buf) (lda : Int) (B : Buf) (x : Int → Rat)
    (h : ∀ j, 0 ≤ j → j < col →
      rsum (fun t => A (j * lda + t) * (rsum (fun j' => A (j' * lda + t) * x j') 0 col - B t)) 0 row = 0)
    (b' : Int → Rat) :
    lapackResid row col A lda B x ≤ lapackResid row col A lda B b' := by
  unfold lapackResid
  -- residuals and their difference
  have hsplit : ∀ t, rsum (fun j => A (j * lda + t) * b' j) 0 col - B t
      = (rsum (fun j => A (j * lda + t) * x j) 0 col - B t)
        + rsum (fun j => A (j * lda + t) * (b' j - x j)) 0 col := by
    intro t
    have e : rsum (fun j => A (j * lda + t) * b' j) 0 col
        = rsum (fun j => A (j * lda + t) * x j + A (j * lda + t) * (b' j - x j)) 0 col := by
      apply rsum_congr; intro j _ _; grind
    rw [e, rsum_add_fn]; grind
  have hexp : rsum (fun t => (rsum (fun j => A (j * lda + t) * b' j) 0 col - B t) ^ 2) 0 row
      = rsum (fun t => (rsum (fun j => A (j * lda + t) * x j) 0 col - B t) ^ 2) 0 row
        + (2 * rsum (fun t => (rsum (fun j => A (j * lda + t) * x j) 0 col - B t)
              * rsum (fun j => A (j * lda + t) * (b' j - x j)) 0 col) 0 row
          + rsum (fun t => (rsum (fun j => A (j * lda + t) * (b' j - x j)) 0 col) ^ 2) 0 row) := by
    rw [← rsum_mul_left, ← rsum_add_fn, ← rsum_add_fn]
    apply rsum_congr; intro t _ _
    rw [hsplit t]; grind
  have hcross : rsum (fun t => (rsum (fun j => A (j * lda + t) * x j) 0 col - B t)
        * rsum (fun j => A (j * lda + t) * (b' j - x j)) 0 col) 0 row = 0 := by
    have e1 : rsum (fun t => (rsum (fun j => A (j * lda + t) * x j) 0 col - B t)
          * rsum (fun j => A (j * lda + t) * (b' j - x j)) 0 col) 0 row
        = rsum (fun t => rsum (fun j => (b' j - x j) * (A (j * lda + t) *
            (rsum (fun j' => A (j' * lda + t) * x j') 0 col - B t))) 0 col) 0 row := by
      apply rsum_congr; intro t _ _
      rw [← rsum_mul_left]
      apply rsum_congr; intro j _ _; grind
    rw [e1, rsum_swap]
    apply rsum_zero_fn
    intro j hj1 hj2
    rw [rsum_mul_left, h j hj1 hj2]; grind
  rw [hexp, hcross]
  have hnn := rsum_nonneg (fun t => (rsum (fun j => A (j * lda + t) * (b' j - x j)) 0 col) ^ 2) 0 row
    (fun t => sq_nonneg_rat _)
  grind

/-- the executable test `normalEqHolds` is the hypothesis of `normal_eq_min` -/
theorem normalEqHolds_spec (row col : Int) (A : Buf) (lda : Int) (B : Buf) (x : Int → Rat)
    (h : normalEqHolds row col A lda B x = true) :
    ∀ j, 0 ≤ j → j < col →
      rsum (fun t => A (j * lda + t) * (rsum (fun j' => A (j' * lda + t) * x j') 0 col - B t)) 0 row = 0 := by
  intro j hj1 hj2
  unfold normalEqHolds at h
  rw [List.all_eq_true] at h
  have := h j.toNat (by simp only [List.mem_range]; omega)
  have e : ((j.toNat : Nat) : Int) = j := by omega
  rw [e] at this
  simpa using this

end MlVerif.Criterion
