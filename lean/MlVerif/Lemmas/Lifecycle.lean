/-
The three abstract domains of `Model/Lifecycle.lean` are sound (`Flow.Sound`), hence by
`Flow.exits_good_sound` what they decide holds for every execution of every IR program.
-/
import MlVerif.Model.Lifecycle
import MlVerif.Lemmas.Flow
import MlVerif.Lemmas.FlowPair
namespace MlVerif.Lifecycle
open MlVerif.Flow

/-- membership in the duplicate-free union used as join -/
theorem mem_union_right {a b : List Nat} {x : Nat} (h : x ∈ b) :
    x ∈ a ++ b.filter (fun v => !a.contains v) := by
  by_cases ha : x ∈ a
  · exact List.mem_append_left _ ha
  · apply List.mem_append_right
    simp only [List.mem_filter, Bool.not_eq_true', List.contains_eq_mem, decide_eq_false_iff_not]
    exact ⟨h, ha⟩

/-! ## 1. ParamSafe -/
namespace ParamSafe

/-- the abstract state describes the concrete one, relative to the hyper-parameters at entry -/
def Rel (σ0 : Nat → Nat) (d : Abs) (s : St) : Prop :=
  (∀ k, k ∉ d.dirty → s.params k = σ0 k) ∧ (∀ v k, (v, k) ∈ d.snaps → s.locals v = σ0 k)

theorem sound (σ0 : Nat → Nat) : Sound sem dom (Rel σ0) where
  join_l a b s h := by
    refine ⟨fun k hk => h.1 k (fun hm => hk (List.mem_append_left _ hm)), fun v k hm => h.2 v k ?_⟩
    simp only [dom, List.mem_filter] at hm
    exact hm.1
  join_r a b s h := by
    refine ⟨fun k hk => h.1 k (fun hm => hk (mem_union_right hm)), fun v k hm => h.2 v k ?_⟩
    simp only [dom, List.mem_filter, List.contains_iff_mem] at hm
    exact hm.2
  le_sound a b s hle h := by
    simp only [dom, Bool.and_eq_true, List.all_eq_true, List.contains_iff_mem] at hle
    exact ⟨fun k hk => h.1 k (fun hm => hk (hle.1 k hm)), fun v k hm => h.2 v k (hle.2 (v, k) hm)⟩
  step_sound x d n s _ h := by
    cases x with
    | snap v k =>
      simp only [dom, sem]
      refine ⟨h.1, ?_⟩
      intro v' k' hm
      by_cases hv : v' = v
      · subst hv
        split at hm
        · simp at hm
        · rename_i hk
          simp only [List.mem_cons, List.mem_filter, bne_self_eq_false, Bool.false_eq_true, and_false,
            or_false, Prod.mk.injEq, true_and] at hm
          subst hm
          simp only [upd, if_true]
          exact h.1 k' (by simpa using hk)
      · have hm' : (v', k') ∈ d.snaps := by
          split at hm
          · simp only [List.mem_filter] at hm; exact hm.1
          · simp only [List.mem_cons, Prod.mk.injEq, List.mem_filter] at hm
            rcases hm with ⟨h1, _⟩ | hm
            · exact absurd h1 hv
            · exact hm.1
        simp only [upd, hv, if_false]
        exact h.2 v' k' hm'
    | kill v =>
      simp only [dom, sem]
      refine ⟨h.1, ?_⟩
      intro v' k' hm
      simp only [List.mem_filter, bne_iff_ne, ne_eq] at hm
      simp only [upd, hm.2, if_false]
      exact h.2 v' k' hm.1
    | restore k v =>
      simp only [dom, sem]
      split
      · rename_i hc
        have hc' : (v, k) ∈ d.snaps := by simpa using hc
        refine ⟨?_, h.2⟩
        intro k' hk'
        by_cases hkk : k' = k
        · subst hkk; simp only [upd, if_true]; exact h.2 v k' hc'
        · simp only [upd, hkk, if_false]
          apply h.1
          intro hm
          apply hk'
          simp only [List.mem_filter, bne_iff_ne, ne_eq]
          exact ⟨hm, hkk⟩
      · refine ⟨?_, h.2⟩
        intro k' hk'
        simp only [List.mem_cons, not_or] at hk'
        simp only [upd, hk'.1, if_false]
        exact h.1 k' hk'.2
    | write k =>
      simp only [dom, sem]
      refine ⟨?_, h.2⟩
      intro k' hk'
      simp only [List.mem_cons, not_or] at hk'
      simp only [upd, hk'.1, if_false]
      exact h.1 k' hk'.2
    | nop => exact h
    | bindAlias _ _ => exact h
    | bindFresh _ => exact h
    | mutate _ => exact h
    | wattr _ _ => exact h
    | rattr _ => exact h
    | dattr _ => exact h
  assume_sound c d n s _ h := h

/-- **Exception safety of hyper-parameters.**  If the analysis accepts a method body, then
for every execution — every branch, every iteration count, an exception raised by ANY call —
the hyper-parameters at exit are exactly those at entry. -/
theorem params_restored (p : Prog Act) (hsafe : exitsGood (fun _ => good) (analyze dom p entry) = true)
    (o : Oracle) (s : St) : ∀ k, (exec sem p o s).2.1.params k = s.params k := by
  have hrel : Rel s.params entry s := ⟨fun _ _ => rfl, fun _ _ hm => by simp [entry] at hm⟩
  refine exits_good_sound (sound s.params) (fun _ => good) (fun _ s' => ∀ k, s'.params k = s.params k) ?_ p entry s o hrel hsafe
  intro _ d s' hg hr k
  apply hr.1
  simp only [good, List.isEmpty_iff] at hg
  simp [hg]

end ParamSafe

/-! ## 2. Owner -/
namespace Owner

/-- caller memory (locations `< m`) is intact, fresh locations are outside it, and every name
not in the abstract set points outside it -/
def Rel (m : Nat) (h0 : Nat → Nat) (d : Abs) (s : St) : Prop :=
  (∀ l, l < m → s.heap l = h0 l) ∧ m ≤ s.next ∧ (∀ v, v ∉ d → m ≤ s.env v)

theorem sound (m : Nat) (h0 : Nat → Nat) : Sound sem dom (Rel m h0) where
  join_l a b s h := ⟨h.1, h.2.1, fun v hv => h.2.2 v (fun hm => hv (List.mem_append_left _ hm))⟩
  join_r a b s h := ⟨h.1, h.2.1, fun v hv => h.2.2 v (fun hm => hv (mem_union_right hm))⟩
  le_sound a b s hle h := by
    simp only [dom, List.all_eq_true, List.contains_iff_mem] at hle
    exact ⟨h.1, h.2.1, fun v hv => h.2.2 v (fun hm => hv (hle v hm))⟩
  step_sound x d n s hc h := by
    cases x with
    | bindFresh v =>
      simp only [dom, sem]
      refine ⟨h.1, Nat.le_succ_of_le h.2.1, ?_⟩
      intro v' hv'
      by_cases hvv : v' = v
      · subst hvv; simp only [upd, if_true]; exact h.2.1
      · simp only [upd, hvv, if_false]
        apply h.2.2
        intro hm; apply hv'
        simp only [List.mem_filter, bne_iff_ne, ne_eq]; exact ⟨hm, hvv⟩
    | bindAlias v us =>
      simp only [dom, sem]
      cases hu : us[n]? with
      | none =>
        simp only
        refine ⟨h.1, Nat.le_succ_of_le h.2.1, ?_⟩
        intro v' hv'
        by_cases hvv : v' = v
        · subst hvv; simp only [upd, if_true]; exact h.2.1
        · simp only [upd, hvv, if_false]
          apply h.2.2
          intro hm; apply hv'
          split
          · exact List.mem_cons_of_mem _ hm
          · simp only [List.mem_filter, bne_iff_ne, ne_eq]; exact ⟨hm, hvv⟩
      | some u =>
        simp only
        refine ⟨h.1, h.2.1, ?_⟩
        intro v' hv'
        have hmem : u ∈ us := List.mem_of_getElem? hu
        by_cases hvv : v' = v
        · subst hvv
          simp only [upd, if_true]
          split at hv'
          · simp at hv'
          · rename_i hany
            apply h.2.2
            intro hm
            apply hany
            simp only [List.any_eq_true, List.contains_iff_mem]
            exact ⟨u, hmem, hm⟩
        · simp only [upd, hvv, if_false]
          apply h.2.2
          intro hm; apply hv'
          split
          · exact List.mem_cons_of_mem _ hm
          · simp only [List.mem_filter, bne_iff_ne, ne_eq]; exact ⟨hm, hvv⟩
    | mutate v =>
      have hv : v ∉ d := by simpa [dom] using hc
      simp only [dom, sem]
      refine ⟨?_, h.2.1, h.2.2⟩
      intro l hl
      have : m ≤ s.env v := h.2.2 v hv
      have hne : l ≠ s.env v := by omega
      simp only [upd, hne, if_false]
      exact h.1 l hl
    | nop => exact h
    | snap _ _ => exact h
    | kill _ => exact h
    | restore _ _ => exact h
    | write _ => exact h
    | wattr _ _ => exact h
    | rattr _ => exact h
    | dattr _ => exact h
  assume_sound c d n s _ h := h

/-- **Caller data is never written.**  `borrowed` lists the names that may point into the
caller's memory at entry (the array arguments and whatever aliases them).  If the analysis
accepts the body, then for every execution, however it ends, every location of the caller's
memory holds what it held at entry. -/
theorem caller_memory_untouched (p : Prog Act) (borrowed : List Nat)
    (hok : exitsGood (fun _ _ => true) (analyze dom p borrowed) = true)
    (m : Nat) (o : Oracle) (s : St) (hnext : m ≤ s.next)
    (henv : ∀ v, v ∉ borrowed → m ≤ s.env v) :
    ∀ l, l < m → (exec sem p o s).2.1.heap l = s.heap l := by
  have hrel : Rel m s.heap borrowed s := ⟨fun _ _ => rfl, hnext, henv⟩
  exact exits_good_sound (sound m s.heap) (fun _ _ => true) (fun _ s' => ∀ l, l < m → s'.heap l = s.heap l)
    (fun _ d s' _ hr => hr.1) p borrowed s o hrel hok

end Owner

/-! ## 3. Fresh -/
namespace Fresh

def Rel (d : Abs) (s : St) : Prop := s.leak = false ∧ ∀ a, a ∈ d → (s.attrs a).2 = false

theorem sound : Sound sem dom Rel where
  join_l a b s h := ⟨h.1, fun x hx => h.2 x (by simp only [dom, List.mem_filter] at hx; exact hx.1)⟩
  join_r a b s h := ⟨h.1, fun x hx => h.2 x (by
    simp only [dom, List.mem_filter, List.contains_iff_mem] at hx; exact hx.2)⟩
  le_sound a b s hle h := by
    simp only [dom, List.all_eq_true, List.contains_iff_mem] at hle
    exact ⟨h.1, fun x hx => h.2 x (hle x hx)⟩
  step_sound x d n s hc h := by
    cases x with
    | wattr a reads =>
      simp only [dom, List.all_eq_true, List.contains_iff_mem] at hc
      have ht : (reads.any fun r => (s.attrs r).2) = false := by
        simp only [List.any_eq_false]
        intro r hr
        simp [h.2 r (hc r hr)]
      simp only [dom, sem, ht, Bool.or_false]
      refine ⟨h.1, ?_⟩
      intro x hx
      by_cases hxa : x = a
      · subst hxa; simp [updA]
      · simp only [updA, hxa, if_false]
        simp only [List.mem_cons] at hx
        rcases hx with hx | hx
        · exact absurd hx hxa
        · exact h.2 x hx
    | rattr reads =>
      simp only [dom, List.all_eq_true, List.contains_iff_mem] at hc
      have ht : (reads.any fun r => (s.attrs r).2) = false := by
        simp only [List.any_eq_false]
        intro r hr
        simp [h.2 r (hc r hr)]
      simp only [dom, sem, ht, Bool.or_false]
      exact h
    | dattr a =>
      simp only [dom, sem]
      refine ⟨h.1, ?_⟩
      intro x hx
      by_cases hxa : x = a
      · subst hxa; simp [updA]
      · simp only [updA, hxa, if_false]
        simp only [List.mem_cons] at hx
        rcases hx with hx | hx
        · exact absurd hx hxa
        · exact h.2 x hx
    | nop => exact h
    | snap _ _ => exact h
    | kill _ => exact h
    | restore _ _ => exact h
    | write _ => exact h
    | bindAlias _ _ => exact h
    | bindFresh _ => exact h
    | mutate _ => exact h
  assume_sound c d n s _ h := h

/-- what is demanded of each kind of exit: a fit that RAISES need not have rewritten anything
(it still must not have read anything stale); every other exit must have rewritten all of `required` -/
def goodAt (required : List Nat) (out : Outcome) (d : Abs) : Bool :=
  out == .exc || good required d

/-- **No leak from an earlier fit.**  Start `fit` in ANY state left by earlier calls (every
attribute tainted "stale").  If the analysis accepts the body with `required` = the attributes
observers read or lazily write, then for every execution: no stale value was ever read
(`leak = false`: everything computed is a function of this call's inputs only), and unless fit
raised, at exit every required attribute is fresh. -/
theorem nothing_stale (p : Prog Act) (required : List Nat)
    (hok : exitsGood (goodAt required) (analyze dom p []) = true)
    (o : Oracle) (s : St) (hleak : s.leak = false) :
    (exec sem p o s).2.1.leak = false ∧
    ((exec sem p o s).1 ≠ .exc → ∀ a, a ∈ required → ((exec sem p o s).2.1.attrs a).2 = false) := by
  have hrel : Rel [] s := ⟨hleak, fun a ha => by simp at ha⟩
  refine exits_good_sound sound (goodAt required)
    (fun out s' => s'.leak = false ∧ (out ≠ .exc → ∀ a, a ∈ required → (s'.attrs a).2 = false)) ?_ p [] s o hrel hok
  intro out d s' hg hr
  refine ⟨hr.1, fun hne a ha => ?_⟩
  simp only [goodAt, Bool.or_eq_true, beq_iff_eq] at hg
  rcases hg with hg | hg
  · exact absurd hg hne
  · simp only [good, List.all_eq_true, List.contains_iff_mem] at hg
    exact hr.2 a (hg a ha)

end Fresh

/-! ## 3b. two runs -/
namespace NI

/-- the two runs agree on every attribute already rewritten -/
def Rel (d : Fresh.Abs) (st : St × St) : Prop := ∀ a, a ∈ d → st.1.attrs a = st.2.attrs a

theorem map_agree {d : Fresh.Abs} {s t : St} (h : Rel d (s, t)) (reads : List Nat)
    (hr : ∀ r ∈ reads, r ∈ d) : reads.map s.attrs = reads.map t.attrs := by
  apply List.map_congr_left
  intro r hm
  exact h r (hr r hm)

theorem sound : Sound (pairSem sem) Fresh.dom Rel where
  join_l a b st h := fun x hx => h x (by simp only [Fresh.dom, List.mem_filter] at hx; exact hx.1)
  join_r a b st h := fun x hx => h x (by
    simp only [Fresh.dom, List.mem_filter, List.contains_iff_mem] at hx; exact hx.2)
  le_sound a b st hle h := by
    simp only [Fresh.dom, List.all_eq_true, List.contains_iff_mem] at hle
    exact fun x hx => h x (hle x hx)
  step_sound x d n st hc h := by
    obtain ⟨s, t⟩ := st
    cases x with
    | wattr a reads =>
      simp only [Fresh.dom, List.all_eq_true, List.contains_iff_mem] at hc
      have hm := map_agree h reads hc
      intro y hy
      simp only [pairSem, sem, Fresh.dom] at hy ⊢
      by_cases hya : y = a
      · subst hya; simp [upd, hm]
      · simp only [upd, hya, if_false]
        simp only [List.mem_cons] at hy
        rcases hy with hy | hy
        · exact absurd hy hya
        · exact h y hy
    | dattr a =>
      intro y hy
      simp only [pairSem, sem, Fresh.dom] at hy ⊢
      by_cases hya : y = a
      · subst hya; simp [upd]
      · simp only [upd, hya, if_false]
        simp only [List.mem_cons] at hy
        rcases hy with hy | hy
        · exact absurd hy hya
        · exact h y hy
    | nop => exact h
    | snap _ _ => exact h
    | kill _ => exact h
    | restore _ _ => exact h
    | write _ => exact h
    | bindAlias _ _ => exact h
    | bindFresh _ => exact h
    | mutate _ => exact h
    | rattr _ => exact h
  assume_sound c d n st _ h := h

/-- a condition the analysis accepts reads only rewritten attributes, so both runs take the same branch -/
theorem agree (c : Act) (d : Fresh.Abs) (n : Nat) (s t : St) (hc : Fresh.dom.check c d = true)
    (h : Rel d (s, t)) : sem.test c n t = sem.test c n s := by
  cases c with
  | rattr reads =>
    simp only [Fresh.dom, List.all_eq_true, List.contains_iff_mem] at hc
    simp only [sem, map_agree h reads hc]
  | wattr a reads =>
    simp only [Fresh.dom, List.all_eq_true, List.contains_iff_mem] at hc
    simp only [sem, map_agree h reads hc]
  | nop => rfl
  | snap _ _ => rfl
  | kill _ => rfl
  | restore _ _ => rfl
  | write _ => rfl
  | bindAlias _ _ => rfl
  | bindFresh _ => rfl
  | mutate _ => rfl
  | dattr _ => rfl

/-- **Refit = fit of a fresh clone** (two-run form).  Run the same `fit` skeleton with the same
inputs (oracle: data, parameters, random draws) from two ARBITRARY attribute states `s` (whatever
earlier fits and observer calls left) and `t` (e.g. the empty state of a fresh clone), where written
values and attribute-dependent branches are functions of the inputs and of the attribute values read.
If the analysis accepts the skeleton, both runs end the same way (both succeed or both raise, having
consumed the same inputs) and, unless they raise, agree on the value of every attribute an observer
can read. -/
theorem refit_equals_fresh_fit (p : Prog Act) (required : List Nat)
    (hok : exitsGood (Fresh.goodAt required) (analyze Fresh.dom p []) = true)
    (o : Oracle) (s t : St) :
    (exec sem p o t).1 = (exec sem p o s).1 ∧ (exec sem p o t).2.2 = (exec sem p o s).2.2 ∧
    ((exec sem p o s).1 ≠ .exc →
      ∀ a, a ∈ required → (exec sem p o s).2.1.attrs a = (exec sem p o t).2.1.attrs a) := by
  have hrel : Rel [] (s, t) := fun a ha => by simp at ha
  have hok' : (analyze Fresh.dom p []).ok = true := by
    simp only [exitsGood, Bool.and_eq_true] at hok; exact hok.1.1.1.1
  obtain ⟨he, hl⟩ := pair_exec sound agree p [] s t o hrel hok'
  have hP := exits_good_sound sound (Fresh.goodAt required)
    (fun out (st : St × St) => out ≠ .exc → ∀ a, a ∈ required → st.1.attrs a = st.2.attrs a) (by
      intro out d st hg hr hne a ha
      simp only [Fresh.goodAt, Bool.or_eq_true, beq_iff_eq] at hg
      rcases hg with hg | hg
      · exact absurd hg hne
      · simp only [Fresh.good, List.all_eq_true, List.contains_iff_mem] at hg
        exact hr a (hg a ha)) p [] (s, t) o hrel hok
  rw [he] at hP
  exact ⟨hl.1, hl.2, hP⟩

end NI

/-! ## 4. Trace -/
namespace Trace

def Rel (d : Abs) (s : St) : Prop := ∀ i, s = some i → i ∈ d

theorem sound (evs : List Ev) : Sound (sem evs) (dom evs) Rel where
  join_l a b s h := fun i hi => List.mem_append_left _ (h i hi)
  join_r a b s h := fun i hi => mem_union_right (h i hi)
  le_sound a b s hle h := by
    simp only [dom, List.all_eq_true, List.contains_iff_mem] at hle
    exact fun i hi => hle i (h i hi)
  step_sound x d n s _ h := by
    intro j hj
    simp only [sem] at hj
    simp only [dom]
    cases he : evOf x with
    | none =>
      rw [he] at hj
      simpa [he] using h j hj
    | some e =>
      rw [he] at hj
      cases s with
      | none => simp at hj
      | some i =>
        simp only at hj
        split at hj
        · rename_i hm
          have : j = i + 1 := by simpa using hj.symm
          subst this
          simp only [List.mem_map, List.mem_filter, decide_eq_true_eq]
          exact ⟨i, ⟨h i rfl, hm⟩, rfl⟩
        · simp at hj
  assume_sound c d n s _ h := h

/-- **The matcher never rejects a sequence the skeleton can emit**: if some execution of `p`
(any oracle) emits exactly the observed events `evs`, and the loop heads stabilised, then
`accepts p evs = true`.  Contrapositive, used by the correspondence: a rejected trace of the real
code is one NO execution of the regenerated skeleton can produce. -/
theorem emitted_is_accepted (p : Prog Act) (evs : List Ev) (o : Oracle)
    (hok : (analyze (dom evs) p [0]).ok = true)
    (hemit : (exec (sem evs) p o (some 0)).2.1 = some evs.length) :
    accepts p evs = true := by
  have hrel : Rel [0] (some 0) := fun i hi => by
    have : i = 0 := by simpa using hi.symm
    simp [this]
  have hc := analyze_sound (sound evs) p [0] (some 0) o hrel hok
  simp only [accepts, hok, Bool.true_and, Bool.or_eq_true, List.contains_iff_mem]
  cases hout : (exec (sem evs) p o (some 0)).1 <;> rw [hout] at hc <;> obtain ⟨d', h1, hr⟩ := hc <;>
    have hm := hr _ hemit
  · left; left; left; simpa [h1] using hm
  · left; left; right; simpa [h1] using hm
  · left; right; simpa [h1] using hm
  · right; simpa [h1] using hm

end Trace

end MlVerif.Lifecycle
