/-
C12 — lemmas about the digitize2tree model (core Lean only).
`StepOk` is the specification of one activation of `add_nodes`; `addNodes_spec` proves it for
the REGENERATED `Gen.C12.addNodes` (robust to harmless rewrites of the source: any split index
in `[i, j)` — `(i, j)` on the right side — with the children `(i, k, True)`, `(k, j, False)`
satisfies it). Everything else is proved from `StepOk` only.
-/
import MlVerif.Model.Digitize
set_option linter.unusedSimpArgs false
namespace MlVerif.Digitize
open MlVerif.Gen MlVerif.Gen.C12 MlVerif.TreeStruct

/-- what a correct activation of `add_nodes(parent, i, j, is_left)` may do -/
def StepOk (i j : Int) (isLeft : Bool) : Act → Prop
  | .leaf v => (isLeft = true ∧ i = j ∧ v = i) ∨ (isLeft = false ∧ i + 1 = j ∧ v = j)
  | .split k c1 c2 => c1 = ⟨i, k, true⟩ ∧ c2 = ⟨k, j, false⟩ ∧ i ≤ k ∧ k < j ∧ (isLeft = false → i < k)
  | _ => False

theorem addNodes_spec (i j : Int) (isLeft : Bool) (h : if isLeft then i ≤ j else i < j) :
    StepOk i j isLeft (addNodes i j isLeft) := by
  unfold addNodes
  cases isLeft
  all_goals simp only [Bool.false_eq_true, if_false, if_true] at h ⊢
  all_goals repeat' split
  all_goals simp (disch := omega) only [StepOk, pyFloorDiv_pos, decide_eq_true_eq] at *
  all_goals first | omega | (simp; done) | (simp; omega)

/-- `bins[k]` for an index known to be in range (0 outside, never used there) -/
def B (bins : List Rat) (k : Int) : Rat := bins.getD k.toNat 0

def StrictAsc (bins : List Rat) : Prop := bins.Pairwise (· < ·)
def StrictDesc (bins : List Rat) : Prop := bins.Pairwise (· > ·)

theorem B_lt (bins : List Rat) (hm : StrictAsc bins) (a b : Int) (h0 : 0 ≤ a) (hab : a < b)
    (hb : b < bins.length) : B bins a < B bins b := by
  have h := (List.pairwise_iff_getElem.mp hm) a.toNat b.toNat (by omega) (by omega) (by omega)
  have ha : a.toNat < bins.length := by omega
  have hb' : b.toNat < bins.length := by omega
  simpa [B, List.getD_eq_getElem?_getD, List.getElem?_eq_getElem ha, List.getElem?_eq_getElem hb'] using h

theorem pyIndex_ok (bins : List Rat) (k : Int) (h0 : 0 ≤ k) (hk : k < bins.length) :
    pyIndex bins k = .ok (B bins k) := by
  have hk' : k.toNat < bins.length := by omega
  have : ¬ k < 0 := by omega
  simp [pyIndex, this, h0, B, List.getD_eq_getElem?_getD, List.getElem?_eq_getElem hk']

/-- every element before position k is < x and every element from k on is ≥ x: the count is k -/
theorem countLt_split (bins : List Rat) (x : Rat) (k : Nat) (hk : k ≤ bins.length)
    (hlo : ∀ m (h : m < bins.length), m < k → bins[m] < x)
    (hhi : ∀ m (h : m < bins.length), k ≤ m → x ≤ bins[m]) : countLt bins x = k := by
  have hsplit : bins = bins.take k ++ bins.drop k := (List.take_append_drop k bins).symm
  unfold countLt
  rw [hsplit, List.filter_append, List.length_append]
  have h1 : (bins.take k).filter (fun b => decide (b < x)) = bins.take k := by
    rw [List.filter_eq_self]
    intro a ha
    obtain ⟨m, hm, rfl⟩ := List.getElem_of_mem ha
    have hmk : m < k := by simp at hm; omega
    simp only [List.getElem_take, decide_eq_true_eq]
    exact hlo m (by omega) hmk
  have h2 : (bins.drop k).filter (fun b => decide (b < x)) = [] := by
    rw [List.filter_eq_nil_iff]
    intro a ha
    obtain ⟨m, hm, rfl⟩ := List.getElem_of_mem ha
    have hm' : k + m < bins.length := by simp at hm; omega
    simp only [List.getElem_drop, decide_eq_true_eq]
    have := hhi (k + m) hm' (by omega)
    grind
  rw [h1, h2]
  simp; omega

/-- the bracket `bins[k-1] < x ≤ bins[k]` determines the answer k (strictly increasing bins) -/
theorem dig_bracket (bins : List Rat) (hm : StrictAsc bins) (x : Rat) (k : Int) (h0 : 0 ≤ k)
    (hk : k ≤ bins.length) (hlo : k = 0 ∨ B bins (k - 1) < x) (hhi : k = bins.length ∨ x ≤ B bins k) :
    (countLt bins x : Int) = k := by
  have : countLt bins x = k.toNat := by
    apply countLt_split bins x k.toNat (by omega)
    · intro m hml hmk
      have hB : B bins m = bins[m] := by
        simp [B, List.getD_eq_getElem?_getD, List.getElem?_eq_getElem hml]
      rcases hlo with h | h
      · omega
      · by_cases e : (m : Int) = k - 1
        · rw [← hB, e]; exact h
        · have := B_lt bins hm m (k - 1) (by omega) (by omega) (by omega)
          rw [← hB]; grind
    · intro m hml hkm
      have hB : B bins m = bins[m] := by
        simp [B, List.getD_eq_getElem?_getD, List.getElem?_eq_getElem hml]
      rcases hhi with h | h
      · omega
      · by_cases e : (m : Int) = k
        · rw [← hB, e]; exact h
        · have := B_lt bins hm k m (by omega) (by omega) (by omega)
          rw [← hB]; grind
  omega

/-- every call within range returns a tree (no NotImplementedError, no IndexError, bounded depth) -/
theorem build_ok (bins : List Rat) :
    ∀ (fuel : Nat) (i j : Int) (fl : Bool),
      (2 * (j - i) + (if fl then 1 else 0)).toNat < fuel → 0 ≤ i →
      (fl = true → i ≤ j ∧ j < bins.length) → (fl = false → i < j ∧ j ≤ bins.length) →
      ∃ T, build bins fuel ⟨i, j, fl⟩ = .ok T := by
  intro fuel
  induction fuel with
  | zero => intro i j fl h; omega
  | succ fuel ih =>
    intro i j fl hfuel hi hL hR
    have hspec := addNodes_spec i j fl (by
      cases fl
      · simpa using (hR rfl).1
      · simpa using (hL rfl).1)
    unfold build
    simp only
    generalize addNodes i j fl = act at hspec
    cases act with
    | raise => exact hspec.elim
    | unknown s => exact hspec.elim
    | leaf v => exact ⟨.leaf v, rfl⟩
    | split k c1 c2 =>
      obtain ⟨hc1, hc2, hik, hkj, hfk⟩ := hspec
      subst hc1; subst hc2
      have hjn : j ≤ bins.length := by
        cases fl
        · exact (hR rfl).2
        · have := (hL rfl).2; omega
      have hth := pyIndex_ok bins k (by omega) (by omega)
      obtain ⟨Tl, hTl⟩ := ih i k true (by cases fl <;> simp at hfuel ⊢ <;> omega) hi
        (fun _ => ⟨hik, by omega⟩) (fun h => by cases h)
      obtain ⟨Tr, hTr⟩ := ih k j false (by
          cases fl
          · have := hfk rfl; simp at hfuel ⊢; omega
          · simp at hfuel ⊢; omega) (by omega)
        (fun h => by cases h) (fun _ => ⟨hkj, hjn⟩)
      refine ⟨.node (B bins k) Tl Tr, ?_⟩
      simp only [Bool.not_false, Bool.and_self, if_true]
      rw [hth, hTl, hTr]

/-- The `add_nodes` recursion is correct for every reachable `(i, j, is_left)` and every x:
a left call `(i, j, True)` receives the x with `bins[i-1] < x ≤ bins[j]`, a right call
`(i, j, False)` those with `bins[i] < x ≤ bins[j]` (`j = len(bins)`: no upper bound). -/
theorem build_correct (bins : List Rat) (hm : StrictAsc bins) (x : Rat) :
    ∀ (fuel : Nat) (i j : Int) (fl : Bool),
      (2 * (j - i) + (if fl then 1 else 0)).toNat < fuel → 0 ≤ i →
      (fl = true → i ≤ j ∧ j < bins.length ∧ x ≤ B bins j ∧ (i = 0 ∨ B bins (i - 1) < x)) →
      (fl = false → i < j ∧ j ≤ bins.length ∧ B bins i < x ∧ (j = bins.length ∨ x ≤ B bins j)) →
      ∃ T, build bins fuel ⟨i, j, fl⟩ = .ok T ∧ T.eval x = countLt bins x := by
  intro fuel
  induction fuel with
  | zero => intro i j fl h; omega
  | succ fuel ih =>
    intro i j fl hfuel hi hL hR
    have hspec := addNodes_spec i j fl (by
      cases fl
      · simpa using (hR rfl).1
      · simpa using (hL rfl).1)
    unfold build
    simp only
    generalize addNodes i j fl = act at hspec
    cases act with
    | raise => exact hspec.elim
    | unknown s => exact hspec.elim
    | leaf v =>
      refine ⟨.leaf v, rfl, ?_⟩
      simp only [DTree.eval]
      rcases hspec with ⟨hfl, hij, hv⟩ | ⟨hfl, hij, hv⟩
      · obtain ⟨_, hjn, hx, hlo⟩ := hL hfl
        rw [hv]
        rw [← hij] at hx hjn
        exact (dig_bracket bins hm x i hi (by omega) hlo (Or.inr hx)).symm
      · obtain ⟨_, hjn, hx, hhi⟩ := hR hfl
        rw [hv]
        refine (dig_bracket bins hm x j (by omega) hjn (Or.inr ?_) hhi).symm
        have : j - 1 = i := by omega
        rw [this]; exact hx
    | split k c1 c2 =>
      obtain ⟨hc1, hc2, hik, hkj, hfk⟩ := hspec
      subst hc1; subst hc2
      have hjn : j ≤ bins.length := by
        cases fl
        · exact (hR rfl).2.1
        · have := (hL rfl).2.1; omega
      have hlo : i = 0 ∨ B bins (i - 1) < x := by
        cases fl
        · rcases Int.lt_or_le 0 i with hp | hz
          · right
            have h1 := B_lt bins hm (i - 1) i (by omega) (by omega) (by omega)
            have h2 := (hR rfl).2.2.1
            grind
          · left; omega
        · exact (hL rfl).2.2.2
      have hhi : j = bins.length ∨ x ≤ B bins j := by
        cases fl
        · exact (hR rfl).2.2.2
        · exact Or.inr (hL rfl).2.2.1
      have hth := pyIndex_ok bins k (by omega) (by omega)
      simp only [Bool.not_false, Bool.and_self, if_true]
      by_cases hxk : x ≤ B bins k
      · -- x goes left; the right subtree only has to exist
        obtain ⟨Tl, hTl, hel⟩ := ih i k true (by cases fl <;> simp at hfuel ⊢ <;> omega) hi
          (fun _ => ⟨hik, by omega, hxk, hlo⟩) (fun h => by cases h)
        -- existence of the right subtree: evaluate it at a point that does go right
        obtain ⟨Tr, hTr⟩ := build_ok bins fuel k j false (by
            cases fl
            · have := hfk rfl; simp at hfuel ⊢; omega
            · simp at hfuel ⊢; omega) (by omega)
          (fun h => by cases h) (fun _ => ⟨hkj, hjn⟩)
        refine ⟨.node (B bins k) Tl Tr, ?_, ?_⟩
        · rw [hth, hTl, hTr]
        · simp [DTree.eval, hxk, hel]
      · have hkx : B bins k < x := by grind
        obtain ⟨Tl, hTl⟩ := build_ok bins fuel i k true (by cases fl <;> simp at hfuel ⊢ <;> omega) hi
          (fun _ => ⟨hik, by omega⟩) (fun h => by cases h)
        obtain ⟨Tr, hTr, her⟩ := ih k j false (by
            cases fl
            · have := hfk rfl; simp at hfuel ⊢; omega
            · simp at hfuel ⊢; omega) (by omega)
          (fun h => by cases h) (fun _ => ⟨hkj, hjn, hkx, hhi⟩)
        refine ⟨.node (B bins k) Tl Tr, ?_, ?_⟩
        · rw [hth, hTl, hTr]
        · simp [DTree.eval, hxk, her]

/-! ### the root (`add_root` and the two top-level calls) and the two directions -/

/-- what the top of the ascending branch must do: split at some k in range, children (0,k,True), (k,n,False) -/
def RootOk (n : Int) : Prop :=
  let idx := rootIndex n
  let k := rootThIndex idx
  rootAssert n idx = true ∧ 0 ≤ k ∧ k < n ∧ rootFirst n idx = ⟨0, k, true⟩ ∧ rootSecond n idx = ⟨k, n, false⟩

theorem root_spec (n : Int) (hn : 1 ≤ n) : RootOk n := by
  unfold RootOk rootIndex rootThIndex rootAssert rootFirst rootSecond
  simp (disch := omega) only [pyFloorDiv_pos]
  refine ⟨?_, ?_, ?_, ?_, ?_⟩ <;> first | omega | (simp; done) | (simp; omega)

theorem digitizeAsc_correct (bins : List Rat) (hn : 1 ≤ bins.length) (hm : StrictAsc bins) (x : Rat) :
    ∃ T, digitizeAsc bins = .ok T ∧ T.eval x = countLt bins x := by
  obtain ⟨hassert, hk0, hkn, hfirst, hsecond⟩ := root_spec bins.length (by omega)
  unfold digitizeAsc
  simp only [hassert, hfirst, hsecond, Bool.not_true, Bool.false_eq_true, if_false, Bool.not_false,
    Bool.and_self, if_true]
  generalize rootThIndex (rootIndex bins.length) = k at hk0 hkn
  have hth := pyIndex_ok bins k hk0 hkn
  have hf : fuelFor bins = 2 * bins.length + 3 := rfl
  by_cases hxk : x ≤ B bins k
  · obtain ⟨Tl, hTl, hel⟩ := build_correct bins hm x (fuelFor bins) 0 k true (by simp; omega) (by omega)
      (fun _ => ⟨hk0, hkn, hxk, Or.inl rfl⟩) (fun h => by cases h)
    obtain ⟨Tr, hTr⟩ := build_ok bins (fuelFor bins) k bins.length false (by simp; omega) hk0
      (fun h => by cases h) (fun _ => ⟨hkn, by omega⟩)
    refine ⟨.node (B bins k) Tl Tr, ?_, ?_⟩
    · rw [hth, hTl, hTr]
    · simp [DTree.eval, hxk, hel]
  · have hkx : B bins k < x := by grind
    obtain ⟨Tl, hTl⟩ := build_ok bins (fuelFor bins) 0 k true (by simp; omega) (by omega)
      (fun _ => ⟨hk0, hkn⟩) (fun h => by cases h)
    obtain ⟨Tr, hTr, her⟩ := build_correct bins hm x (fuelFor bins) k bins.length false (by simp; omega) hk0
      (fun h => by cases h) (fun _ => ⟨hkn, by omega, hkx, Or.inl rfl⟩)
    refine ⟨.node (B bins k) Tl Tr, ?_, ?_⟩
    · rw [hth, hTl, hTr]
    · simp [DTree.eval, hxk, her]

/-- what the direction test has to deliver: true on increasing first edges and on a single edge,
false on decreasing first edges of at least two (robust to `<` vs `<=` in the source) -/
theorem ascending_spec (n : Int) (b0 b1 : Rat) :
    (n ≤ 1 → ascending n b0 b1 = true) ∧ (b0 < b1 → ascending n b0 b1 = true) ∧
    (1 < n → b1 < b0 → ascending n b0 b1 = false) := by
  unfold ascending
  refine ⟨?_, ?_, ?_⟩
  · intro h; simp [h]
  · intro h
    have h' : b0 ≤ b1 := by grind
    simp [h, h']
  · intro h1 h2
    have h3 : ¬ n ≤ 1 := by omega
    have h4 : ¬ b0 < b1 := by grind
    have h5 : ¬ b0 ≤ b1 := by grind
    simp [h3, h4, h5]

theorem descValue_spec (n v : Int) : descValue n v = n - v := by
  unfold descValue; omega

theorem eval_mapValues (f : Int → Int) (T : DTree) (x : Rat) : (T.mapValues f).eval x = f (T.eval x) := by
  induction T with
  | leaf v => rfl
  | node th l r ihl ihr => simp only [DTree.mapValues, DTree.eval]; split <;> assumption

theorem countLt_reverse (bins : List Rat) (x : Rat) : countLt bins.reverse x = countLt bins x := by
  simp [countLt, List.filter_reverse]

theorem countLt_add_countGe (bins : List Rat) (x : Rat) : countLt bins x + countGe bins x = bins.length := by
  induction bins with
  | nil => rfl
  | cons b rest ih =>
    simp only [countLt, countGe, List.filter_cons, List.length_cons] at ih ⊢
    by_cases h : b < x
    · have h' : ¬ x ≤ b := by grind
      simp [h, h']; omega
    · have h' : x ≤ b := by grind
      simp [h, h']; omega

/-- strictly increasing bins of length ≥ 1 take the ascending branch -/
theorem asc_branch (bins : List Rat) (hn : 1 ≤ bins.length) (hm : StrictAsc bins) :
    ascending bins.length (bins.getD 0 0) (bins.getD 1 0) = true := by
  obtain ⟨h1, h2, _⟩ := ascending_spec bins.length (bins.getD 0 0) (bins.getD 1 0)
  by_cases hle : bins.length ≤ 1
  · exact h1 (by omega)
  · apply h2
    have := B_lt bins hm 0 1 (by omega) (by omega) (by omega)
    simpa [B] using this

/-- strictly decreasing bins of length ≥ 2 do not -/
theorem desc_branch (bins : List Rat) (hn : 2 ≤ bins.length) (hm : StrictDesc bins) :
    ascending bins.length (bins.getD 0 0) (bins.getD 1 0) = false := by
  obtain ⟨_, _, h3⟩ := ascending_spec bins.length (bins.getD 0 0) (bins.getD 1 0)
  apply h3 (by omega)
  have h := (List.pairwise_iff_getElem.mp hm) 0 1 (by omega) (by omega) (by omega)
  have h0 : 0 < bins.length := by omega
  have h1 : 1 < bins.length := by omega
  simpa [List.getD_eq_getElem?_getD, List.getElem?_eq_getElem h0, List.getElem?_eq_getElem h1] using h

theorem strictAsc_reverse (bins : List Rat) (hm : StrictDesc bins) : StrictAsc bins.reverse := by
  unfold StrictAsc
  rw [List.pairwise_reverse]
  exact hm

theorem flatten_length (T : DTree) (off : Nat) : (flatten T off).length = T.size := by
  induction T generalizing off with
  | leaf v => rfl
  | node th l r ihl ihr => simp [flatten, DTree.size, ihl, ihr]; omega

theorem size_pos (T : DTree) : 0 < T.size := by cases T <;> simp [DTree.size] <;> omega

/-- scikit-learn's traversal of the preorder arrays follows the inductive tree: from the node
numbered `off` it ends in a leaf inside the block of `T` whose value is `T.eval x`. -/
theorem descend_flatten (x : Rat) (T : DTree) : ∀ (t : ATree) (off fuel : Nat),
    (∀ k, k < T.size → t[off + k]? = ((flatten T off)[k]?).map (·.1)) → T.size ≤ fuel →
    ∃ path leaf, descend t [x] fuel off = some path ∧ path.getLast? = some leaf ∧
      off ≤ leaf ∧ leaf < off + T.size ∧
      ((flatten T off)[leaf - off]?).map (·.2) = some (some (T.eval x)) := by
  induction T with
  | leaf v =>
    intro t off fuel ht hf
    have h0 := ht 0 (by simp [DTree.size])
    simp [flatten] at h0
    cases fuel with
    | zero => simp [DTree.size] at hf
    | succ fuel =>
      refine ⟨[off], off, ?_, rfl, Nat.le_refl _, by simp [DTree.size], ?_⟩
      · simp [descend, h0, TREE_LEAF]
      · simp [flatten, DTree.eval]
  | node th l r ihl ihr =>
    intro t off fuel ht hf
    have h0 := ht 0 (by simp [DTree.size]; omega)
    simp [flatten] at h0
    have hll := flatten_length l (off + 1)
    have hlr := flatten_length r (off + 1 + l.size)
    have htl : ∀ k, k < l.size → t[off + 1 + k]? = ((flatten l (off + 1))[k]?).map (·.1) := by
      intro k hk
      have := ht (k + 1) (by simp [DTree.size]; omega)
      rw [show off + (k + 1) = off + 1 + k by omega] at this
      rw [this]
      simp only [flatten, List.getElem?_cons_succ]
      rw [List.getElem?_append_left (by omega)]
    have htr : ∀ k, k < r.size → t[off + 1 + l.size + k]? = ((flatten r (off + 1 + l.size))[k]?).map (·.1) := by
      intro k hk
      have := ht (k + 1 + l.size) (by simp [DTree.size]; omega)
      rw [show off + (k + 1 + l.size) = off + 1 + l.size + k by omega] at this
      rw [this]
      simp only [flatten]
      rw [show k + 1 + l.size = (k + l.size) + 1 by omega, List.getElem?_cons_succ]
      rw [List.getElem?_append_right (by omega)]
      congr 2; omega
    cases fuel with
    | zero => simp [DTree.size] at hf
    | succ fuel =>
      simp only [DTree.size] at hf
      by_cases hx : x ≤ th
      · obtain ⟨p, leaf, hp, hlast, hlo, hhi, hv⟩ := ihl t (off + 1) fuel htl (by omega)
        refine ⟨off :: p, leaf, ?_, ?_, by omega, by simp [DTree.size]; omega, ?_⟩
        · have hne : ¬ ((off : Int) + 1 = -1) := by omega
          simp [descend, h0, TREE_LEAF, idx?, hx, hne]
          have : (0:Int) ≤ (off : Int) + 1 := by omega
          simp [this]
          exact hp
        · cases p with
          | nil => simp at hlast
          | cons a p' => simpa [List.getLast?_cons_cons] using hlast
        · simp only [flatten, DTree.eval, hx, if_true]
          rw [show leaf - off = (leaf - (off + 1)) + 1 by omega, List.getElem?_cons_succ,
            List.getElem?_append_left (by omega)]
          exact hv
      · obtain ⟨p, leaf, hp, hlast, hlo, hhi, hv⟩ := ihr t (off + 1 + l.size) fuel htr (by omega)
        refine ⟨off :: p, leaf, ?_, ?_, by omega, by simp [DTree.size]; omega, ?_⟩
        · have hne : ¬ ((off : Int) + 1 = -1) := by omega
          simp [descend, h0, TREE_LEAF, idx?, hx, hne]
          have : (0:Int) ≤ (off : Int) + 1 + l.size := by omega
          simp [this]
          rw [show ((off : Int) + 1 + l.size).toNat = off + 1 + l.size by omega, hp]
        · cases p with
          | nil => simp at hlast
          | cons a p' => simpa [List.getLast?_cons_cons] using hlast
        · simp only [flatten, DTree.eval, hx, if_false]
          rw [show leaf - off = (leaf - (off + 1)) + 1 by omega, List.getElem?_cons_succ,
            List.getElem?_append_right (by omega)]
          rw [hll, show leaf - (off + 1) - l.size = leaf - (off + 1 + l.size) by omega]
          exact hv

/-- `predict` on the scikit-learn arrays (preorder numbering, `apply`, `value[leaf]`) is the
decision function of the inductive tree -/
theorem predictArrays_toArrays (T : DTree) (x : Rat) :
    predictArrays (toArrays T) x = some (T.eval x) := by
  have hlen : ((flatten T 0).map (·.1)).length = T.size := by simp [flatten_length]
  obtain ⟨p, leaf, hp, hlast, _, hhi, hv⟩ := descend_flatten x T ((flatten T 0).map (·.1)) 0 T.size
    (by intro k _; simp [List.getElem?_map]) (Nat.le_refl _)
  have hap : TreeStruct.apply ((flatten T 0).map (·.1)) [x] = some leaf := by
    simp only [TreeStruct.apply, decisionPath, hlen, hp, Option.bind_some, hlast]
  simp only [predictArrays, toArrays, hap]
  simp only [Nat.sub_zero] at hv
  simp [List.getElem?_map, hv]

end MlVerif.Digitize
