/-
C11 — the itertools reference algorithms (`Model/Itertools.lean`) enumerate exactly the
lexicographic lists `combs` of the specification (`Model/Poly.lean`).  Core Lean only.

Plan: (1) how one turn of the `while True:` body acts on `a :: rest` in terms of how it acts on
`rest` (`nextCwr_cons`, `nextComb_cons`); (2) `LinkedTo next L e`: consecutive elements of `L` are
linked by `next`, the last one goes to `e`; (3) `combs io n d lo` is linked and ends in `return`
(`linked_combs`), by the same induction as `combs_count`; (4) a linked list is what `whileTrue`
yields, given enough fuel; (5) the number of combinations is at most the fuel.
-/
import MlVerif.Model.Itertools
import MlVerif.Lemmas.PolyCount
import MlVerif.Lemmas.PolyNames

namespace MlVerif.Itertools
open MlVerif.Poly

/-! ### (1) one turn of the loop body on `a :: rest` -/

theorem setAt_cons (a : Nat) (l : List Nat) (i v : Nat) :
    setAt (a :: l) (i+1) v = (setAt l i v).map (a :: ·) := by
  unfold setAt
  by_cases h : i < l.length <;> simp [h]

theorem scanRev_cons (a : Nat) (rest : List Nat) (b b' : Nat → Nat → Bool) (c : Bool)
    (hb : ∀ i v, b (i+1) v = b' i v) (hc : b 0 a = c) : ∀ k, scanRev (a :: rest) b (k+1) =
      match scanRev rest b' k with
      | none => none
      | some (some i) => some (some (i+1))
      | some none => if c then some (some 0) else some none := by
  intro k
  induction k with
  | zero => simp [scanRev, hc]
  | succ k ih =>
    rw [scanRev, ih]
    conv => rhs; rw [scanRev]
    simp only [List.getElem?_cons_succ]
    cases hv : rest[k]? with
    | none => simp
    | some v =>
      simp only [Option.bind_eq_bind, Option.bind_some, hb]
      by_cases hc : b' k v <;> simp [hc]

theorem fill_cons (a : Nat) : ∀ cnt j l,
    fill (j+2) cnt (a :: l) = (fill (j+1) cnt l).map (a :: ·) := by
  intro cnt
  induction cnt with
  | zero => intro j l; simp [fill]
  | succ cnt ih =>
    intro j l
    simp only [fill, List.getElem?_cons_succ, setAt_cons]
    cases hv : l[j]? with
    | none => simp
    | some v =>
      simp only [Option.bind_eq_bind, Option.bind_some]
      cases hs : setAt l (j+1) (v+1) with
      | none => simp
      | some l' => simp [ih]

/-- the `for j in range(i+1, r)` loop rewrites the tail into consecutive values -/
theorem fill_range : ∀ cnt j (l : List Nat) v, l.length = j + 1 + cnt → l[j]? = some v →
    fill (j+1) cnt l = some (l.take (j+1) ++ List.range' (v+1) cnt) := by
  intro cnt
  induction cnt with
  | zero => intro j l v hl _; simp [fill, List.take_of_length_le (show l.length ≤ j + 1 by omega)]
  | succ cnt ih =>
    intro j l v hl hv
    have hlt : j + 1 < l.length := by omega
    simp only [fill, hv, Option.bind_eq_bind, Option.bind_some, setAt, hlt, if_true]
    rw [ih (j+1) (l.set (j+1) (v+1)) (v+1) (by simp; omega) (by simp [hlt])]
    congr 1
    rw [List.take_add_one (i := j+1), List.take_set_of_le (by omega)]
    simp [hlt, List.range'_succ]

theorem nextCwr_cons (n d a : Nat) (rest : List Nat) :
    nextCwr n (d+1) (a :: rest) =
      match nextCwr n d rest with
      | none => none
      | some (some rest') => some (some (a :: rest'))
      | some none => if (a : Int) ≠ (n : Int) - 1 then some (some (List.replicate (d+1) (a+1)))
                     else some none := by
  unfold nextCwr
  rw [scanRev_cons a rest _ (fun _ v => decide ((v : Int) ≠ (n : Int) - 1)) _ (fun _ _ => rfl) rfl]
  cases hs : scanRev rest (fun _ v => decide ((v : Int) ≠ (n : Int) - 1)) d with
  | none => simp
  | some o =>
    cases o with
    | none =>
      by_cases hc : (a : Int) ≠ (n : Int) - 1 <;> simp [hc]
    | some i =>
      cases hv : rest[i]? with
      | none => simp [hv]
      | some v => simp [hv]

theorem nextComb_cons (n d a : Nat) (rest : List Nat) (hl : rest.length = d) :
    nextComb n (d+1) (a :: rest) =
      match nextComb n d rest with
      | none => none
      | some (some rest') => some (some (a :: rest'))
      | some none => if (a : Int) ≠ (n : Int) - ((d : Int) + 1) then some (some (List.range' (a+1) (d+1)))
                     else some none := by
  unfold nextComb
  rw [scanRev_cons a rest _ (fun i v => decide ((v : Int) ≠ (i : Int) + (n : Int) - (d : Int)))
    (decide ((a : Int) ≠ (n : Int) - ((d : Int) + 1)))
    (by intro i v; congr 1; apply propext; constructor <;> intro h <;> omega)
    (by congr 1; apply propext; constructor <;> intro h <;> omega)]
  cases hs : scanRev rest (fun i v => decide ((v : Int) ≠ (i : Int) + (n : Int) - (d : Int))) d with
  | none => simp
  | some o =>
    cases o with
    | none =>
      by_cases hc : (a : Int) ≠ (n : Int) - ((d : Int) + 1)
      · rw [decide_eq_true hc]
        simp only [if_true, Option.bind_eq_bind, Option.bind_some, Option.pure_def,
          List.getElem?_cons_zero, setAt, List.length_cons, Nat.zero_lt_succ, List.set_cons_zero]
        rw [show d + 1 - (0 + 1) = d by omega]
        rw [fill_range d 0 ((a+1) :: rest) (a+1) (by simp; omega) (by simp)]
        simp [List.range'_succ, hc]
      · simp [hc]
    | some i =>
      cases hv : rest[i]? with
      | none => simp [hv]
      | some v =>
        simp only [hv, Option.bind_eq_bind, Option.bind_some, Option.pure_def, List.getElem?_cons_succ,
          setAt_cons]
        cases hs2 : setAt rest i (v+1) with
        | none => simp
        | some l' =>
          simp only [Option.map_some, Option.bind_some]
          rw [show d + 1 - (i + 1 + 1) = d - (i + 1) by omega, fill_cons]
          cases fill (i+1) (d - (i+1)) l' <;> simp

/-! ### (2) lists linked by a step function -/

/-- consecutive elements of the list are linked by `next`; the last one steps to `e`
(`none` = the generator returns) -/
def LinkedTo (next : List Nat → Option (Option (List Nat))) : List (List Nat) → Option (List Nat) → Prop
  | [], _ => True
  | [x], e => next x = some e
  | x :: y :: t, e => next x = some (some y) ∧ LinkedTo next (y :: t) e

/-- what follows a block: the first element of the next block, or `e` when there is none -/
def headOr (B : List (List Nat)) (e : Option (List Nat)) : Option (List Nat) :=
  match B with
  | [] => e
  | b :: _ => some b

theorem linkedTo_append (next : List Nat → Option (Option (List Nat))) (e : Option (List Nat)) :
    ∀ A B, LinkedTo next A (headOr B e) → LinkedTo next B e → LinkedTo next (A ++ B) e := by
  intro A
  induction A with
  | nil => intro B _ hB; simpa using hB
  | cons x A ih =>
    intro B hA hB
    cases A with
    | nil =>
      cases B with
      | nil => simpa [headOr] using hA
      | cons b B => exact ⟨by simpa [LinkedTo, headOr] using hA, hB⟩
    | cons y t =>
      obtain ⟨h1, h2⟩ := hA
      exact ⟨h1, ih B h2 hB⟩

/-- a block `a :: ·` over a linked list that ends in `return`: linked under the step function one
position longer, and the block's last element steps to `e` -/
theorem linkedTo_map_cons (nextS nextD : List Nat → Option (Option (List Nat))) (a : Nat)
    (e : Option (List Nat))
    (hsome : ∀ rest rest', nextD rest = some (some rest') → nextS (a :: rest) = some (some (a :: rest')))
    (hnone : ∀ rest, nextD rest = some none → nextS (a :: rest) = some e) :
    ∀ C, LinkedTo nextD C none → LinkedTo nextS (C.map (a :: ·)) e := by
  intro C
  induction C with
  | nil => intro _; trivial
  | cons x C ih =>
    intro h
    cases C with
    | nil => exact hnone x h
    | cons y t => exact ⟨hsome x y h.1, ih h.2⟩

/-! ### (3) first elements and emptiness of `combs`, then: `combs` is linked -/

theorem combs_false_head (n : Nat) : ∀ d lo, lo < n → (combs false n d lo).head? = some (List.replicate d lo) := by
  intro d
  induction d with
  | zero => intro lo _; simp [combs]
  | succ d ih =>
    intro lo h
    rw [combs_head false n d lo h, List.head?_append, List.head?_map, show nxt false lo = lo from rfl, ih lo h]
    simp [List.replicate_succ]

theorem combs_true_nil (n : Nat) : ∀ d lo, lo ≤ n → n < lo + d → combs true n d lo = [] := by
  intro d
  induction d with
  | zero => intro lo h1 h; omega
  | succ d ih =>
    intro lo h1 h
    simp only [combs, List.flatMap_eq_nil_iff, List.mem_range', List.map_eq_nil_iff]
    rintro v ⟨k, hk, rfl⟩
    exact ih _ (by simp only [nxt, if_true]; omega) (by simp only [nxt, if_true]; omega)

theorem combs_true_head (n : Nat) : ∀ d lo, lo + d ≤ n → (combs true n d lo).head? = some (List.range' lo d) := by
  intro d
  induction d with
  | zero => intro lo _; simp [combs]
  | succ d ih =>
    intro lo h
    rw [combs_head true n d lo (by omega), List.head?_append, List.head?_map,
      show nxt true lo = lo + 1 from rfl, ih (lo+1) (by omega)]
    simp [List.range'_succ]

theorem headOr_of_head? {B : List (List Nat)} {b : List Nat} (e : Option (List Nat)) (h : B.head? = some b) :
    headOr B e = some b := by
  cases B with
  | nil => simp at h
  | cons x t => simp at h; simp [headOr, h]

/-- `combinations_with_replacement`: the lexicographic list over `range(lo, n)` is linked by the
documented step and its last element makes the generator return -/
theorem linked_combs_false (n : Nat) : ∀ d m lo, m + lo = n →
    LinkedTo (nextCwr n d) (combs false n d lo) none := by
  intro d
  induction d with
  | zero => intro m lo _; simp [combs, LinkedTo, nextCwr, scanRev]
  | succ d ihd =>
    intro m
    induction m with
    | zero => intro lo h; rw [combs_ge_n false n d lo (by omega)]; trivial
    | succ m ihm =>
      intro lo h
      rw [combs_head false n d lo (by omega)]
      apply linkedTo_append
      · apply linkedTo_map_cons (nextCwr n (d+1)) (nextCwr n d) lo _ _ _ _
          (by simpa [nxt] using ihd (m+1) lo h)
        · intro rest rest' hr; rw [nextCwr_cons, hr]
        · intro rest hr
          rw [nextCwr_cons, hr]
          by_cases hlast : lo + 1 < n
          · rw [headOr_of_head? none (combs_false_head n (d+1) (lo+1) hlast)]
            rw [if_pos (by omega)]
          · rw [combs_ge_n false n d (lo+1) (by omega), if_neg (by omega)]; rfl
      · exact ihm (lo+1) (by omega)

/-- `combinations`: same for the strictly increasing index lists -/
theorem linked_combs_true (n : Nat) : ∀ d m lo, m + lo = n →
    LinkedTo (nextComb n d) (combs true n d lo) none := by
  intro d
  induction d with
  | zero => intro m lo _; simp [combs, LinkedTo, nextComb, scanRev]
  | succ d ihd =>
    intro m
    induction m with
    | zero => intro lo h; rw [combs_ge_n true n d lo (by omega)]; trivial
    | succ m ihm =>
      intro lo h
      rw [combs_head true n d lo (by omega)]
      apply linkedTo_append
      · by_cases hne : n < lo + 1 + d
        · rw [show nxt true lo = lo + 1 from rfl, combs_true_nil n d (lo+1) (by omega) hne]; trivial
        · have hlen : ∀ rest ∈ combs true n d (lo+1), rest.length = d := fun r hr => combs_length true n d _ r hr
          -- the block lemma needs `rest.length = d`: go through membership
          have key : ∀ C : List (List Nat), (∀ rest ∈ C, rest.length = d) → LinkedTo (nextComb n d) C none →
              LinkedTo (nextComb n (d+1)) (C.map (lo :: ·)) (headOr (combs true n (d+1) (lo+1)) none) := by
            intro C
            induction C with
            | nil => intro _ _; trivial
            | cons x C ih =>
              intro hl hC
              have hx : x.length = d := hl x (by simp)
              cases C with
              | nil =>
                show nextComb n (d+1) (lo :: x) = _
                have hC' : nextComb n d x = some none := hC
                rw [nextComb_cons n d lo x hx, hC']
                by_cases hlast : lo + 1 + (d + 1) ≤ n
                · rw [headOr_of_head? none (combs_true_head n (d+1) (lo+1) hlast), if_pos (by omega)]
                · rw [combs_true_nil n (d+1) (lo+1) (by omega) (by omega), if_neg (by omega)]; rfl
              | cons y t =>
                refine ⟨?_, ih (fun r hr => hl r (by simp [hr])) hC.2⟩
                rw [nextComb_cons n d lo x hx, hC.1]
          exact key _ hlen (ihd m (lo+1) (by omega))
      · exact ihm (lo+1) (by omega)

/-! ### (4) a linked list is what the `while True:` loop yields -/

theorem whileTrue_linked {β} (next : List Nat → Option (Option (List Nat))) (emit : List Nat → Option β) :
    ∀ L x fuel, LinkedTo next (x :: L) none → L.length < fuel →
      whileTrue next emit fuel x = L.mapM emit := by
  intro L
  induction L with
  | nil =>
    intro x fuel h hf
    cases fuel with
    | zero => omega
    | succ fuel =>
      have h' : next x = some none := h
      simp [whileTrue, h']
  | cons y t ih =>
    intro x fuel h hf
    cases fuel with
    | zero => omega
    | succ fuel =>
      have h1 : next x = some (some y) := h.1
      simp only [whileTrue, h1, Option.bind_eq_bind, Option.bind_some, List.mapM_cons, Option.pure_def]
      rw [ih y fuel h.2 (by simpa using hf)]

theorem mapM_some {α β} (f : α → Option β) (g : α → β) :
    ∀ l : List α, (∀ x ∈ l, f x = some (g x)) → l.mapM f = some (l.map g) := by
  intro l
  induction l with
  | nil => intro _; simp
  | cons a l ih =>
    intro h
    simp [List.mapM_cons, h a (by simp), ih (fun x hx => h x (by simp [hx]))]

/-- `tuple(pool[i] for i in indices)` with `pool = range(n)` is `indices` itself -/
theorem tupleOf_range (n : Nat) (ind : List Nat) (h : ∀ v ∈ ind, v < n) :
    tupleOf (List.range n) ind = some ind := by
  unfold tupleOf
  rw [mapM_some _ id ind (fun v hv => by simp [h v hv])]
  simp

/-! ### (5) the fuel is enough -/

theorem choose_le : ∀ n k, choose n k ≤ 2 ^ n := by
  intro n
  induction n with
  | zero => intro k; cases k <;> simp [choose]
  | succ n ih =>
    intro k
    cases k with
    | zero => simp [choose, Nat.one_le_two_pow]
    | succ k =>
      have h1 := ih k
      have h2 := ih (k+1)
      simp only [choose, Nat.pow_succ]
      omega

theorem multichoose_le : ∀ d m, multichoose m d ≤ 2 ^ (m + d) := by
  intro d
  induction d with
  | zero => intro m; simp [multichoose, Nat.one_le_two_pow]
  | succ d ihd =>
    intro m
    induction m with
    | zero => simp [multichoose]
    | succ m ihm =>
      have h1 := ihd (m+1)
      have e1 : m + 1 + (d + 1) = (m + 1 + d) + 1 := by omega
      have e2 : m + (d + 1) = m + 1 + d := by omega
      rw [e2] at ihm
      rw [multichoose, e1, Nat.pow_succ]
      omega

theorem combs_length_le_fuel (io : Bool) (n r : Nat) : (combs io n r 0).length ≤ fuel n r := by
  rw [combs_count io n r n 0 (by omega)]
  unfold fuel countMono
  cases io
  · exact multichoose_le r n
  · exact Nat.le_trans (choose_le n r) (Nat.pow_le_pow_right (by omega) (by omega))

/-! ### the two generators -/

/-- `itertools.combinations(pool, r)` (documented algorithm): no IndexError, the loop ends within the
fuel, and the tuples are those of the lexicographic index lists `combs true n r 0`, in order -/
theorem combinations_eq {α} (pool : List α) (r : Nat) :
    combinations pool r = (combs true pool.length r 0).mapM (tupleOf pool) := by
  unfold combinations
  by_cases hr : r > pool.length
  · simp [hr, combs_true_nil pool.length r 0 (by omega) (by omega)]
  · simp only [hr, if_false]
    have hh := combs_true_head pool.length r 0 (by omega)
    have hlink := linked_combs_true pool.length r pool.length 0 (by omega)
    have hlen := combs_length_le_fuel true pool.length r
    cases hc : combs true pool.length r 0 with
    | nil => simp [hc] at hh
    | cons x L =>
      rw [hc] at hh hlink hlen
      simp only [List.head?_cons, Option.some.injEq] at hh
      subst hh
      rw [List.range_eq_range']
      rw [whileTrue_linked _ _ L _ _ hlink (by simp only [List.length_cons] at hlen; omega)]
      simp [List.mapM_cons]

/-- `itertools.combinations_with_replacement(pool, r)` (documented algorithm) -/
theorem combinationsWithReplacement_eq {α} (pool : List α) (r : Nat) :
    combinationsWithReplacement pool r = (combs false pool.length r 0).mapM (tupleOf pool) := by
  unfold combinationsWithReplacement
  by_cases hr : pool.length = 0 ∧ r ≠ 0
  · obtain ⟨h0, hr0⟩ := hr
    obtain ⟨d, rfl⟩ : ∃ d, r = d + 1 := ⟨r - 1, by omega⟩
    simp [h0, combs_ge_n false 0 d 0 (by omega)]
  · simp only [hr, if_false]
    have hh : (combs false pool.length r 0).head? = some (List.replicate r 0) := by
      by_cases hn : 0 < pool.length
      · exact combs_false_head pool.length r 0 hn
      · have : r = 0 := by omega
        subst this; simp [combs]
    have hlink := linked_combs_false pool.length r pool.length 0 (by omega)
    have hlen := combs_length_le_fuel false pool.length r
    cases hc : combs false pool.length r 0 with
    | nil => simp [hc] at hh
    | cons x L =>
      rw [hc] at hh hlink hlen
      simp only [List.head?_cons, Option.some.injEq] at hh
      subst hh
      rw [whileTrue_linked _ _ L _ _ hlink (by simp only [List.length_cons] at hlen; omega)]
      simp [List.mapM_cons]

theorem mapM_tupleOf_range (io : Bool) (n r : Nat) :
    (combs io n r 0).mapM (tupleOf (List.range n)) = some (combs io n r 0) := by
  rw [mapM_some _ id _ (fun m hm => by
    simp only [id]; exact tupleOf_range n m (fun v hv => ((combs_wf io n r 0 m hm).2.1 v hv).2))]
  simp

/-- `itertools.combinations(range(n), r)` yields exactly `combs true n r 0` -/
theorem combinations_range (n r : Nat) : combinations (List.range n) r = some (combs true n r 0) := by
  rw [combinations_eq, List.length_range, mapM_tupleOf_range]

/-- `itertools.combinations_with_replacement(range(n), r)` yields exactly `combs false n r 0` -/
theorem combinationsWithReplacement_range (n r : Nat) :
    combinationsWithReplacement (List.range n) r = some (combs false n r 0) := by
  rw [combinationsWithReplacement_eq, List.length_range, mapM_tupleOf_range]

/-! ### scikit-learn's `_combinations` -/

theorem sklearnCombinationsMinMax_eq (n minDegree maxDegree : Nat) (io bias : Bool) :
    sklearnCombinationsMinMax n minDegree maxDegree io bias =
      some ((if bias then [[]] else []) ++
        (List.range' (max 1 minDegree) (maxDegree + 1 - max 1 minDegree)).flatMap (fun d => combs io n d 0)) := by
  have hcomb : ∀ i, (if io then combinations else combinationsWithReplacement) (List.range n) i
      = some (combs io n i 0) := by
    intro i
    cases io
    · exact combinationsWithReplacement_range n i
    · exact combinations_range n i
  unfold sklearnCombinationsMinMax
  simp only [hcomb]
  rw [mapM_some _ (fun d => combs io n d 0) _ (fun _ _ => rfl)]
  cases bias <;> simp [List.flatMap_def, combs]

theorem sklearnCombinations_eq_polySpec (n degree : Nat) (io bias : Bool) :
    sklearnCombinations n degree io bias = some (polySpec n degree io bias) := by
  unfold sklearnCombinations polySpec
  rw [sklearnCombinationsMinMax_eq]
  simp

end MlVerif.Itertools
