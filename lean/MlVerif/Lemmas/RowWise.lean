/-
Helper lemmas for C04: what "row-wise" gives (single rows, sub-batches, permutations), and that
each of the three dispatch shapes of the library is row-wise when its parts are.
-/
import MlVerif.Model.RowWise
import MlVerif.Lemmas.Scatter2
namespace MlVerif.RowWise
open MlVerif.Scatter

/-- a batch method `F` computes, for every batch, the per-row function `f` on each row -/
def IsRowWise {ρ β} (F : List ρ → List β) (f : ρ → β) : Prop := ∀ xs, F xs = xs.map f

theorem gather_map {α β} (f : α → β) (xs : List α) (idx : List Nat) :
    gather (xs.map f) idx = (gather xs idx).map f := by
  unfold gather
  rw [List.map_filterMap]
  congr 1
  funext i
  simp [List.getElem?_map]

/-! ### (ii) the recursive mask split is row-wise -/

/-- one guarded child write `if child is not None and n > 0: prob[mask] = child.predict_proba(X[mask])` -/
theorem child_write {ρ β} (c : DT ρ β) (c' : DTRow ρ β) (hr : Reads c c')
    (ih : c.isNode = true → ∀ (X : List ρ) (d : ρ → β), c.predict X = X.map (fun x => c'.row x (d x)))
    (p h : ρ → β) (m : ρ → Bool) (hh : ∀ x, m x = true → h x = p x) (X : List ρ) :
    (if c.isNode && (X.map m).any id then
        maskSet (X.map h) (X.map m) (c.predict (maskGet X (X.map m))) else X.map h) =
      X.map (fun x => if m x then c'.row x (p x) else h x) := by
  cases hr with
  | nil =>
    simp only [DT.isNode, Bool.false_and, Bool.false_eq_true, if_false, DTRow.row]
    apply List.map_congr_left
    intro x _
    by_cases hm : m x = true
    · simp [hm, hh x hm]
    · simp [hm]
  | node hP ha hb =>
    rename_i P q ab a b a' b'
    have hn : (DT.node P ab a b).isNode = true := rfl
    rw [ih hn (maskGet X (X.map m)) p]
    have := maskSet_rowwise_guarded h (fun x => (DTRow.node q ab a' b').row x (p x)) m X true
    simpa [DT.isNode] using this

theorem DT_predict_rowwise {ρ β} : ∀ (T : DT ρ β) (t : DTRow ρ β), Reads T t → T.isNode = true →
    ∀ (X : List ρ) (d : ρ → β), T.predict X = X.map (fun x => t.row x (d x)) := by
  intro T
  induction T with
  | nil => intro t _ h; simp [DT.isNode] at h
  | node P ab a b iha ihb =>
    intro t hr _ X d
    cases hr with
    | node hP ha hb =>
      rename_i p a' b'
      simp only [DT.predict, hP, List.map_map, DTRow.row]
      have h1 := child_write a a' ha (iha a' ha) p p (fun x => ab (p x)) (fun _ _ => rfl) X
      have e1 : (ab ∘ p) = (fun x => ab (p x)) := rfl
      rw [e1, h1]
      have h2 := child_write b b' hb (ihb b' hb) p
        (fun x => if ab (p x) then a'.row x (p x) else p x) (fun x => !(ab (p x)))
        (fun x hx => by
          have : ab (p x) = false := by simpa using hx
          simp [this]) X
      have e2 : ((fun m => !m) ∘ fun x => ab (p x)) = (fun x => !(ab (p x))) := rfl
      rw [e2, h2]
      apply List.map_congr_left
      intro x _
      cases hx : ab (p x) <;> simp

/-! ### (iii) the per-row lookup loop is row-wise -/

theorem lookupLoop_rows {ρ β} (h : ρ → Nat → β) (X : List ρ) (leaves : List Nat) (init : List β)
    (hl : leaves.length = X.length) (hi : init.length = X.length) :
    lookupLoop h X leaves init = some (List.zipWith h X leaves) := by
  unfold lookupLoop
  have key : ∀ (n : Nat), n ≤ X.length → ∃ out,
      (List.range n).foldlM (lookupStep h X leaves) init = some out ∧ out.length = X.length ∧
      ∀ k, out[k]? = if k < n then (List.zipWith h X leaves)[k]? else init[k]? := by
    intro n
    induction n with
    | zero => intro _; exact ⟨init, by simp, hi, by simp⟩
    | succ n ih =>
      intro hn
      obtain ⟨out, h1, h2, h3⟩ := ih (by omega)
      have hx : n < X.length := by omega
      have hlv : n < leaves.length := by omega
      refine ⟨out.set n (h X[n] leaves[n]), ?_, by simp [h2], ?_⟩
      · rw [List.range_succ, List.foldlM_append, h1]
        simp [lookupStep, List.getElem?_eq_getElem hx, List.getElem?_eq_getElem hlv, h2, hx]
      · intro k
        rw [List.getElem?_set]
        by_cases hk : n = k
        · subst hk
          simp [h2, hx, List.getElem?_zipWith, List.getElem?_eq_getElem hx, List.getElem?_eq_getElem hlv]
        · have : (k < n + 1) = (k < n) := by
            apply propext; constructor <;> intro hh <;> omega
          simp only [hk, if_false, h3 k, this]
  obtain ⟨out, h1, h2, h3⟩ := key X.length (Nat.le_refl _)
  rw [h1]
  congr 1
  apply List.ext_getElem?
  intro k
  rw [h3 k]
  by_cases hk : k < X.length
  · simp [hk]
  · have h4 : init.length ≤ k := by omega
    have h5 : (List.zipWith h X leaves).length ≤ k := by simp [hl]; omega
    simp [hk, List.getElem?_eq_none h4, List.getElem?_eq_none h5]

/-! ### hstack of row-wise transforms is row-wise -/

theorem hstack_rowwise {ρ β} : ∀ (fs : List (ρ → List β)) (X : List ρ), fs ≠ [] →
    hstack (fs.map (fun f => X.map f)) = X.map (fun x => (fs.map (fun f => f x)).flatten) := by
  intro fs
  induction fs with
  | nil => intro X h; exact absurd rfl h
  | cons f fs ih =>
    intro X _
    cases fs with
    | nil => simp [hstack]
    | cons g gs =>
      have := ih X (by simp)
      simp only [List.map_cons] at this ⊢
      simp only [hstack]
      rw [this]
      clear this ih
      induction X with
      | nil => simp
      | cons x xs ihx => simp [ihx]

/-! ### persistence: copies preserve the value tree -/

mutual
theorem Val.copy_eq : ∀ v : Val, v.copy = v
  | .num _ => rfl
  | .str _ => rfl
  | .none => rfl
  | .list vs => by rw [Val.copy, Val.copyList_eq vs]
  | .dict kvs => by rw [Val.copy, Val.copyKvs_eq kvs]
  | .est c ps fs => by rw [Val.copy, Val.copyKvs_eq ps, Val.copyKvs_eq fs]
theorem Val.copyList_eq : ∀ vs : List Val, Val.copyList vs = vs
  | [] => rfl
  | v :: vs => by rw [Val.copyList, Val.copy_eq v, Val.copyList_eq vs]
theorem Val.copyKvs_eq : ∀ kvs : List (String × Val), Val.copyKvs kvs = kvs
  | [] => rfl
  | (k, v) :: kvs => by rw [Val.copyKvs, Val.copy_eq v, Val.copyKvs_eq kvs]
end

mutual
theorem Val.cloneFitted_eq : ∀ v : Val, v.cloneFitted = v
  | .num _ => rfl
  | .str _ => rfl
  | .none => rfl
  | .list vs => by rw [Val.cloneFitted, Val.cloneFittedList_eq vs]
  | .dict kvs => by rw [Val.cloneFitted, Val.cloneFittedKvs_eq kvs]
  | .est c ps fs => by rw [Val.cloneFitted, Val.cloneFittedKvs_eq ps, Val.cloneFittedKvs_eq fs]
theorem Val.cloneFittedList_eq : ∀ vs : List Val, Val.cloneFittedList vs = vs
  | [] => rfl
  | v :: vs => by rw [Val.cloneFittedList, Val.cloneFitted_eq v, Val.cloneFittedList_eq vs]
theorem Val.cloneFittedKvs_eq : ∀ kvs : List (String × Val), Val.cloneFittedKvs kvs = kvs
  | [] => rfl
  | (k, v) :: kvs => by rw [Val.cloneFittedKvs, Val.cloneFitted_eq v, Val.cloneFittedKvs_eq kvs]
end

end MlVerif.RowWise
