/-
C16 — reachability of the drawn outputs, derived from the pipeline itself (core Lean only).

The invariant follows the NAMES through the name -> port table of `pipeline2dot`: a name is *good* when it
currently resolves to a port that is reachable from `sch0`.  A drawn step is *fed* when one of its inputs is
good; a fed step makes its outputs good (also the ones that shadow an older name), an unfed step makes the names
it registers bad.  `_pipeline_info` draws exactly one kind of unfed step: the input-less `Identity` of an EMPTY
passthrough remainder, whose single output is a fresh `-v-<n>` name, different from every good name (good names
are either recorded in `context['names']` or do not start like a generated name), so it shadows nothing.
-/
import MlVerif.Gen.C16
import MlVerif.Model.Pipeline
import MlVerif.Lemmas.Pipeline

namespace MlVerif.Pipeline
open MlVerif.Gen.C16

/-! ## generated names are fresh -/

/-- not of the form `_get_name` produces with the default prefix -/
def NotFresh (s : String) : Prop := ∀ n : Nat, namePrefix ++ toString n ≠ s

/-- a name that no later `_get_name(context)` can return: recorded in `context['names']`, or not of that form -/
def Safe (names : List String) (s : String) : Prop := s ∈ names ∨ NotFresh s

theorem Safe.mono {a b : List String} (h : ∀ s ∈ a, s ∈ b) {s : String} : Safe a s → Safe b s
  | .inl hs => .inl (h s hs)
  | .inr hs => .inr hs

theorem namePrefix_toList : namePrefix.toList = ['-', 'v', '-'] := by decide

theorem notFresh_of_head {s : String} {ch : Char} {rest : List Char} (h : s.toList = ch :: rest)
    (hc : ch ≠ '-') : NotFresh s := by
  intro n e
  have := congrArg String.toList e
  rw [String.toList_append, namePrefix_toList, h] at this
  simp only [List.cons_append, List.cons.injEq] at this
  exact hc this.1.symm

theorem notFresh_portText (j c : Nat) : NotFresh (portText j c) := by
  have h2 : "sch".toList = ['s', 'c', 'h'] := by decide
  refine notFresh_of_head (ch := 's')
    (rest := ['c', 'h'] ++ (toString j).toList ++ ":f".toList ++ (toString c).toList) ?_ (by decide)
  unfold portText
  simp only [String.toList_append, h2, List.cons_append, List.nil_append, List.append_assoc]

theorem notFresh_predictor : ∀ s ∈ ["PredictedLabel", "Probabilities", "Prediction"], NotFresh s := by
  intro s hs
  simp only [List.mem_cons, List.not_mem_nil, or_false] at hs
  rcases hs with rfl | rfl | rfl
  · exact notFresh_of_head (ch := 'P') (rest := "redictedLabel".toList) (by decide) (by decide)
  · exact notFresh_of_head (ch := 'P') (rest := "robabilities".toList) (by decide) (by decide)
  · exact notFresh_of_head (ch := 'P') (rest := "rediction".toList) (by decide) (by decide)

theorem findFree_spec {pre : String} {names : List String} : ∀ (fuel n m : Nat),
    findFree pre names fuel n = some m → pre ++ toString m ∉ names
  | 0, _, _, h => by simp [findFree] at h
  | fuel + 1, n, m, h => by
    simp only [findFree] at h
    split at h
    · exact findFree_spec fuel (n + 1) m h
    · rename_i hn
      simp only [Option.some.injEq] at h
      subst h; exact hn

theorem getName_spec {pre : String} {c c1 : NameCtx} {nm : String} (h : getName pre c = .ok (nm, c1)) :
    nm ∉ c.names ∧ c1.names = nm :: c.names ∧ ∃ n : Nat, nm = pre ++ toString n := by
  unfold getName at h
  split at h
  · cases h
  · rename_i n hn
    simp only [Except.ok.injEq, Prod.mk.injEq] at h
    obtain ⟨rfl, rfl⟩ := h
    exact ⟨findFree_spec _ _ _ hn, rfl, n, rfl⟩

theorem getNames_spec : ∀ (ps : List String) (c c' : NameCtx) (nms : List String),
    getNames ps c = .ok (nms, c') →
    nms.length = ps.length ∧ nms.Nodup ∧ (∀ s ∈ nms, s ∉ c.names ∧ s ∈ c'.names) ∧
    (∀ s ∈ c.names, s ∈ c'.names) ∧ (∀ s ∈ nms, ∃ pre ∈ ps, ∃ n : Nat, s = pre ++ toString n)
  | [], c, c', nms, h => by
    simp only [getNames, Except.ok.injEq, Prod.mk.injEq] at h
    obtain ⟨rfl, rfl⟩ := h
    simp
  | o :: rest, c, c', nms, h => by
    simp only [getNames] at h
    split at h
    · cases h
    · rename_i nm c1 h1
      split at h
      · cases h
      · rename_i nms2 c2 h2
        simp only [Except.ok.injEq, Prod.mk.injEq] at h
        obtain ⟨rfl, rfl⟩ := h
        obtain ⟨hnew, hc1, n, hn⟩ := getName_spec h1
        obtain ⟨hl, hnd, hmem, hsub, hpre⟩ := getNames_spec rest c1 c2 nms2 h2
        have hnm1 : nm ∈ c1.names := by rw [hc1]; simp
        have hsub1 : ∀ s ∈ c.names, s ∈ c1.names := by intro s hs; rw [hc1]; simp [hs]
        refine ⟨by simp [hl], ?_, ?_, fun s hs => hsub s (hsub1 s hs), ?_⟩
        · rw [List.nodup_cons]
          refine ⟨fun hin => (hmem nm hin).1 hnm1, hnd⟩
        · intro s hs
          simp only [List.mem_cons] at hs
          rcases hs with rfl | hs
          · exact ⟨hnew, hsub s hnm1⟩
          · exact ⟨fun hc => (hmem s hs).1 (hsub1 s hc), (hmem s hs).2⟩
        · intro s hs
          simp only [List.mem_cons] at hs
          rcases hs with rfl | hs
          · exact ⟨o, by simp, n, hn⟩
          · obtain ⟨pre, hp, n', hn'⟩ := hpre s hs
            exact ⟨pre, by simp [hp], n', hn'⟩

/-! ## good names along a list of drawn steps -/

/-- one of the inputs of the step is good -/
def Fed (G : String → Prop) (info : Info) : Prop := ∃ k ∈ info.inputs.keys, G k

/-- the good names after a step has registered its outputs: the outputs of a fed step, and the good names
that the step does not shadow -/
def GNext (G : String → Prop) (info : Info) : String → Prop :=
  fun s => (s ∈ info.outputs.keys ∧ Fed G info) ∨ (s ∉ info.outputs.keys ∧ G s)

def GAfter : (String → Prop) → List Info → String → Prop
  | G, [] => G
  | G, info :: rest => GAfter (GNext G info) rest

/-- every step is fed, or it has no input at all and registers no good name; output names of a step are distinct -/
def OkAll : (String → Prop) → List Info → Prop
  | _, [] => True
  | G, info :: rest =>
    (Fed G info ∨ (info.inputs.keys = [] ∧ ∀ s ∈ info.outputs.keys, ¬ G s)) ∧ info.outputs.keys.Nodup ∧
      OkAll (GNext G info) rest

theorem GNext_of_fed {G : String → Prop} {info : Info} (hf : Fed G info) {s : String} (hs : G s) :
    GNext G info s := by
  by_cases h : s ∈ info.outputs.keys
  · exact Or.inl ⟨h, hf⟩
  · exact Or.inr ⟨h, hs⟩

theorem GNext_of_ok {G : String → Prop} {info : Info}
    (h : Fed G info ∨ (info.inputs.keys = [] ∧ ∀ s ∈ info.outputs.keys, ¬ G s)) {s : String} (hs : G s) :
    GNext G info s := by
  rcases h with h | ⟨_, h⟩
  · exact GNext_of_fed h hs
  · exact Or.inr ⟨fun hin => h s hin hs, hs⟩

theorem GNext_sub {G : String → Prop} {info : Info} {s : String} (h : GNext G info s) :
    s ∈ info.outputs.keys ∨ G s := by
  rcases h with ⟨h, _⟩ | ⟨_, h⟩
  · exact Or.inl h
  · exact Or.inr h

theorem GAfter_mono : ∀ {l : List Info} {G : String → Prop}, OkAll G l → ∀ {s : String}, G s → GAfter G l s
  | [], _, _, _, hs => hs
  | _ :: _, _, hok, _, hs => GAfter_mono hok.2.2 (GNext_of_ok hok.1 hs)

theorem GAfter_append (G : String → Prop) : ∀ (a b : List Info), GAfter G (a ++ b) = GAfter (GAfter G a) b
  | [], _ => rfl
  | info :: a, b => by
    simp only [List.cons_append, GAfter]
    exact GAfter_append (GNext G info) a b

theorem OkAll_append : ∀ {a b : List Info} {G : String → Prop}, OkAll G a → OkAll (GAfter G a) b → OkAll G (a ++ b)
  | [], _, _, _, hb => hb
  | _ :: _, _, _, ha, hb => ⟨ha.1, ha.2.1, OkAll_append ha.2.2 hb⟩

/-- what the mutual induction over the pipeline maintains for the steps drawn by one sub-pipeline -/
structure FedInv (G : String → Prop) (names : List String) (infos : List Info) : Prop where
  ok : OkAll G infos
  last : ∀ last, infos.getLast? = some last →
    last.inputs.keys ≠ [] ∧ last.outputs.keys ≠ [] ∧ DataIn (GAfter G infos) last.outputs
  safe : ∀ s, GAfter G infos s → Safe names s

theorem FedInv.nil {G : String → Prop} {names : List String} (h : ∀ s, G s → Safe names s) : FedInv G names [] :=
  ⟨trivial, by intro last hl; simp at hl, h⟩

theorem FedInv.append {G : String → Prop} {n1 n2 : List String} {a b : List Info} (ha : FedInv G n1 a)
    (hb : FedInv (GAfter G a) n2 b) : FedInv G n2 (a ++ b) := by
  refine ⟨OkAll_append ha.ok hb.ok, ?_, ?_⟩
  · intro last hl
    cases b with
    | nil =>
      simp only [List.append_nil] at hl ⊢
      exact ha.last last hl
    | cons x xs =>
      rw [List.getLast?_append] at hl
      have hb' : (x :: xs).getLast? = some last := by
        cases hx : (x :: xs).getLast? with
        | none => simp at hx
        | some y => rw [hx] at hl; simpa using hl
      rw [GAfter_append]
      exact hb.last last hb'
  · intro s hs
    rw [GAfter_append] at hs
    exact hb.safe s hs

theorem nodup_of_length_one {l : List String} (h : l.length = 1) : l.Nodup := by
  match l, h with
  | [a], _ => simp

theorem ne_nil_of_length_one {l : List String} (h : l.length = 1) : l ≠ [] := by
  intro e; subst e; simp at h

theorem fed_of_data {G : String → Prop} {data : Data} (hd : DataIn G data) (hne : data.keys ≠ []) :
    ∃ k ∈ data.keys, G k := by
  obtain ⟨k, hk⟩ := List.exists_mem_of_ne_nil _ hne
  exact ⟨k, hk, hd.1 k hk⟩

/-- a single fed step -/
theorem FedInv.one {G : String → Prop} {names : List String} {info : Info} (hf : Fed G info)
    (hnd : info.outputs.keys.Nodup) (hne : info.outputs.keys ≠ [])
    (hv : ∀ v ∈ info.outputs.vals, v ∈ info.outputs.keys ∨ G v)
    (hk : ∀ s ∈ info.outputs.keys, Safe names s) (hs : ∀ s, G s → Safe names s) : FedInv G names [info] := by
  refine ⟨⟨Or.inl hf, hnd, trivial⟩, ?_, ?_⟩
  · intro last hl
    simp only [List.getLast?_singleton, Option.some.injEq] at hl
    subst hl
    obtain ⟨k, hk', _⟩ := id hf
    refine ⟨List.ne_nil_of_mem hk', hne, ?_, ?_⟩
    · intro s hs'; exact Or.inl ⟨hs', hf⟩
    · intro v hv'
      rcases hv v hv' with h | h
      · exact Or.inl ⟨h, hf⟩
      · exact GNext_of_fed hf h
  · intro s h
    rcases GNext_sub h with h | h
    · exact hk s h
    · exact hs s h

theorem list_vals_keys (l : List String) : ∀ v ∈ (Data.list l).vals, v ∈ (Data.list l).keys ∨ False := by
  intro v hv; exact Or.inl hv

/-! ### the leaves -/

/-- `union` of the data followed by the estimator fed by the union -/
theorem FedInv.two {G : String → Prop} {names : List String} {data : Data} {i nm ty : String} {outs : List String}
    (hd : DataIn G data) (hne : data.keys ≠ []) (hnd : outs.Nodup) (hone : outs ≠ [])
    (hi : Safe names i) (hk : ∀ s ∈ outs, Safe names s) (hs : ∀ s, G s → Safe names s) :
    FedInv G names [unionInfo data i, ⟨nm, ty, .list [i], .list outs⟩] := by
  have hfu : Fed G (unionInfo data i) := fed_of_data hd hne
  have hsafe1 : ∀ s, GNext G (unionInfo data i) s → Safe names s := by
    intro s h
    rcases GNext_sub h with h | h
    · simp only [unionInfo, Data.keys, List.mem_singleton] at h; subst h; exact hi
    · exact hs s h
  have h1 : FedInv G names [unionInfo data i] :=
    FedInv.one hfu (by simp [unionInfo, Data.keys]) (by simp [unionInfo, Data.keys])
      (by intro v hv; exact Or.inl hv) (by
        intro s h; simp only [unionInfo, Data.keys, List.mem_singleton] at h; subst h; exact hi) hs
  have h2 : FedInv (GAfter G [unionInfo data i]) names [⟨nm, ty, .list [i], .list outs⟩] := by
    refine FedInv.one ?_ (by simpa [Data.keys] using hnd) (by simpa [Data.keys] using hone)
      (by intro v hv; exact Or.inl hv) (by simpa [Data.keys] using hk) hsafe1
    exact ⟨i, by simp [Data.keys], Or.inl ⟨by simp [unionInfo, Data.keys], hfu⟩⟩
  exact FedInv.append h1 h2

theorem leafInfo_fed {G : String → Prop} {k cls data c infos c'} (hd : DataIn G data) (hne : data.keys ≠ [])
    (hs : ∀ s, G s → Safe c.names s) (h : leafInfo k cls data c = .ok (infos, c')) :
    FedInv G c'.names infos := by
  have hexp : ∀ s ∈ ["PredictedLabel", "Probabilities"], NotFresh s := by
    intro s h; exact notFresh_predictor s (by simp only [List.mem_cons] at h ⊢; rcases h with h | h | h <;> simp_all)
  have hexp2 : ∀ s ∈ ["Prediction"], NotFresh s := by
    intro s h; exact notFresh_predictor s (by simp only [List.mem_cons] at h ⊢; rcases h with h | h <;> simp_all)
  unfold leafInfo at h
  cases k with
  | other => cases h
  | transformer =>
    simp only at h
    split at h
    · rename_i h1
      simp only [Except.ok.injEq, Prod.mk.injEq] at h
      obtain ⟨rfl, rfl⟩ := h
      exact FedInv.one (fed_of_data hd hne) (nodup_of_length_one h1) hne (fun v hv => Or.inr (hd.2 v hv))
        (fun s h => hs s (hd.1 s h)) hs
    · split at h
      · cases h
      · rename_i i c1 hg1
        split at h
        · cases h
        · rename_i o c2 hg2
          simp only [Except.ok.injEq, Prod.mk.injEq] at h
          obtain ⟨rfl, rfl⟩ := h
          obtain ⟨_, e1, _⟩ := getName_spec hg1
          obtain ⟨_, e2, _⟩ := getName_spec hg2
          have sub : ∀ s ∈ c.names, s ∈ c2.names := by intro s h; rw [e2, e1]; simp [h]
          exact FedInv.two hd hne (by simp) (by simp) (Or.inl (by rw [e2, e1]; simp))
            (by intro s h; simp only [List.mem_singleton] at h; subst h; exact Or.inl (by rw [e2]; simp))
            (fun s h => (hs s h).mono sub)
  | classifier =>
    simp only at h
    split at h
    · simp only [Except.ok.injEq, Prod.mk.injEq] at h
      obtain ⟨rfl, rfl⟩ := h
      exact FedInv.one (fed_of_data hd hne) (by simp [Data.keys]) (by simp [Data.keys]) (fun v hv => Or.inl hv)
        (fun s h => Or.inr (hexp s h)) hs
    · split at h
      · cases h
      · rename_i i c1 hg1
        simp only [Except.ok.injEq, Prod.mk.injEq] at h
        obtain ⟨rfl, rfl⟩ := h
        obtain ⟨_, e1, _⟩ := getName_spec hg1
        have sub : ∀ s ∈ c.names, s ∈ c1.names := by intro s h; rw [e1]; simp [h]
        exact FedInv.two hd hne (by decide) (by simp) (Or.inl (by rw [e1]; simp))
          (fun s h => Or.inr (hexp s h)) (fun s h => (hs s h).mono sub)
  | regressor =>
    simp only at h
    split at h
    · simp only [Except.ok.injEq, Prod.mk.injEq] at h
      obtain ⟨rfl, rfl⟩ := h
      exact FedInv.one (fed_of_data hd hne) (by simp [Data.keys]) (by simp [Data.keys]) (fun v hv => Or.inl hv)
        (fun s h => Or.inr (hexp2 s h)) hs
    · split at h
      · cases h
      · rename_i i c1 hg1
        simp only [Except.ok.injEq, Prod.mk.injEq] at h
        obtain ⟨rfl, rfl⟩ := h
        obtain ⟨_, e1, _⟩ := getName_spec hg1
        have sub : ∀ s ∈ c.names, s ∈ c1.names := by intro s h; rw [e1]; simp [h]
        exact FedInv.two hd hne (by decide) (by simp) (Or.inl (by rw [e1]; simp))
          (fun s h => Or.inr (hexp2 s h)) (fun s h => (hs s h).mono sub)

/-! ### 'passthrough' -/

theorem passthroughInfo_eq {data c infos c'} (h : passthroughInfo data c = .ok (infos, c')) :
    ∃ prefixes outs, (∀ pre ∈ prefixes, pre = namePrefix) ∧ prefixes ≠ [] ∧ getNames prefixes c = .ok (outs, c') ∧
      infos = [⟨"Identity", "transform", .list data.keys, .list outs⟩] := by
  unfold passthroughInfo at h
  simp only at h
  split at h
  · cases h
  · rename_i outs c1 hg
    simp only [Except.ok.injEq, Prod.mk.injEq] at h
    obtain ⟨rfl, rfl⟩ := h
    refine ⟨_, outs, ?_, ?_, hg, rfl⟩
    · intro pre hp
      split at hp
      · simp only [List.mem_map] at hp; obtain ⟨_, _, rfl⟩ := hp; rfl
      · simpa using hp
    · split
      · rename_i hc
        simp only [Bool.and_eq_true, decide_eq_true_eq] at hc
        intro e
        have := congrArg List.length e
        simp only [List.length_map, List.length_nil] at this
        omega
      · simp

/-- a 'passthrough' whose data is not empty -/
theorem passthroughInfo_fed {G : String → Prop} {data c infos c'} (hd : DataIn G data) (hne : data.keys ≠ [])
    (hs : ∀ s, G s → Safe c.names s) (h : passthroughInfo data c = .ok (infos, c')) :
    FedInv G c'.names infos := by
  obtain ⟨prefixes, outs, _, hpne, hg, rfl⟩ := passthroughInfo_eq h
  obtain ⟨hl, hnd, hmem, hsub, _⟩ := getNames_spec _ _ _ _ hg
  refine FedInv.one ?_ (by simpa [Data.keys] using hnd) ?_ (fun v hv => Or.inl hv)
    (by intro s h; exact Or.inl (hmem s (by simpa [Data.keys] using h)).2) (fun s h => (hs s h).mono hsub)
  · obtain ⟨k, hk, hG⟩ := fed_of_data hd hne
    exact ⟨k, by simpa [Data.keys] using hk, hG⟩
  · simp only [Data.keys]
    intro e; subst e
    simp only [List.length_nil] at hl
    exact hpne (List.eq_nil_of_length_eq_zero hl.symm)

/-- a 'passthrough' whatever its data: the step is fed, or it has no input and registers only fresh names -/
theorem passthroughInfo_ok {G : String → Prop} {data c infos c'} (hd : DataIn G data)
    (hs : ∀ s, G s → Safe c.names s) (h : passthroughInfo data c = .ok (infos, c')) :
    OkAll G infos ∧ (∀ s, GAfter G infos s → Safe c'.names s) ∧
    (∀ last, infos.getLast? = some last → last.outputs.keys ≠ [] ∧
      (data.keys ≠ [] → ∀ s ∈ last.outputs.keys, GAfter G infos s)) := by
  by_cases hne : data.keys = []
  · obtain ⟨prefixes, outs, hpre, hpne, hg, rfl⟩ := passthroughInfo_eq h
    obtain ⟨hl, hnd, hmem, hsub, hform⟩ := getNames_spec _ _ _ _ hg
    have hbad : ∀ s ∈ outs, ¬ G s := by
      intro s hso hG
      obtain ⟨pre, hp, n, rfl⟩ := hform s hso
      rw [hpre pre hp] at hso hG
      rcases hs _ hG with h | h
      · exact (hmem _ hso).1 h
      · exact h n rfl
    refine ⟨⟨Or.inr ⟨by simpa [Data.keys] using hne, by simpa [Data.keys] using hbad⟩,
      by simpa [Data.keys] using hnd, trivial⟩, ?_, ?_⟩
    · intro s h
      rcases GNext_sub h with h | h
      · exact Or.inl (hmem s (by simpa [Data.keys] using h)).2
      · exact (hs s h).mono hsub
    · intro last hl'
      simp only [List.getLast?_singleton, Option.some.injEq] at hl'
      subst hl'
      refine ⟨?_, fun h => absurd hne h⟩
      simp only [Data.keys]
      intro e; subst e
      simp only [List.length_nil] at hl
      exact hpne (List.eq_nil_of_length_eq_zero hl.symm)
  · have := passthroughInfo_fed hd hne hs h
    refine ⟨this.ok, this.safe, ?_⟩
    intro last hl
    obtain ⟨_, h2, h3⟩ := this.last last hl
    exact ⟨h2, fun _ => h3.1⟩

/-! ### the closing `union` of a FeatureUnion / ColumnTransformer -/

theorem closeUnion_eq' {infos outputs c r c'} (h : closeUnion infos outputs c = .ok (r, c')) :
    ∃ o, getName namePrefix c = .ok (o, c') ∧ r = infos ++ [unionInfo (.list outputs) o] := by
  unfold closeUnion at h
  split at h
  · cases h
  · rename_i o c1 hg
    simp only [Except.ok.injEq, Prod.mk.injEq] at h
    obtain ⟨rfl, rfl⟩ := h
    exact ⟨o, hg, rfl⟩

theorem closeUnion_fed {G : String → Prop} {infos outputs c r c'} (hok : OkAll G infos)
    (hout : ∃ s ∈ outputs, GAfter G infos s) (hs : ∀ s, GAfter G infos s → Safe c.names s)
    (h : closeUnion infos outputs c = .ok (r, c')) : FedInv G c'.names r := by
  obtain ⟨o, hg, rfl⟩ := closeUnion_eq' h
  obtain ⟨_, e1, _⟩ := getName_spec hg
  have sub : ∀ s ∈ c.names, s ∈ c'.names := by intro s h; rw [e1]; simp [h]
  have hu : FedInv (GAfter G infos) c'.names [unionInfo (.list outputs) o] := by
    refine FedInv.one ?_ (by simp [unionInfo, Data.keys]) (by simp [unionInfo, Data.keys])
      (fun v hv => Or.inl hv) ?_ (fun s h => (hs s h).mono sub)
    · obtain ⟨s, hso, hG⟩ := hout
      exact ⟨s, by simpa [unionInfo, Data.keys] using hso, hG⟩
    · intro s h
      simp only [unionInfo, Data.keys, List.mem_singleton] at h
      subst h; exact Or.inl (by rw [e1]; simp)
  refine ⟨OkAll_append hok hu.ok, ?_, ?_⟩
  · intro last hl
    have hl' : [unionInfo (.list outputs) o].getLast? = some last := by simpa using hl
    rw [GAfter_append]
    exact hu.last last hl'
  · intro s h
    rw [GAfter_append] at h
    exact hu.safe s h

/-! ### renaming the outputs of the last step (members of a FeatureUnion) -/

theorem OkAll_setLast {d : Data} (hd : d.keys.Nodup) : ∀ {l : List Info} {G : String → Prop}, OkAll G l →
    (∀ last, l.getLast? = some last → last.inputs.keys ≠ []) → OkAll G (setLastOutputs l d)
  | [], _, _, _ => trivial
  | [i], G, h, hl => by
    have hne := hl i (by simp)
    refine ⟨Or.inl ?_, hd, trivial⟩
    rcases h.1 with h | ⟨h, _⟩
    · exact h
    · exact absurd h hne
  | i :: j :: rest, G, h, hl => by
    refine ⟨h.1, h.2.1, OkAll_setLast hd h.2.2 ?_⟩
    intro last hlast
    exact hl last (by rw [List.getLast?_cons_cons]; exact hlast)

theorem GAfter_setLast_new {d : Data} : ∀ {l : List Info} {G : String → Prop}, OkAll G l →
    (∀ last, l.getLast? = some last → last.inputs.keys ≠ []) → l ≠ [] →
    ∀ s ∈ d.keys, GAfter G (setLastOutputs l d) s
  | [], _, _, _, hne => absurd rfl hne
  | [i], G, h, hl, _ => by
    intro s hs
    have hne := hl i (by simp)
    rcases h.1 with h | ⟨h, _⟩
    · exact Or.inl ⟨hs, h⟩
    · exact absurd h hne
  | i :: j :: rest, G, h, hl, _ => by
    intro s hs
    have : setLastOutputs (i :: j :: rest) d = i :: setLastOutputs (j :: rest) d := rfl
    rw [this]
    exact GAfter_setLast_new (l := j :: rest) h.2.2
      (fun last hlast => hl last (by rw [List.getLast?_cons_cons]; exact hlast)) (by simp) s hs

theorem GAfter_setLast_old {d : Data} : ∀ {l : List Info} {G : String → Prop}, OkAll G l →
    (∀ last, l.getLast? = some last → last.inputs.keys ≠ []) →
    ∀ s, GAfter G (setLastOutputs l d) s → s ∈ d.keys ∨ GAfter G l s
  | [], _, _, _ => fun s h => Or.inr h
  | [i], G, h, hl => by
    intro s hs
    have hne := hl i (by simp)
    have hf : Fed G i := by
      rcases h.1 with h | ⟨h, _⟩
      · exact h
      · exact absurd h hne
    rcases hs with ⟨hs, _⟩ | ⟨_, hs⟩
    · exact Or.inl hs
    · exact Or.inr (GNext_of_fed hf hs)
  | i :: j :: rest, G, h, hl => by
    intro s hs
    have : setLastOutputs (i :: j :: rest) d = i :: setLastOutputs (j :: rest) d := rfl
    rw [this] at hs
    exact GAfter_setLast_old (l := j :: rest) h.2.2
      (fun last hlast => hl last (by rw [List.getLast?_cons_cons]; exact hlast)) s hs

theorem FedInv.setLast {G : String → Prop} {n1 n2 : List String} {l : List Info} {outs : List String}
    (h : FedInv G n1 l) (hnd : outs.Nodup) (hne : outs ≠ []) (hk : ∀ s ∈ outs, Safe n2 s)
    (hsub : ∀ s, Safe n1 s → Safe n2 s) : FedInv G n2 (setLastOutputs l (.list outs)) := by
  have hl : ∀ last, l.getLast? = some last → last.inputs.keys ≠ [] := fun last hl => (h.last last hl).1
  refine ⟨OkAll_setLast (by simpa [Data.keys] using hnd) h.ok hl, ?_, ?_⟩
  · intro x hx
    cases hlast : l.getLast? with
    | none =>
      rw [List.getLast?_eq_none_iff] at hlast
      subst hlast
      simp [setLastOutputs] at hx
    | some last =>
      rw [setLast_getLast (.list outs) hlast] at hx
      simp only [Option.some.injEq] at hx
      subst hx
      have hlne : l ≠ [] := by intro e; subst e; simp at hlast
      refine ⟨hl last hlast, by simpa [Data.keys] using hne, ?_⟩
      have := GAfter_setLast_new (d := .list outs) h.ok hl hlne
      exact ⟨this, this⟩
  · intro s hs
    rcases GAfter_setLast_old h.ok hl s hs with h' | h'
    · exact hk s (by simpa [Data.keys] using h')
    · exact hsub s (h.safe s h')

/-! ### the data handed to the members is not empty -/

theorem dictSet_ne_nil (kv : List (String × String)) (k v : String) : dictSet kv k v ≠ [] := by
  cases kv with
  | nil => simp [dictSet]
  | cons a rest =>
    obtain ⟨k', v'⟩ := a
    simp only [dictSet]
    split <;> simp

theorem foldl_dictSet_ne_nil {α} (f : α → String × String) : ∀ (l : List α) (acc : List (String × String)),
    (acc ≠ [] ∨ l ≠ []) → l.foldl (fun acc a => dictSet acc (f a).1 (f a).2) acc ≠ []
  | [], acc, h => by
    rcases h with h | h
    · simpa using h
    · exact absurd rfl h
  | a :: l, acc, _ => by
    simp only [List.foldl_cons]
    exact foldl_dictSet_ne_nil f l _ (Or.inl (dictSet_ne_nil _ _ _))

theorem padLoop_guard (d : List String) (mx : Nat) : ∀ (fuel : Nat) (acc r : List String),
    padLoop d mx fuel acc = .ok r → padGuard r.length mx = false
  | 0, _, _, h => by simp [padLoop] at h
  | fuel + 1, acc, r, h => by
    simp only [padLoop] at h
    split at h
    · split at h
      · exact padLoop_guard d mx fuel _ r h
      · split at h
        · exact padLoop_guard d mx fuel _ r h
        · cases h
    · rename_i hg
      simp only [Except.ok.injEq] at h
      subst h
      simpa using hg

theorem selectData_keys_ne {cols : Cols} {data newData : Data} (hne : data.keys ≠ [])
    (h : selectData cols data = .ok newData) : newData.keys ≠ [] := by
  unfold selectData at h
  split at h
  · split at h
    · rename_i kv
      simp only [Except.ok.injEq] at h
      subst h
      simp only [Data.keys, ne_eq, List.map_eq_nil_iff] at hne ⊢
      exact hne
    · rename_i d
      split at h
      · cases h
      · rename_i mx _
        cases hp : padLoop d mx (mx + 2) [] with
        | error e => rw [hp] at h; cases h
        | ok r =>
          rw [hp] at h
          simp only [Except.map, Except.ok.injEq] at h
          subst h
          have hg := padLoop_guard d mx _ _ _ hp
          simp only [Data.keys]
          intro e; subst e
          unfold padGuard at hg
          simp at hg <;> omega
  · rename_i hall
    cases data with
    | list d => cases cols <;> simp at h
    | dict kv =>
      cases cols with
      | ints l => simp at h
      | names l =>
        simp only [Except.ok.injEq] at h
        subst h
        have hl : l ≠ [] := by
          intro e; subst e; simp [Cols.allInt] at hall
        simp only [Data.keys, ne_eq, List.map_eq_nil_iff]
        exact foldl_dictSet_ne_nil (fun v => (v, (kv.lookup v).getD v)) l [] (Or.inr hl)

/-- without any transformer the passthrough remainder is the whole data -/
theorem remainderData_nil_keys_ne {data newData : Data} (hne : data.keys ≠ [])
    (h : remainderData data [] = .ok newData) : newData.keys ≠ [] := by
  unfold remainderData at h
  split at h
  · rename_i kv
    simp only [mergedKeys] at h
    simp only [Except.ok.injEq] at h
    subst h
    simp only [Data.keys, ne_eq, List.map_eq_nil_iff] at hne ⊢
    have : kv.filter (fun p => !(([] : List String).contains p.1)) = kv := by simp
    rw [this]; exact hne
  · rename_i l
    simp only [Except.ok.injEq] at h
    subst h
    simp only [Data.keys, ne_eq, List.map_eq_nil_iff] at hne ⊢
    exact foldl_dictSet_ne_nil (fun k => (k, k)) l [] (Or.inr hne)

/-! ## the invariant holds for the steps drawn for every pipeline -/

mutual
theorem pipelineInfo_fed (S : List String) : ∀ (p : Pipe) (data : Data) (c : NameCtx) (infos : List Info)
    (c' : NameCtx) (G : String → Prop), (∀ s ∈ S, G s) → namedIn S p = true → DataIn G data → data.keys ≠ [] →
    (∀ s, G s → Safe c.names s) → pipelineInfo p data c = .ok (infos, c') → FedInv G c'.names infos
  | .est k cls, data, c, infos, c', G, _, _, hd, hne, hs, h => by
    simp only [pipelineInfo] at h; exact leafInfo_fed hd hne hs h
  | .passthrough, data, c, infos, c', G, _, _, hd, hne, hs, h => by
    simp only [pipelineInfo] at h; exact passthroughInfo_fed hd hne hs h
  | .drop, _, _, _, _, _, _, _, _, _, _, h => by simp [pipelineInfo] at h
  | .pipeline steps, data, c, infos, c', G, hS, hn, hd, hne, hs, h => by
    simp only [pipelineInfo] at h
    exact infoSteps_fed S steps data c infos c' G hS (by simpa [namedIn] using hn) hd hne hs h
  | .union items, data, c, infos, c', G, hS, hn, hd, hne, hs, h => by
    simp only [pipelineInfo] at h
    split at h
    · cases h
    · rename_i infos1 outs c1 heq
      have ih := infoUnion_fed S items data c infos1 outs c1 G hS (by simpa [namedIn] using hn) hd hne hs heq
      split at h
      · rename_i hlen
        have hine : items ≠ [] := by intro e; subst e; simp at hlen
        obtain ⟨s, hs'⟩ := List.exists_mem_of_ne_nil _ (ih.2.2 hine)
        exact closeUnion_fed ih.1.ok ⟨s, hs', ih.2.1 s hs'⟩ ih.1.safe h
      · cases h; exact ih.1
  | .columns items rem, data, c, infos, c', G, hS, hn, hd, hne, hs, h => by
    simp only [pipelineInfo] at h
    split at h
    · cases h
    · rename_i infos1 outs c1 heq
      have ih := infoCols_fed S items data c infos1 outs c1 G hS (by simpa [namedIn] using hn) hd hne hs heq
      split at h
      · split at h
        · rename_i hlen
          have hine : items ≠ [] := by intro e; subst e; simp at hlen
          obtain ⟨s, hs'⟩ := List.exists_mem_of_ne_nil _ (ih.2.2 hine)
          exact closeUnion_fed ih.1.ok ⟨s, hs', ih.2.1 s hs'⟩ ih.1.safe h
        · cases h; exact ih.1
      · split at h
        · cases h
        · rename_i newData hrem
          split at h
          · cases h
          · rename_i info c2 hpass
            split at h
            · cases h
            · rename_i last hlast
              have hG1 : DataIn (GAfter G infos1) data := hd.mono (fun s hs' => GAfter_mono ih.1.ok hs')
              have hnd : DataIn (GAfter G infos1) newData := remainderData_in hG1 hrem
              obtain ⟨pok, psafe, plast⟩ := passthroughInfo_ok hnd ih.1.safe hpass
              obtain ⟨plne, pgood⟩ := plast last hlast
              refine closeUnion_fed (OkAll_append ih.1.ok pok) ?_
                (by intro s hs'; rw [GAfter_append] at hs'; exact psafe s hs') h
              rw [GAfter_append]
              by_cases hk : newData.keys = []
              · have hine : items ≠ [] := by
                  intro e; subst e
                  exact remainderData_nil_keys_ne hne (by simpa using hrem) hk
                obtain ⟨s, hs'⟩ := List.exists_mem_of_ne_nil _ (ih.2.2 hine)
                exact ⟨s, by simp [hs'], GAfter_mono pok (ih.2.1 s hs')⟩
              · obtain ⟨s, hs'⟩ := List.exists_mem_of_ne_nil _ plne
                exact ⟨s, by simp [hs'], pgood hk s hs'⟩
theorem infoSteps_fed (S : List String) : ∀ (ps : List Pipe) (data : Data) (c : NameCtx) (infos : List Info)
    (c' : NameCtx) (G : String → Prop), (∀ s ∈ S, G s) → namedInList S ps = true → DataIn G data → data.keys ≠ [] →
    (∀ s, G s → Safe c.names s) → infoSteps ps data c = .ok (infos, c') → FedInv G c'.names infos
  | [], _, c, infos, c', G, _, _, _, _, hs, h => by
    simp only [infoSteps, Except.ok.injEq, Prod.mk.injEq] at h
    obtain ⟨rfl, rfl⟩ := h
    exact FedInv.nil hs
  | p :: ps, data, c, infos, c', G, hS, hn, hd, hne, hs, h => by
    simp only [infoSteps] at h
    simp only [namedInList, Bool.and_eq_true] at hn
    split at h
    · cases h
    · rename_i info c1 heq
      split at h
      · cases h
      · rename_i last hlast
        split at h
        · cases h
        · rename_i infos2 c2 heq2
          cases h
          have ih1 := pipelineInfo_fed S p data c info c1 G hS hn.1 hd hne hs heq
          obtain ⟨_, l2, l3⟩ := ih1.last last hlast
          have ih2 := infoSteps_fed S ps last.outputs c1 infos2 _ (GAfter G info)
            (fun s hs' => GAfter_mono ih1.ok (hS s hs')) hn.2 l3 l2 ih1.safe heq2
          exact FedInv.append ih1 ih2
theorem infoUnion_fed (S : List String) : ∀ (ps : List Pipe) (data : Data) (c : NameCtx) (infos : List Info)
    (outs : List String) (c' : NameCtx) (G : String → Prop), (∀ s ∈ S, G s) → namedInList S ps = true →
    DataIn G data → data.keys ≠ [] → (∀ s, G s → Safe c.names s) → infoUnion ps data c = .ok (infos, outs, c') →
    FedInv G c'.names infos ∧ (∀ s ∈ outs, GAfter G infos s) ∧ (ps ≠ [] → outs ≠ [])
  | [], _, c, infos, outs, c', G, _, _, _, _, hs, h => by
    simp only [infoUnion, Except.ok.injEq, Prod.mk.injEq] at h
    obtain ⟨rfl, rfl, rfl⟩ := h
    exact ⟨FedInv.nil hs, by simp, by simp⟩
  | p :: ps, data, c, infos, outs, c', G, hS, hn, hd, hne, hs, h => by
    simp only [infoUnion] at h
    simp only [namedInList, Bool.and_eq_true] at hn
    split at h
    · cases h
    · rename_i info c1 heq
      split at h
      · cases h
      · rename_i last hlast
        split at h
        · cases h
        · rename_i newOuts c2 hnames
          split at h
          · cases h
          · rename_i infos2 outs2 c3 heq2
            cases h
            have ih1 := pipelineInfo_fed S p data c info c1 G hS hn.1 hd hne hs heq
            obtain ⟨_, l2, _⟩ := ih1.last last hlast
            obtain ⟨gl, gnd, gmem, gsub, _⟩ := getNames_spec _ _ _ _ hnames
            have hnone : newOuts ≠ [] := by
              intro e; subst e
              simp only [List.length_nil] at gl
              exact l2 (List.eq_nil_of_length_eq_zero gl.symm)
            have hA : FedInv G c2.names (setLastOutputs info (.list newOuts)) :=
              ih1.setLast gnd hnone (fun s hs' => Or.inl (gmem s hs').2) (fun s hs' => hs'.mono gsub)
            have ih2 := infoUnion_fed S ps data c2 infos2 outs2 _ (GAfter G (setLastOutputs info (.list newOuts)))
              (fun s hs' => GAfter_mono hA.ok (hS s hs')) hn.2 (hd.mono (fun s hs' => GAfter_mono hA.ok hs')) hne
              hA.safe heq2
            refine ⟨FedInv.append hA ih2.1, ?_, by simp [hnone]⟩
            intro s hs'
            rw [GAfter_append]
            simp only [List.mem_append] at hs'
            rcases hs' with hs' | hs'
            · have hlastA := setLast_getLast (.list newOuts) hlast
              exact GAfter_mono ih2.1.ok ((hA.last _ hlastA).2.2.1 s (by simpa [Data.keys] using hs'))
            · exact ih2.2.1 s hs'
theorem infoCols_fed (S : List String) : ∀ (ps : List (Pipe × Cols)) (data : Data) (c : NameCtx)
    (infos : List Info) (outs : List String) (c' : NameCtx) (G : String → Prop), (∀ s ∈ S, G s) →
    namedInCols S ps = true → DataIn G data → data.keys ≠ [] → (∀ s, G s → Safe c.names s) →
    infoCols ps data c = .ok (infos, outs, c') →
    FedInv G c'.names infos ∧ (∀ s ∈ outs, GAfter G infos s) ∧ (ps ≠ [] → outs ≠ [])
  | [], _, c, infos, outs, c', G, _, _, _, _, hs, h => by
    simp only [infoCols, Except.ok.injEq, Prod.mk.injEq] at h
    obtain ⟨rfl, rfl, rfl⟩ := h
    exact ⟨FedInv.nil hs, by simp, by simp⟩
  | (p, cols) :: ps, data, c, infos, outs, c', G, hS, hn, hd, hne, hs, h => by
    simp only [infoCols] at h
    simp only [namedInCols, Bool.and_eq_true] at hn
    split at h
    · cases h
    · rename_i newData hsel
      split at h
      · cases h
      · rename_i info c1 heq
        split at h
        · cases h
        · rename_i last hlast
          split at h
          · cases h
          · rename_i infos2 outs2 c2 heq2
            cases h
            have hnd : DataIn G newData := selectData_in (namedCols_known hS hn.1.1) hd hsel
            have hnne := selectData_keys_ne hne hsel
            have ih1 := pipelineInfo_fed S p newData c info c1 G hS hn.1.2 hnd hnne hs heq
            obtain ⟨_, l2, l3⟩ := ih1.last last hlast
            have ih2 := infoCols_fed S ps data c1 infos2 outs2 _ (GAfter G info)
              (fun s hs' => GAfter_mono ih1.ok (hS s hs')) hn.2 (hd.mono (fun s hs' => GAfter_mono ih1.ok hs')) hne
              ih1.safe heq2
            refine ⟨FedInv.append ih1 ih2.1, ?_, ?_⟩
            · intro s hs'
              rw [GAfter_append]
              simp only [List.mem_append] at hs'
              rcases hs' with hs' | hs'
              · exact GAfter_mono ih2.1.ok (l3.1 s hs')
              · exact ih2.2.1 s hs'
            · intro _ e
              exact l2 (List.append_eq_nil_iff.1 e).1
end

/-! ## from good names to reachable ports -/

theorem lookup_registerOuts_mem (cols : ColMap) (i : Nat) (outs : List String) {s : String} (h : s ∈ outs) :
    ∃ c, c < outs.length ∧ (registerOuts cols i outs).lookup s = some (i, c) := by
  rw [registerOuts_eq, List.lookup_append]
  obtain ⟨k, hk, rfl⟩ := List.getElem_of_mem h
  have hkey : outs[k] ∈ ((((List.range outs.length).zip outs).map
      (fun (p : Nat × String) => (p.2, (i, p.1)))).reverse).map (·.1) := by
    simp only [List.map_reverse, List.mem_reverse, List.map_map, List.mem_map]
    refine ⟨(k, outs[k]), ?_, rfl⟩
    rw [List.mem_iff_getElem]
    exact ⟨k, by simpa using hk, by simp⟩
  obtain ⟨w, hw⟩ := lookup_isSome_of_mem_keys hkey
  rw [hw]
  have := lookup_mem hw
  simp only [List.mem_reverse, List.mem_map] at this
  obtain ⟨⟨c', o'⟩, hmem, heq⟩ := this
  simp only [Prod.mk.injEq] at heq
  obtain ⟨_, rfl⟩ := heq
  exact ⟨c', (zip_range_lt hmem).1, by simp⟩

theorem lookup_registerOuts_not_mem (cols : ColMap) (i : Nat) (outs : List String) {s : String} (h : s ∉ outs) :
    (registerOuts cols i outs).lookup s = cols.lookup s := by
  rw [registerOuts_eq, List.lookup_append]
  cases hl : ((((List.range outs.length).zip outs).map
      (fun (p : Nat × String) => (p.2, (i, p.1)))).reverse).lookup s with
  | none => simp
  | some w =>
    exfalso
    have := lookup_mem hl
    simp only [List.mem_reverse, List.mem_map] at this
    obtain ⟨⟨c', o'⟩, hmem, heq⟩ := this
    simp only [Prod.mk.injEq] at heq
    obtain ⟨rfl, _⟩ := heq
    exact h (zip_range_lt hmem).2

/-- if the good names resolve to ports in `R`, and `R` is closed under the edges of the drawn steps, then every
drawn step that has an input is in `R` with all the ports of its record -/
theorem toDotAux_fed (nsch : Nat) (R : PV → Prop) : ∀ (infos : List Info) (i : Nat) (cols : ColMap)
    (G : String → Prop), (∀ s, G s → ∃ j c, resolve cols nsch s = .port j c ∧ R (.port j c)) → OkAll G infos →
    (∀ s ∈ toDotAux nsch infos i cols, ∀ e ∈ s.pedges, R e.1 → R e.2) →
    ∀ s ∈ toDotAux nsch infos i cols, s.ins ≠ [] → R (.box s.idx) ∧ ∀ c, c < s.ports.length → R (.port s.idx c)
  | [], _, _, _, _, _, _ => by simp [toDotAux]
  | info :: rest, i, cols, G, hG, hok, hedges => by
    have hs0 : stepOf cols nsch i info ∈ toDotAux nsch (info :: rest) i cols := by simp [toDotAux]
    have hhead : Fed G info → R (.box i) ∧ ∀ c, c < info.outputs.keys.length → R (.port i c) := by
      rintro ⟨k, hk, hGk⟩
      obtain ⟨j, c, hr, hR⟩ := hG k hGk
      have hin : Src.port j c ∈ (stepOf cols nsch i info).ins := by
        simp only [stepOf, List.mem_map]; exact ⟨k, hk, hr⟩
      have he : (PV.port j c, PV.box i) ∈ (stepOf cols nsch i info).pedges := by
        simp only [Step.pedges, List.mem_append, List.mem_filterMap]
        left; exact ⟨.port j c, hin, by simp [stepOf]⟩
      have hbox := hedges _ hs0 _ he hR
      refine ⟨hbox, ?_⟩
      intro c hc
      have hc' := stepOf_outs_all cols nsch i info hok.2.1 c hc
      have he : (PV.box i, PV.port i c) ∈ (stepOf cols nsch i info).pedges := by
        simp only [Step.pedges, List.mem_append, List.mem_map]
        right; exact ⟨c, hc', by simp [stepOf]⟩
      exact hedges _ hs0 _ he hbox
    intro s hs hne
    simp only [toDotAux, List.mem_cons] at hs
    rcases hs with rfl | hs
    · have hf : Fed G info := by
        rcases hok.1 with h | ⟨h, _⟩
        · exact h
        · exfalso; apply hne; simp [stepOf, h]
      simpa [stepOf] using hhead hf
    · have hG' : ∀ s, GNext G info s →
          ∃ j c, resolve (registerOuts cols i info.outputs.keys) nsch s = .port j c ∧ R (.port j c) := by
        intro s hs
        rcases hs with ⟨hso, hf⟩ | ⟨hso, hGs⟩
        · obtain ⟨c, hc, hl⟩ := lookup_registerOuts_mem cols i info.outputs.keys hso
          exact ⟨i, c, by simp [resolve, hl], (hhead hf).2 c hc⟩
        · obtain ⟨j, c, hr, hR⟩ := hG s hGs
          refine ⟨j, c, ?_, hR⟩
          rw [← hr]; unfold resolve; rw [lookup_registerOuts_not_mem cols i _ hso]
      exact toDotAux_fed nsch R rest (i + 1) _ (GNext G info) hG' hok.2.2
        (fun s' hs' => hedges s' (by simp [toDotAux, hs'])) s hs hne

/-! ## the initial data, names and table of pipeline2dot -/

theorem initData_keys_ne {schema : List String} (h : schema ≠ []) : (initData schema).keys ≠ [] := by
  rw [initData_eq]
  simp only [Data.keys, ne_eq, List.map_eq_nil_iff]
  intro e
  have := congrArg List.length e
  simp only [List.length_zip, List.length_range, Nat.min_self, List.length_nil] at this
  exact h (List.eq_nil_of_length_eq_zero this)

theorem init_safe (schema : List String) :
    ∀ s, (s ∈ schema ∨ IsInputPort schema.length s) → Safe (initCtx schema).names s := by
  intro s hs
  rcases hs with hs | ⟨k, _, rfl⟩
  · exact Or.inl hs
  · exact Or.inr (notFresh_portText 0 k)

/-- the steps drawn for a pipeline on a non-empty schema satisfy the invariant, starting from the input columns -/
theorem info_fed (p : Pipe) (schema : List String) (infos : List Info) (c : NameCtx) (hs : schema ≠ [])
    (hn : namedIn schema p = true) (h : pipelineInfo p (initData schema) (initCtx schema) = .ok (infos, c)) :
    FedInv (fun s => s ∈ schema ∨ IsInputPort schema.length s) c.names infos :=
  pipelineInfo_fed schema p _ _ infos c _ (fun _ hs' => Or.inl hs') hn (initData_known schema)
    (initData_keys_ne hs) (init_safe schema) h

theorem initCols_resolve (schema : List String) (R : PV → Prop) (h0 : ∀ k, k < schema.length → R (.port 0 k)) :
    ∀ s, (s ∈ schema ∨ IsInputPort schema.length s) →
      ∃ j c, resolve (initCols schema) schema.length s = .port j c ∧ R (.port j c) := by
  intro s hs
  have hk : s ∈ (initCols schema).map (·.1) ∨ IsInputPort schema.length s := by
    rcases hs with hs | hs
    · left; unfold initCols; rw [keys_registerOuts]; exact Or.inl hs
    · exact Or.inr hs
  rcases resolve_known hk with ⟨j, c, hr, hm⟩ | ⟨k, hr, hk'⟩
  · obtain ⟨e1, e2⟩ := initCols_entries schema _ hm
    simp only at e1 e2
    subst e1
    exact ⟨0, c, hr, h0 c e2⟩
  · exact ⟨0, k, hr, h0 k hk'⟩

theorem getLast?_map_eq {α β γ} {l : List α} {m : List β} (f : α → γ) (g : β → γ) (h : l.map f = m.map g)
    {x : α} (hx : l.getLast? = some x) : ∃ y, m.getLast? = some y ∧ g y = f x := by
  have := congrArg List.getLast? h
  rw [List.getLast?_map, List.getLast?_map, hx] at this
  cases hm : m.getLast? with
  | none => rw [hm] at this; simp at this
  | some y => rw [hm] at this; simp at this; exact ⟨y, rfl, this.symm⟩

/-- every step with an input, and the last drawn step, are reachable from `sch0` with all their ports -/
theorem toDot_reach (schema : List String) (infos : List Info) (names : List String)
    (hinv : FedInv (fun s => s ∈ schema ∨ IsInputPort schema.length s) names infos) :
    (∀ s ∈ (toDot schema infos).steps, s.ins ≠ [] →
      Reach (toDot schema infos) (.box s.idx) ∧ ∀ c, c < s.ports.length → Reach (toDot schema infos) (.port s.idx c)) ∧
    (∀ last, (toDot schema infos).steps.getLast? = some last → last.ins ≠ [] ∧ last.ports ≠ []) := by
  have hA : ∀ s ∈ (toDot schema infos).steps, s.ins ≠ [] →
      Reach (toDot schema infos) (.box s.idx) ∧
        ∀ c, c < s.ports.length → Reach (toDot schema infos) (.port s.idx c) := by
    refine toDotAux_fed schema.length (Reach (toDot schema infos)) infos 1 (initCols schema) _
      (initCols_resolve schema _ (fun k hk => Reach.input hk)) hinv.ok ?_
    intro s hs e he hR
    refine Reach.edge ?_ hR
    simp only [Dot.pedges, List.mem_flatMap]
    exact ⟨s, hs, he⟩
  refine ⟨hA, ?_⟩
  intro last hl
  simp only [toDot] at hl
  obtain ⟨y, hy, e1⟩ := getLast?_map_eq (fun (s : Step) => s.ins.length) (fun (i : Info) => i.inputs.keys.length)
    (toDotAux_ins_length schema.length infos 1 (initCols schema)) hl
  obtain ⟨y', hy', e2⟩ := getLast?_map_eq (fun (s : Step) => s.ports) (fun (i : Info) => i.outputs.keys)
    (toDotAux_labels schema.length infos 1 (initCols schema)).2.2 hl
  rw [hy] at hy'
  simp only [Option.some.injEq] at hy'
  subst hy'
  obtain ⟨l1, l2, _⟩ := hinv.last y hy
  refine ⟨?_, by rw [← e2]; exact l2⟩
  intro e
  rw [e] at e1
  simp only [List.length_nil] at e1
  exact l1 (List.eq_nil_of_length_eq_zero e1)

end MlVerif.Pipeline
