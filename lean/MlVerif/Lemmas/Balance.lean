/-
C07 — helper lemmas (core Lean only): arrays, sums and histograms, `_switch_clusters`,
`_randomize_index`, and the quota fill of `_constraint_association_distance`
(port of design_prototypes/C07_fill_proto.lean to the executable model).
-/
import MlVerif.Model.Balance
namespace MlVerif.Balance
open MlVerif.Gen

/-! ### arrays -/

@[simp] theorem upd_get_same {α} (f : Arr α) (i : Nat) (v : α) : (upd f i v).get i = v := by
  simp [upd]

theorem upd_get_other {α} (f : Arr α) (i x : Nat) (v : α) (h : x ≠ i) : (upd f i v).get x = f.get x := by
  simp [upd, h]

theorem upd_get {α} (f : Arr α) (i x : Nat) (v : α) :
    (upd f i v).get x = if x = i then v else f.get x := rfl

theorem memo_get {α} (f : Arr α) (i : Nat) : (memo f).get i = f.get i := by
  simp only [memo]
  split
  · rename_i v hv
    by_cases h : i < f.size
    · simp [h] at hv
      exact hv.symm
    · simp [h] at hv
  · rfl

theorem tabulate_get {α} (n : Nat) (g : Nat → α) (i : Nat) : (tabulate n g).get i = g i := by
  simp [tabulate, memo_get]

@[simp] theorem const_get {α} (n : Nat) (v : α) (i : Nat) : (Arr.const n v).get i = v := rfl

/-! ### sums -/

theorem sumTo_congr (f g : Nat → Int) (k : Nat) (h : ∀ c, c < k → f c = g c) : sumTo f k = sumTo g k := by
  induction k with
  | zero => rfl
  | succ k ih => simp [sumTo, ih (fun c hc => h c (by omega)), h k (by omega)]

theorem sumTo_upd (f : Arr Int) (c k : Nat) (v : Int) (hc : c < k) :
    sumTo (upd f c v).get k = sumTo f.get k - f.get c + v := by
  induction k with
  | zero => omega
  | succ k ih =>
    by_cases e : c = k
    · subst e
      have h1 : sumTo (upd f c v).get c = sumTo f.get c :=
        sumTo_congr _ _ _ (fun x hx => upd_get_other f c x v (by omega))
      simp only [sumTo, h1, upd_get_same]; omega
    · have h1 := ih (by omega)
      have h2 := upd_get_other f c k v (by omega)
      simp only [sumTo, h1, h2]; omega

theorem sumTo_upd_ge (f : Arr Int) (c k : Nat) (v : Int) (hc : k ≤ c) :
    sumTo (upd f c v).get k = sumTo f.get k :=
  sumTo_congr _ _ _ (fun x hx => upd_get_other f c x v (by omega))

theorem sumTo_le (f g : Nat → Int) (k : Nat) (h : ∀ c, c < k → f c ≤ g c) : sumTo f k ≤ sumTo g k := by
  induction k with
  | zero => simp [sumTo]
  | succ k ih =>
    have := ih (fun c hc => h c (by omega)); have := h k (by omega); simp only [sumTo]; omega

theorem sumTo_eq_of_le (f g : Nat → Int) (k : Nat) (h : ∀ c, c < k → f c ≤ g c)
    (hs : sumTo g k ≤ sumTo f k) : ∀ c, c < k → f c = g c := by
  induction k with
  | zero => intro c hc; omega
  | succ k ih =>
    have h1 := sumTo_le f g k (fun c hc => h c (by omega))
    have h2 := h k (by omega)
    simp only [sumTo] at hs
    intro c hc
    by_cases e : c = k
    · subst e; omega
    · exact ih (fun c hc => h c (by omega)) (by omega) c (by omega)

theorem sumTo_add (f g : Nat → Int) (k : Nat) : sumTo (fun c => f c + g c) k = sumTo f k + sumTo g k := by
  induction k with
  | zero => simp [sumTo]
  | succ k ih => simp only [sumTo, ih]; omega

theorem sumTo_const (a : Int) (k : Nat) : sumTo (fun _ => a) k = k * a := by
  induction k with
  | zero => simp [sumTo]
  | succ k ih =>
    simp only [sumTo, ih]
    have : ((k + 1 : Nat) : Int) * a = (k : Int) * a + a := by
      rw [Int.natCast_succ, Int.add_mul, Int.one_mul]
    omega

theorem sumTo_nonneg (f : Nat → Int) (k : Nat) (h : ∀ c, c < k → 0 ≤ f c) : 0 ≤ sumTo f k := by
  induction k with
  | zero => simp [sumTo]
  | succ k ih =>
    have := ih (fun c hc => h c (by omega)); have := h k (by omega); simp only [sumTo]; omega

theorem sumTo_zero_of_nonneg (f : Nat → Int) (k : Nat) (h : ∀ c, c < k → 0 ≤ f c) (hs : sumTo f k ≤ 0) :
    ∀ c, c < k → f c = 0 := by
  have := sumTo_eq_of_le (fun _ => 0) f k (fun c hc => h c hc)
    (by rw [sumTo_const]; simpa using hs)
  intro c hc; exact (this c hc).symm

/-- indicator of one index below k sums to 1 -/
theorem sumTo_indicator (x k : Nat) (hx : x < k) :
    sumTo (fun c => if x = c then (1 : Int) else 0) k = 1 := by
  induction k with
  | zero => omega
  | succ k ih =>
    by_cases e : x = k
    · subst e
      have : sumTo (fun c => if x = c then (1 : Int) else 0) x = sumTo (fun _ => 0) x :=
        sumTo_congr _ _ _ (fun c hc => by simp; omega)
      simp only [sumTo, this, sumTo_const]; simp
    · have := ih (by omega)
      simp only [sumTo, this]; simp [e]

theorem sumTo_indicator_ge (x k : Nat) (hx : k ≤ x) :
    sumTo (fun c => if x = c then (1 : Int) else 0) k = 0 := by
  have : sumTo (fun c => if x = c then (1 : Int) else 0) k = sumTo (fun _ => 0) k :=
    sumTo_congr _ _ _ (fun c hc => by simp; omega)
  rw [this, sumTo_const]; simp

/-! ### counting -/

theorem countTo_congr (p q : Nat → Bool) (n : Nat) (h : ∀ i, i < n → p i = q i) : countTo p n = countTo q n := by
  induction n with
  | zero => rfl
  | succ n ih => simp [countTo, ih (fun i hi => h i (by omega)), h n (by omega)]

theorem countTo_pos_exists (p : Nat → Bool) (n : Nat) (h : 0 < countTo p n) : ∃ i, i < n ∧ p i = true := by
  induction n with
  | zero => simp [countTo] at h
  | succ n ih =>
    simp only [countTo] at h
    by_cases hp : p n = true
    · exact ⟨n, by omega, hp⟩
    · simp [hp] at h
      obtain ⟨i, hi, hpi⟩ := ih h
      exact ⟨i, by omega, hpi⟩

theorem countTo_zero_of_none (p : Nat → Bool) (n : Nat) (h : ∀ i, i < n → p i = false) : countTo p n = 0 := by
  induction n with
  | zero => rfl
  | succ n ih => simp [countTo, ih (fun i hi => h i (by omega)), h n (by omega)]

theorem countTo_le (p : Nat → Bool) (n : Nat) : countTo p n ≤ n := by
  induction n with
  | zero => simp [countTo]
  | succ n ih => simp only [countTo]; split <;> omega

/-- changing one entry `i < n` of a labelling moves one unit between two classes -/
theorem countTo_upd {α} [DecidableEq α] (lab : Arr α) (i n : Nat) (v c : α) (hi : i < n) :
    (countTo (fun x => decide ((upd lab i v).get x = c)) n : Int) =
      countTo (fun x => decide (lab.get x = c)) n - (if lab.get i = c then 1 else 0) + (if v = c then 1 else 0) := by
  induction n with
  | zero => omega
  | succ n ih =>
    by_cases e : i = n
    · subst e
      have h1 : countTo (fun x => decide ((upd lab i v).get x = c)) i = countTo (fun x => decide (lab.get x = c)) i :=
        countTo_congr _ _ _ (fun x hx => by rw [upd_get_other lab i x v (by omega)])
      simp only [countTo, h1, upd_get_same]
      by_cases a : lab.get i = c <;> by_cases b : v = c <;> simp [a, b] <;> omega
    · have h1 := ih (by omega)
      have h2 := upd_get_other lab i n v (fun h => e h.symm)
      simp only [countTo, h2]
      by_cases a : lab.get n = c <;> simp [a] <;> omega

theorem countTo_upd_ge {α} [DecidableEq α] (lab : Arr α) (i n : Nat) (v c : α) (hi : n ≤ i) :
    countTo (fun x => decide ((upd lab i v).get x = c)) n = countTo (fun x => decide (lab.get x = c)) n :=
  countTo_congr _ _ _ (fun x hx => by rw [upd_get_other lab i x v (by omega)])

theorem hist_eq (lab : Arr Nat) (n c : Nat) : hist lab n c = countTo (fun x => decide (lab.get x = c)) n := by
  unfold hist
  apply countTo_congr
  intro i _
  by_cases h : lab.get i = c <;> simp [h]

theorem hist_congr (l1 l2 : Arr Nat) (n c : Nat) (h : ∀ i, i < n → l1.get i = l2.get i) :
    hist l1 n c = hist l2 n c := by
  unfold hist
  exact countTo_congr _ _ _ (fun i hi => by rw [h i hi])

theorem hist_upd (lab : Arr Nat) (i n v c : Nat) (hi : i < n) :
    (hist (upd lab i v) n c : Int) =
      hist lab n c - (if lab.get i = c then 1 else 0) + (if v = c then 1 else 0) := by
  rw [hist_eq, hist_eq]; exact countTo_upd lab i n v c hi

theorem hist_pos_exists (lab : Arr Nat) (n c : Nat) (h : 0 < hist lab n c) : ∃ i, i < n ∧ lab.get i = c := by
  rw [hist_eq] at h
  obtain ⟨i, hi, hp⟩ := countTo_pos_exists _ _ h
  exact ⟨i, hi, by simpa using hp⟩

/-- every point is in exactly one cluster: the cluster sizes add up to n -/
theorem sum_hist (lab : Arr Nat) (n k : Nat) (h : ∀ i, i < n → lab.get i < k) :
    sumTo (fun c => (hist lab n c : Int)) k = n := by
  induction n with
  | zero =>
    have : sumTo (fun c => (hist lab 0 c : Int)) k = sumTo (fun _ => 0) k :=
      sumTo_congr _ _ _ (fun c _ => by simp [hist, countTo])
    rw [this, sumTo_const]; simp
  | succ n ih =>
    have h1 := ih (fun i hi => h i (by omega))
    have h2 : sumTo (fun c => (hist lab (n + 1) c : Int)) k =
        sumTo (fun c => (hist lab n c : Int) + (if lab.get n = c then 1 else 0)) k := by
      apply sumTo_congr
      intro c _
      simp only [hist, countTo]
      by_cases e : lab.get n = c <;> simp [e]
    rw [h2, sumTo_add, h1, sumTo_indicator _ _ (h n (by omega))]
    omega

theorem single_le_sumTo (f : Nat → Int) (k c : Nat) (h : ∀ x, x < k → 0 ≤ f x) (hc : c < k) : f c ≤ sumTo f k := by
  induction k with
  | zero => omega
  | succ k ih =>
    simp only [sumTo]
    have h0 := sumTo_nonneg f k (fun x hx => h x (by omega))
    have hk := h k (by omega)
    by_cases e : c = k
    · subst e; omega
    · have := ih (fun x hx => h x (by omega)) (by omega); omega

/-! ### facts about the REGENERATED definitions (fail when the source changes them) -/

theorem limit_spec (n k : Nat) (hk : 0 < k) :
    C07.limit n k = ((n / k : Nat) : Int) ∧ C07.leftover n k = ((n % k : Nat) : Int) := by
  have h1 : C07.limit n k = ((n / k : Nat) : Int) := by
    unfold C07.limit
    rw [pyFloorDiv_pos _ (by omega)]
    simp
  refine ⟨h1, ?_⟩
  unfold C07.leftover
  rw [h1]
  have := Nat.div_add_mod n k
  have h2 : ((k * (n / k) + n % k : Nat) : Int) = (n : Int) := by rw [this]
  simp only [Int.natCast_add, Int.natCast_mul] at h2
  have h3 : ((n / k : Nat) : Int) * (k : Int) = (k : Int) * ((n / k : Nat) : Int) := Int.mul_comm _ _
  omega

theorem limitP_spec (n k : Nat) (hk : 0 < k) :
    C07.limitP n k = ((n / k : Nat) : Int) ∧ C07.leftoverP n k = ((n % k : Nat) : Int) := by
  have h1 : C07.limitP n k = ((n / k : Nat) : Int) := by
    unfold C07.limitP
    rw [pyFloorDiv_pos _ (by omega)]
    simp
  refine ⟨h1, ?_⟩
  unfold C07.leftoverP
  rw [h1]
  have := Nat.div_add_mod n k
  have h2 : ((k * (n / k) + n % k : Nat) : Int) = (n : Int) := by rw [this]
  simp only [Int.natCast_add, Int.natCast_mul] at h2
  have h3 : ((n / k : Nat) : Int) * (k : Int) = (k : Int) * ((n / k : Nat) : Int) := Int.mul_comm _ _
  omega

theorem acceptLimit_iff (a l nv lc : Int) : C07.acceptLimit a l nv lc = true ↔ a < l := by
  unfold C07.acceptLimit; simp <;> omega

theorem acceptLeftover_iff (a l nv lc : Int) : C07.acceptLeftover a l nv lc = true ↔ (0 < nv ∧ lc = -1) := by
  unfold C07.acceptLeftover; simp <;> omega

theorem effectLimit_eq (a nv lc : Int) : C07.effectLimit a nv lc = (a + 1, nv, lc) := by
  unfold C07.effectLimit; rfl

theorem effectLeftover_eq (a nv lc : Int) : C07.effectLeftover a nv lc = (a + 1, nv - 1, 0) := by
  unfold C07.effectLeftover; rfl

theorem fillSkip_iff (l : Int) : C07.fillSkip l = true ↔ 0 ≤ l := by
  unfold C07.fillSkip; simp <;> omega

theorem fillWhile_iff (m : Int) : C07.fillWhile m = true ↔ m = -1 := by
  unfold C07.fillWhile; simp <;> omega

theorem fillInit_vals : C07.fillInitCounter = 0 ∧ C07.fillInitLeftclose = -1 ∧ C07.fillInitLabel = -1 ∧
    (∀ x, C07.fillNover0 x = x) := by
  refine ⟨by unfold C07.fillInitCounter; rfl, by unfold C07.fillInitLeftclose; rfl,
    by unfold C07.fillInitLabel; rfl, fun x => by unfold C07.fillNover0; rfl⟩

/-! ### `_switch_clusters` keeps every cluster size -/

def ValidLab (lab : Arr Nat) (n k : Nat) : Prop := ∀ i, i < n → lab.get i < k

/-- every one of the k clusters holds floor(n/k) points, or floor(n/k)+1 = ceil(n/k) when k does not divide n -/
def Balanced (lab : Arr Nat) (n k : Nat) : Prop :=
  ∀ c, c < k → hist lab n c = n / k ∨ (hist lab n c = n / k + 1 ∧ n % k ≠ 0)

theorem switchStep_inv (D : Mat) (i j n k : Nat) (hi : i < n) (hj : j < n) (s : Arr Nat × Nat) :
    (∀ c, hist (switchStep D i j s).1 n c = hist s.1 n c) ∧
    (ValidLab s.1 n k → ValidLab (switchStep D i j s).1 n k) := by
  unfold switchStep
  simp only []
  split
  · exact ⟨fun _ => rfl, id⟩
  · rename_i hne
    split
    · have hij : j ≠ i := by intro h; rw [h] at hne; exact hne rfl
      refine ⟨fun c => ?_, fun hv x hx => ?_⟩
      · have h1 := hist_upd (upd s.1 i (s.1.get j)) j n (s.1.get i) c hj
        have h2 := hist_upd s.1 i n (s.1.get j) c hi
        rw [upd_get_other _ _ _ _ hij] at h1
        show hist (upd (upd s.1 i (s.1.get j)) j (s.1.get i)) n c = hist s.1 n c
        rcases Decidable.em (s.1.get i = c) with a | a <;> rcases Decidable.em (s.1.get j = c) with b | b
        · exact absurd (a.trans b.symm) hne
        · simp only [if_pos a, if_neg b] at h1 h2; omega
        · simp only [if_neg a, if_pos b] at h1 h2; omega
        · simp only [if_neg a, if_neg b] at h1 h2; omega
      · show (upd (upd s.1 i (s.1.get j)) j (s.1.get i)).get x < k
        rw [upd_get, upd_get]
        split
        · exact hv i hi
        · split
          · exact hv j hj
          · exact hv x hx
    · exact ⟨fun _ => rfl, id⟩

theorem sweepInner_inv (D : Mat) (i n k : Nat) (hi : i < n) : ∀ (js : List Nat) (s : Arr Nat × Nat),
    (∀ j, j ∈ js → j < n) →
    (∀ c, hist (sweepInner D i js s).1 n c = hist s.1 n c) ∧
    (ValidLab s.1 n k → ValidLab (sweepInner D i js s).1 n k) := by
  intro js
  induction js with
  | nil => intro s _; exact ⟨fun _ => rfl, id⟩
  | cons j js ih =>
    intro s h
    have h1 := switchStep_inv D i j n k hi (h j (List.mem_cons_self ..)) s
    have h2 := ih (switchStep D i j s) (fun x hx => h x (List.mem_cons_of_mem _ hx))
    simp only [sweepInner]
    exact ⟨fun c => by rw [h2.1 c, h1.1 c], fun hv => h2.2 (h1.2 hv)⟩

theorem sweep_inv (D : Mat) (n k : Nat) : ∀ (perm : List Nat) (s : Arr Nat × Nat),
    (∀ j, j ∈ perm → j < n) →
    (∀ c, hist (sweep D perm s).1 n c = hist s.1 n c) ∧
    (ValidLab s.1 n k → ValidLab (sweep D perm s).1 n k) := by
  intro perm
  induction perm with
  | nil => intro s _; exact ⟨fun _ => rfl, id⟩
  | cons i rest ih =>
    intro s h
    have h1 := sweepInner_inv D i n k (h i (List.mem_cons_self ..)) rest s
      (fun x hx => h x (List.mem_cons_of_mem _ hx))
    have h2 := ih (sweepInner D i rest s) (fun x hx => h x (List.mem_cons_of_mem _ hx))
    simp only [sweep]
    exact ⟨fun c => by rw [h2.1 c, h1.1 c], fun hv => h2.2 (h1.2 hv)⟩

theorem switchLoop_inv (D : Mat) (n k : Nat) (perm : List Nat) (hp : ∀ j, j ∈ perm → j < n) :
    ∀ (fuel : Nat) (lab : Arr Nat),
    (∀ c, hist (switchLoop D perm fuel lab) n c = hist lab n c) ∧
    (ValidLab lab n k → ValidLab (switchLoop D perm fuel lab) n k) := by
  intro fuel
  induction fuel with
  | zero => intro lab; exact ⟨fun _ => rfl, id⟩
  | succ f ih =>
    intro lab
    have h1 := sweep_inv D n k perm (lab, 0) hp
    have hm : ∀ c, hist (memo (sweep D perm (lab, 0)).1) n c = hist lab n c := fun c => by
      rw [hist_congr _ _ n c (fun i _ => memo_get _ i)]; exact h1.1 c
    have hv : ValidLab lab n k → ValidLab (memo (sweep D perm (lab, 0)).1) n k := fun h i hi => by
      rw [memo_get]; exact h1.2 h i hi
    have h2 := ih (memo (sweep D perm (lab, 0)).1)
    simp only [switchLoop]
    split
    · exact ⟨fun c => by rw [h2.1 c, hm c], fun h => h2.2 (hv h)⟩
    · exact ⟨hm, hv⟩

/-- `_switch_clusters` preserves the size of every cluster and the validity of the labels,
for every distance matrix and every drawn permutation of the points. -/
theorem switchClusters_inv (D : Mat) (n k : Nat) (perm : List Nat) (hp : ∀ j, j ∈ perm → j < n) (lab : Arr Nat) :
    (∀ c, hist (switchClusters D perm lab) n c = hist lab n c) ∧
    (ValidLab lab n k → ValidLab (switchClusters D perm lab) n k) :=
  switchLoop_inv D n k perm hp 10 lab

/-! ### `_randomize_index` only permutes the index -/

def Covers (n : Nat) (idx : Arr Nat) : Prop := ∀ x, x < n → ∃ p, p < n ∧ idx.get p = x

theorem randomizeStep_covers (n : Nat) (diff : Rat) (rand : Arr Rat) (i : Nat) (h1 : 1 ≤ i) (hn : i < n) (s : RSt)
    (hc : Covers n s.idx) : Covers n (randomizeStep diff rand i s).idx := by
  unfold randomizeStep
  split
  · intro x hx
    obtain ⟨p, hp, hpx⟩ := hc x hx
    by_cases e1 : p = i - 1
    · refine ⟨i, hn, ?_⟩
      show (upd (upd s.idx (i - 1) (s.idx.get i)) i (s.idx.get (i - 1))).get i = x
      rw [upd_get_same, ← e1]; exact hpx
    · by_cases e2 : p = i
      · refine ⟨i - 1, by omega, ?_⟩
        show (upd (upd s.idx (i - 1) (s.idx.get i)) i (s.idx.get (i - 1))).get (i - 1) = x
        rw [upd_get_other _ _ _ _ (by omega), upd_get_same, ← e2]; exact hpx
      · refine ⟨p, hp, ?_⟩
        show (upd (upd s.idx (i - 1) (s.idx.get i)) i (s.idx.get (i - 1))).get p = x
        rw [upd_get_other _ _ _ _ e2, upd_get_other _ _ _ _ e1]; exact hpx
  · exact hc

theorem randomizeLoop_covers (n : Nat) (diff : Rat) (rand : Arr Rat) : ∀ (l : List Nat) (s : RSt),
    (∀ i, i ∈ l → 1 ≤ i ∧ i < n) → Covers n s.idx → Covers n (randomizeLoop diff rand l s).idx := by
  intro l
  induction l with
  | nil => intro s _ h; exact h
  | cons i is ih =>
    intro s h hc
    simp only [randomizeLoop]
    have hi := h i (List.mem_cons_self ..)
    exact ih _ (fun x hx => h x (List.mem_cons_of_mem _ hx)) (randomizeStep_covers n diff rand i hi.1 hi.2 s hc)

/-- the randomized order still contains every point (for every weights and every draw) -/
theorem randomizeIndex_covers (n : Nat) (index : Arr Nat) (w : Arr Int) (eps : Rat) (rand : Arr Rat)
    (hc : Covers n index) : ∀ x, x < n → x ∈ randomizeIndex n index w eps rand := by
  intro x hx
  unfold randomizeIndex
  simp only []
  have := randomizeLoop_covers n
    (if ((maxTo w.get (n - 1) - minTo w.get (n - 1) : Int) : Rat) < eps then eps
      else ((maxTo w.get (n - 1) - minTo w.get (n - 1) : Int) : Rat))
    rand (List.range' 1 (n - 1)) { idx := index, w := w }
    (fun i hi => by rw [List.mem_range'_1] at hi; omega) hc x hx
  obtain ⟨p, hp, hpx⟩ := this
  exact List.mem_map.mpr ⟨p, List.mem_range.mpr hp, hpx⟩

theorem randomizeStep_bound (n : Nat) (diff : Rat) (rand : Arr Rat) (i : Nat) (h1 : 1 ≤ i) (hn : i < n) (s : RSt)
    (hb : ∀ p, p < n → s.idx.get p < n) : ∀ p, p < n → (randomizeStep diff rand i s).idx.get p < n := by
  unfold randomizeStep
  split
  · intro p hp
    show (upd (upd s.idx (i - 1) (s.idx.get i)) i (s.idx.get (i - 1))).get p < n
    rw [upd_get, upd_get]
    split
    · exact hb _ (by omega)
    · split
      · exact hb _ hn
      · exact hb _ hp
  · exact hb

theorem randomizeLoop_bound (n : Nat) (diff : Rat) (rand : Arr Rat) : ∀ (l : List Nat) (s : RSt),
    (∀ i, i ∈ l → 1 ≤ i ∧ i < n) → (∀ p, p < n → s.idx.get p < n) →
    ∀ p, p < n → (randomizeLoop diff rand l s).idx.get p < n := by
  intro l
  induction l with
  | nil => intro s _ h; exact h
  | cons i is ih =>
    intro s h hb
    simp only [randomizeLoop]
    have hi := h i (List.mem_cons_self ..)
    exact ih _ (fun x hx => h x (List.mem_cons_of_mem _ hx)) (randomizeStep_bound n diff rand i hi.1 hi.2 s hb)

theorem randomizeIndex_bound (n : Nat) (index : Arr Nat) (w : Arr Int) (eps : Rat) (rand : Arr Rat)
    (hb : ∀ p, p < n → index.get p < n) : ∀ x, x ∈ randomizeIndex n index w eps rand → x < n := by
  intro x hx
  unfold randomizeIndex at hx
  simp only [] at hx
  obtain ⟨p, hp, hpx⟩ := List.mem_map.mp hx
  rw [← hpx]
  exact randomizeLoop_bound n _ rand (List.range' 1 (n - 1)) { idx := index, w := w }
    (fun i hi => by rw [List.mem_range'_1] at hi; omega) hb p (List.mem_range.mp hp)

/-! ### the quota fill of `_constraint_association_distance` -/

/-- number of points `i < n` carrying the (integer) label `c` -/
def cntL (lab : Arr Int) (n : Nat) (c : Int) : Nat := countTo (fun x => decide (lab.get x = c)) n

/-- 1 iff the cluster already took its extra point (`leftclose[c] != -1`) -/
def ex (lc : Arr Int) (c : Nat) : Int := if lc.get c = -1 then 0 else 1

structure FInv (n k : Nat) (limit leftover : Int) (s : FillSt) : Prop where
  bit : ∀ c, c < k → s.lc.get c = -1 ∨ s.lc.get c = 0
  le : ∀ c, c < k → s.cnt.get c ≤ limit + ex s.lc c
  exq : ∀ c, c < k → s.lc.get c = 0 → s.cnt.get c = limit + 1
  nov : 0 ≤ s.nover
  bud : sumTo (ex s.lc) k + s.nover = leftover
  cons : ∀ c, c < k → s.cnt.get c = (cntL s.lab n (c : Int) : Int)
  valid : ∀ i, i < n → s.lab.get i = -1 ∨ (0 ≤ s.lab.get i ∧ s.lab.get i < (k : Int))

theorem upd_get_self {α} (f : Arr α) (a x : Nat) : (upd f a (f.get a)).get x = f.get x := by
  rw [upd_get]; split
  · rename_i h; rw [h]
  · rfl

theorem count_partition (lab : Arr Int) (n k : Nat)
    (h : ∀ i, i < n → lab.get i = -1 ∨ (0 ≤ lab.get i ∧ lab.get i < (k : Int))) :
    sumTo (fun c => (cntL lab n (c : Int) : Int)) k + (cntL lab n (-1) : Int) = n := by
  induction n with
  | zero =>
    have : sumTo (fun c => (cntL lab 0 (c : Int) : Int)) k = sumTo (fun _ => 0) k :=
      sumTo_congr _ _ _ (fun c _ => by simp [cntL, countTo])
    rw [this, sumTo_const]; simp [cntL, countTo]
  | succ n ih =>
    have h1 := ih (fun i hi => h i (by omega))
    have h2 : sumTo (fun c => (cntL lab (n + 1) (c : Int) : Int)) k =
        sumTo (fun c => (cntL lab n (c : Int) : Int) + (if lab.get n = (c : Int) then 1 else 0)) k := by
      apply sumTo_congr; intro c _
      simp only [cntL, countTo]
      by_cases e : lab.get n = (c : Int) <;> simp [e]
    have h3 : (cntL lab (n + 1) (-1) : Int) = cntL lab n (-1) + (if lab.get n = -1 then 1 else 0) := by
      simp only [cntL, countTo]
      by_cases e : lab.get n = -1 <;> simp [e]
    rw [h2, sumTo_add, h3]
    rcases h n (by omega) with e | ⟨e1, e2⟩
    · have : sumTo (fun c => if lab.get n = (c : Int) then (1 : Int) else 0) k = sumTo (fun _ => 0) k :=
        sumTo_congr _ _ _ (fun c _ => by
          have : ¬ (lab.get n = (c : Int)) := by omega
          simp [this])
      rw [this, sumTo_const, if_pos e]; simp; omega
    · have : sumTo (fun c => if lab.get n = (c : Int) then (1 : Int) else 0) k =
          sumTo (fun c => if (lab.get n).toNat = c then (1 : Int) else 0) k :=
        sumTo_congr _ _ _ (fun c _ => by
          rcases Decidable.em (lab.get n = (c : Int)) with q | q
          · have q2 : (lab.get n).toNat = c := by omega
            rw [if_pos q, if_pos q2]
          · have q2 : ¬ (lab.get n).toNat = c := by omega
            rw [if_neg q, if_neg q2])
      rw [this, sumTo_indicator _ _ (by omega)]
      have hne : ¬ lab.get n = -1 := by omega
      rw [if_neg hne]; omega

theorem cntL_upd (lab : Arr Int) (n ind a c : Nat) (hind : ind < n) (hun : lab.get ind = -1) :
    (cntL (upd lab ind (a : Int)) n (c : Int) : Int) = cntL lab n (c : Int) + (if a = c then 1 else 0) := by
  have h := countTo_upd lab ind n (a : Int) (c : Int) hind
  have h1 : ¬ lab.get ind = (c : Int) := by omega
  rw [if_neg h1] at h
  unfold cntL
  rcases Decidable.em (a = c) with q | q
  · have q2 : (a : Int) = (c : Int) := by omega
    rw [if_pos q2] at h; rw [if_pos q]; omega
  · have q2 : ¬ (a : Int) = (c : Int) := by omega
    rw [if_neg q2] at h; rw [if_neg q]; omega

theorem sumTo_ex_upd (lc : Arr Int) (a k : Nat) (ha : a < k) (h : lc.get a = -1) :
    sumTo (ex (upd lc a 0)) k = sumTo (ex lc) k + 1 := by
  have : sumTo (ex (upd lc a 0)) k = sumTo (fun c => ex lc c + (if a = c then 1 else 0)) k := by
    apply sumTo_congr; intro c _
    unfold ex
    rcases Decidable.em (a = c) with q | q
    · subst q; rw [upd_get_same, if_pos h]; simp
    · rw [upd_get_other _ _ _ _ (fun e => q e.symm), if_neg q]; omega
  rw [this, sumTo_add, sumTo_indicator _ _ ha]

/-- first accepting branch (`counters[c] < limit`) keeps the invariant -/
theorem accept_limit_inv (n k : Nat) (limit leftover maxi : Int) (ind a : Nat) (hind : ind < n) (ha : a < k)
    (s : FillSt) (inv : FInv n k limit leftover s) (hun : s.lab.get ind = -1) (hlt : s.cnt.get a < limit) :
    FInv n k limit leftover
      { cnt := upd s.cnt a (s.cnt.get a + 1), nover := s.nover, lc := upd s.lc a (s.lc.get a),
        lab := upd s.lab ind (a : Int), dist := upd2 s.dist ind a maxi } := by
  have hex : ∀ c, ex (upd s.lc a (s.lc.get a)) c = ex s.lc c := fun c => by
    unfold ex; rw [upd_get_self]
  refine ⟨?_, ?_, ?_, inv.nov, ?_, ?_, ?_⟩
  · intro c hc; show (upd s.lc a (s.lc.get a)).get c = -1 ∨ (upd s.lc a (s.lc.get a)).get c = 0
    rw [upd_get_self]; exact inv.bit c hc
  · intro c hc
    show (upd s.cnt a (s.cnt.get a + 1)).get c ≤ limit + ex (upd s.lc a (s.lc.get a)) c
    rw [hex]
    have h1 := inv.le c hc
    have h2 : 0 ≤ ex s.lc c := by unfold ex; split <;> omega
    rw [upd_get]; split
    · omega
    · exact h1
  · intro c hc h0
    have h0' : s.lc.get c = 0 := by
      have : (upd s.lc a (s.lc.get a)).get c = 0 := h0
      rwa [upd_get_self] at this
    have h1 := inv.exq c hc h0'
    show (upd s.cnt a (s.cnt.get a + 1)).get c = limit + 1
    rw [upd_get]; split
    · rename_i e; subst e; omega
    · exact h1
  · show sumTo (ex (upd s.lc a (s.lc.get a))) k + s.nover = leftover
    rw [sumTo_congr _ _ k (fun c _ => hex c)]; exact inv.bud
  · intro c hc
    show (upd s.cnt a (s.cnt.get a + 1)).get c = (cntL (upd s.lab ind (a : Int)) n (c : Int) : Int)
    rw [cntL_upd _ _ _ _ _ hind hun, upd_get]
    have h1 := inv.cons c hc
    rcases Decidable.em (c = a) with e | e
    · subst e; rw [if_pos rfl, if_pos rfl]; omega
    · rw [if_neg e, if_neg (fun q => e q.symm)]; omega
  · intro i hi
    show (upd s.lab ind (a : Int)).get i = -1 ∨ _
    rw [upd_get]; split
    · right; omega
    · exact inv.valid i hi

/-- second accepting branch (`nover > 0 and leftclose[c] == -1`) keeps the invariant -/
theorem accept_leftover_inv (n k : Nat) (limit leftover maxi : Int) (ind a : Nat) (hind : ind < n) (ha : a < k)
    (s : FillSt) (inv : FInv n k limit leftover s) (hun : s.lab.get ind = -1) (hge : ¬ s.cnt.get a < limit)
    (hnov : 0 < s.nover) (hlc : s.lc.get a = -1) :
    FInv n k limit leftover
      { cnt := upd s.cnt a (s.cnt.get a + 1), nover := s.nover - 1, lc := upd s.lc a 0,
        lab := upd s.lab ind (a : Int), dist := upd2 s.dist ind a maxi } := by
  have hexa : ex s.lc a = 0 := by unfold ex; rw [if_pos hlc]
  have hla := inv.le a ha
  refine ⟨?_, ?_, ?_, ?_, ?_, ?_, ?_⟩
  · intro c hc; show (upd s.lc a 0).get c = -1 ∨ (upd s.lc a 0).get c = 0
    rw [upd_get]; split
    · right; rfl
    · exact inv.bit c hc
  · intro c hc
    show (upd s.cnt a (s.cnt.get a + 1)).get c ≤ limit + ex (upd s.lc a 0) c
    unfold ex
    rw [upd_get, upd_get]
    rcases Decidable.em (c = a) with e | e
    · subst e; rw [if_pos rfl, if_pos rfl]; simp; omega
    · rw [if_neg e, if_neg e]; exact inv.le c hc
  · intro c hc h0
    show (upd s.cnt a (s.cnt.get a + 1)).get c = limit + 1
    rw [upd_get]
    rcases Decidable.em (c = a) with e | e
    · subst e; rw [if_pos rfl]; omega
    · rw [if_neg e]
      have : (upd s.lc a 0).get c = 0 := h0
      rw [upd_get_other _ _ _ _ e] at this
      exact inv.exq c hc this
  · show 0 ≤ s.nover - 1; omega
  · show sumTo (ex (upd s.lc a 0)) k + (s.nover - 1) = leftover
    rw [sumTo_ex_upd _ _ _ ha hlc]; have := inv.bud; omega
  · intro c hc
    show (upd s.cnt a (s.cnt.get a + 1)).get c = (cntL (upd s.lab ind (a : Int)) n (c : Int) : Int)
    rw [cntL_upd _ _ _ _ _ hind hun, upd_get]
    have h1 := inv.cons c hc
    rcases Decidable.em (c = a) with e | e
    · subst e; rw [if_pos rfl, if_pos rfl]; omega
    · rw [if_neg e, if_neg (fun q => e q.symm)]; omega
  · intro i hi
    show (upd s.lab ind (a : Int)).get i = -1 ∨ _
    rw [upd_get]; split
    · right; omega
    · exact inv.valid i hi

theorem tryAssign_some (n k : Nat) (limit leftover maxi : Int) (ind : Nat) (hind : ind < n) (s s' : FillSt)
    (inv : FInv n k limit leftover s) (hun : s.lab.get ind = -1) :
    ∀ pref : List Nat, (∀ c, c ∈ pref → c < k) → tryAssign limit maxi ind s pref = some s' →
      FInv n k limit leftover s' ∧ s'.lab.get ind ≠ -1 ∧ (∀ i, i ≠ ind → s'.lab.get i = s.lab.get i) := by
  intro pref
  induction pref with
  | nil => intro _ h; simp [tryAssign] at h
  | cons a as ih =>
    intro hr h
    have hak : a < k := hr a (List.mem_cons_self ..)
    simp only [tryAssign] at h
    split at h
    · rename_i h1
      rw [acceptLimit_iff] at h1
      rw [effectLimit_eq] at h
      cases h
      refine ⟨accept_limit_inv n k limit leftover maxi ind a hind hak s inv hun h1, ?_, ?_⟩
      · show (upd s.lab ind (a : Int)).get ind ≠ -1
        rw [upd_get_same]; omega
      · intro i hi; exact upd_get_other _ _ _ _ hi
    · rename_i h1
      rw [acceptLimit_iff] at h1
      split at h
      · rename_i h2
        rw [acceptLeftover_iff] at h2
        rw [effectLeftover_eq] at h
        cases h
        refine ⟨accept_leftover_inv n k limit leftover maxi ind a hind hak s inv hun h1 h2.1 h2.2, ?_, ?_⟩
        · show (upd s.lab ind (a : Int)).get ind ≠ -1
          rw [upd_get_same]; omega
        · intro i hi; exact upd_get_other _ _ _ _ hi
      · exact ih (fun c hc => hr c (List.mem_cons_of_mem _ hc)) h

/-- If no cluster of the preference list accepts, every listed cluster is saturated. -/
theorem tryAssign_none (limit maxi : Int) (ind : Nat) (s : FillSt) (pref : List Nat)
    (h : tryAssign limit maxi ind s pref = none) :
    ∀ c, c ∈ pref → limit ≤ s.cnt.get c ∧ (s.nover ≤ 0 ∨ s.lc.get c ≠ -1) := by
  induction pref with
  | nil => intro c hc; cases hc
  | cons a as ih =>
    intro c hc
    simp only [tryAssign] at h
    split at h
    · cases h
    · rename_i h1
      rw [acceptLimit_iff] at h1
      split at h
      · cases h
      · rename_i h2
        rw [acceptLeftover_iff] at h2
        rcases List.mem_cons.mp hc with e | e
        · subst e
          refine ⟨by omega, ?_⟩
          by_cases hn : s.nover ≤ 0
          · exact Or.inl hn
          · right; intro hx; exact h2 ⟨by omega, hx⟩
        · exact ih h c e

/-- Progress: an unplaced point is always placed, whatever its preference order (any list covering all
k clusters), as long as n = k·limit + leftover. -/
theorem fill_progress (n k : Nat) (limit leftover maxi : Int) (hn : (n : Int) = k * limit + leftover)
    (hlo : leftover < k)
    (ind : Nat) (hind : ind < n) (s : FillSt) (inv : FInv n k limit leftover s) (hun : s.lab.get ind = -1)
    (pref : List Nat) (hcov : ∀ c, c < k → c ∈ pref) : tryAssign limit maxi ind s pref ≠ none := by
  intro hres
  have hsat := tryAssign_none limit maxi ind s pref hres
  -- fewer than n points are placed
  have hpart := count_partition s.lab n k inv.valid
  have hun1 : 1 ≤ (cntL s.lab n (-1) : Int) := by
    have : 0 < cntL s.lab n (-1) := by
      unfold cntL
      cases hc : countTo (fun x => decide (s.lab.get x = -1)) n with
      | zero =>
        exfalso
        have hz : ∀ m, countTo (fun x => decide (s.lab.get x = -1)) m = 0 → ∀ i, i < m → s.lab.get i ≠ -1 := by
          intro m
          induction m with
          | zero => intro _ i hi; omega
          | succ m ihm =>
            intro h0 i hi
            simp only [countTo] at h0
            by_cases e : i = m
            · subst e; intro q; simp [q] at h0
            · exact ihm (by omega) i (by omega)
        exact hz n hc ind hind hun
      | succ m => omega
    omega
  have hsum : sumTo s.cnt.get k = sumTo (fun c => (cntL s.lab n (c : Int) : Int)) k :=
    sumTo_congr _ _ _ (fun c hc => inv.cons c hc)
  have hlt : sumTo s.cnt.get k < k * limit + leftover := by omega
  have hbit : ∀ c, c < k → 0 ≤ ex s.lc c ∧ ex s.lc c ≤ 1 := fun c _ => by unfold ex; split <;> omega
  by_cases hnv : s.nover ≤ 0
  · have heq : ∀ c, c < k → s.cnt.get c = limit + ex s.lc c := by
      intro c hc
      have h1 := inv.le c hc
      have h2 := (hsat c (hcov c hc)).1
      have h3 := hbit c hc
      by_cases hx : s.lc.get c = -1
      · have : ex s.lc c = 0 := by unfold ex; rw [if_pos hx]
        omega
      · have h0 : s.lc.get c = 0 := by rcases inv.bit c hc with q | q; exact absurd q hx; exact q
        have := inv.exq c hc h0
        have : ex s.lc c = 1 := by unfold ex; rw [if_neg hx]
        omega
    have h4 := sumTo_congr s.cnt.get (fun c => limit + ex s.lc c) k heq
    rw [sumTo_add, sumTo_const] at h4
    have := inv.bud; have := inv.nov; omega
  · have hall : ∀ c, c < k → ex s.lc c = 1 := by
      intro c hc
      rcases (hsat c (hcov c hc)).2 with h | h
      · exact absurd h hnv
      · unfold ex; rw [if_neg h]
    have h5 : sumTo (ex s.lc) k = sumTo (fun _ => 1) k := sumTo_congr _ _ _ hall
    rw [sumTo_const] at h5
    have hb := inv.bud
    omega

/-- one pass over an order: the invariant is kept, placed points stay placed, every listed point is placed -/
theorem fillPass_inv (n k : Nat) (limit leftover maxi : Int) (hn : (n : Int) = k * limit + leftover)
    (hlo : leftover < k) (prefs : Arr (List Nat))
    (hp : ∀ i, i < n → (∀ c, c < k → c ∈ prefs.get i) ∧ (∀ c, c ∈ prefs.get i → c < k)) :
    ∀ (order : List Nat) (s : FillSt), FInv n k limit leftover s → (∀ i, i ∈ order → i < n) →
      FInv n k limit leftover (fillPass limit maxi prefs order s) ∧
      (∀ i, s.lab.get i ≠ -1 → (fillPass limit maxi prefs order s).lab.get i ≠ -1) ∧
      (∀ i, i ∈ order → (fillPass limit maxi prefs order s).lab.get i ≠ -1) := by
  intro order
  induction order with
  | nil => intro s inv _; exact ⟨inv, fun _ h => h, fun i hi => by cases hi⟩
  | cons ind rest ih =>
    intro s inv hb
    have hind := hb ind (List.mem_cons_self ..)
    have hrest : ∀ i, i ∈ rest → i < n := fun i hi => hb i (List.mem_cons_of_mem _ hi)
    simp only [fillPass]
    split
    · rename_i hskip
      rw [fillSkip_iff] at hskip
      obtain ⟨a, b, c⟩ := ih s inv hrest
      refine ⟨a, b, ?_⟩
      intro i hi
      rcases List.mem_cons.mp hi with e | e
      · subst e; exact b _ (by omega)
      · exact c i e
    · rename_i hskip
      rw [fillSkip_iff] at hskip
      have hun : s.lab.get ind = -1 := by
        rcases inv.valid ind hind with q | q
        · exact q
        · omega
      split
      · rename_i s' hs'
        obtain ⟨inv', hp1, hp2⟩ := tryAssign_some n k limit leftover maxi ind hind s s' inv hun
          (prefs.get ind) (hp ind hind).2 hs'
        obtain ⟨a, b, c⟩ := ih s' inv' hrest
        refine ⟨a, ?_, ?_⟩
        · intro i hi
          by_cases e : i = ind
          · subst e; exact b _ hp1
          · exact b i (by rw [hp2 i e]; exact hi)
        · intro i hi
          rcases List.mem_cons.mp hi with e | e
          · subst e; exact b _ hp1
          · exact c i e
      · rename_i hnone
        exact absurd hnone
          (fill_progress n k limit leftover maxi hn hlo ind hind s inv hun (prefs.get ind) (hp ind hind).1)

theorem minTo_all (f : Nat → Int) (m : Nat) (v : Int) (h : ∀ i, i ≤ m → f i = v) : minTo f m = v := by
  induction m with
  | zero => exact h 0 (by omega)
  | succ m ih =>
    simp only [minTo, ih (fun i hi => h i (by omega)), h (m + 1) (by omega)]
    omega

theorem minTo_ge (f : Nat → Int) (m : Nat) (a : Int) (h : ∀ i, i ≤ m → a ≤ f i) : a ≤ minTo f m := by
  induction m with
  | zero => exact h 0 (by omega)
  | succ m ih =>
    have h1 := ih (fun i hi => h i (by omega))
    have h2 := h (m + 1) (by omega)
    simp only [minTo]
    omega

theorem FInv_memo (n k : Nat) (limit leftover : Int) (s : FillSt) (inv : FInv n k limit leftover s) :
    FInv n k limit leftover { s with cnt := memo s.cnt, lc := memo s.lc, lab := memo s.lab } := by
  have hex : ∀ c, ex (memo s.lc) c = ex s.lc c := fun c => by unfold ex; rw [memo_get]
  refine ⟨?_, ?_, ?_, inv.nov, ?_, ?_, ?_⟩
  · intro c hc; show (memo s.lc).get c = -1 ∨ (memo s.lc).get c = 0
    rw [memo_get]; exact inv.bit c hc
  · intro c hc; show (memo s.cnt).get c ≤ limit + ex (memo s.lc) c
    rw [memo_get, hex]; exact inv.le c hc
  · intro c hc h0
    show (memo s.cnt).get c = limit + 1
    rw [memo_get]
    have : (memo s.lc).get c = 0 := h0
    rw [memo_get] at this
    exact inv.exq c hc this
  · show sumTo (ex (memo s.lc)) k + s.nover = leftover
    rw [sumTo_congr _ _ k (fun c _ => hex c)]; exact inv.bud
  · intro c hc
    show (memo s.cnt).get c = (cntL (memo s.lab) n (c : Int) : Int)
    have : cntL (memo s.lab) n (c : Int) = cntL s.lab n (c : Int) := by
      unfold cntL; exact countTo_congr _ _ _ (fun i _ => by rw [memo_get])
    rw [memo_get, this]; exact inv.cons c hc
  · intro i hi
    show (memo s.lab).get i = -1 ∨ _
    rw [memo_get]; exact inv.valid i hi

theorem FInv_init (n k : Nat) (limit leftover : Int) (D : Mat) (hlim : 0 ≤ limit) (hlo0 : 0 ≤ leftover) :
    FInv n k limit leftover { fillInit n k D with nover := C07.fillNover0 leftover } := by
  obtain ⟨h1, h2, h3, h4⟩ := fillInit_vals
  have hex : ∀ c, ex (Arr.const k C07.fillInitLeftclose) c = 0 := fun c => by
    unfold ex; rw [const_get, h2]; simp
  refine ⟨?_, ?_, ?_, ?_, ?_, ?_, ?_⟩
  · intro c _; left; show (Arr.const k C07.fillInitLeftclose).get c = -1; rw [const_get, h2]
  · intro c _; show (Arr.const k C07.fillInitCounter).get c ≤ limit + ex (Arr.const k C07.fillInitLeftclose) c
    rw [const_get, h1, hex]; omega
  · intro c _ h0
    have : (Arr.const k C07.fillInitLeftclose).get c = 0 := h0
    rw [const_get, h2] at this; omega
  · show 0 ≤ C07.fillNover0 leftover; rw [h4]; exact hlo0
  · show sumTo (ex (Arr.const k C07.fillInitLeftclose)) k + C07.fillNover0 leftover = leftover
    rw [sumTo_congr _ _ k (fun c _ => hex c), sumTo_const, h4]; simp
  · intro c _
    show (Arr.const k C07.fillInitCounter).get c = (cntL (Arr.const n C07.fillInitLabel) n (c : Int) : Int)
    have : cntL (Arr.const n C07.fillInitLabel) n (c : Int) = 0 := by
      unfold cntL
      apply countTo_zero_of_none
      intro i _
      rw [const_get, h3]
      have : ¬ ((-1 : Int) = (c : Int)) := by omega
      simp [this]
    rw [const_get, h1, this]; rfl
  · intro i _; left; show (Arr.const n C07.fillInitLabel).get i = -1; rw [const_get, h3]

/-- ONE pass of the while loop places every point, and the loop then stops (for every order covering
the points, every preference lists covering the clusters, every draw). -/
theorem fillLoop_one_pass (n k : Nat) (hn1 : 1 ≤ n) (limit leftover maxi : Int) (hlim : 0 ≤ limit)
    (hlo0 : 0 ≤ leftover) (hlo : leftover < k) (hn : (n : Int) = k * limit + leftover) (eps : Rat)
    (prefs : Arr (List Nat))
    (hp : ∀ i, i < n → (∀ c, c < k → c ∈ prefs.get i) ∧ (∀ c, c ∈ prefs.get i → c < k))
    (p : PassIn) (ps : List PassIn) (D : Mat) (hcov : Covers n p.order) (hb : ∀ j, j < n → p.order.get j < n) :
    ∃ s, fillLoop n k limit leftover maxi eps prefs (p :: ps) (fillInit n k D) = some s ∧
      FInv n k limit leftover s ∧ (∀ i, i < n → 0 ≤ s.lab.get i ∧ s.lab.get i < (k : Int)) := by
  obtain ⟨_, _, h3, _⟩ := fillInit_vals
  have hw : C07.fillWhile (minTo (fillInit n k D).lab.get (n - 1)) = true := by
    rw [fillWhile_iff]
    apply minTo_all
    intro i _
    show (Arr.const n C07.fillInitLabel).get i = -1
    rw [const_get, h3]
  simp only [fillLoop, hw, if_true]
  let order := randomizeIndex n p.order (tabulate n (fun i => rowMin k ((fillInit n k D).dist.get i))) eps p.rand
  have hord : ∀ x, x < n → x ∈ order := randomizeIndex_covers n p.order _ eps p.rand hcov
  have hordb : ∀ x, x ∈ order → x < n := randomizeIndex_bound n p.order _ eps p.rand hb
  have inv0 := FInv_init n k limit leftover D hlim hlo0
  obtain ⟨inv1, _, hall⟩ := fillPass_inv n k limit leftover maxi hn hlo prefs hp order _ inv0 hordb
  let s1 := fillPass limit maxi prefs order { fillInit n k D with nover := C07.fillNover0 leftover }
  let s2 : FillSt := { s1 with cnt := memo s1.cnt, lc := memo s1.lc, lab := memo s1.lab }
  have inv2 : FInv n k limit leftover s2 := FInv_memo n k limit leftover s1 inv1
  have hpl : ∀ i, i < n → 0 ≤ s2.lab.get i ∧ s2.lab.get i < (k : Int) := by
    intro i hi
    have h1 : s2.lab.get i ≠ -1 := by
      show (memo s1.lab).get i ≠ -1
      rw [memo_get]; exact hall i (hord i hi)
    rcases inv2.valid i hi with q | q
    · exact absurd q h1
    · exact q
  have hw2 : C07.fillWhile (minTo s2.lab.get (n - 1)) = false := by
    cases hq : C07.fillWhile (minTo s2.lab.get (n - 1)) with
    | false => rfl
    | true =>
      rw [fillWhile_iff] at hq
      have := minTo_ge s2.lab.get (n - 1) 0 (fun i hi => (hpl i (by omega)).1)
      omega
  refine ⟨s2, ?_, inv2, hpl⟩
  cases ps with
  | nil => show fillLoop n k limit leftover maxi eps prefs [] s2 = some s2; simp only [fillLoop, hw2]; rfl
  | cons q qs =>
    show fillLoop n k limit leftover maxi eps prefs (q :: qs) s2 = some s2
    simp only [fillLoop, hw2]; rfl

/-- after the fill every cluster holds `limit` points, or `limit + 1` (only possible when leftover > 0) -/
theorem fill_balanced (n k : Nat) (limit leftover : Int) (hn : (n : Int) = k * limit + leftover)
    (s : FillSt) (inv : FInv n k limit leftover s) (hpl : ∀ i, i < n → 0 ≤ s.lab.get i ∧ s.lab.get i < (k : Int)) :
    ∀ c, c < k → (cntL s.lab n (c : Int) : Int) = limit ∨
      ((cntL s.lab n (c : Int) : Int) = limit + 1 ∧ 0 < leftover) := by
  have hpart := count_partition s.lab n k inv.valid
  have h0 : cntL s.lab n (-1) = 0 := by
    unfold cntL
    apply countTo_zero_of_none
    intro i hi
    have := (hpl i hi).1
    have : ¬ s.lab.get i = -1 := by omega
    simp [this]
  have hsum : sumTo s.cnt.get k = sumTo (fun c => (cntL s.lab n (c : Int) : Int)) k :=
    sumTo_congr _ _ _ (fun c hc => inv.cons c hc)
  have hbit : ∀ c, c < k → 0 ≤ ex s.lc c ∧ ex s.lc c ≤ 1 := fun c _ => by unfold ex; split <;> omega
  have h1 : sumTo (fun c => limit + ex s.lc c) k ≤ sumTo s.cnt.get k := by
    rw [sumTo_add, sumTo_const]; have := inv.bud; have := inv.nov; omega
  have h2 := sumTo_eq_of_le s.cnt.get (fun c => limit + ex s.lc c) k inv.le h1
  intro c hc
  have h3 := h2 c hc
  have h4 := hbit c hc
  have h5 := inv.cons c hc
  have h6 := single_le_sumTo (ex s.lc) k c (fun x hx => (hbit x hx).1) hc
  have := inv.bud; have := inv.nov
  by_cases e : ex s.lc c = 0
  · left; omega
  · right; omega

theorem hist_of_toNat (lab : Arr Int) (n c : Nat) (h : ∀ i, i < n → 0 ≤ lab.get i) :
    hist (tabulate n (fun i => (lab.get i).toNat)) n c = cntL lab n (c : Int) := by
  rw [hist_eq]; unfold cntL
  apply countTo_congr
  intro i hi
  rw [tabulate_get]
  have := h i hi
  rcases Decidable.em (lab.get i = (c : Int)) with q | q
  · have : (lab.get i).toNat = c := by omega
    simp [q]
  · have : ¬ (lab.get i).toNat = c := by omega
    simp [q, this]

end MlVerif.Balance
