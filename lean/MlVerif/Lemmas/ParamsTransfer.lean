/-
C01 — transfer: feeding `get_params(deep=True)` of one instance to another one through the multi-key `set_params`
(direct keys first, then one nested self-assignment per sub-estimator), every protocol, every nesting depth.
Core Lean only.
-/
import MlVerif.Lemmas.ParamsSpec

namespace MlVerif.Params
open MlVerif.Gen.C01

theorem addTo_new (s : Sel) (sub : Key) (v : PVal) (g : List (Sel × KW)) (h : s ∉ g.map (·.1)) :
    addTo s sub v g = g ++ [(s, [(sub, v)])] := by
  induction g with
  | nil => rfl
  | cons hd tl ih =>
    obtain ⟨s', l⟩ := hd
    simp only [List.map_cons, List.mem_cons, not_or] at h
    have hne : ¬ (s' = s) := fun e => h.1 e.symm
    simp [addTo, hne, ih h.2]

theorem addTo_last (s : Sel) (sub : Key) (v : PVal) (g : List (Sel × KW)) (l : KW) (h : s ∉ g.map (·.1)) :
    addTo s sub v (g ++ [(s, l)]) = g ++ [(s, l ++ [(sub, v)])] := by
  induction g with
  | nil => simp [addTo]
  | cons hd tl ih =>
    obtain ⟨s', l'⟩ := hd
    simp only [List.map_cons, List.mem_cons, not_or] at h
    have hne : ¬ (s' = s) := fun e => h.1 e.symm
    simp [addTo, hne, ih h.2]

theorem baseStep_nested (names : List Key) (pl : Plan) (k s : Key) (v : PVal) (hc : cleanName k = true)
    (hk : names.contains k = true) :
    baseStep names pl (k ++ sep2 ++ s, v) = .ok { pl with groups := addTo (.slot k) s v pl.groups } := by
  simp only [baseStep, splitFirst_clean k s hc, hk, ↓reduceIte]

/-- folding the first loop of `set_params` over the (non-empty tail of the) block of one sub-estimator -/
theorem fold_block_aux (names : List Key) (kw : KW) (k : Key) (g : List (Sel × KW)) (hc : cleanName k = true)
    (hk : names.contains k = true) (hg : Sel.slot k ∉ g.map (·.1)) :
    ∀ (ps l : KW), (prefixed (k ++ sep2) ps).foldlM (baseStep names) { kw := kw, groups := g ++ [(.slot k, l)] }
      = .ok { kw := kw, groups := g ++ [(.slot k, l ++ ps)] } := by
  intro ps
  induction ps with
  | nil => intro l; simp [prefixed, List.foldlM, pure, Except.pure]
  | cons p rest ih =>
    intro l
    obtain ⟨s, v⟩ := p
    simp only [prefixed, List.map_cons, List.foldlM, bind, Except.bind]
    rw [baseStep_nested names _ k s v hc hk]
    simp only [addTo_last _ _ _ g l hg]
    have := ih (l ++ [(s, v)])
    simp only [prefixed] at this
    rw [this]
    simp [List.append_assoc]

theorem fold_block (names : List Key) (kw : KW) (k : Key) (g : List (Sel × KW)) (ps : KW) (hc : cleanName k = true)
    (hk : names.contains k = true) (hg : Sel.slot k ∉ g.map (·.1)) :
    (prefixed (k ++ sep2) ps).foldlM (baseStep names) { kw := kw, groups := g }
      = .ok { kw := kw, groups := g ++ (if ps.isEmpty then [] else [(.slot k, ps)]) } := by
  cases ps with
  | nil => simp [prefixed, List.foldlM, pure, Except.pure]
  | cons p rest =>
    obtain ⟨s, v⟩ := p
    simp only [prefixed, List.map_cons, List.foldlM, bind, Except.bind]
    rw [baseStep_nested names _ k s v hc hk]
    simp only [addTo_new _ _ _ g hg]
    have := fold_block_aux names kw k g hc hk hg rest [(s, v)]
    simp only [prefixed] at this
    rw [this]
    simp

/-- the advertised block of one slot, and the nested call it causes -/
def blockEntries (kv : Key × PVal) : KW :=
  match deepOf kv.2 with
  | .one ps => prefixed (kv.1 ++ sep2) ps
  | _ => []

def blockGroup (kv : Key × PVal) : List (Sel × KW) :=
  match deepOf kv.2 with
  | .one ps => if ps.isEmpty then [] else [(.slot kv.1, ps)]
  | _ => []

theorem nestedOf_base_eq (kw : KW) :
    nestedOf .base (kw.map (fun kv => (kv.1, deepOf kv.2))) = kw.flatMap blockEntries := by
  simp only [nestedOf, List.flatMap_map]
  congr 1

theorem blockGroup_sel (kv : Key × PVal) : ∀ g ∈ blockGroup kv, g.1 = .slot kv.1 := by
  intro g hg
  unfold blockGroup at hg
  cases hd : deepOf kv.2 <;> simp [hd] at hg
  rw [hg.2]

theorem fold_blocks (names : List Key) (kw : KW) :
    ∀ (rest : KW) (g : List (Sel × KW)),
      (∀ kv ∈ rest, cleanName kv.1 = true ∧ names.contains kv.1 = true) → (keys rest).Nodup →
      (∀ kv ∈ rest, Sel.slot kv.1 ∉ g.map (·.1)) →
      (rest.flatMap blockEntries).foldlM (baseStep names) { kw := kw, groups := g }
        = .ok { kw := kw, groups := g ++ rest.flatMap blockGroup } := by
  intro rest
  induction rest with
  | nil => intro g _ _ _; simp [List.foldlM, pure, Except.pure]
  | cons kv rest ih =>
    intro g hc hnd hg
    obtain ⟨hc1, hk1⟩ := hc kv (by simp)
    simp only [keys, List.map_cons, List.nodup_cons] at hnd
    simp only [List.flatMap_cons, List.foldlM_append]
    have hstep : (blockEntries kv).foldlM (baseStep names) { kw := kw, groups := g }
        = .ok { kw := kw, groups := g ++ blockGroup kv } := by
      unfold blockEntries blockGroup
      cases hd : deepOf kv.2 with
      | one ps => simpa using fold_block names kw kv.1 g ps hc1 hk1 (hg kv (by simp))
      | none => simp [List.foldlM, pure, Except.pure]
      | many _ => simp [List.foldlM, pure, Except.pure]
    simp only [hstep, bind, Except.bind]
    rw [ih (g ++ blockGroup kv) (fun x hx => hc x (by simp [hx])) hnd.2]
    · simp [List.append_assoc]
    · intro x hx hmem
      simp only [List.map_append, List.mem_append] at hmem
      rcases hmem with h | h
      · exact hg x (by simp [hx]) h
      · obtain ⟨gg, hgg, he⟩ := List.mem_map.mp h
        have := blockGroup_sel kv gg hgg
        rw [this] at he
        have : kv.1 = x.1 := by simpa using he
        exact hnd.1 (this ▸ List.mem_map.mpr ⟨x, hx, rfl⟩)

/-- the nested calls of a self-assignment change nothing, provided each sub-estimator's own self-assignment does -/
theorem fold_groups_id (rec : PVal → KW → Except Err PVal) (kw1 : KW) :
    ∀ (rest : KW), (∀ kv ∈ rest, kw1.lookup kv.1 = some kv.2) →
      (∀ kv ∈ rest, ∀ ps, deepOf kv.2 = .one ps → ps.isEmpty = false → rec kv.2 ps = .ok kv.2) →
      (rest.flatMap blockGroup).foldlM (applyGroup rec) kw1 = .ok kw1 := by
  intro rest
  induction rest with
  | nil => intro _ _; simp [List.foldlM, pure, Except.pure]
  | cons kv rest ih =>
    intro hl hr
    simp only [List.flatMap_cons, List.foldlM_append]
    have hstep : (blockGroup kv).foldlM (applyGroup rec) kw1 = .ok kw1 := by
      unfold blockGroup
      cases hd : deepOf kv.2 with
      | one ps =>
        simp only
        split
        · simp [List.foldlM, pure, Except.pure]
        · rename_i hne
          have hne' : ps.isEmpty = false := by simpa using hne
          have hest : isEst kv.2 = true := by
            cases hv : kv.2 <;> simp [hv, deepOf] at hd ⊢
            all_goals rfl
          rw [foldlM_single]
          have := applyGroup_rec rec kw1 (.slot kv.1) kv.2 kv.2 ps (by simp [selGet, hl kv (by simp)]) hest hne'
            (hr kv (by simp) ps hd hne')
          rw [this]
          simp [selPut, replaceKey_same _ _ _ (hl kv (by simp))]
      | none => simp [List.foldlM, pure, Except.pure]
      | many _ => simp [List.foldlM, pure, Except.pure]
    simp only [hstep, bind, Except.bind]
    exact ih (fun x hx => hl x (by simp [hx])) (fun x hx => hr x (by simp [hx]))

theorem foldl_max_ge (kvs : KW) (init : Nat) :
    init ≤ kvs.foldl (fun m kv => max m kv.1.length) init ∧
    ∀ kv ∈ kvs, kv.1.length ≤ kvs.foldl (fun m kv => max m kv.1.length) init := by
  induction kvs generalizing init with
  | nil => simp
  | cons hd tl ih =>
    simp only [List.foldl_cons]
    obtain ⟨h1, h2⟩ := ih (max init hd.1.length)
    refine ⟨by omega, ?_⟩
    intro kv hkv
    rcases List.mem_cons.mp hkv with e | e
    · subst e; omega
    · exact h2 kv e

theorem maxKeyLen_ge (kvs : KW) : ∀ kv ∈ kvs, kv.1.length ≤ maxKeyLen kvs := (foldl_max_ge kvs 0).2

theorem foldl_max_lt (kvs : KW) (init m : Nat) (hi : init < m) (h : ∀ kv ∈ kvs, kv.1.length < m) :
    kvs.foldl (fun a kv => max a kv.1.length) init < m := by
  induction kvs generalizing init with
  | nil => simpa
  | cons hd tl ih =>
    simp only [List.foldl_cons]
    apply ih
    · have := h hd (by simp); omega
    · intro kv hkv; exact h kv (by simp [hkv])

theorem skbaseSet_all (kw1 kw2 : KW) (hk : keys kw1 = keys kw2) (hnd : (keys kw1).Nodup)
    (hn : (keys kw1).all skNameOk = true) : skbaseSet kw2 kw1 = .ok kw1 := by
  have hu : skbaseSetUpdates = true := rfl
  unfold skbaseSet
  simp only [hu, ↓reduceIte]
  rw [foldl_upsert_eq kw1 kw2 (fun kv hkv => by
    have hm : kv.1 ∈ keys kw1 := List.mem_map.mpr ⟨kv, hkv, rfl⟩
    rw [← hk]; simpa using hm), foldl_replaceKey_all kw1 kw2 hk hnd]
  simp [hn]

theorem keys_eq_nil (kw1 kw2 : KW) (hk : keys kw2 = keys kw1) (h : kw1 = []) : kw2 = [] := by
  subst h
  cases kw2 with
  | nil => rfl
  | cons _ _ => simp [keys] at hk

theorem lookup_append_left (a b : KW) (k : Key) (v : PVal) (h : a.lookup k = some v) : (a ++ b).lookup k = some v := by
  induction a with
  | nil => simp [List.lookup] at h
  | cons hd tl ih =>
    obtain ⟨k', v'⟩ := hd
    simp only [List.cons_append, List.lookup] at h ⊢
    cases he : (k == k') with
    | true => simpa [he] using h
    | false => simp only [he] at h; exact ih h

/-- two parameter lists with the same names (in the same order, pairwise distinct) and the same value under every
name are equal -/
theorem ext_lookup (a b : KW) (hk : keys a = keys b) (hnd : (keys a).Nodup)
    (h : ∀ k ∈ keys a, a.lookup k = b.lookup k) : a = b := by
  induction a generalizing b with
  | nil =>
    cases b with
    | nil => rfl
    | cons _ _ => simp [keys] at hk
  | cons hd tl ih =>
    obtain ⟨k, v⟩ := hd
    cases b with
    | nil => simp [keys] at hk
    | cons hd2 tl2 =>
      obtain ⟨k2, v2⟩ := hd2
      simp only [keys, List.map_cons, List.cons.injEq] at hk
      obtain ⟨rfl, hk'⟩ := hk
      simp only [keys, List.map_cons, List.nodup_cons] at hnd
      have h0 := h k (by simp [keys])
      simp only [List.lookup, beq_self_eq_true, Option.some.injEq] at h0
      subst h0
      congr 1
      apply ih tl2 hk' hnd.2
      intro k' hk'mem
      have hne : k' ≠ k := fun e => hnd.1 (e ▸ hk'mem)
      have := h k' (by simp [keys]; right; simpa [keys] using hk'mem)
      have hb : (k' == k) = false := by simp [hne]
      simpa [List.lookup, hb] using this

theorem lookup_foldl_replace (vals acc : KW) (k : Key) (hnd : (keys vals).Nodup)
    (hin : ∀ kv ∈ vals, (keys acc).contains kv.1 = true) :
    (vals.foldl (fun a kv => replaceKey kv.1 kv.2 a) acc).lookup k
      = if (keys vals).contains k then vals.lookup k else acc.lookup k := by
  induction vals generalizing acc with
  | nil => simp [keys]
  | cons hd tl ih =>
    obtain ⟨k', v'⟩ := hd
    simp only [keys, List.map_cons, List.nodup_cons] at hnd
    simp only [List.foldl_cons]
    rw [ih _ hnd.2 (fun kv hkv => by rw [keys_replaceKey]; exact hin kv (by simp [hkv]))]
    have hk' := hin (k', v') (by simp)
    by_cases h1 : k = k'
    · subst h1
      have hc : (keys tl).contains k = false := by
        simpa [keys] using hnd.1
      rw [hc]
      simp [keys, List.lookup, lookup_replaceKey_self _ _ _ hk']
    · have hb : (k == k') = false := by simp [h1]
      simp only [keys, List.map_cons, List.contains_cons, hb, Bool.false_or, List.lookup]
      rw [lookup_replaceKey_ne _ _ _ _ h1]; rfl

theorem lookup_filter (kw : KW) (P : Key × PVal → Bool) (k : Key) (hP : ∀ v, P (k, v) = true) :
    (kw.filter P).lookup k = kw.lookup k := by
  induction kw with
  | nil => rfl
  | cons hd tl ih =>
    obtain ⟨k', v'⟩ := hd
    simp only [List.filter]
    by_cases he : (k == k') = true
    · have : k = k' := by simpa using he
      subst this
      simp [hP v', List.lookup]
    · have he' : (k == k') = false := by simpa using he
      cases hp : P (k', v') <;> simp [List.lookup, he', ih]

theorem prefixed_map_slice (pfx : Key) (ps : KW) (f : Key → Key) (h : ∀ s, f (pfx ++ s) = s) :
    (prefixed pfx ps).map (fun kv => (f kv.1, kv.2)) = ps := by
  induction ps with
  | nil => rfl
  | cons hd tl ih =>
    simp only [prefixed, List.map_cons, List.map_map] at ih ⊢
    simp [h, ih]

/-- the wrapper's own stored parameters: everything except `model` and `method` -/
def ownOf (kw : KW) : KW := kw.filter (fun kv => !(kv.1 == kModel) && !(kv.1 == kMethod))

theorem filter_prefixed_all (pfx : Key) (ps : KW) (P : Key × PVal → Bool) (h : ∀ s v, P (pfx ++ s, v) = true) :
    (prefixed pfx ps).filter P = prefixed pfx ps := by
  apply List.filter_eq_self.mpr
  intro kv hkv
  obtain ⟨q, _, rfl⟩ := List.mem_map.mp hkv
  exact h _ _

theorem filter_prefixed_none (pfx : Key) (ps : KW) (P : Key × PVal → Bool) (h : ∀ s v, P (pfx ++ s, v) = false) :
    (prefixed pfx ps).filter P = [] := by
  apply List.filter_eq_nil_iff.mpr
  intro kv hkv
  obtain ⟨q, _, rfl⟩ := List.mem_map.mp hkv
  simp [h]

theorem planLearner_full (kw1 kw2 : KW) (mo1 me1 : PVal) (hs : shapeOk .learner kw1 = true)
    (hk : keys kw2 = keys kw1) (hmo : kw1.lookup kModel = some mo1) (hme : kw1.lookup kMethod = some me1) :
    planLearner kw2 (kw1 ++ prefixed learnerGetPrefix (getParams mo1 true)) =
      .ok ({ kw := (ownOf kw1).foldl (fun a kv => replaceKey kv.1 kv.2 a) (replaceKey kModel mo1 kw2),
             groups := [(.slot kModel, getParams mo1 true)] }, me1) := by
  obtain ⟨_, _, hnames, hown⟩ := learner_shape kw1 hs
  have hrej : learnerRejectsOwnKeys = false := rfl
  have e1 : (kw1 ++ prefixed learnerGetPrefix (getParams mo1 true)).lookup kModel = some mo1 :=
    lookup_append_left _ _ _ _ hmo
  have e2 : (kw1 ++ prefixed learnerGetPrefix (getParams mo1 true)).lookup kMethod = some me1 :=
    lookup_append_left _ _ _ _ hme
  have e3 : (kw1 ++ prefixed learnerGetPrefix (getParams mo1 true)).filter
        (fun kv => !(kv.1 == kModel) && !(kv.1 == kMethod))
      = ownOf kw1 ++ prefixed learnerGetPrefix (getParams mo1 true) := by
    rw [List.filter_append, filter_prefixed_all _ _ (fun kv => !(kv.1 == kModel) && !(kv.1 == kMethod)) (fun s v => by
      obtain ⟨h1, h2, _, _⟩ := learner_prefix_facts s
      simp [h1, h2])]
    rfl
  have hownS : ∀ kv ∈ ownOf kw1, startsWith kv.1 learnerPrefixTest = false := by
    intro kv hkv
    simp only [ownOf, List.mem_filter, Bool.and_eq_true, Bool.not_eq_true'] at hkv
    have hm0 : kv.1 ∈ keys kw1 := List.mem_map.mpr ⟨kv, hkv.1, rfl⟩
    have hm : (keys kw1).contains kv.1 = true := by simpa using hm0
    exact hown kv.1 hm hkv.2.1 hkv.2.2
  have e4 : (ownOf kw1 ++ prefixed learnerGetPrefix (getParams mo1 true)).filter
        (fun kv => startsWith kv.1 learnerPrefixTest)
      = prefixed learnerGetPrefix (getParams mo1 true) := by
    rw [List.filter_append, filter_prefixed_all _ _ (fun kv => startsWith kv.1 learnerPrefixTest)
      (fun s v => (learner_prefix_facts s).2.2.1)]
    have : (ownOf kw1).filter (fun kv => startsWith kv.1 learnerPrefixTest) = [] :=
      List.filter_eq_nil_iff.mpr (fun kv hkv => by simp [hownS kv hkv])
    rw [this]; rfl
  have e5 : (ownOf kw1 ++ prefixed learnerGetPrefix (getParams mo1 true)).filter
        (fun kv => !startsWith kv.1 learnerPrefixTest) = ownOf kw1 := by
    rw [List.filter_append, filter_prefixed_none _ _ (fun kv => !startsWith kv.1 learnerPrefixTest)
      (fun s v => by simp [(learner_prefix_facts s).2.2.1])]
    have : (ownOf kw1).filter (fun kv => !startsWith kv.1 learnerPrefixTest) = ownOf kw1 :=
      List.filter_eq_self.mpr (fun kv hkv => by simp [hownS kv hkv])
    rw [this]; simp
  have e6 : (prefixed learnerGetPrefix (getParams mo1 true)).map
      (fun kv => (sliceFrom kv.1 (learnerSubkeyFrom learnerD), kv.2)) = getParams mo1 true :=
    prefixed_map_slice _ _ _ (fun s => (learner_prefix_facts s).2.2.2)
  have hkeys1 : keys (replaceKey kModel mo1 kw2) = keys kw1 := by rw [keys_replaceKey, hk]
  have hin : ∀ kv ∈ ownOf kw1, (keys (replaceKey kModel mo1 kw2)).contains kv.1 = true := by
    intro kv hkv
    rw [hkeys1]
    simp only [ownOf, List.mem_filter] at hkv
    have hm0 : kv.1 ∈ keys kw1 := List.mem_map.mpr ⟨kv, hkv.1, rfl⟩
    simpa using hm0
  have hkeysA : keys ((ownOf kw1).foldl (fun a kv => replaceKey kv.1 kv.2 a) (replaceKey kModel mo1 kw2)) = keys kw1 := by
    have : ∀ (vals acc : KW), keys (vals.foldl (fun a kv => replaceKey kv.1 kv.2 a) acc) = keys acc := by
      intro vals
      induction vals with
      | nil => intro acc; rfl
      | cons hd tl ih => intro acc; simp only [List.foldl_cons]; rw [ih, keys_replaceKey]
    rw [this, hkeys1]
  have hsk : skbaseSet (replaceKey kModel mo1 kw2) (ownOf kw1)
      = .ok ((ownOf kw1).foldl (fun a kv => replaceKey kv.1 kv.2 a) (replaceKey kModel mo1 kw2)) := by
    have hu : skbaseSetUpdates = true := rfl
    simp only [skbaseSet, hu, ↓reduceIte]
    rw [foldl_upsert_eq _ _ hin]
    simp [hkeysA, hnames]
  unfold planLearner
  simp only [e1, e2, e3, e4, e5, e6]
  simp only [bind, Except.bind]
  split
  · rename_i he
    have : ownOf kw1 = [] := by simpa using he
    rw [this]; rfl
  · simp only [hrej, Bool.false_eq_true, ↓reduceIte, hsk]

theorem cak_fold_direct (names : List Key) : ∀ (vals : KW) (pl : Plan) (pc pe : KW),
    (∀ kv ∈ vals, cakShallowKeys.contains kv.1 = true ∧ names.contains kv.1 = true) →
    vals.foldlM (cakStep names) (pl, pc, pe)
      = .ok ({ pl with kw := vals.foldl (fun a kv => replaceKey kv.1 kv.2 a) pl.kw }, pc, pe) := by
  intro vals
  induction vals with
  | nil => intro pl pc pe _; rfl
  | cons hd tl ih =>
    intro pl pc pe h
    obtain ⟨h1, h2⟩ := h hd (by simp)
    simp only [List.foldlM, cakStep, h1, h2, Bool.and_self, ↓reduceIte, bind, Except.bind, List.foldl_cons]
    rw [ih _ pc pe (fun kv hkv => h kv (by simp [hkv]))]

theorem cak_fold_clus (names : List Key) (hn : ∀ s, names.contains (cakGetClusPrefix ++ s) = false) :
    ∀ (ps : KW) (pl : Plan) (pc pe : KW),
    (prefixed cakGetClusPrefix ps).foldlM (cakStep names) (pl, pc, pe) = .ok (pl, pc ++ ps, pe) := by
  intro ps
  induction ps with
  | nil => intro pl pc pe; simp [prefixed, List.foldlM, pure, Except.pure]
  | cons hd tl ih =>
    intro pl pc pe
    obtain ⟨s, v⟩ := hd
    have h0 : startsWith (cakGetClusPrefix ++ s) cakEstPrefixTest = false := by
      simp [startsWith, cakGetClusPrefix, cakEstPrefixTest, List.isPrefixOf]
    have h1 : startsWith (cakGetClusPrefix ++ s) cakClusPrefixTest = true := by
      have : cakClusPrefixTest = cakGetClusPrefix := rfl
      rw [this]; exact startsWith_append _ _
    have h2 : sliceFrom (cakGetClusPrefix ++ s) cakClusSubkeyFrom = s := by
      have : cakClusSubkeyFrom = (cakGetClusPrefix.length : Int) := by
        unfold cakClusSubkeyFrom; simp [cakGetClusPrefix]
      rw [this, sliceFrom_append]
    simp only [prefixed, List.map_cons, List.foldlM, cakStep, hn s, Bool.and_false, Bool.false_eq_true, ↓reduceIte,
      h0, h1, h2, bind, Except.bind]
    have := ih pl (pc ++ [(s, v)]) pe
    simp only [prefixed] at this
    rw [this]; simp [List.append_assoc]

theorem cak_fold_est (names : List Key) (hn : ∀ s, names.contains (cakGetEstPrefix ++ s) = false) :
    ∀ (ps : KW) (pl : Plan) (pc pe : KW),
    (prefixed cakGetEstPrefix ps).foldlM (cakStep names) (pl, pc, pe) = .ok (pl, pc, pe ++ ps) := by
  intro ps
  induction ps with
  | nil => intro pl pc pe; simp [prefixed, List.foldlM, pure, Except.pure]
  | cons hd tl ih =>
    intro pl pc pe
    obtain ⟨s, v⟩ := hd
    have h1 : startsWith (cakGetEstPrefix ++ s) cakEstPrefixTest = true := by
      have : cakEstPrefixTest = cakGetEstPrefix := rfl
      rw [this]; exact startsWith_append _ _
    have h2 : sliceFrom (cakGetEstPrefix ++ s) cakEstSubkeyFrom = s := by
      have : cakEstSubkeyFrom = (cakGetEstPrefix.length : Int) := by
        unfold cakEstSubkeyFrom; simp [cakGetEstPrefix]
      rw [this, sliceFrom_append]
    simp only [prefixed, List.map_cons, List.foldlM, cakStep, hn s, Bool.and_false, Bool.false_eq_true, ↓reduceIte,
      h1, h2, bind, Except.bind]
    have := ih pl pc (pe ++ [(s, v)])
    simp only [prefixed] at this
    rw [this]; simp [List.append_assoc]

theorem getParams_cak (i : Nat) (c : String) (f : Bool) (kw : KW) (cl es : PVal)
    (hc : kw.lookup kClus = some cl) (he : kw.lookup kEstimator = some es) (hce : isEst cl = true) (hee : isEst es = true) :
    getParams (.est i c .cak f kw) true
      = kw ++ (prefixed cakGetClusPrefix (getParams cl true) ++ prefixed cakGetEstPrefix (getParams es true)) := by
  rw [getParams_est]
  simp only [nestedOf, lookup_map_snd, hc, he, Option.map_some, deepOf_est cl hce, deepOf_est es hee]

theorem planCak_full (kw1 kw2 : KW) (cl es : PVal) (hs : shapeOk .cak kw1 = true) (hk : keys kw2 = keys kw1)
    (pc pe : KW) :
    planCak kw2 (kw1 ++ (prefixed cakGetClusPrefix pc ++ prefixed cakGetEstPrefix pe))
      = .ok { kw := kw1, groups := [(.slot kClus, pc), (.slot kEstimator, pe)] } := by
  obtain ⟨_, _, hkeys⟩ := cak_shape kw1 hs
  have hnd := nodup_of_shape _ kw1 hs
  have hdir : ∀ kv ∈ kw1, cakShallowKeys.contains kv.1 = true ∧ (keys kw2).contains kv.1 = true := by
    intro kv hkv
    have hm0 : kv.1 ∈ keys kw1 := List.mem_map.mpr ⟨kv, hkv, rfl⟩
    have hm : (keys kw1).contains kv.1 = true := by simpa using hm0
    refine ⟨?_, by rw [hk]; exact hm⟩
    rcases hkeys kv.1 hm with e | e <;> rw [e] <;> decide
  have hn1 : ∀ s, (keys kw2).contains (cakGetClusPrefix ++ s) = false := by
    intro s; rw [hk]
    exact cak_not_key kw1 hs _ (by simp [cakGetClusPrefix, kEstimator]) (by simp [cakGetClusPrefix, kClus])
  have hn2 : ∀ s, (keys kw2).contains (cakGetEstPrefix ++ s) = false := by
    intro s; rw [hk]
    exact cak_not_key kw1 hs _ (by simp [cakGetEstPrefix, kEstimator]) (by simp [cakGetEstPrefix, kClus])
  unfold planCak
  simp only [List.foldlM_append, cak_fold_direct (keys kw2) kw1 _ [] [] hdir, bind, Except.bind,
    cak_fold_clus (keys kw2) hn1, cak_fold_est (keys kw2) hn2, foldl_replaceKey_all kw1 kw2 hk.symm hnd,
    List.nil_append]

def sPrefix (i : Nat) : Key := stackingGetPrefix ++ showNat i ++ stackingGetSep

def blockS (pi : KW × Nat) : KW := prefixed (sPrefix pi.2) pi.1

def groupS (pi : KW × Nat) : List (Sel × KW) := if pi.1.isEmpty then [] else [(.idx kModels pi.2, pi.1)]

theorem stackStep_index (n i : Nat) (s : Key) (v : PVal) (g : List (Sel × KW)) (hi : i < n) :
    stackStep n g (sPrefix i ++ s, v) = .ok (addTo (.idx kModels i) s v g) := by
  have := stackingRoute_index i n s hi
  simp only [stackStep, sPrefix]
  rw [this]; rfl

theorem fold_sblock_aux (n i : Nat) (g : List (Sel × KW)) (hi : i < n) (hg : Sel.idx kModels i ∉ g.map (·.1)) :
    ∀ (ps l : KW), (prefixed (sPrefix i) ps).foldlM (stackStep n) (g ++ [(.idx kModels i, l)])
      = .ok (g ++ [(.idx kModels i, l ++ ps)]) := by
  intro ps
  induction ps with
  | nil => intro l; simp [prefixed, List.foldlM, pure, Except.pure]
  | cons p rest ih =>
    intro l
    obtain ⟨s, v⟩ := p
    simp only [prefixed, List.map_cons, List.foldlM, bind, Except.bind]
    rw [stackStep_index n i s v _ hi]
    simp only [addTo_last _ _ _ g l hg]
    have := ih (l ++ [(s, v)])
    simp only [prefixed] at this
    rw [this]
    simp [List.append_assoc]

theorem fold_sblock (n i : Nat) (g : List (Sel × KW)) (ps : KW) (hi : i < n) (hg : Sel.idx kModels i ∉ g.map (·.1)) :
    (blockS (ps, i)).foldlM (stackStep n) g = .ok (g ++ groupS (ps, i)) := by
  unfold blockS groupS
  cases ps with
  | nil => simp [prefixed, List.foldlM, pure, Except.pure]
  | cons p rest =>
    obtain ⟨s, v⟩ := p
    simp only [prefixed, List.map_cons, List.foldlM, bind, Except.bind]
    rw [stackStep_index n i s v _ hi]
    simp only [addTo_new _ _ _ g hg]
    have := fold_sblock_aux n i g hi hg rest [(s, v)]
    simp only [prefixed] at this
    rw [this]
    simp

theorem fold_sblocks (n : Nat) : ∀ (pss : List KW) (start : Nat) (g : List (Sel × KW)),
    start + pss.length ≤ n → (∀ x ∈ g.map (·.1), ∃ j, x = Sel.idx kModels j ∧ j < start) →
    ((pss.zipIdx start).flatMap blockS).foldlM (stackStep n) g = .ok (g ++ (pss.zipIdx start).flatMap groupS) := by
  intro pss
  induction pss with
  | nil => intro start g _ _; simp [List.foldlM, pure, Except.pure]
  | cons ps rest ih =>
    intro start g hlen hg
    simp only [List.zipIdx_cons, List.flatMap_cons, List.foldlM_append]
    have hfresh : Sel.idx kModels start ∉ g.map (·.1) := by
      intro hm
      obtain ⟨j, hj, hlt⟩ := hg _ hm
      have : start = j := by simpa using hj
      omega
    rw [fold_sblock n start g ps (by simp at hlen; omega) hfresh]
    simp only [bind, Except.bind]
    rw [ih (start + 1) (g ++ groupS (ps, start)) (by simp at hlen ⊢; omega)]
    · simp [List.append_assoc]
    · intro x hx
      simp only [List.map_append, List.mem_append] at hx
      rcases hx with h | h
      · obtain ⟨j, hj, hlt⟩ := hg x h
        exact ⟨j, hj, by omega⟩
      · unfold groupS at h
        split at h
        · simp at h
        · simp at h; exact ⟨start, h, by omega⟩

/-- the nested calls of a stacking's self-assignment change nothing, provided each member's own does -/
theorem fold_sgroups_id (rec : PVal → KW → Except Err PVal) (kwA : KW) (l : List PVal)
    (hl : kwA.lookup kModels = some (.ests l)) :
    ∀ (ms : List PVal) (start : Nat), (∀ j m, ms[j]? = some m → l[start + j]? = some m) →
      (∀ m ∈ ms, (getParams m true).isEmpty = false → rec m (getParams m true) = .ok m) →
      (((ms.map (fun m => getParams m true)).zipIdx start).flatMap groupS).foldlM (applyGroup rec) kwA = .ok kwA := by
  intro ms
  induction ms with
  | nil => intro start _ _; simp [List.foldlM, pure, Except.pure]
  | cons m rest ih =>
    intro start hget hrec
    simp only [List.map_cons, List.zipIdx_cons, List.flatMap_cons, List.foldlM_append]
    have hm : l[start]? = some m := by simpa using hget 0 m (by simp)
    have hstep : (groupS (getParams m true, start)).foldlM (applyGroup rec) kwA = .ok kwA := by
      unfold groupS
      split
      · simp [List.foldlM, pure, Except.pure]
      · rename_i hne
        have hne' : (getParams m true).isEmpty = false := by simpa using hne
        have hest : isEst m = true := by
          cases m <;> simp [getParams] at hne' ⊢
          rfl
        rw [foldlM_single]
        have := applyGroup_rec rec kwA (.idx kModels start) m m (getParams m true) (by simp [selGet, hl, hm]) hest hne'
          (hrec m (by simp) hne')
        rw [this]
        have hset : l.set start m = l := by
          apply List.ext_getElem?
          intro j
          by_cases e : j = start
          · subst e
            rw [List.getElem?_set_self' ]
            simp [hm]
          · rw [List.getElem?_set_ne (Ne.symm e)]
        simp [selPut, hl, setNth, hset, replaceKey_same _ _ _ hl]
    simp only [hstep, bind, Except.bind]
    apply ih (start + 1)
    · intro j m' hj
      have := hget (j + 1) m' (by simpa using hj)
      rw [← this]; congr 1; omega
    · intro m' hm' hne; exact hrec m' (by simp [hm']) hne

def ownS (kw : KW) : KW := kw.filter (fun kv => !(kv.1 == kModels) && !(kv.1 == kMethod))

def nestedS (l : List PVal) : KW := ((l.map (fun m => getParams m true)).zipIdx).flatMap blockS

theorem mem_nestedS (l : List PVal) (kv : Key × PVal) (h : kv ∈ nestedS l) : ∃ i s, kv.1 = stackingGetPrefix ++ (showNat i ++ stackingGetSep ++ s) := by
  simp only [nestedS, List.mem_flatMap] at h
  obtain ⟨pi, _, hkv⟩ := h
  simp only [blockS, prefixed, List.mem_map] at hkv
  obtain ⟨q, _, rfl⟩ := hkv
  exact ⟨pi.2, q.1, by simp [sPrefix]⟩

theorem getParams_stacking (i : Nat) (c : String) (f : Bool) (kw : KW) (l : List PVal)
    (hl : kw.lookup kModels = some (.ests l)) :
    getParams (.est i c .stacking f kw) true = kw ++ nestedS l := by
  rw [getParams_est]
  simp only [nestedOf, lookup_map_snd, hl, Option.map_some]
  simp only [deepOf]
  rfl

theorem keys_foldl_replace : ∀ (vals acc : KW), keys (vals.foldl (fun a kv => replaceKey kv.1 kv.2 a) acc) = keys acc := by
  intro vals
  induction vals with
  | nil => intro acc; rfl
  | cons hd tl ih => intro acc; simp only [List.foldl_cons]; rw [ih, keys_replaceKey]

theorem planStacking_full (kw1 kw2 : KW) (l1 : List PVal) (me1 : PVal) (hs : shapeOk .stacking kw1 = true)
    (hk : keys kw2 = keys kw1) (hmo : kw1.lookup kModels = some (.ests l1)) (hme : kw1.lookup kMethod = some me1) :
    planStacking kw2 (kw1 ++ nestedS l1) =
      .ok { kw := (ownS kw1).foldl (fun a kv => replaceKey kv.1 kv.2 a)
                    (replaceKey kMethod me1 (replaceKey kModels (.ests l1) kw2)),
            groups := ((l1.map (fun m => getParams m true)).zipIdx).flatMap groupS } := by
  obtain ⟨_, hnames, hown⟩ := stacking_shape kw1 hs
  have hnd := nodup_of_shape _ kw1 hs
  have hrej : stackingRejectsOwnKeys = false := rfl
  have e1 : (kw1 ++ nestedS l1).lookup kModels = some (.ests l1) := lookup_append_left _ _ _ _ hmo
  have e2 : (kw1 ++ nestedS l1).lookup kMethod = some me1 := lookup_append_left _ _ _ _ hme
  have hnF : ∀ kv ∈ nestedS l1, (!(kv.1 == kModels) && !(kv.1 == kMethod)) = true ∧
      startsWith kv.1 stackingPrefixTest = true := by
    intro kv hkv
    obtain ⟨i, s, hks⟩ := mem_nestedS l1 kv hkv
    obtain ⟨h1, h2, h3⟩ := stacking_prefix_facts (showNat i ++ stackingGetSep ++ s)
    rw [hks]; exact ⟨by rw [h1, h2]; rfl, h3⟩
  have e3 : (kw1 ++ nestedS l1).filter (fun kv => !(kv.1 == kModels) && !(kv.1 == kMethod)) = ownS kw1 ++ nestedS l1 := by
    rw [List.filter_append, List.filter_eq_self.mpr (fun kv hkv => (hnF kv hkv).1)]
    rfl
  have hownS : ∀ kv ∈ ownS kw1, startsWith kv.1 stackingPrefixTest = false := by
    intro kv hkv
    simp only [ownS, List.mem_filter, Bool.and_eq_true, Bool.not_eq_true'] at hkv
    have hm0 : kv.1 ∈ keys kw1 := List.mem_map.mpr ⟨kv, hkv.1, rfl⟩
    have hm : (keys kw1).contains kv.1 = true := by simpa using hm0
    exact hown kv.1 hm hkv.2.1 hkv.2.2
  have e4 : (ownS kw1 ++ nestedS l1).filter (fun kv => startsWith kv.1 stackingPrefixTest) = nestedS l1 := by
    rw [List.filter_append, List.filter_eq_self.mpr (fun kv hkv => (hnF kv hkv).2)]
    have : (ownS kw1).filter (fun kv => startsWith kv.1 stackingPrefixTest) = [] :=
      List.filter_eq_nil_iff.mpr (fun kv hkv => by simp [hownS kv hkv])
    rw [this]; rfl
  have e5 : (ownS kw1 ++ nestedS l1).filter (fun kv => !startsWith kv.1 stackingPrefixTest) = ownS kw1 := by
    rw [List.filter_append]
    have h1 : (ownS kw1).filter (fun kv => !startsWith kv.1 stackingPrefixTest) = ownS kw1 :=
      List.filter_eq_self.mpr (fun kv hkv => by simp [hownS kv hkv])
    have h2 : (nestedS l1).filter (fun kv => !startsWith kv.1 stackingPrefixTest) = [] :=
      List.filter_eq_nil_iff.mpr (fun kv hkv => by simp [(hnF kv hkv).2])
    rw [h1, h2]; simp
  have hkeys1 : keys (replaceKey kMethod me1 (replaceKey kModels (.ests l1) kw2)) = keys kw1 := by
    rw [keys_replaceKey, keys_replaceKey, hk]
  have hin : ∀ kv ∈ ownS kw1, (keys (replaceKey kMethod me1 (replaceKey kModels (.ests l1) kw2))).contains kv.1 = true := by
    intro kv hkv
    rw [hkeys1]
    simp only [ownS, List.mem_filter] at hkv
    have hm0 : kv.1 ∈ keys kw1 := List.mem_map.mpr ⟨kv, hkv.1, rfl⟩
    simpa using hm0
  have hkeysA : keys ((ownS kw1).foldl (fun a kv => replaceKey kv.1 kv.2 a)
      (replaceKey kMethod me1 (replaceKey kModels (.ests l1) kw2))) = keys kw1 := by
    rw [keys_foldl_replace, hkeys1]
  have hsk : skbaseSet (replaceKey kMethod me1 (replaceKey kModels (.ests l1) kw2)) (ownS kw1)
      = .ok ((ownS kw1).foldl (fun a kv => replaceKey kv.1 kv.2 a)
          (replaceKey kMethod me1 (replaceKey kModels (.ests l1) kw2))) := by
    have hu : skbaseSetUpdates = true := rfl
    simp only [skbaseSet, hu, ↓reduceIte]
    rw [foldl_upsert_eq _ _ hin]
    simp [hkeysA, hnames]
  -- `models` is still the transferred list after the own parameters were stored
  have hcm : (keys kw2).contains kModels = true := by
    rw [hk]; exact contains_keys_of_lookup _ _ _ hmo
  have hnotown : (keys (ownS kw1)).contains kModels = false := by
    cases h : (keys (ownS kw1)).contains kModels with
    | false => rfl
    | true =>
      have : kModels ∈ keys (ownS kw1) := by simpa using h
      obtain ⟨kv, hkv, hkk⟩ := List.mem_map.mp this
      simp only [ownS, List.mem_filter, Bool.and_eq_true, Bool.not_eq_true'] at hkv
      rw [hkk] at hkv; simp at hkv
  have hndown : (keys (ownS kw1)).Nodup := by
    have : (keys kw1).Sublist.{0} = (keys kw1).Sublist := rfl
    exact List.Nodup.sublist (List.Sublist.map _ (List.filter_sublist)) hnd
  have hlm : ((ownS kw1).foldl (fun a kv => replaceKey kv.1 kv.2 a)
      (replaceKey kMethod me1 (replaceKey kModels (.ests l1) kw2))).lookup kModels = some (.ests l1) := by
    rw [lookup_foldl_replace _ _ _ hndown hin, hnotown]
    have hne : kModels ≠ kMethod := by decide
    simp only [Bool.false_eq_true, ↓reduceIte]
    rw [lookup_replaceKey_ne _ _ _ _ hne, lookup_replaceKey_self _ _ _ hcm]
  have hfold := fold_sblocks l1.length (l1.map (fun m => getParams m true)) 0 [] (by simp) (by simp)
  unfold planStacking
  simp only [e1, e2, e3, e4, e5]
  simp only [bind, Except.bind]
  split
  · rename_i he
    have hemp : ownS kw1 = [] := by simpa using he
    rw [hemp] at hlm ⊢
    simp only [List.foldl_nil] at hlm ⊢
    simp only [hlm]
    have : nestedS l1 = ((l1.map (fun m => getParams m true)).zipIdx 0).flatMap blockS := rfl
    rw [this, hfold]; simp
  · simp only [hrej, Bool.false_eq_true, ↓reduceIte, hsk, hlm]
    have : nestedS l1 = ((l1.map (fun m => getParams m true)).zipIdx 0).flatMap blockS := rfl
    rw [this, hfold]; simp

/-! ### the general theorem -/

theorem mem_keys_filter (kw : KW) (G : Key → Bool) (k : Key) :
    (keys (kw.filter (fun kv => G kv.1))).contains k = ((keys kw).contains k && G k) := by
  induction kw with
  | nil => simp [keys]
  | cons hd tl ih =>
    obtain ⟨k', v'⟩ := hd
    simp only [List.filter]
    by_cases hg : G k' = true
    · simp only [hg, keys, List.map_cons, List.contains_cons] at ih ⊢
      rw [ih]
      by_cases e : k = k'
      · subst e; simp [hg]
      · have hb : (k == k') = false := by simp [e]
        simp [hb]
    · have hg' : G k' = false := by simpa using hg
      simp only [hg', keys, List.map_cons, List.contains_cons] at ih ⊢
      rw [ih]
      by_cases e : k = k'
      · subst e; simp [hg']
      · have hb : (k == k') = false := by simp [e]
        simp [hb]

/-- storing the own parameters of `kw1` on top of a list that already agrees with `kw1` elsewhere rebuilds `kw1` -/
theorem rebuild_lookup (kw1 acc : KW) (G : Key → Bool) (k : Key) (hnd : (keys kw1).Nodup)
    (hka : keys acc = keys kw1) (hk : (keys kw1).contains k = true)
    (hacc : G k = false → acc.lookup k = kw1.lookup k) :
    ((kw1.filter (fun kv => G kv.1)).foldl (fun a kv => replaceKey kv.1 kv.2 a) acc).lookup k = kw1.lookup k := by
  have hndf : (keys (kw1.filter (fun kv => G kv.1))).Nodup :=
    List.Nodup.sublist (List.Sublist.map _ List.filter_sublist) hnd
  have hin : ∀ kv ∈ kw1.filter (fun kv => G kv.1), (keys acc).contains kv.1 = true := by
    intro kv hkv
    rw [hka]
    have hm0 : kv.1 ∈ keys kw1 := List.mem_map.mpr ⟨kv, (List.mem_filter.mp hkv).1, rfl⟩
    simpa using hm0
  rw [lookup_foldl_replace _ _ _ hndf hin, mem_keys_filter, hk]
  cases hg : G k with
  | true => simp [lookup_filter kw1 (fun kv => G kv.1) k (fun v => hg)]
  | false => simpa using hacc hg

theorem getParams_learner (i : Nat) (c : String) (f : Bool) (kw : KW) (mo : PVal)
    (hm : kw.lookup kModel = some mo) (he : isEst mo = true) :
    getParams (.est i c .learner f kw) true = kw ++ prefixed learnerGetPrefix (getParams mo true) := by
  rw [getParams_est]
  simp only [nestedOf, lookup_map_snd, hm, Option.map_some, deepOf_est mo he]

theorem maxKeyLen_lt (kvs : KW) (m : Nat) (hm : 0 < m) (h : ∀ kv ∈ kvs, kv.1.length < m) : maxKeyLen kvs < m :=
  foldl_max_lt kvs 0 m hm h

/-- fuel for a nested call: every forwarded key lost a non-empty prefix -/
theorem fuel_sub (kvs ps : KW) (pfx : Key) (m : Nat) (hp : 0 < pfx.length) (hmax : maxKeyLen kvs < m + 1)
    (hsub : ∀ q ∈ ps, (pfx ++ q.1, q.2) ∈ kvs) (hne : ps.isEmpty = false) : maxKeyLen ps < m := by
  have hb : ∀ q ∈ ps, q.1.length < m := by
    intro q hq
    have := maxKeyLen_ge _ _ (hsub q hq)
    simp at this; omega
  apply maxKeyLen_lt _ _ _ hb
  cases ps with
  | nil => simp at hne
  | cons q _ => have := hb q (by simp); omega

theorem isEst_cases (v : PVal) (h : isEst v = true) : ∃ i c p f kw, v = .est i c p f kw := by
  cases v with
  | est i c p f kw => exact ⟨i, c, p, f, kw, rfl⟩
  | atom _ _ => simp [isEst] at h
  | ests _ => simp [isEst] at h

/-- **transfer / self-assignment, every protocol, any nesting depth** -/
theorem transfer_all : ∀ (N : Nat) (i1 : Nat) (c : String) (p : Proto) (f1 : Bool) (kw1 : KW),
    sizeOf (PVal.est i1 c p f1 kw1) < N → wf (.est i1 c p f1 kw1) = true →
    ∀ (i2 : Nat) (f2 : Bool) (kw2 : KW), keys kw2 = keys kw1 →
    ∀ n, maxKeyLen (getParams (.est i1 c p f1 kw1) true) < n →
      setPF n (.est i2 c p f2 kw2) (getParams (.est i1 c p f1 kw1) true) = .ok (.est i2 c p f2 kw1) := by
  intro N
  induction N with
  | zero => intro i1 c p f1 kw1 h; omega
  | succ N ih =>
    intro i1 c p f1 kw1 hsz hw i2 f2 kw2 hk n hn
    obtain ⟨m, rfl⟩ : ∃ m, n = m + 1 := ⟨n - 1, by omega⟩
    rw [wf_est, Bool.and_eq_true] at hw
    have hnd := nodup_of_shape p kw1 hw.1
    have hszkw := sizeOf_est_kw i1 c p f1 kw1
    -- self-assignment of a sub-estimator found in slot `slot`, with `m` as budget
    have child : ∀ (slot : Key) (ch : PVal), kw1.lookup slot = some ch → isEst ch = true →
        maxKeyLen (getParams ch true) < m → setPF m ch (getParams ch true) = .ok ch := by
      intro slot ch hl he hfuel
      obtain ⟨i', c', p', f', kw', rfl⟩ := isEst_cases ch he
      have hs1 := sizeOf_lookup_lt kw1 slot _ hl
      exact ih i' c' p' f' kw' (by omega) (wfKw_lookup kw1 slot _ hw.2 hl) i' f' kw' rfl m hfuel
    by_cases hemp : kw1 = []
    · have h2 := keys_eq_nil kw1 kw2 hk hemp
      subst hemp; subst h2
      cases p <;> simp [shapeOk, List.lookup] at hw
      all_goals
        rw [getParams_est]
        simp [nestedOf, setPF]
    have hne0 : ∀ (x : KW), (kw1 ++ x).isEmpty = false := by
      intro x
      cases kw1 with
      | nil => exact absurd rfl hemp
      | cons _ _ => rfl
    cases p with
    | unknownProto => simp [shapeOk] at hw
    | base =>
      have hc : (keys kw1).all cleanName = true := by
        simp only [shapeOk, Bool.and_eq_true] at hw; exact hw.1.2
      have hnames : ∀ kv ∈ kw1, cleanName kv.1 = true ∧ (keys kw2).contains kv.1 = true := by
        intro kv hkv
        have hm : kv.1 ∈ keys kw1 := List.mem_map.mpr ⟨kv, hkv, rfl⟩
        simp only [List.all_eq_true] at hc
        exact ⟨hc _ hm, by rw [hk]; simpa using hm⟩
      have hgp : getParams (.est i1 c .base f1 kw1) true = kw1 ++ kw1.flatMap blockEntries := by
        rw [getParams_est, nestedOf_base_eq]
      have hplan : planOf .base kw2 (kw1 ++ kw1.flatMap blockEntries)
          = .ok ({ kw := kw1, groups := kw1.flatMap blockGroup }, none) := by
        simp only [planOf, planBase, List.foldlM_append]
        rw [planBase_flat_aux (keys kw2) kw1 { kw := kw2, groups := [] } hnames]
        simp only [bind, Except.bind, foldl_replaceKey_all kw1 kw2 hk.symm hnd]
        rw [fold_blocks (keys kw2) kw1 kw1 [] hnames hnd (by simp)]
        simp [Except.map]
      rw [hgp] at hn ⊢
      apply setPF_step m i2 c .base f2 kw2 _ _ none kw1 kw1 (hne0 _) hplan _ rfl
      apply fold_groups_id (setPF m) kw1 kw1 (fun kv hkv => mem_lookup_of_mem kw1 kv.1 kv.2 hnd hkv)
      intro kv hkv ps hd hps
      have hlk := mem_lookup_of_mem kw1 kv.1 kv.2 hnd hkv
      have hest : isEst kv.2 = true := by
        cases hv : kv.2 <;> simp [hv, deepOf] at hd ⊢
        all_goals rfl
      have hps' : ps = getParams kv.2 true := by
        rw [deepOf_est kv.2 hest] at hd; simpa using hd.symm
      subst hps'
      apply child kv.1 kv.2 hlk hest
      apply fuel_sub _ _ (kv.1 ++ sep2) m (by simp [sep2]) hn _ hps
      intro q hq
      apply List.mem_append_right
      refine List.mem_flatMap.mpr ⟨kv, hkv, ?_⟩
      simp only [blockEntries, deepOf_est kv.2 hest]
      exact mem_prefixed _ _ _ _ hq
    | anmf =>
      have hc : (keys kw1).all cleanName = true := by
        simp only [shapeOk, Bool.and_eq_true] at hw; exact hw.1.2
      have hgp : getParams (.est i1 c .anmf f1 kw1) true = kw1 := by rw [getParams_est]; simp [nestedOf]
      rw [hgp]
      apply setPF_step m i2 c .anmf f2 kw2 _ { kw := kw1, groups := [] } none kw1 kw1 (by simpa using hne0 []) _ rfl rfl
      simp only [planOf, planBase_flat kw1 kw2 hk.symm hnd hc, Except.map]
    | skbase =>
      have hnm : (keys kw1).all skNameOk = true := by
        simp only [shapeOk, Bool.and_eq_true] at hw; exact hw.1.2
      have hgp : getParams (.est i1 c .skbase f1 kw1) true = kw1 := by rw [getParams_est]; simp [nestedOf]
      rw [hgp]
      apply setPF_step m i2 c .skbase f2 kw2 _ { kw := kw1, groups := [] } none kw1 kw1 (by simpa using hne0 []) _ rfl rfl
      simp only [planOf, skbaseSet_all kw1 kw2 hk.symm hnd hnm, Except.map]
    | learner =>
      obtain ⟨⟨mo1, hmo, hmoe⟩, ⟨me1, hme, hmeok⟩, _, _⟩ := learner_shape kw1 hw.1
      have hgp := getParams_learner i1 c f1 kw1 mo1 hmo hmoe
      rw [hgp] at hn ⊢
      let kwA := (ownOf kw1).foldl (fun a kv => replaceKey kv.1 kv.2 a) (replaceKey kModel mo1 kw2)
      have hkA : keys kwA = keys kw1 := by
        show keys ((ownOf kw1).foldl _ _) = _
        rw [keys_foldl_replace, keys_replaceKey, hk]
      have hcm : (keys kw2).contains kModel = true := by rw [hk]; exact contains_keys_of_lookup _ _ _ hmo
      have hlookA : ∀ k, (keys kw1).contains k = true → k ≠ kMethod → kwA.lookup k = kw1.lookup k := by
        intro k hkc hkm
        apply rebuild_lookup kw1 (replaceKey kModel mo1 kw2) (fun k => !(k == kModel) && !(k == kMethod)) k hnd
          (by rw [keys_replaceKey, hk]) hkc
        intro hG
        have : k = kModel := by
          simp only [Bool.and_eq_false_iff, Bool.not_eq_false', beq_iff_eq] at hG
          rcases hG with h | h
          · exact h
          · exact absurd h hkm
        subst this
        rw [lookup_replaceKey_self _ _ _ hcm, hmo]
      have hAm : kwA.lookup kModel = some mo1 := by
        rw [hlookA kModel (contains_keys_of_lookup _ _ _ hmo) (by decide), hmo]
      apply setPF_step m i2 c .learner f2 kw2 _ { kw := kwA, groups := [(.slot kModel, getParams mo1 true)] }
        (some me1) kwA kw1 (hne0 _)
      · simp only [planOf, planLearner_full kw1 kw2 mo1 me1 hw.1 hk hmo hme, Except.map]; rfl
      · rw [foldlM_single]
        by_cases hps : (getParams mo1 true).isEmpty = true
        · have : getParams mo1 true = [] := by simpa using hps
          rw [this]
          exact applyGroup_empty _ _ _ mo1 (by simp [selGet, hAm]) hmoe
        · have hps' : (getParams mo1 true).isEmpty = false := by simpa using hps
          have hrec := child kModel mo1 hmo hmoe (fuel_sub _ _ learnerGetPrefix m (by simp [learnerGetPrefix]) hn
            (fun q hq => List.mem_append_right _ (mem_prefixed _ _ _ _ hq)) hps')
          rw [applyGroup_rec _ _ _ mo1 mo1 _ (by simp [selGet, hAm]) hmoe hps' hrec]
          simp [selPut, replaceKey_same _ _ _ hAm]
      · simp only [finish, methodCheck_of_ok me1 hmeok, Except.map]
        congr 1
        apply ext_lookup
        · rw [keys_replaceKey, hkA]
        · rw [keys_replaceKey, hkA]; exact hnd
        · intro k hkmem
          rw [keys_replaceKey, hkA] at hkmem
          have hkc : (keys kw1).contains k = true := by simpa using hkmem
          by_cases e : k = kMethod
          · subst e
            rw [lookup_replaceKey_self _ _ _ (by rw [hkA]; exact hkc), hme]
          · rw [lookup_replaceKey_ne _ _ _ _ e]; exact hlookA k hkc e
    | cak =>
      obtain ⟨⟨es, hes, hese⟩, ⟨cl, hcl, hcle⟩, _⟩ := cak_shape kw1 hw.1
      have hgp := getParams_cak i1 c f1 kw1 cl es hcl hes hcle hese
      rw [hgp] at hn ⊢
      apply setPF_step m i2 c .cak f2 kw2 _
        { kw := kw1, groups := [(.slot kClus, getParams cl true), (.slot kEstimator, getParams es true)] } none kw1 kw1
        (hne0 _)
      · simp only [planOf, planCak_full kw1 kw2 cl es hw.1 hk, Except.map]
      · have one : ∀ (slot pfx : Key) (ch : PVal), kw1.lookup slot = some ch → isEst ch = true → 0 < pfx.length →
            (∀ q ∈ getParams ch true, (pfx ++ q.1, q.2) ∈ kw1 ++ (prefixed cakGetClusPrefix (getParams cl true) ++
              prefixed cakGetEstPrefix (getParams es true))) →
            applyGroup (setPF m) kw1 (.slot slot, getParams ch true) = .ok kw1 := by
          intro slot pfx ch hl he hp hsub
          by_cases hps : (getParams ch true).isEmpty = true
          · have : getParams ch true = [] := by simpa using hps
            rw [this]
            exact applyGroup_empty _ _ _ ch (by simp [selGet, hl]) he
          · have hps' : (getParams ch true).isEmpty = false := by simpa using hps
            have hrec := child slot ch hl he (fuel_sub _ _ pfx m hp hn hsub hps')
            rw [applyGroup_rec _ _ _ ch ch _ (by simp [selGet, hl]) he hps' hrec]
            simp [selPut, replaceKey_same _ _ _ hl]
        simp only [List.foldlM, bind, Except.bind]
        rw [one kClus cakGetClusPrefix cl hcl hcle (by simp [cakGetClusPrefix])
          (fun q hq => List.mem_append_right _ (List.mem_append_left _ (mem_prefixed _ _ _ _ hq)))]
        simp only []
        rw [one kEstimator cakGetEstPrefix es hes hese (by simp [cakGetEstPrefix])
          (fun q hq => List.mem_append_right _ (List.mem_append_right _ (mem_prefixed _ _ _ _ hq)))]
        rfl
      · rfl
    | stacking =>
      obtain ⟨⟨l1, hl1, hall⟩, _, _⟩ := stacking_shape kw1 hw.1
      have hme : ∃ me1, kw1.lookup kMethod = some me1 := by
        have := hw.1
        simp only [shapeOk, Bool.and_eq_true] at this
        cases h : kw1.lookup kMethod with
        | none => simp [h] at this
        | some v => exact ⟨v, rfl⟩
      obtain ⟨me1, hme⟩ := hme
      have hgp := getParams_stacking i1 c f1 kw1 l1 hl1
      rw [hgp] at hn ⊢
      let kwA := (ownS kw1).foldl (fun a kv => replaceKey kv.1 kv.2 a)
        (replaceKey kMethod me1 (replaceKey kModels (.ests l1) kw2))
      have hkA : keys kwA = keys kw1 := by
        show keys ((ownS kw1).foldl _ _) = _
        rw [keys_foldl_replace, keys_replaceKey, keys_replaceKey, hk]
      have hcm : (keys kw2).contains kModels = true := by rw [hk]; exact contains_keys_of_lookup _ _ _ hl1
      have hcme : (keys kw2).contains kMethod = true := by rw [hk]; exact contains_keys_of_lookup _ _ _ hme
      have hlookA : ∀ k, (keys kw1).contains k = true → kwA.lookup k = kw1.lookup k := by
        intro k hkc
        apply rebuild_lookup kw1 _ (fun k => !(k == kModels) && !(k == kMethod)) k hnd
          (by rw [keys_replaceKey, keys_replaceKey, hk]) hkc
        intro hG
        simp only [Bool.and_eq_false_iff, Bool.not_eq_false', beq_iff_eq] at hG
        rcases hG with h | h
        · subst h
          have hne : kModels ≠ kMethod := by decide
          rw [lookup_replaceKey_ne _ _ _ _ hne, lookup_replaceKey_self _ _ _ hcm, hl1]
        · subst h
          rw [lookup_replaceKey_self _ _ _ (by rw [keys_replaceKey]; exact hcme), hme]
      have hAeq : kwA = kw1 := by
        apply ext_lookup _ _ hkA (by rw [hkA]; exact hnd)
        intro k hkmem
        rw [hkA] at hkmem
        exact hlookA k (by simpa using hkmem)
      apply setPF_step m i2 c .stacking f2 kw2 _
        { kw := kwA, groups := ((l1.map (fun m => getParams m true)).zipIdx).flatMap groupS } none kw1 kw1 (hne0 _)
      · simp only [planOf, planStacking_full kw1 kw2 l1 me1 hw.1 hk hl1 hme, Except.map]; rfl
      · show (((l1.map (fun m => getParams m true)).zipIdx 0).flatMap groupS).foldlM (applyGroup (setPF m)) kwA = .ok kw1
        rw [hAeq]
        apply fold_sgroups_id (setPF m) kw1 l1 hl1 l1 0 (by intro j x hj; simpa using hj)
        intro mem hmem hps
        have hest : isEst mem = true := by
          cases mem <;> simp [getParams] at hps ⊢
          rfl
        obtain ⟨i', c', p', f', kw', rfl⟩ := isEst_cases mem hest
        have hs1 := sizeOf_lookup_lt kw1 kModels _ hl1
        have hs2 := List.sizeOf_lt_of_mem hmem
        have hs3 := sizeOf_ests l1
        have hwl : wf (.ests l1) = true := wfKw_lookup kw1 kModels _ hw.2 hl1
        obtain ⟨j, hjl, hj⟩ := List.getElem_of_mem hmem
        have hwm : wf (.est i' c' p' f' kw') = true :=
          wfL_get l1 j _ (by simpa [wf] using hwl) (by rw [List.getElem?_eq_getElem hjl, hj])
        apply ih i' c' p' f' kw' (by omega) hwm i' f' kw' rfl m
        apply fuel_sub _ _ (sPrefix j) m (by simp [sPrefix, stackingGetPrefix]) hn _ hps
        intro q hq
        apply List.mem_append_right
        simp only [nestedS, List.mem_flatMap]
        refine ⟨(getParams (.est i' c' p' f' kw') true, j), ?_, ?_⟩
        · rw [List.mem_zipIdx_iff_getElem?]
          simp [hjl, hj]
        · exact mem_prefixed _ _ _ _ hq
      · rfl

end MlVerif.Params
