/-
Helper lemmas for C19 (core Lean only): `mapE`, insertion sort with duplicates dropped,
strictly sorted lists, and the block decomposition of the indicator fill loop.
-/
import MlVerif.Gen.C19
import MlVerif.Model.Categories
namespace MlVerif.Categories
open MlVerif.Gen

/-! ### mapE -/

theorem mapE_ok_length {α β ε} (f : α → Except ε β) :
    ∀ (l : List α) (bs : List β), mapE f l = .ok bs → bs.length = l.length := by
  intro l
  induction l with
  | nil => intro bs h; simp [mapE] at h; subst h; rfl
  | cons a as ih =>
    intro bs h
    simp only [mapE] at h
    split at h
    · cases h
    · split at h
      · cases h
      · rename_i bs' hbs
        cases h
        simp [ih _ hbs]

theorem mapE_ok_get {α β ε} (f : α → Except ε β) :
    ∀ (l : List α) (bs : List β), mapE f l = .ok bs →
      ∀ i (h : i < l.length) (h' : i < bs.length), f l[i] = .ok bs[i] := by
  intro l
  induction l with
  | nil => intro bs _ i h; simp at h
  | cons a as ih =>
    intro bs h i hi hi'
    simp only [mapE] at h
    split at h
    · cases h
    · rename_i b hb
      split at h
      · cases h
      · rename_i bs' hbs
        cases h
        cases i with
        | zero => simpa using hb
        | succ j => simpa using ih _ hbs j (by simpa using hi) (by simpa using hi')

theorem mapE_eq_of_map_eq {α β ε} (f : α → Except ε β) :
    ∀ (l l' : List α), l.map f = l'.map f → mapE f l = mapE f l' := by
  intro l
  induction l with
  | nil => intro l' h; cases l' with
    | nil => rfl
    | cons _ _ => simp at h
  | cons a as ih =>
    intro l' h
    cases l' with
    | nil => simp at h
    | cons a' as' =>
      simp only [List.map_cons, List.cons.injEq] at h
      simp only [mapE, h.1, ih _ h.2]

theorem mapE_congr {α β ε} (f g : α → Except ε β) (l : List α) (h : ∀ a ∈ l, f a = g a) :
    mapE f l = mapE g l := by
  induction l with
  | nil => rfl
  | cons a as ih =>
    simp only [mapE, h a (by simp), ih (fun x hx => h x (by simp [hx]))]

/-- if some element fails with `e` and no element can fail with anything else, the whole fails with `e` -/
theorem mapE_error_of_mem {α β ε} (f : α → Except ε β) (e : ε) :
    ∀ (l : List α), (∃ a ∈ l, f a = .error e) → (∀ a ∈ l, ∀ e', f a = .error e' → e' = e) →
      mapE f l = .error e := by
  intro l
  induction l with
  | nil => intro h; simp at h
  | cons a as ih =>
    intro hex hall
    simp only [mapE]
    cases hfa : f a with
    | error e' => simp [hall a (by simp) e' hfa]
    | ok b =>
      have hex' : ∃ a ∈ as, f a = .error e := by
        obtain ⟨x, hx, hfx⟩ := hex
        simp only [List.mem_cons] at hx
        cases hx with
        | inl h => subst h; rw [hfa] at hfx; cases hfx
        | inr h => exact ⟨x, h, hfx⟩
      simp [ih hex' (fun x hx => hall x (by simp [hx]))]

theorem mapE_map {α β γ ε} (f : β → Except ε γ) (g : α → β) (l : List α) :
    mapE f (l.map g) = mapE (fun a => f (g a)) l := by
  induction l with
  | nil => rfl
  | cons a as ih => simp only [List.map_cons, mapE, ih]

/-! ### strings: strict total order -/

theorem str_lt_of_not_lt_of_ne {a b : String} (h1 : ¬ a < b) (h2 : a ≠ b) : b < a := by
  apply Decidable.byContradiction
  intro h3
  exact h2 (String.le_antisymm (String.not_lt.mp h3) (String.not_lt.mp h1))

theorem mem_insertU (s x : String) (l : List String) : x ∈ insertU s l ↔ x = s ∨ x ∈ l := by
  induction l with
  | nil => simp [insertU]
  | cons t ts ih =>
    simp only [insertU]
    split
    · simp
    · split
      · rename_i h; subst h; simp
      · simp only [List.mem_cons, ih]
        constructor
        · rintro (h | h | h) <;> simp [h]
        · rintro (h | h | h) <;> simp [h]

theorem sorted_insertU (s : String) (l : List String) (h : l.Pairwise (· < ·)) :
    (insertU s l).Pairwise (· < ·) := by
  induction l with
  | nil => simp [insertU]
  | cons t ts ih =>
    simp only [insertU]
    rw [List.pairwise_cons] at h
    split
    · rename_i hst
      refine List.pairwise_cons.mpr ⟨?_, List.pairwise_cons.mpr h⟩
      intro x hx
      simp only [List.mem_cons] at hx
      cases hx with
      | inl hx => subst hx; exact hst
      | inr hx => exact String.lt_trans hst (h.1 x hx)
    · rename_i hst
      split
      · exact List.pairwise_cons.mpr h
      · rename_i hne
        have hts : t < s := str_lt_of_not_lt_of_ne hst hne
        refine List.pairwise_cons.mpr ⟨?_, ih h.2⟩
        intro x hx
        rw [mem_insertU] at hx
        cases hx with
        | inl hx => subst hx; exact hts
        | inr hx => exact h.1 x hx

theorem mem_sortedDistinct (x : String) (l : List String) : x ∈ sortedDistinct l ↔ x ∈ l := by
  induction l with
  | nil => simp [sortedDistinct]
  | cons a as ih =>
    have : sortedDistinct (a :: as) = insertU a (sortedDistinct as) := rfl
    rw [this, mem_insertU, ih]; simp

theorem sorted_sortedDistinct (l : List String) : (sortedDistinct l).Pairwise (· < ·) := by
  induction l with
  | nil => simp [sortedDistinct]
  | cons a as ih =>
    have : sortedDistinct (a :: as) = insertU a (sortedDistinct as) := rfl
    rw [this]; exact sorted_insertU a _ ih

theorem nodup_of_sorted {l : List String} (h : l.Pairwise (· < ·)) : l.Nodup := by
  refine List.Pairwise.imp ?_ h
  intro a b hab heq
  subst heq
  exact String.lt_irrefl _ hab

/-- in a strictly increasing list the index of a member is the number of members below it -/
theorem idxOf_eq_count_lt (v : String) :
    ∀ (l : List String), l.Pairwise (· < ·) → v ∈ l → l.idxOf v = (l.filter (fun u => decide (u < v))).length := by
  intro l
  induction l with
  | nil => intro _ h; simp at h
  | cons t ts ih =>
    intro hs hm
    rw [List.pairwise_cons] at hs
    by_cases htv : t = v
    · subst htv
      have : ts.filter (fun u => decide (u < t)) = [] := by
        rw [List.filter_eq_nil_iff]
        intro u hu
        simp only [decide_eq_true_eq]
        exact String.lt_asymm (hs.1 u hu)
      simp [this, String.lt_irrefl]
    · have hm' : v ∈ ts := by
        simp only [List.mem_cons] at hm
        cases hm with
        | inl h => exact absurd h.symm htv
        | inr h => exact h
      have hlt : t < v := hs.1 v hm'
      have hbeq : (t == v) = false := by simpa using htv
      simp [List.idxOf_cons, hbeq, hlt, ih hs.2 hm']

/-- in a duplicate-free list, `l[j] = v` happens exactly at `j = idxOf v` -/
theorem getElem_eq_iff_idxOf {v : String} :
    ∀ {l : List String}, l.Nodup → ∀ {j : Nat} (hj : j < l.length), l[j] = v ↔ j = l.idxOf v := by
  intro l
  induction l with
  | nil => intro _ j hj; simp at hj
  | cons t ts ih =>
    intro hn j hj
    rw [List.nodup_cons] at hn
    cases j with
    | zero =>
      by_cases htv : t = v
      · simp [htv]
      · have hbeq : (t == v) = false := by simpa using htv
        simp [List.idxOf_cons, hbeq, htv]
    | succ k =>
      have hk : k < ts.length := by simpa using hj
      by_cases htv : t = v
      · subst htv
        have : ts[k] ≠ t := fun h => hn.1 (h ▸ List.getElem_mem hk)
        simp [this]
      · have hbeq : (t == v) = false := by simpa using htv
        simp [List.idxOf_cons, hbeq, ih hn.2 hk]

/-! ### extracted definitions the model is built on -/

theorem cellIndex_eq (pos off : Int) : C19.cellIndex pos off = pos + off := by
  unfold C19.cellIndex; omega
theorem blockStart_eq (last len : Int) : C19.blockStart last len = last := by
  unfold C19.blockStart; omega
theorem nextLast_eq (last len : Int) : C19.nextLast last len = last + len := by
  unfold C19.nextLast; omega
theorem keepName_eq (b : Bool) : C19.keepName b = !b := by
  cases b <;> decide

/-! ### block decomposition of the indicator fill -/

def nanBlock (n : Nat) : List Out := List.replicate n .nan

/-- what the cell loop does for ONE fitted column, as the block of that column -/
def blockOf (skip : Bool) (r : Row) (ci : ColInfo) : Except Err (List Out) :=
  match r.lookup ci.name with
  | none => .error .keyError
  | some (.num _) => .error .unsupported
  | some .missing => .ok (nanBlock ci.vec.length)
  | some (.str v) =>
    match offsetOf v ci.vec with
    | none => if skip then .ok (nanBlock ci.vec.length) else .error .valueError
    | some off => .ok ((nanBlock ci.vec.length).set off .one)

def total : List ColInfo → Nat
  | [] => 0
  | ci :: cis => ci.vec.length + total cis

/-- positions are the running sums of the block lengths, starting at `s` -/
def Layout : List ColInfo → Nat → Prop
  | [], _ => True
  | ci :: cis, s => ci.pos = (s : Int) ∧ Layout cis (s + ci.vec.length)

theorem setCell_nat (acc : List Out) (i : Nat) (h : i < acc.length) :
    setCell acc (i : Int) = some (acc.set i .one) := by
  unfold setCell
  have h1 : (0 : Int) ≤ (i : Int) ∧ (i : Int) < (acc.length : Int) := by omega
  simp [h1]

theorem offsetOf_some {v : String} {vec : List String} {off : Nat} (h : offsetOf v vec = some off) :
    v ∈ vec ∧ off = vec.idxOf v ∧ off < vec.length := by
  unfold offsetOf at h
  split at h
  · rename_i hm
    cases h
    exact ⟨hm, rfl, List.idxOf_lt_length_iff.mpr hm⟩
  · cases h

theorem offsetOf_none {v : String} {vec : List String} (h : offsetOf v vec = none) : v ∉ vec := by
  unfold offsetOf at h
  split at h
  · cases h
  · assumption

theorem offsetOf_of_mem {v : String} {vec : List String} (h : v ∈ vec) :
    offsetOf v vec = some (vec.idxOf v) := by simp [offsetOf, h]

theorem offsetOf_of_not_mem {v : String} {vec : List String} (h : v ∉ vec) :
    offsetOf v vec = none := by simp [offsetOf, h]

theorem fillRow_blocks (skip : Bool) (r : Row) :
    ∀ (cis : List ColInfo) (s : Nat) (pre post : List Out), Layout cis s → pre.length = s →
      fillRow skip r cis (pre ++ nanBlock (total cis) ++ post) =
        match mapE (blockOf skip r) cis with
        | .error e => .error e
        | .ok bs => .ok (pre ++ bs.flatten ++ post) := by
  intro cis
  induction cis with
  | nil => intro s pre post _ _; simp [fillRow, mapE, total, nanBlock]
  | cons ci cis ih =>
    intro s pre post hl hpre
    obtain ⟨hpos, hl'⟩ := hl
    -- continuing after this column's block `b` has been written
    have cont : ∀ b : List Out, b.length = ci.vec.length →
        fillRow skip r cis (pre ++ b ++ nanBlock (total cis) ++ post) =
          match mapE (blockOf skip r) cis with
          | .error e => .error e
          | .ok bs => .ok (pre ++ (b :: bs).flatten ++ post) := by
      intro b hb
      have := ih (s + ci.vec.length) (pre ++ b) post hl' (by simp [hpre, hb])
      rw [this]
      cases mapE (blockOf skip r) cis with
      | error e => rfl
      | ok bs => simp [List.append_assoc]
    have split : pre ++ nanBlock (total (ci :: cis)) ++ post =
        pre ++ nanBlock ci.vec.length ++ nanBlock (total cis) ++ post := by
      simp [total, nanBlock, ← List.replicate_append_replicate, List.append_assoc]
    rw [split]
    simp only [fillRow, mapE, blockOf]
    cases hlk : r.lookup ci.name with
    | none => rfl
    | some cell =>
      cases cell with
      | num n => rfl
      | missing =>
        simp only []
        rw [cont _ (by simp [nanBlock])]
        cases mapE (blockOf skip r) cis <;> rfl
      | str v =>
        simp only []
        cases hoff : offsetOf v ci.vec with
        | none =>
          cases skip with
          | false => rfl
          | true =>
            simp only [if_true]
            rw [cont _ (by simp [nanBlock])]
            cases mapE (blockOf true r) cis <;> rfl
        | some off =>
          simp only []
          obtain ⟨_, _, hlt⟩ := offsetOf_some hoff
          have hidx : C19.cellIndex ci.pos (off : Int) = ((s + off : Nat) : Int) := by
            rw [cellIndex_eq, hpos]; omega
          have hlen : s + off < (pre ++ nanBlock ci.vec.length ++ nanBlock (total cis) ++ post).length := by
            simp [nanBlock, hpre]; omega
          rw [hidx, setCell_nat _ _ hlen]
          have hset : (pre ++ nanBlock ci.vec.length ++ nanBlock (total cis) ++ post).set (s + off) .one =
              pre ++ (nanBlock ci.vec.length).set off .one ++ nanBlock (total cis) ++ post := by
            subst hpre
            have hl2 : off < (nanBlock ci.vec.length).length := by simp [nanBlock, hlt]
            simp only [List.append_assoc]
            rw [List.set_append_right _ _ (by omega)]
            simp only [Nat.add_sub_cancel_left]
            rw [List.set_append_left _ _ hl2]
          rw [hset]
          simp only []
          rw [cont _ (by simp [nanBlock])]
          cases mapE (blockOf skip r) cis <;> rfl

/-! ### what `fit` produces -/

theorem layout_buildSchema (rem : List String) :
    ∀ (l : List (String × List String)) (s : Nat), Layout (buildSchema rem l (s : Int)) s := by
  intro l
  induction l with
  | nil => intro s; simp [buildSchema, Layout]
  | cons a l ih =>
    intro s
    obtain ⟨c, cats⟩ := a
    simp only [buildSchema, Layout]
    refine ⟨blockStart_eq _ _, ?_⟩
    rw [nextLast_eq]
    have := ih (s + (cats.filter (fun v => C19.keepName (rem.contains (C19.schemaName c v)))).length)
    simpa [Int.natCast_add] using this

theorem schemaOf_length (cis : List ColInfo) : (schemaOf cis).length = total cis := by
  induction cis with
  | nil => rfl
  | cons ci cis ih =>
    have : schemaOf (ci :: cis) = ci.vec.map (C19.schemaName ci.name) ++ schemaOf cis := by
      simp [schemaOf]
    rw [this]; simp [total, ih]

theorem buildSchema_names (rem : List String) :
    ∀ (l : List (String × List String)) (s : Int), (buildSchema rem l s).map (·.name) = l.map (·.1) := by
  intro l
  induction l with
  | nil => intro s; rfl
  | cons a l ih => intro s; obtain ⟨c, cats⟩ := a; simp [buildSchema, ih]

theorem buildSchema_vec (rem : List String) :
    ∀ (l : List (String × List String)) (s : Int), ∀ ci ∈ buildSchema rem l s,
      ∃ cats, (ci.name, cats) ∈ l ∧
        ci.vec = cats.filter (fun v => !(rem.contains (C19.schemaName ci.name v))) := by
  intro l
  induction l with
  | nil => intro s ci h; simp [buildSchema] at h
  | cons a l ih =>
    intro s ci h
    obtain ⟨c, cats⟩ := a
    simp only [buildSchema, List.mem_cons] at h
    cases h with
    | inl h =>
      subst h
      refine ⟨cats, by simp, ?_⟩
      simp only [keepName_eq]
    | inr h =>
      obtain ⟨cats', hm, hv⟩ := ih _ ci h
      exact ⟨cats', by simp [hm], hv⟩

theorem fit_ok {cfg : Config} {X : Frame} {st : Fitted} (h : fit cfg X = .ok st) :
    st.cols = buildSchema cfg.remove ((fitColumnsOf cfg.columns X).map (fun c => (c, catsOf c X))) 0 ∧
    st.schema = schemaOf st.cols ∧ (fitColumnsOf cfg.columns X).Nodup ∧
    ∀ c ∈ fitColumnsOf cfg.columns X, colErr X c = none := by
  unfold fit at h
  simp only [] at h
  split at h
  · cases h
  · rename_i hnd
    split at h
    · cases h
    · rename_i hnone
      cases h
      refine ⟨rfl, rfl, by simpa using hnd, ?_⟩
      intro c hc
      rw [List.findSome?_eq_none_iff] at hnone
      exact hnone c hc

theorem fit_layout {cfg : Config} {X : Frame} {st : Fitted} (h : fit cfg X = .ok st) :
    Layout st.cols 0 ∧ st.schema.length = total st.cols := by
  obtain ⟨h1, h2, _⟩ := fit_ok h
  constructor
  · rw [h1]; exact layout_buildSchema _ _ 0
  · rw [h2, schemaOf_length]

/-- the indicator part of a row is the concatenation of the per-column blocks -/
theorem indicators_blocks {cfg : Config} {X : Frame} {st : Fitted} (h : fit cfg X = .ok st)
    (skip : Bool) (r : Row) :
    indicators st skip r =
      match mapE (blockOf skip r) st.cols with
      | .error e => .error e
      | .ok bs => .ok bs.flatten := by
  obtain ⟨hl, hw⟩ := fit_layout h
  have := fillRow_blocks skip r st.cols 0 [] [] hl rfl
  simp only [List.nil_append, List.append_nil] at this
  unfold indicators
  rw [hw]
  exact this

theorem blockOf_length {skip : Bool} {r : Row} {ci : ColInfo} {b : List Out}
    (h : blockOf skip r ci = .ok b) : b.length = ci.vec.length := by
  unfold blockOf at h
  split at h
  · cases h
  · cases h
  · cases h; simp [nanBlock]
  · split at h
    · split at h
      · cases h; simp [nanBlock]
      · cases h
    · cases h; simp [nanBlock]

/-- cell `j` of block `k` sits at absolute position `pos_k + j`, in the matrix and in the schema -/
theorem blocks_get :
    ∀ (cis : List ColInfo) (s : Nat) (bs : List (List Out)), Layout cis s → bs.length = cis.length →
      (∀ k (hk : k < cis.length) (hk' : k < bs.length), bs[k].length = cis[k].vec.length) →
      ∀ k (hk : k < cis.length) (hk' : k < bs.length) j (hj : j < cis[k].vec.length),
        ∃ m, cis[k].pos = ((s + m : Nat) : Int) ∧ bs.flatten[m + j]? = bs[k][j]? ∧
          (schemaOf cis)[m + j]? = some (C19.schemaName cis[k].name cis[k].vec[j]) := by
  intro cis
  induction cis with
  | nil => intro s bs _ _ _ k hk; simp at hk
  | cons ci cis ih =>
    intro s bs hl hlen hbl k hk hk' j hj
    cases bs with
    | nil => simp at hk'
    | cons b bs =>
      have hsch : schemaOf (ci :: cis) = ci.vec.map (C19.schemaName ci.name) ++ schemaOf cis := by
        simp [schemaOf]
      have hb : b.length = ci.vec.length := hbl 0 (by simp) (by simp)
      cases k with
      | zero =>
        refine ⟨0, by simpa using hl.1, ?_, ?_⟩
        · have hj' : j < b.length := by rw [hb]; simpa using hj
          simp [List.getElem?_append_left hj']
        · have hj' : j < (ci.vec.map (C19.schemaName ci.name)).length := by simpa using hj
          rw [hsch]
          simp only [Nat.zero_add, List.getElem_cons_zero]
          rw [List.getElem?_append_left hj']
          simp at hj
          simp [hj]
      | succ k =>
        have hk2 : k < cis.length := by simpa using hk
        have hk2' : k < bs.length := by simpa using hk'
        obtain ⟨m, hm1, hm2, hm3⟩ := ih (s + ci.vec.length) bs hl.2 (by simpa using hlen)
          (fun q hq hq' => hbl (q + 1) (by simpa using hq) (by simpa using hq'))
          k hk2 hk2' j (by simpa using hj)
        refine ⟨ci.vec.length + m, ?_, ?_, ?_⟩
        · simp only [List.getElem_cons_succ]; rw [hm1]; omega
        · simp only [List.flatten_cons, List.getElem_cons_succ]
          rw [List.getElem?_append_right (by omega)]
          rw [← hm2]; congr 1; omega
        · rw [hsch]
          rw [List.getElem?_append_right (by simp; omega)]
          simp only [List.length_map, List.getElem_cons_succ]
          rw [← hm3]; congr 1; omega

/-- Per-cell reading of one indicator row: column `k` of the fitted columns owns the matrix
columns `pos_k … pos_k + len_k − 1`; cell `j` of it is named `name_k=vec_k[j]` and holds what the
block of that column holds. -/
theorem indicator_cell {cfg : Config} {X : Frame} {st : Fitted} (h : fit cfg X = .ok st)
    {skip : Bool} {r : Row} {ind : List Out} (hind : indicators st skip r = .ok ind)
    (k : Nat) (hk : k < st.cols.length) (j : Nat) (hj : j < st.cols[k].vec.length) :
    ∃ (b : List Out) (m : Nat), blockOf skip r st.cols[k] = .ok b ∧ b.length = st.cols[k].vec.length ∧
      st.cols[k].pos = (m : Int) ∧ ind[m + j]? = b[j]? ∧
      st.schema[m + j]? = some (C19.schemaName st.cols[k].name st.cols[k].vec[j]) ∧
      ind.length = st.schema.length := by
  rw [indicators_blocks h] at hind
  cases hm : mapE (blockOf skip r) st.cols with
  | error e => rw [hm] at hind; cases hind
  | ok bs =>
    rw [hm] at hind
    cases hind
    have hlen := mapE_ok_length _ _ _ hm
    have hget := mapE_ok_get _ _ _ hm
    have hbl : ∀ q (hq : q < st.cols.length) (hq' : q < bs.length), bs[q].length = st.cols[q].vec.length :=
      fun q hq hq' => blockOf_length (hget q hq hq')
    obtain ⟨hl, hw⟩ := fit_layout h
    have hk' : k < bs.length := by omega
    obtain ⟨m, hm1, hm2, hm3⟩ := blocks_get st.cols 0 bs hl hlen hbl k hk hk' j hj
    refine ⟨bs[k], m, hget k hk hk', hbl k hk hk', by simpa using hm1, hm2, ?_, ?_⟩
    · rw [(fit_ok h).2.1]; exact hm3
    · rw [hw]
      clear hm2 hm3 hm1 hget hm
      -- total length of the blocks
      have : ∀ (cis : List ColInfo) (bs : List (List Out)), bs.length = cis.length →
          (∀ q (hq : q < cis.length) (hq' : q < bs.length), bs[q].length = cis[q].vec.length) →
          bs.flatten.length = total cis := by
        intro cis
        induction cis with
        | nil => intro bs hl _; cases bs with
          | nil => rfl
          | cons _ _ => simp at hl
        | cons c cs ih =>
          intro bs hl hb
          cases bs with
          | nil => simp at hl
          | cons b bs =>
            have h0 : b.length = c.vec.length := hb 0 (by simp) (by simp)
            have := ih bs (by simpa using hl)
              (fun q hq hq' => hb (q + 1) (by simpa using hq) (by simpa using hq'))
            simp [total, h0, this]
      exact this st.cols bs hlen hbl

/-! ### replacing one cell of a row -/

/-- the row with every cell of column `c` replaced by `x` -/
def setCol (c : String) (x : Cell) (r : Row) : Row :=
  r.map (fun kv => if kv.1 = c then (kv.1, x) else kv)

theorem mem_of_lookup {c : String} {x : Cell} : ∀ {r : Row}, r.lookup c = some x → (c, x) ∈ r := by
  intro r
  induction r with
  | nil => intro h; simp at h
  | cons kv r ih =>
    intro h
    obtain ⟨k, y⟩ := kv
    simp only [List.lookup_cons] at h
    by_cases hk : c = k
    · subst hk; simp at h; subst h; simp
    · have : (c == k) = false := by simpa using hk
      rw [this] at h
      simp [ih h]

theorem lookup_setCol_ne {c k : String} (x : Cell) (h : k ≠ c) :
    ∀ (r : Row), (setCol c x r).lookup k = r.lookup k := by
  intro r
  induction r with
  | nil => rfl
  | cons kv r ih =>
    obtain ⟨k', y⟩ := kv
    simp only [setCol, List.map_cons] at ih ⊢
    by_cases hk' : k' = c
    · subst hk'
      have : (k == k') = false := by simpa using h
      simp [List.lookup_cons, this, ih]
    · simp only [hk', if_false, List.lookup_cons]
      rw [ih]

theorem lookup_setCol_self (c : String) (x : Cell) :
    ∀ (r : Row), (setCol c x r).lookup c = (r.lookup c).map (fun _ => x) := by
  intro r
  induction r with
  | nil => rfl
  | cons kv r ih =>
    obtain ⟨k', y⟩ := kv
    simp only [setCol, List.map_cons] at ih ⊢
    by_cases hk' : k' = c
    · subst hk'; simp
    · have : (c == k') = false := by simpa using (fun h => hk' h.symm)
      simp only [hk', if_false, List.lookup_cons, this]
      rw [ih]

theorem filter_setCol {c : String} (x : Cell) (p : String → Bool) (hc : p c = false) :
    ∀ (r : Row), (setCol c x r).filter (fun kv => p kv.1) = r.filter (fun kv => p kv.1) := by
  intro r
  induction r with
  | nil => rfl
  | cons kv r ih =>
    obtain ⟨k', y⟩ := kv
    have hcons : setCol c x ((k', y) :: r) = (if k' = c then (k', x) else (k', y)) :: setCol c x r := rfl
    rw [hcons]
    by_cases hk' : k' = c
    · subst hk'
      rw [if_pos rfl, List.filter_cons, List.filter_cons]
      simp only [hc]
      exact ih
    · rw [if_neg hk', List.filter_cons, List.filter_cons, ih]

theorem passCells_setCol {c : String} (x : Cell) {fitted : List String} (h : c ∈ fitted) :
    ∀ (r : Row), passCells fitted (setCol c x r) = passCells fitted r := by
  intro r
  unfold passCells
  rw [filter_setCol x (fun k => !(fitted.contains k)) (by simp [h]) r]

/-- under skip_errors an unseen value behaves exactly like a missing one in the cell loop -/
theorem fillRow_setCol_unseen {c v : String} {r : Row} (hr : r.lookup c = some (.str v)) :
    ∀ (cis : List ColInfo) (acc : List Out), (∀ ci ∈ cis, ci.name = c → v ∉ ci.vec) →
      fillRow true (setCol c .missing r) cis acc = fillRow true r cis acc := by
  intro cis
  induction cis with
  | nil => intro acc _; rfl
  | cons ci cis ih =>
    intro acc hun
    have ih' := fun a => ih a (fun x hx => hun x (by simp [hx]))
    simp only [fillRow]
    by_cases hn : ci.name = c
    · rw [hn, lookup_setCol_self, hr]
      simp only [Option.map_some]
      rw [offsetOf_of_not_mem (hun ci (by simp) hn)]
      simp [ih']
    · rw [lookup_setCol_ne _ hn]
      cases r.lookup ci.name with
      | none => rfl
      | some cell =>
        cases cell with
        | num n => rfl
        | missing => simp [ih']
        | str u =>
          simp only []
          cases offsetOf u ci.vec with
          | none => simp [ih']
          | some off =>
            simp only []
            cases setCell acc (C19.cellIndex ci.pos off) with
            | none => rfl
            | some a => simp [ih']

theorem encodeRow_setCol_unseen {st : Fitted} {c v : String} {r : Row}
    (hr : r.lookup c = some (.str v)) (hcol : c ∈ fittedNames st)
    (hun : ∀ ci ∈ st.cols, ci.name = c → v ∉ ci.vec) :
    encodeRow st true (setCol c .missing r) = encodeRow st true r := by
  unfold encodeRow indicators
  rw [fillRow_setCol_unseen hr _ _ hun, passCells_setCol _ hcol]

theorem encodeRowSingle_setCol_unseen {st : Fitted} {c v : String} {r : Row}
    (hcell : ∀ cell, (c, cell) ∈ r → cell = .str v) (hcol : c ∈ fittedNames st)
    (hun : ∀ ci ∈ st.cols, ci.name = c → v ∉ ci.vec) :
    encodeRowSingle st true (setCol c .missing r) = encodeRowSingle st true r := by
  unfold encodeRowSingle setCol
  rw [mapE_map]
  apply mapE_congr
  intro kv hkv
  obtain ⟨k, y⟩ := kv
  by_cases hk : k = c
  · subst hk
    have hy := hcell y hkv
    subst hy
    simp only [if_true, encodeCellSingle]
    cases hf : st.cols.find? (fun ci => ci.name == k) with
    | none =>
      exfalso
      rw [List.find?_eq_none] at hf
      simp only [fittedNames, List.mem_map] at hcol
      obtain ⟨ci, hci, hn⟩ := hcol
      exact hf ci hci (by simp [hn])
    | some ci =>
      have hmem := List.mem_of_find?_eq_some hf
      have hname : ci.name = k := by simpa using List.find?_some hf
      simp [offsetOf_of_not_mem (hun ci hmem hname)]
  · simp [hk]

/-! ### which errors can occur -/

theorem mapE_error_kind {α β ε} (f : α → Except ε β) (P : ε → Prop) :
    ∀ (l : List α), (∀ a ∈ l, ∀ e, f a = .error e → P e) → ∀ e, mapE f l = .error e → P e := by
  intro l
  induction l with
  | nil => intro _ e h; simp [mapE] at h
  | cons a as ih =>
    intro hall e h
    simp only [mapE] at h
    cases hfa : f a with
    | error e' =>
      rw [hfa] at h; cases h
      exact hall a (by simp) _ hfa
    | ok b =>
      rw [hfa] at h
      simp only [] at h
      cases hm : mapE f as with
      | error e' =>
        rw [hm] at h; cases h
        exact ih (fun x hx => hall x (by simp [hx])) _ hm
      | ok bs => rw [hm] at h; cases h

/-- every fitted column of the row holds a string or a missing value -/
def RowOK (st : Fitted) (r : Row) : Prop :=
  ∀ ci ∈ st.cols, r.lookup ci.name = some .missing ∨ ∃ v, r.lookup ci.name = some (.str v)

theorem blockOf_error_kind {st : Fitted} {r : Row} (hr : RowOK st r) {skip : Bool} {ci : ColInfo}
    (hci : ci ∈ st.cols) {e : Err} (h : blockOf skip r ci = .error e) : e = .valueError := by
  unfold blockOf at h
  cases hr ci hci with
  | inl hm => rw [hm] at h; cases h
  | inr hv =>
    obtain ⟨v, hv⟩ := hv
    rw [hv] at h
    simp only [] at h
    split at h
    · split at h
      · cases h
      · cases h; rfl
    · cases h

theorem encodeRow_error_kind {cfg : Config} {X : Frame} {st : Fitted} (hfit : fit cfg X = .ok st)
    {r : Row} (hr : RowOK st r) {skip : Bool} {e : Err} (h : encodeRow st skip r = .error e) :
    e = .valueError := by
  unfold encodeRow at h
  rw [indicators_blocks hfit] at h
  cases hm : mapE (blockOf skip r) st.cols with
  | ok bs => rw [hm] at h; cases h
  | error e' =>
    rw [hm] at h
    cases h
    exact mapE_error_kind _ (fun e => e = .valueError) _
      (fun ci hci e he => blockOf_error_kind hr hci he) _ hm

theorem encodeRow_unseen_raises {cfg : Config} {X : Frame} {st : Fitted} (hfit : fit cfg X = .ok st)
    {r : Row} (hr : RowOK st r) {ci : ColInfo} (hci : ci ∈ st.cols) {v : String}
    (hv : r.lookup ci.name = some (.str v)) (hun : v ∉ ci.vec) :
    encodeRow st false r = .error .valueError := by
  unfold encodeRow
  rw [indicators_blocks hfit]
  have : mapE (blockOf false r) st.cols = .error .valueError := by
    apply mapE_error_of_mem
    · refine ⟨ci, hci, ?_⟩
      simp [blockOf, hv, offsetOf_of_not_mem hun]
    · intro a ha e he
      exact blockOf_error_kind hr ha he
  rw [this]

theorem eq_of_nodup_map_name :
    ∀ {l : List ColInfo}, (l.map (·.name)).Nodup → ∀ {a b : ColInfo}, a ∈ l → b ∈ l → a.name = b.name → a = b := by
  intro l
  induction l with
  | nil => intro _ a b ha; simp at ha
  | cons c cs ih =>
    intro hn a b ha hb hab
    simp only [List.map_cons, List.nodup_cons, List.mem_map, not_exists, not_and] at hn
    simp only [List.mem_cons] at ha hb
    cases ha with
    | inl ha =>
      cases hb with
      | inl hb => rw [ha, hb]
      | inr hb => subst ha; exact absurd hab.symm (hn.1 b hb)
    | inr ha =>
      cases hb with
      | inl hb => subst hb; exact absurd hab (hn.1 a ha)
      | inr hb => exact ih hn.2 ha hb hab

/-- every fitted column of the row holds a missing value or a value kept at fit -/
def RowSeen (cis : List ColInfo) (r : Row) : Prop :=
  ∀ ci ∈ cis, r.lookup ci.name = some .missing ∨ ∃ v, r.lookup ci.name = some (.str v) ∧ v ∈ ci.vec

theorem fillRowStale_eq_of_seen (skip : Bool) (r : Row) :
    ∀ (cis : List ColInfo) (acc : List Out) (p : Option Int), RowSeen cis r →
      (match fillRowStale skip r cis acc p with
       | .error e => Except.error e
       | .ok (a, _) => Except.ok a) = fillRow skip r cis acc := by
  intro cis
  induction cis with
  | nil => intro acc p _; rfl
  | cons ci cis ih =>
    intro acc p hseen
    have ih' := fun a q => ih a q (fun x hx => hseen x (by simp [hx]))
    simp only [fillRowStale, fillRow]
    cases hseen ci (by simp) with
    | inl hm => rw [hm]; exact ih' _ _
    | inr hv =>
      obtain ⟨v, hv, hmem⟩ := hv
      rw [hv]
      simp only [offsetOf_of_mem hmem]
      cases setCell acc (C19.cellIndex ci.pos ↑(List.idxOf v ci.vec)) with
      | none => rfl
      | some a => exact ih' _ _

end MlVerif.Categories
