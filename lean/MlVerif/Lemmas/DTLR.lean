/-
Helper lemmas for C10 (DecisionTreeLogisticRegression): induction principle for the node tree, the
scatter argument specialised to a batch whose masks are computed row by row, and the invariants of
the two batch traversals and of the index assignment of `fit`.
-/
import MlVerif.Model.DTLR
import MlVerif.Lemmas.Scatter
namespace MlVerif.DTLR
open MlVerif.Scatter MlVerif.Gen.C10

/-! ### what the regenerated definitions say (these break when the source changes its comparisons) -/

theorem probaAbove_spec (p t : Rat) : probaAbove p t = decide (p > t) := by unfold probaAbove; rfl
theorem pathAbove_spec (p t : Rat) : pathAbove p t = decide (p > t) := by unfold pathAbove; rfl
theorem probaBelow_spec (b : Bool) : probaBelow b = !b := by unfold probaBelow; rfl
theorem pathBelow_spec (b : Bool) : pathBelow b = !b := by unfold pathBelow; rfl
theorem probaGuardAbove_spec (n : Int) : probaGuardAbove true n = true ↔ 0 < n := by
  unfold probaGuardAbove; simp; try omega
theorem probaGuardBelow_spec (n : Int) : probaGuardBelow true n = true ↔ 0 < n := by
  unfold probaGuardBelow; simp; try omega
theorem pathGuardAbove_spec (n : Int) : pathGuardAbove true n = true ↔ 0 < n := by
  unfold pathGuardAbove; simp; try omega
theorem pathGuardBelow_spec (n : Int) : pathGuardBelow true n = true ↔ 0 < n := by
  unfold pathGuardBelow; simp; try omega
theorem predictLabel_spec (p : Rat) : predictLabel p = decide (p ≥ 1 / 2) := by unfold predictLabel; rfl

/-! ### induction over the node tree (`Node` is a nested inductive type) -/

theorem Node.ind {ρ} {motive : Node ρ → Prop}
    (step : ∀ i t d p0 p a b, (∀ c, a = some c → motive c) → (∀ c, b = some c → motive c) →
      motive ⟨i, t, d, p0, p, a, b⟩) : ∀ n, motive n :=
  @Node.rec ρ motive (fun o => ∀ c, o = some c → motive c)
    (fun i t d p0 p a b ha hb => step i t d p0 p a b ha hb)
    (fun c h => by cases h)
    (fun v hv c h => by cases h; exact hv)

/-- the nodes below an optional child -/
def optNodes {ρ} (o : Option (Node ρ)) : List (Node ρ) :=
  match o with
  | some c => nodes c
  | none => []

theorem nodes_mk {ρ} (i : Int) (t : Rat) (d : Int) (p0 p1 : ρ → Rat) (a b : Option (Node ρ)) :
    nodes ⟨i, t, d, p0, p1, a, b⟩ = ⟨i, t, d, p0, p1, a, b⟩ :: (optNodes a ++ optNodes b) := by
  rw [nodes.eq_def]; cases a <;> cases b <;> rfl

theorem self_mem_nodes {ρ} (n : Node ρ) : n ∈ nodes n := by
  cases n; rw [nodes_mk]; exact List.mem_cons_self

/-! ### masks computed row by row -/

theorem zw3_map_self {α β γ δ} (f : β → γ → α → δ) (g1 : α → β) (g2 : α → γ) :
    ∀ X : List α, zw3 f (X.map g1) (X.map g2) X = X.map (fun x => f (g1 x) (g2 x) x) := by
  intro X
  induction X with
  | nil => simp [zw3]
  | cons x xs ih => simp [zw3, ih]

theorem countTrue_nonneg (m : List Bool) : 0 ≤ countTrue m := by unfold countTrue; omega

theorem countTrue_map_zero {α} (m : α → Bool) (X : List α) (h : ¬ 0 < countTrue (X.map m)) :
    ∀ x ∈ X, m x = false := by
  intro x hx
  unfold countTrue at h
  have h0 : ((X.map m).filter id).length = 0 := by omega
  have h1 : (X.map m).filter id = [] := List.eq_nil_of_length_eq_zero h0
  cases hm : m x with
  | false => rfl
  | true =>
    have : true ∈ (X.map m).filter id := by
      simp only [List.mem_filter, List.mem_map, id]
      exact ⟨⟨x, hx, hm⟩, by trivial⟩
    rw [h1] at this
    cases this

theorem maskGet_map_length {α} (m : α → Bool) (X : List α) :
    (maskGet X (X.map m)).length = ((X.map m).filter id).length := by
  induction X with
  | nil => simp [maskGet]
  | cons x xs ih => cases hm : m x <;> simp [maskGet, hm, ih]

/-- one `if child is not None and n > 0: prob[mask] = child(X[mask])` step, when the child is row-wise -/
theorem scatter_side {α β} (X : List α) (o : α → β) (m : α → Bool) (g : α → β)
    (batch : List α → List β) (hb : batch (maskGet X (X.map m)) = (maskGet X (X.map m)).map g)
    (guard : Bool) (hg : guard = true ↔ 0 < countTrue (X.map m)) :
    (if guard then maskSet (X.map o) (X.map m) (batch (maskGet X (X.map m))) else X.map o)
      = X.map (fun x => if m x then g x else o x) := by
  by_cases h : guard = true
  · rw [if_pos h, hb, maskSet_map_maskGet g X (X.map m) (X.map o) (by simp) (by simp), zw3_map_self]
  · rw [if_neg h]
    have hz := countTrue_map_zero m X (by rw [← hg]; exact h)
    apply List.map_congr_left
    intro x hx
    simp [hz x hx]

/-! ### predict_proba: batch = rows -/

theorem predictProbaNode_rows {ρ} : ∀ (n : Node ρ) (X : List ρ),
    predictProbaNode n X = X.map (fun r => (terminal n r).own r) := by
  intro n
  induction n using Node.ind with
  | step i thr d p0 p1 a b iha ihb =>
    intro X
    have fin : ∀ (f g : ρ → Proba), (∀ x, f x = g x) → X.map f = X.map g := by
      intro f g h; exact List.map_congr_left (fun x _ => h x)
    cases a with
    | none =>
      cases b with
      | none =>
        simp only [predictProbaNode]
        apply fin; intro x
        by_cases hx : p1 x > thr <;> simp [terminal, Node.own, hx]
      | some cb =>
        simp only [predictProbaNode, List.map_map]
        rw [scatter_side X _ _ _ (predictProbaNode cb) (ihb cb rfl _) _ (probaGuardBelow_spec _)]
        apply fin; intro x
        simp only [Function.comp, probaAbove_spec, probaBelow_spec]
        by_cases hx : p1 x > thr <;> simp [terminal, Node.own, hx]
    | some ca =>
      cases b with
      | none =>
        simp only [predictProbaNode, List.map_map]
        rw [scatter_side X _ _ _ (predictProbaNode ca) (iha ca rfl _) _ (probaGuardAbove_spec _)]
        apply fin; intro x
        simp only [Function.comp, probaAbove_spec]
        by_cases hx : p1 x > thr <;> simp [terminal, Node.own, hx]
      | some cb =>
        simp only [predictProbaNode, List.map_map]
        rw [scatter_side X _ _ _ (predictProbaNode ca) (iha ca rfl _) _ (probaGuardAbove_spec _)]
        rw [scatter_side X _ _ _ (predictProbaNode cb) (ihb cb rfl _) _ (probaGuardBelow_spec _)]
        apply fin; intro x
        simp only [Function.comp, probaAbove_spec, probaBelow_spec]
        by_cases hx : p1 x > thr <;> simp [terminal, Node.own, hx]

/-! ### decision_path: what the shared matrix holds after the traversal -/

/-- cell (i, c) is marked -/
def Mat.has (mat : Mat) (i : Nat) (c : Int) : Prop := ∃ row, mat.rows[i]? = some row ∧ c ∈ row

/-- `mat'` is `mat` plus exactly the marks `S` -/
structure Adds (mat mat' : Mat) (S : Nat → Int → Prop) : Prop where
  width : mat'.width = mat.width
  len : mat'.rows.length = mat.rows.length
  has : ∀ i c, mat'.has i c ↔ (mat.has i c ∨ S i c)

theorem Adds.refl_false (mat : Mat) (S : Nat → Int → Prop) (h : ∀ i c, ¬ S i c) : Adds mat mat S :=
  ⟨rfl, rfl, fun i c => by simp [h i c]⟩

theorem Adds.trans {m0 m1 m2 : Mat} {S1 S2 : Nat → Int → Prop} (h1 : Adds m0 m1 S1) (h2 : Adds m1 m2 S2) :
    Adds m0 m2 (fun i c => S1 i c ∨ S2 i c) :=
  ⟨h2.width.trans h1.width, h2.len.trans h1.len, fun i c => by rw [h2.has, h1.has, or_assoc]⟩

theorem Adds.congr {m0 m1 : Mat} {S1 S2 : Nat → Int → Prop} (h1 : Adds m0 m1 S1)
    (h : ∀ i c, S1 i c ↔ S2 i c) : Adds m0 m1 S2 :=
  ⟨h1.width, h1.len, fun i c => by rw [h1.has, h i c]⟩

theorem markCol_spec (mat : Mat) (indices : List Nat) (j : Int) (hj : 0 ≤ j ∧ j < (mat.width : Int))
    (hi : ∀ i ∈ indices, i < mat.rows.length) :
    ∃ mat', markCol mat indices j = some mat' ∧ Adds mat mat' (fun i c => i ∈ indices ∧ c = j) := by
  have hall : indices.all (fun i => decide (i < mat.rows.length)) = true := by
    simp only [List.all_eq_true, decide_eq_true_eq]; exact hi
  refine ⟨{ mat with rows := mat.rows.mapIdx (fun i row => if indices.contains i then j :: row else row) },
    by unfold markCol; rw [if_pos ⟨hj.1, hj.2, hall⟩], rfl, by simp, ?_⟩
  intro i c
  simp only [Mat.has, List.getElem?_mapIdx]
  constructor
  · rintro ⟨row, hrow, hc⟩
    cases hr : mat.rows[i]? with
    | none => simp [hr] at hrow
    | some row0 =>
      simp only [hr, Option.map_some, Option.some.injEq] at hrow
      subst hrow
      by_cases hin : i ∈ indices
      · simp only [List.contains_eq_mem, hin, decide_true, if_true, List.mem_cons] at hc
        cases hc with
        | inl h => exact Or.inr ⟨hin, h⟩
        | inr h => exact Or.inl ⟨row0, rfl, h⟩
      · simp only [List.contains_eq_mem, hin, decide_false] at hc
        exact Or.inl ⟨row0, rfl, hc⟩
  · rintro (⟨row, hrow, hc⟩ | ⟨hin, rfl⟩)
    · refine ⟨_, by rw [hrow]; rfl, ?_⟩
      by_cases hin : i ∈ indices <;> simp [hin, hc]
    · have hlt := hi i hin
      refine ⟨_, by rw [List.getElem?_eq_getElem hlt]; rfl, ?_⟩
      simp [hin]

theorem maskGet_length_eq {α β} : ∀ (xs : List α) (ys : List β) (ms : List Bool),
    xs.length = ms.length → ys.length = ms.length → (maskGet xs ms).length = (maskGet ys ms).length := by
  intro xs
  induction xs with
  | nil => intro ys ms h1 h2; cases ms <;> cases ys <;> simp_all [maskGet]
  | cons x xs ih =>
    intro ys ms h1 h2
    cases ms with
    | nil => simp at h1
    | cons m ms =>
      cases ys with
      | nil => simp at h2
      | cons y ys =>
        have := ih ys ms (by simpa using h1) (by simpa using h2)
        cases m <;> simp [maskGet, this]

theorem mem_maskGet {α} : ∀ (xs : List α) (ms : List Bool) (x : α), x ∈ maskGet xs ms → x ∈ xs := by
  intro xs
  induction xs with
  | nil => intro ms x h; cases ms <;> simp [maskGet] at h
  | cons y ys ih =>
    intro ms x h
    cases ms with
    | nil => simp [maskGet] at h
    | cons m ms =>
      cases m with
      | false => simp only [maskGet] at h; exact List.mem_cons_of_mem _ (ih ms x h)
      | true =>
        simp only [maskGet, List.mem_cons] at h
        cases h with
        | inl h => simp [h]
        | inr h => exact List.mem_cons_of_mem _ (ih ms x h)

theorem mem_zip_maskGet {α ι} (m : α → Bool) : ∀ (X : List α) (I : List ι), X.length = I.length →
    ∀ i r, (i, r) ∈ (maskGet I (X.map m)).zip (maskGet X (X.map m)) ↔ ((i, r) ∈ I.zip X ∧ m r = true) := by
  intro X
  induction X with
  | nil => intro I h i r; cases I <;> simp [maskGet]
  | cons x xs ih =>
    intro I h i r
    cases I with
    | nil => simp at h
    | cons j js =>
      have ih' := ih js (by simpa using h) i r
      cases hm : m x with
      | false =>
        simp only [List.map_cons, hm, maskGet, ih', List.zip_cons_cons, List.mem_cons, Prod.mk.injEq]
        constructor
        · rintro ⟨h1, h2⟩; exact ⟨Or.inr h1, h2⟩
        · rintro ⟨(⟨rfl, rfl⟩ | h1), h2⟩
          · rw [hm] at h2; cases h2
          · exact ⟨h1, h2⟩
      | true =>
        simp only [List.map_cons, hm, maskGet, List.zip_cons_cons, List.mem_cons, Prod.mk.injEq, ih']
        constructor
        · rintro (⟨rfl, rfl⟩ | ⟨h1, h2⟩)
          · exact ⟨Or.inl ⟨rfl, rfl⟩, hm⟩
          · exact ⟨Or.inr h1, h2⟩
        · rintro ⟨(⟨rfl, rfl⟩ | h1), h2⟩
          · exact Or.inl ⟨rfl, rfl⟩
          · exact Or.inr ⟨h1, h2⟩

theorem mem_iff_exists_zip {α ι} : ∀ (I : List ι) (X : List α), X.length = I.length →
    ∀ i, i ∈ I ↔ ∃ r, (i, r) ∈ I.zip X := by
  intro I
  induction I with
  | nil => intro X _ i; simp
  | cons j js ih =>
    intro X h i
    cases X with
    | nil => simp at h
    | cons x xs =>
      have ih' := ih xs (by simpa using h) i
      simp only [List.mem_cons, List.zip_cons_cons, Prod.mk.injEq, ih']
      constructor
      · rintro (rfl | ⟨r, hr⟩)
        · exact ⟨x, Or.inl ⟨rfl, rfl⟩⟩
        · exact ⟨r, Or.inr hr⟩
      · rintro ⟨r, (⟨rfl, _⟩ | hr)⟩
        · exact Or.inl rfl
        · exact Or.inr ⟨r, hr⟩

/-- the indices of the path below an optional child -/
def optPath {ρ} (child : Option (Node ρ)) (r : ρ) : List Int :=
  match child with
  | some c => (pathNodes c r).map (·.index)
  | none => []

theorem pathNodes_index {ρ} (i : Int) (thr : Rat) (d : Int) (p0 p1 : ρ → Rat) (a b : Option (Node ρ)) (r : ρ) :
    (pathNodes ⟨i, thr, d, p0, p1, a, b⟩ r).map (·.index)
      = i :: (if p1 r > thr then optPath a r else optPath b r) := by
  by_cases h : p1 r > thr <;> cases a <;> cases b <;> simp [pathNodes, optPath, h]

/-- the marks a subtree adds for the rows it receives -/
def PathMarks {ρ} (n : Node ρ) (indices : List Nat) (X : List ρ) (i : Nat) (c : Int) : Prop :=
  ∃ r, (i, r) ∈ indices.zip X ∧ c ∈ (pathNodes n r).map (·.index)

/-- one `if child is not None and n > 0: child.decision_path(X[mask], mat, indices[mask])` step -/
theorem path_side {ρ} (c : Node ρ) (X : List ρ) (indices : List Nat) (m : ρ → Bool) (mat : Mat) (guard : Bool)
    (hg : guard = true ↔ 0 < countTrue (X.map m))
    (hlen : X.length = indices.length) (hidx : ∀ i ∈ indices, i < mat.rows.length)
    (IH : ∀ (X' : List ρ) (indices' : List Nat), X'.length = indices'.length →
      (∀ i ∈ indices', i < mat.rows.length) →
      ∃ mat', decisionPathNode c X' indices' mat = some mat' ∧ Adds mat mat' (PathMarks c indices' X')) :
    ∃ mat', (if guard then decisionPathNode c (maskGet X (X.map m)) (maskGet indices (X.map m)) mat
             else some mat) = some mat' ∧
      Adds mat mat' (fun i cidx => ∃ r, (i, r) ∈ indices.zip X ∧ m r = true ∧ cidx ∈ optPath (some c) r) := by
  by_cases h : guard = true
  · rw [if_pos h]
    obtain ⟨mat', h1, h2⟩ := IH (maskGet X (X.map m)) (maskGet indices (X.map m))
      (maskGet_length_eq _ _ _ (by simp) (by simp [hlen]))
      (fun i hi => hidx i (mem_maskGet _ _ _ hi))
    refine ⟨mat', h1, h2.congr ?_⟩
    intro i cidx
    simp only [PathMarks, optPath]
    constructor
    · rintro ⟨r, hr, hc⟩
      exact ⟨r, ((mem_zip_maskGet m X indices hlen i r).1 hr).1, ((mem_zip_maskGet m X indices hlen i r).1 hr).2, hc⟩
    · rintro ⟨r, hr, hm, hc⟩
      exact ⟨r, (mem_zip_maskGet m X indices hlen i r).2 ⟨hr, hm⟩, hc⟩
  · rw [if_neg h]
    refine ⟨mat, rfl, Adds.refl_false _ _ ?_⟩
    rintro i cidx ⟨r, hr, hm, _⟩
    have hz := countTrue_map_zero m X (by rw [← hg]; exact h) r (List.of_mem_zip hr).2
    rw [hz] at hm; cases hm

theorem decisionPathNode_spec {ρ} : ∀ (n : Node ρ) (X : List ρ) (indices : List Nat) (mat : Mat),
    X.length = indices.length → (∀ i ∈ indices, i < mat.rows.length) →
    (∀ m ∈ nodes n, 0 ≤ m.index ∧ m.index < (mat.width : Int)) →
    ∃ mat', decisionPathNode n X indices mat = some mat' ∧ Adds mat mat' (PathMarks n indices X) := by
  intro n
  induction n using Node.ind with
  | step idx thr d p0 p1 a b iha ihb =>
    intro X indices mat hlen hidx hw
    have hroot : 0 ≤ idx ∧ idx < (mat.width : Int) := by
      have := hw ⟨idx, thr, d, p0, p1, a, b⟩ (self_mem_nodes _); simpa using this
    obtain ⟨m0, hm0, s0⟩ := markCol_spec mat indices idx hroot hidx
    have hidx0 : ∀ i ∈ indices, i < m0.rows.length := by intro i hi; rw [s0.len]; exact hidx i hi
    -- final bookkeeping: root mark + marks of both sides = marks of the paths through this node
    have fin : ∀ i c, ((i ∈ indices ∧ c = idx) ∨
          (∃ r, (i, r) ∈ indices.zip X ∧ (decide (p1 r > thr)) = true ∧ c ∈ optPath a r) ∨
          (∃ r, (i, r) ∈ indices.zip X ∧ (!(decide (p1 r > thr))) = true ∧ c ∈ optPath b r))
        ↔ PathMarks ⟨idx, thr, d, p0, p1, a, b⟩ indices X i c := by
      intro i c
      simp only [PathMarks, pathNodes_index, List.mem_cons]
      constructor
      · rintro (⟨hi, rfl⟩ | ⟨r, hr, hm, hc⟩ | ⟨r, hr, hm, hc⟩)
        · obtain ⟨r, hr⟩ := (mem_iff_exists_zip indices X hlen i).1 hi
          exact ⟨r, hr, Or.inl rfl⟩
        · have : p1 r > thr := by simpa using hm
          exact ⟨r, hr, Or.inr (by rw [if_pos this]; exact hc)⟩
        · have : ¬ p1 r > thr := by simpa using hm
          exact ⟨r, hr, Or.inr (by rw [if_neg this]; exact hc)⟩
      · rintro ⟨r, hr, (rfl | hc)⟩
        · exact Or.inl ⟨(mem_iff_exists_zip indices X hlen i).2 ⟨r, hr⟩, rfl⟩
        · by_cases h : p1 r > thr
          · rw [if_pos h] at hc; exact Or.inr (Or.inl ⟨r, hr, by simpa using h, hc⟩)
          · rw [if_neg h] at hc; exact Or.inr (Or.inr ⟨r, hr, by simpa using h, hc⟩)
    have none_side : ∀ (mm : Mat) (mk : ρ → Bool), Adds mm mm
        (fun i cidx => ∃ r, (i, r) ∈ indices.zip X ∧ mk r = true ∧ cidx ∈ optPath (none : Option (Node ρ)) r) :=
      fun mm mk => Adds.refl_false _ _ (by rintro i c ⟨r, _, _, hc⟩; simp [optPath] at hc)
    have wA : ∀ c, a = some c → ∀ m ∈ nodes c, 0 ≤ m.index ∧ m.index < (m0.width : Int) := by
      intro c hc m hm; rw [s0.width]; subst hc; exact hw m (by rw [nodes_mk]; simp [optNodes, hm])
    have wB : ∀ c, b = some c → ∀ m ∈ nodes c, 0 ≤ m.index ∧ m.index < (mat.width : Int) := by
      intro c hc m hm; subst hc; exact hw m (by rw [nodes_mk]; simp [optNodes, hm])
    -- the above side, starting from m0
    have sideA : ∃ m1, (match (generalizing := false) a with
        | some c => if pathGuardAbove true (countTrue (X.map (fun r => pathAbove (p1 r) thr))) then
            decisionPathNode c (maskGet X (X.map (fun r => pathAbove (p1 r) thr)))
              (maskGet indices (X.map (fun r => pathAbove (p1 r) thr))) m0 else some m0
        | none => some m0) = some m1 ∧
        Adds m0 m1 (fun i cidx => ∃ r, (i, r) ∈ indices.zip X ∧ pathAbove (p1 r) thr = true ∧ cidx ∈ optPath a r) := by
      cases a with
      | none => exact ⟨m0, rfl, none_side m0 _⟩
      | some c =>
        exact path_side c X indices _ m0 _ (pathGuardAbove_spec _) hlen hidx0
          (fun X' I' h1 h2 => iha c rfl X' I' m0 h1 h2 (wA c rfl))
    obtain ⟨m1, hm1, s1⟩ := sideA
    have hidx1 : ∀ i ∈ indices, i < m1.rows.length := by intro i hi; rw [s1.len]; exact hidx0 i hi
    have sideB : ∃ m2, (match (generalizing := false) b with
        | some c => if pathGuardBelow true (countTrue (X.map (fun r => pathBelow (pathAbove (p1 r) thr)))) then
            decisionPathNode c (maskGet X (X.map (fun r => pathBelow (pathAbove (p1 r) thr))))
              (maskGet indices (X.map (fun r => pathBelow (pathAbove (p1 r) thr)))) m1 else some m1
        | none => some m1) = some m2 ∧
        Adds m1 m2 (fun i cidx => ∃ r, (i, r) ∈ indices.zip X ∧ pathBelow (pathAbove (p1 r) thr) = true ∧
          cidx ∈ optPath b r) := by
      cases b with
      | none => exact ⟨m1, rfl, none_side m1 _⟩
      | some c =>
        exact path_side c X indices _ m1 _ (pathGuardBelow_spec _) hlen hidx1
          (fun X' I' h1 h2 => ihb c rfl X' I' m1 h1 h2
            (by intro m hm; rw [s1.width, s0.width]; exact wB c rfl m hm))
    obtain ⟨m2, hm2, s2⟩ := sideB
    refine ⟨m2, ?_, ((s0.trans s1).trans s2).congr ?_⟩
    · simp only [decisionPathNode, hm0, Option.bind_some, List.map_map, Function.comp_def]
      cases a <;> cases b <;> simp_all
    · intro i c
      rw [← fin i c]
      simp only [pathAbove_spec, pathBelow_spec, or_assoc]

theorem mem_range_zip {α} (X : List α) (i : Nat) (r : α) :
    (i, r) ∈ (List.range X.length).zip X ↔ X[i]? = some r := by
  rw [List.mem_iff_getElem?]
  constructor
  · rintro ⟨k, hk⟩
    rw [List.getElem?_zip_eq_some] at hk
    obtain ⟨h1, h2⟩ := hk
    have hk' : k < X.length := by
      cases h : X[k]? with
      | none => rw [h] at h2; cases h2
      | some _ => exact (List.getElem?_eq_some_iff.1 h).1
    rw [List.getElem?_range hk'] at h1
    cases h1; exact h2
  · intro h
    have hi : i < X.length := (List.getElem?_eq_some_iff.1 h).1
    exact ⟨i, by rw [List.getElem?_zip_eq_some]; exact ⟨by rw [List.getElem?_range hi], h⟩⟩

theorem indicator_congr (w : Nat) (l1 l2 : List Int) (h : ∀ c, c ∈ l1 ↔ c ∈ l2) :
    indicator w l1 = indicator w l2 := by
  unfold indicator
  apply List.map_congr_left
  intro j _
  by_cases h1 : (j : Int) ∈ l1
  · rw [if_pos h1, if_pos ((h _).1 h1)]
  · rw [if_neg h1, if_neg (fun h2 => h1 ((h _).2 h2))]

/-- `decision_path` on a batch: row i of the dense result is the indicator of row i's path -/
theorem decisionPath_rows {ρ} (tree : Node ρ) (nNodes : Nat) (X : List ρ)
    (hw : ∀ m ∈ nodes tree, 0 ≤ m.index ∧ m.index < (nNodes : Int)) :
    decisionPath tree nNodes X = some (X.map (fun r => indicator nNodes ((pathNodes tree r).map (·.index)))) := by
  obtain ⟨mat', h, s⟩ := decisionPathNode_spec tree X (List.range X.length) ⟨nNodes, List.replicate X.length []⟩
    (by simp) (by intro i hi; simpa using hi) hw
  unfold decisionPath
  rw [h]
  have hwd : mat'.width = nNodes := s.width
  obtain ⟨w', rows'⟩ := mat'
  simp only at hwd
  subst hwd
  simp only [Option.map_some, Option.some.injEq, dense]
  have hlen : rows'.length = X.length := by have := s.len; simpa using this
  apply List.ext_getElem (by simp [hlen])
  intro i h1 h2
  simp only [List.getElem_map]
  have hi : i < X.length := by simpa using h2
  have hi' : i < rows'.length := by rw [hlen]; exact hi
  apply indicator_congr
  intro c
  have hh := s.has i c
  have e1 : Mat.has ⟨w', rows'⟩ i c ↔ c ∈ rows'[i] := by
    simp only [Mat.has, List.getElem?_eq_getElem hi', Option.some.injEq]
    constructor
    · rintro ⟨row, rfl, hc⟩; exact hc
    · intro hc; exact ⟨_, rfl, hc⟩
  have e2 : ¬ (Mat.has ⟨w', List.replicate X.length []⟩ i c) := by
    rintro ⟨row, hrow, hc⟩
    have hr : row = [] := (List.mem_replicate.1 (List.mem_of_getElem? hrow)).2
    subst hr; cases hc
  have e3 : PathMarks tree (List.range X.length) X i c ↔ c ∈ (pathNodes tree X[i]).map (·.index) := by
    simp only [PathMarks, mem_range_zip, List.getElem?_eq_getElem hi, Option.some.injEq]
    constructor
    · rintro ⟨r, rfl, hc⟩; exact hc
    · intro hc; exact ⟨_, rfl, hc⟩
  rw [← e1, hh, e3]
  simp [e2]

/-! ### the path of a row -/

theorem pathNodes_mk {ρ} (i : Int) (thr : Rat) (d : Int) (p0 p1 : ρ → Rat) (a b : Option (Node ρ)) (r : ρ) :
    pathNodes ⟨i, thr, d, p0, p1, a, b⟩ r = ⟨i, thr, d, p0, p1, a, b⟩ ::
      (if p1 r > thr then (match a with | some c => pathNodes c r | none => [])
       else (match b with | some c => pathNodes c r | none => [])) := by
  rw [pathNodes.eq_def]; rfl

theorem terminal_mk {ρ} (i : Int) (thr : Rat) (d : Int) (p0 p1 : ρ → Rat) (a b : Option (Node ρ)) (r : ρ) :
    terminal ⟨i, thr, d, p0, p1, a, b⟩ r =
      (if p1 r > thr then (match a with | some c => terminal c r | none => ⟨i, thr, d, p0, p1, a, b⟩)
       else (match b with | some c => terminal c r | none => ⟨i, thr, d, p0, p1, a, b⟩)) := by
  rw [terminal.eq_def]; rfl

theorem pathNodes_ne_nil {ρ} (n : Node ρ) (r : ρ) : pathNodes n r ≠ [] := by
  cases n; rw [pathNodes_mk]; simp

/-- the terminal node is the last node of the path -/
theorem terminal_eq_getLast {ρ} : ∀ (n : Node ρ) (r : ρ),
    (pathNodes n r).getLast? = some (terminal n r) := by
  intro n
  induction n using Node.ind with
  | step i thr d p0 p1 a b iha ihb =>
    intro r
    rw [pathNodes_mk, terminal_mk]
    by_cases h : p1 r > thr
    · simp only [h, if_true]
      cases a with
      | none => simp
      | some c =>
        have := iha c rfl r
        simp only []
        rw [List.getLast?_cons_of_ne_nil (pathNodes_ne_nil c r)] <;> exact this
    · simp only [h, if_false]
      cases b with
      | none => simp
      | some c =>
        have := ihb c rfl r
        simp only []
        rw [List.getLast?_cons_of_ne_nil (pathNodes_ne_nil c r)] <;> exact this

theorem pathNodes_sub_nodes {ρ} : ∀ (n : Node ρ) (r : ρ), ∀ m ∈ pathNodes n r, m ∈ nodes n := by
  intro n
  induction n using Node.ind with
  | step i thr d p0 p1 a b iha ihb =>
    intro r m hm
    rw [pathNodes_mk] at hm
    rw [nodes_mk]
    simp only [List.mem_cons] at hm
    cases hm with
    | inl h => rw [h]; exact List.mem_cons_self
    | inr hm =>
      apply List.mem_cons_of_mem
      by_cases h : p1 r > thr
      · rw [if_pos h] at hm
        cases a with
        | none => cases hm
        | some c => exact List.mem_append_left _ (iha c rfl r m hm)
      · rw [if_neg h] at hm
        cases b with
        | none => cases hm
        | some c => exact List.mem_append_right _ (ihb c rfl r m hm)

theorem terminal_mem_path {ρ} (n : Node ρ) (r : ρ) : terminal n r ∈ pathNodes n r :=
  List.mem_of_getLast? (terminal_eq_getLast n r)

theorem terminal_mem_nodes {ρ} (n : Node ρ) (r : ρ) : terminal n r ∈ nodes n :=
  pathNodes_sub_nodes n r _ (terminal_mem_path n r)

/-- the terminal node has no child on the side the row takes -/
theorem terminal_stops {ρ} : ∀ (n : Node ρ) (r : ρ),
    ((terminal n r).prob r > (terminal n r).threshold ∧ (terminal n r).childAbove = none) ∨
    (¬ (terminal n r).prob r > (terminal n r).threshold ∧ (terminal n r).childBelow = none) := by
  intro n
  induction n using Node.ind with
  | step i thr d p0 p1 a b iha ihb =>
    intro r
    rw [terminal_mk]
    by_cases h : p1 r > thr
    · simp only [h, if_true]
      cases a with
      | none => exact Or.inl ⟨h, rfl⟩
      | some c => exact iha c rfl r
    · simp only [h, if_false]
      cases b with
      | none => exact Or.inr ⟨h, rfl⟩
      | some c => exact ihb c rfl r

/-! ### leaves -/

theorem leafCond_spec (x y : Bool) : leafCond x y = (x || y) := by unfold leafCond; rfl

theorem enumerateLeavesIndex_mk {ρ} (i : Int) (thr : Rat) (d : Int) (p0 p1 : ρ → Rat) (a b : Option (Node ρ)) :
    enumerateLeavesIndex ⟨i, thr, d, p0, p1, a, b⟩ =
      (if leafCond a.isNone b.isNone then [i] else [])
      ++ (match a with | some c => enumerateLeavesIndex c | none => [])
      ++ (match b with | some c => enumerateLeavesIndex c | none => []) := by
  rw [enumerateLeavesIndex.eq_def]; rfl

/-- `enumerate_leaves_index` yields exactly the indices of the nodes lacking a child -/
theorem mem_enumerateLeavesIndex {ρ} : ∀ (n : Node ρ) (i : Int),
    i ∈ enumerateLeavesIndex n ↔ ∃ m ∈ nodes n, m.index = i ∧ (m.childAbove = none ∨ m.childBelow = none) := by
  intro n
  induction n using Node.ind with
  | step idx thr d p0 p1 a b iha ihb =>
    intro i
    rw [enumerateLeavesIndex_mk, nodes_mk, leafCond_spec]
    simp only [List.mem_append, List.mem_cons, exists_eq_or_imp]
    have hA : (i ∈ (match a with | some c => enumerateLeavesIndex c | none => [])) ↔
        ∃ m ∈ optNodes a, m.index = i ∧ (m.childAbove = none ∨ m.childBelow = none) := by
      cases a with
      | none => simp [optNodes]
      | some c => simpa [optNodes] using iha c rfl i
    have hB : (i ∈ (match b with | some c => enumerateLeavesIndex c | none => [])) ↔
        ∃ m ∈ optNodes b, m.index = i ∧ (m.childAbove = none ∨ m.childBelow = none) := by
      cases b with
      | none => simp [optNodes]
      | some c => simpa [optNodes] using ihb c rfl i
    rw [hA, hB]
    have hroot : (i ∈ (if (a.isNone || b.isNone) = true then [idx] else [])) ↔
        (idx = i ∧ (a = none ∨ b = none)) := by
      cases a <;> cases b <;> simp [eq_comm]
    rw [hroot]
    constructor
    · rintro ((h | ⟨m, hm, h⟩) | ⟨m, hm, h⟩)
      · exact Or.inl h
      · exact Or.inr ⟨m, Or.inl hm, h⟩
      · exact Or.inr ⟨m, Or.inr hm, h⟩
    · rintro (h | ⟨m, (hm | hm), h⟩)
      · exact Or.inl (Or.inl h)
      · exact Or.inl (Or.inr ⟨m, hm, h⟩)
      · exact Or.inr ⟨m, hm, h⟩

/-! ### tree depth -/

theorem depthCombineAbove_spec (x y : Int) : depthCombineAbove x y = max x y := by unfold depthCombineAbove; rfl
theorem depthCombineBelow_spec (x y : Int) : depthCombineBelow x y = max x y := by unfold depthCombineBelow; rfl

theorem treeDepth_mk {ρ} (i : Int) (thr : Rat) (d : Int) (p0 p1 : ρ → Rat) (a b : Option (Node ρ)) :
    treeDepth ⟨i, thr, d, p0, p1, a, b⟩ =
      (match b with
        | some c => depthCombineBelow (match a with | some c => depthCombineAbove d (treeDepth c) | none => d) (treeDepth c)
        | none => (match a with | some c => depthCombineAbove d (treeDepth c) | none => d)) := by
  rw [treeDepth.eq_def]; rfl

/-- `tree_depth_` is the largest depth stored in a node: an upper bound that is attained -/
theorem treeDepth_is_max {ρ} : ∀ (n : Node ρ),
    (∀ m ∈ nodes n, m.depth ≤ treeDepth n) ∧ (∃ m ∈ nodes n, m.depth = treeDepth n) := by
  intro n
  induction n using Node.ind with
  | step idx thr d p0 p1 a b iha ihb =>
    rw [treeDepth_mk, nodes_mk]
    cases a with
    | none =>
      cases b with
      | none => simp [optNodes]
      | some cb =>
        obtain ⟨h1, m1, hm1, e1⟩ := ihb cb rfl
        simp only [depthCombineBelow_spec, optNodes, List.nil_append, List.mem_cons]
        constructor
        · rintro m (rfl | hm)
          · simp only []; omega
          · have := h1 m hm; omega
        · by_cases hd : d ≤ treeDepth cb
          · exact ⟨m1, Or.inr hm1, by omega⟩
          · exact ⟨_, Or.inl rfl, by simp only []; omega⟩
    | some ca =>
      obtain ⟨h0, m0, hm0, e0⟩ := iha ca rfl
      cases b with
      | none =>
        simp only [depthCombineAbove_spec, optNodes, List.append_nil, List.mem_cons]
        constructor
        · rintro m (rfl | hm)
          · simp only []; omega
          · have := h0 m hm; omega
        · by_cases hd : d ≤ treeDepth ca
          · exact ⟨m0, Or.inr hm0, by omega⟩
          · exact ⟨_, Or.inl rfl, by simp only []; omega⟩
      | some cb =>
        obtain ⟨h1, m1, hm1, e1⟩ := ihb cb rfl
        simp only [depthCombineAbove_spec, depthCombineBelow_spec, optNodes, List.mem_cons, List.mem_append]
        constructor
        · rintro m (rfl | hm | hm)
          · simp only []; omega
          · have := h0 m hm; omega
          · have := h1 m hm; omega
        · by_cases hd : d ≤ treeDepth ca
          · by_cases hd2 : treeDepth ca ≤ treeDepth cb
            · exact ⟨m1, Or.inr (Or.inr hm1), by omega⟩
            · exact ⟨m0, Or.inr (Or.inl hm0), by omega⟩
          · by_cases hd2 : d ≤ treeDepth cb
            · exact ⟨m1, Or.inr (Or.inr hm1), by omega⟩
            · exact ⟨_, Or.inl rfl, by simp only []; omega⟩

/-! ### fit: what the regenerated index arithmetic and guards give -/

theorem fitIndexAbove_gt (i : Int) : i < fitIndexAbove i := by unfold fitIndexAbove; omega
theorem fitIndexBelow_gt (l : Int) : l < fitIndexBelow l := by unfold fitIndexBelow; omega
theorem sideSkippedLast_ge (i : Int) : i ≤ sideSkippedLast i := by unfold sideSkippedLast; omega
theorem childIndex_ge (i : Int) : i ≤ childIndex i := by unfold childIndex; omega
theorem childDepth_spec (d : Int) : childDepth d = d + 1 := by unfold childDepth; omega
theorem depthGuardLast_ge (i : Int) : i ≤ depthGuardLast i := by unfold depthGuardLast; omega
theorem splitGuardLast_ge (i : Int) : i ≤ splitGuardLast i := by unfold splitGuardLast; omega
theorem fitReturn_ge (l : Int) : l ≤ fitReturn l := by unfold fitReturn; omega
theorem nNodes_gt (l : Int) : l < nNodes l := by unfold nNodes; omega
theorem rootIndex_nonneg : 0 ≤ rootIndex := by unfold rootIndex; omega
theorem rootDepth_spec : rootDepth = 1 := by unfold rootDepth; omega
theorem depthGuard_false (d M : Int) (h : depthGuard d M = false) : d + 1 ≤ M := by
  unfold depthGuard at h; simp at h; omega

/-- what `fit` guarantees about a subtree built from index `index` at depth `depth`, returning `last` -/
structure FitOK {ρ} (maxDepth index last depth : Int) (thr : Rat) (ns : List (Node ρ)) : Prop where
  rng : ∀ m ∈ ns, index ≤ m.index ∧ m.index ≤ last
  inc : (ns.map (·.index)).Pairwise (· < ·)
  dep : ∀ m ∈ ns, depth ≤ m.depth ∧ (depth ≤ maxDepth → m.depth ≤ maxDepth)
  thr : ∀ m ∈ ns, m.threshold = thr

theorem FitOK.nil {ρ} (M i l d : Int) (t : Rat) : FitOK (ρ := ρ) M i l d t [] :=
  ⟨by simp, by simp, by simp, by simp⟩

/-- one `_fit_side` call -/
theorem fit_side_ok {ρ} (cfg : Cfg) (pl : Plan ρ) (thr : Rat) (depth i1 : Int) (g : Bool)
    (IH : ∀ thr depth index node last, fitNode cfg pl thr depth index = some (node, last) →
      index ≤ last ∧ FitOK cfg.maxDepth index last depth thr (nodes node))
    (a : Option (Node ρ)) (last : Int)
    (h : (if g then (fitNode cfg pl thr (childDepth depth) (childIndex i1)).map (fun r => (some r.1, r.2))
          else some (none, sideSkippedLast i1)) = some (a, last)) :
    i1 ≤ last ∧ FitOK cfg.maxDepth i1 last (depth + 1) thr (optNodes a) := by
  by_cases hg : g = true
  · rw [if_pos hg] at h
    cases hf : fitNode cfg pl thr (childDepth depth) (childIndex i1) with
    | none => rw [hf] at h; cases h
    | some r =>
      obtain ⟨node, l⟩ := r
      rw [hf] at h
      simp only [Option.map_some, Option.some.injEq, Prod.mk.injEq] at h
      obtain ⟨rfl, rfl⟩ := h
      obtain ⟨h1, ok⟩ := IH _ _ _ _ _ hf
      have hc := childIndex_ge i1
      rw [childDepth_spec] at ok
      refine ⟨by omega, ⟨?_, ok.inc, ok.dep, ok.thr⟩⟩
      intro m hm
      have := ok.rng m hm
      omega
  · rw [if_neg hg] at h
    simp only [Option.some.injEq, Prod.mk.injEq] at h
    obtain ⟨rfl, rfl⟩ := h
    exact ⟨sideSkippedLast_ge i1, FitOK.nil _ _ _ _ _⟩

theorem fitNode_ok {ρ} (cfg : Cfg) : ∀ (pl : Plan ρ) (thr : Rat) (depth index : Int) (node : Node ρ) (last : Int),
    fitNode cfg pl thr depth index = some (node, last) →
    index ≤ last ∧ FitOK cfg.maxDepth index last depth thr (nodes node) := by
  intro pl
  induction pl with
  | unknown => intro thr depth index node last h; simp [fitNode] at h
  | mk nRows p0 p1 sa pa sb pb iha ihb =>
    intro thr depth index node last h
    have leaf : ∀ l, index ≤ l → index ≤ l ∧
        FitOK cfg.maxDepth index l depth thr (nodes (⟨index, thr, depth, p0, p1, none, none⟩ : Node ρ)) := by
      intro l hl
      refine ⟨hl, ?_⟩
      rw [nodes_mk]
      simp only [optNodes, List.append_nil]
      exact ⟨by simp; omega, by simp, by simp, by simp⟩
    rw [fitNode] at h
    by_cases hd : depthGuard depth cfg.maxDepth = true
    · simp only [hd, if_true, Option.some.injEq, Prod.mk.injEq] at h
      obtain ⟨rfl, rfl⟩ := h
      exact leaf _ (depthGuardLast_ge index)
    · have hd' : depthGuard depth cfg.maxDepth = false := by simpa using hd
      have hdep := depthGuard_false _ _ hd'
      simp only [hd', Bool.false_eq_true, if_false] at h
      by_cases hs : splitGuard nRows cfg.minSamplesSplit = true
      · simp only [hs, if_true, Option.some.injEq, Prod.mk.injEq] at h
        obtain ⟨rfl, rfl⟩ := h
        exact leaf _ (splitGuardLast_ge index)
      · have hs' : splitGuard nRows cfg.minSamplesSplit = false := by simpa using hs
        simp only [hs', Bool.false_eq_true, if_false] at h
        split at h
        · cases h
        · rename_i a last1 hra
          split at h
          · cases h
          · rename_i b last2 hrb
            simp only [Option.some.injEq, Prod.mk.injEq] at h
            obtain ⟨rfl, rfl⟩ := h
            obtain ⟨l1, okA⟩ := fit_side_ok cfg pa thr depth _ _ iha a last1 hra
            obtain ⟨l2, okB⟩ := fit_side_ok cfg pb thr depth _ _ ihb b last2 hrb
            have g1 := fitIndexAbove_gt index
            have g2 := fitIndexBelow_gt last1
            have g3 := fitReturn_ge last2
            refine ⟨by omega, ?_⟩
            rw [nodes_mk]
            refine ⟨?_, ?_, ?_, ?_⟩
            · intro m hm
              simp only [List.mem_cons, List.mem_append] at hm
              rcases hm with rfl | hm | hm
              · simp only []; omega
              · have := okA.rng m hm; omega
              · have := okB.rng m hm; omega
            · simp only [List.map_cons, List.map_append, List.pairwise_cons, List.mem_append, List.mem_map]
              refine ⟨?_, List.pairwise_append.2 ⟨okA.inc, okB.inc, ?_⟩⟩
              · rintro x (⟨m, hm, rfl⟩ | ⟨m, hm, rfl⟩)
                · have := okA.rng m hm; omega
                · have := okB.rng m hm; omega
              · intro x hx y hy
                simp only [List.mem_map] at hx hy
                obtain ⟨m, hm, rfl⟩ := hx
                obtain ⟨m', hm', rfl⟩ := hy
                have := okA.rng m hm
                have := okB.rng m' hm'
                omega
            · intro m hm
              simp only [List.mem_cons, List.mem_append] at hm
              rcases hm with rfl | hm | hm
              · simp only []; exact ⟨by omega, fun h => h⟩
              · have := okA.dep m hm; exact ⟨by omega, fun _ => this.2 hdep⟩
              · have := okB.dep m hm; exact ⟨by omega, fun _ => this.2 hdep⟩
            · intro m hm
              simp only [List.mem_cons, List.mem_append] at hm
              rcases hm with rfl | hm | hm
              · rfl
              · exact okA.thr m hm
              · exact okB.thr m hm

/-- the node returned by `fit` carries the index it was given -/
theorem fitNode_index {ρ} (cfg : Cfg) (pl : Plan ρ) (thr : Rat) (depth index : Int) (node : Node ρ) (last : Int)
    (h : fitNode cfg pl thr depth index = some (node, last)) : node.index = index := by
  cases pl with
  | unknown => simp [fitNode] at h
  | mk nRows p0 p1 sa pa sb pb =>
    rw [fitNode] at h
    by_cases hd : depthGuard depth cfg.maxDepth = true
    · simp only [hd, if_true, Option.some.injEq, Prod.mk.injEq] at h
      obtain ⟨rfl, _⟩ := h; rfl
    · have hd' : depthGuard depth cfg.maxDepth = false := by simpa using hd
      simp only [hd', Bool.false_eq_true, if_false] at h
      by_cases hs : splitGuard nRows cfg.minSamplesSplit = true
      · simp only [hs, if_true, Option.some.injEq, Prod.mk.injEq] at h
        obtain ⟨rfl, _⟩ := h; rfl
      · have hs' : splitGuard nRows cfg.minSamplesSplit = false := by simpa using hs
        simp only [hs', Bool.false_eq_true, if_false] at h
        split at h
        · cases h
        · split at h
          · cases h
          · simp only [Option.some.injEq, Prod.mk.injEq] at h
            obtain ⟨rfl, _⟩ := h; rfl

/-! ### the statement's description of a row's path, as a predicate -/

/-- `RootToTerminal r n l`: `l` starts at `n`; each next node is the child on the side chosen by the
parent's probability against its threshold; the last node has no child on the chosen side. -/
inductive RootToTerminal {ρ} (r : ρ) : Node ρ → List (Node ρ) → Prop where
  | stopAbove (n : Node ρ) : n.prob r > n.threshold → n.childAbove = none → RootToTerminal r n [n]
  | stopBelow (n : Node ρ) : ¬ n.prob r > n.threshold → n.childBelow = none → RootToTerminal r n [n]
  | goAbove (n c : Node ρ) (l : List (Node ρ)) : n.prob r > n.threshold → n.childAbove = some c →
      RootToTerminal r c l → RootToTerminal r n (n :: l)
  | goBelow (n c : Node ρ) (l : List (Node ρ)) : ¬ n.prob r > n.threshold → n.childBelow = some c →
      RootToTerminal r c l → RootToTerminal r n (n :: l)

theorem pathNodes_rootToTerminal {ρ} : ∀ (n : Node ρ) (r : ρ), RootToTerminal r n (pathNodes n r) := by
  intro n
  induction n using Node.ind with
  | step i thr d p0 p1 a b iha ihb =>
    intro r
    rw [pathNodes_mk]
    by_cases h : p1 r > thr
    · rw [if_pos h]
      cases a with
      | none => exact RootToTerminal.stopAbove _ h rfl
      | some c => exact RootToTerminal.goAbove _ c _ h rfl (iha c rfl r)
    · rw [if_neg h]
      cases b with
      | none => exact RootToTerminal.stopBelow _ h rfl
      | some c => exact RootToTerminal.goBelow _ c _ h rfl (ihb c rfl r)

/-- and it is the only such list -/
theorem rootToTerminal_unique {ρ} (r : ρ) (n : Node ρ) (l : List (Node ρ)) (h : RootToTerminal r n l) :
    l = pathNodes n r := by
  induction h with
  | stopAbove n h1 h2 =>
    obtain ⟨i, thr, d, p0, p1, a, b⟩ := n
    simp only at h1 h2
    subst h2
    rw [pathNodes_mk, if_pos h1]
  | stopBelow n h1 h2 =>
    obtain ⟨i, thr, d, p0, p1, a, b⟩ := n
    simp only at h1 h2
    subst h2
    rw [pathNodes_mk, if_neg h1]
  | goAbove n c l h1 h2 _ ih =>
    obtain ⟨i, thr, d, p0, p1, a, b⟩ := n
    simp only at h1 h2
    subst h2
    rw [pathNodes_mk, if_pos h1, ih]
  | goBelow n c l h1 h2 _ ih =>
    obtain ⟨i, thr, d, p0, p1, a, b⟩ := n
    simp only at h1 h2
    subst h2
    rw [pathNodes_mk, if_neg h1, ih]

end MlVerif.DTLR
