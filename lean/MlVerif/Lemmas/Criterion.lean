/-
C09 — helper lemmas: loops as sums, prefix sums, buffer writes (core Lean only).
-/
import MlVerif.Model.Criterion
namespace MlVerif.Criterion

/-! ### loops -/

theorem loopN_last {σ} (n : Nat) (k : Int) (body : Int → σ → σ) (s : σ) :
    loopN (n + 1) k body s = body (k + n) (loopN n k body s) := by
  induction n generalizing k s with
  | zero => simp [loopN]
  | succ n ih =>
    rw [loopN, ih]
    simp only [loopN]
    congr 1
    push_cast; omega

theorem loop_empty {σ} (lo hi : Int) (h : hi ≤ lo) (body : Int → σ → σ) (s : σ) :
    loop (lo, hi) body s = s := by
  have : (hi - lo).toNat = 0 := by omega
  simp [loop, this, loopN]

/-! ### sums -/

theorem rsumN_head (f : Int → Rat) (lo : Int) (n : Nat) :
    rsumN f lo (n + 1) = f lo + rsumN f (lo + 1) n := by
  induction n with
  | zero => simp only [rsumN]; grind
  | succ n ih =>
    rw [rsumN, ih]
    simp only [rsumN]
    have : lo + 1 + (n : Int) = lo + ((n + 1 : Nat) : Int) := by push_cast; omega
    rw [this]; grind

theorem rsumN_congr (f g : Int → Rat) (lo : Int) (n : Nat)
    (h : ∀ k, lo ≤ k → k < lo + n → f k = g k) : rsumN f lo n = rsumN g lo n := by
  induction n with
  | zero => rfl
  | succ n ih =>
    simp only [rsumN]
    rw [ih (fun k h1 h2 => h k h1 (by push_cast; omega)), h (lo + n) (by omega) (by push_cast; omega)]

theorem rsumN_add (f : Int → Rat) (lo : Int) (m n : Nat) :
    rsumN f lo (m + n) = rsumN f lo m + rsumN f (lo + m) n := by
  induction n with
  | zero => simp only [rsumN, Nat.add_zero]; grind
  | succ n ih =>
    rw [← Nat.add_assoc, rsumN, ih, rsumN]
    have : lo + ((m + n : Nat) : Int) = lo + m + n := by push_cast; omega
    rw [this]; grind

theorem rsum_congr (f g : Int → Rat) (lo hi : Int)
    (h : ∀ k, lo ≤ k → k < hi → f k = g k) : rsum f lo hi = rsum g lo hi := by
  unfold rsum
  apply rsumN_congr
  intro k h1 h2
  exact h k h1 (by omega)

theorem rsum_empty (f : Int → Rat) (lo hi : Int) (h : hi ≤ lo) : rsum f lo hi = 0 := by
  have : (hi - lo).toNat = 0 := by omega
  simp [rsum, this, rsumN]

theorem rsum_split (f : Int → Rat) (lo mid hi : Int) (h1 : lo ≤ mid) (h2 : mid ≤ hi) :
    rsum f lo hi = rsum f lo mid + rsum f mid hi := by
  unfold rsum
  have e : (hi - lo).toNat = (mid - lo).toNat + (hi - mid).toNat := by omega
  rw [e, rsumN_add]
  have : lo + ((mid - lo).toNat : Int) = mid := by omega
  rw [this]

theorem rsum_succ (f : Int → Rat) (lo hi : Int) (h : lo ≤ hi) :
    rsum f lo (hi + 1) = rsum f lo hi + f hi := by
  unfold rsum
  have e : (hi + 1 - lo).toNat = (hi - lo).toNat + 1 := by omega
  rw [e, rsumN]
  have : lo + ((hi - lo).toNat : Int) = hi := by omega
  rw [this]

theorem rsum_one (f : Int → Rat) (lo : Int) : rsum f lo (lo + 1) = f lo := by
  rw [rsum_succ f lo lo (by omega), rsum_empty f lo lo (by omega)]; grind

/-- the list form of the sum: Σ over the indices `lo, lo+1, …, lo+n-1` -/
theorem rsumN_eq_list_sum (f : Int → Rat) (lo : Int) (n : Nat) :
    rsumN f lo n = ((List.range n).map (fun i : Nat => f (lo + i))).sum := by
  induction n with
  | zero => simp [rsumN]
  | succ n ih => simp [rsumN, List.range_succ, ih]; grind

/-- Σ w (y − m)² = Σ w y² − 2 m Σ w y + m² Σ w -/
theorem rsumN_sq_expand (w y : Int → Rat) (m : Rat) (lo : Int) (n : Nat) :
    rsumN (fun k => w k * (y k - m) ^ 2) lo n =
      rsumN (fun k => w k * y k * y k) lo n - 2 * m * rsumN (fun k => w k * y k) lo n
        + m ^ 2 * rsumN w lo n := by
  induction n with
  | zero => simp only [rsumN]; grind
  | succ n ih => simp only [rsumN]; rw [ih]; grind

/-- an accumulation loop is a sum -/
theorem loopN_acc (f : Int → Rat) (n : Nat) (k : Int) (a : Rat) :
    loopN n k (fun k (a : Rat) => a + f k) a = a + rsumN f k n := by
  induction n with
  | zero => simp only [loopN, rsumN]; grind
  | succ n ih => rw [loopN_last, ih]; simp only [rsumN]; grind

theorem loop_acc (f : Int → Rat) (lo hi : Int) (a : Rat) :
    loop (lo, hi) (fun k (a : Rat) => a + f k) a = a + rsum f lo hi := by
  simp only [loop, rsum]; exact loopN_acc f _ lo a

theorem loopN_acc2 (f g : Int → Rat) (n : Nat) (k : Int) (a b : Rat) :
    loopN n k (fun k (mw : Rat × Rat) => (mw.1 + f k, mw.2 + g k)) (a, b)
      = (a + rsumN f k n, b + rsumN g k n) := by
  induction n with
  | zero => simp only [loopN, rsumN]; ext <;> simp <;> grind
  | succ n ih => rw [loopN_last, ih]; simp only [rsumN]; ext <;> simp <;> grind

theorem loop_acc2 (f g : Int → Rat) (lo hi : Int) (a b : Rat) :
    loop (lo, hi) (fun k (mw : Rat × Rat) => (mw.1 + f k, mw.2 + g k)) (a, b)
      = (a + rsum f lo hi, b + rsum g lo hi) := by
  simp only [loop, rsum]; exact loopN_acc2 f g _ lo a b

theorem bset_same {α} (b : Int → α) (i : Int) (v : α) : bset b i v i = v := by simp [bset]
theorem bset_other {α} (b : Int → α) (i j : Int) (v : α) (h : j ≠ i) : bset b i v j = b j := by
  simp [bset, h]

end MlVerif.Criterion
