/-
C07 — helper lemmas for `_constraint_association_gain` (core Lean only):
the allowance vector, the transfer/swap loop invariant, the last pass of plain transfers.
-/
import MlVerif.Lemmas.Balance
namespace MlVerif.Balance
open MlVerif.Gen

/-- What the proofs need from the source-level tests and updates of the gain association.
`genCfg_good` (Properties/C07.lean) proves it for the REGENERATED definitions. -/
structure GoodCfg (cfg : GainCfg) : Prop where
  ave : ∀ l, cfg.ave l = l
  clip01 : ∀ x, cfg.clip x = 0 ∨ cfg.clip x = 1
  nover : ∀ n a k, cfg.nover n a k = n - a * k
  sumi : ∀ nv s, cfg.sumi nv s = nv - s
  guard : ∀ s, cfg.adjustGuard s = false → s = 0
  negCond : ∀ s l, cfg.negCond s l = true ↔ (s < 0 ∧ 0 < l)
  posCond : ∀ s l, cfg.posCond s l = true ↔ (0 < s ∧ l = 0)
  neg : ∀ s l, cfg.neg s l = (s + l, 0)
  pos : ∀ s l, cfg.pos s l = (s - 1, 1)
  detBreak : ∀ s, cfg.detBreak s = true → s = 0
  finalPass : cfg.finalPass = true
  finalQuota : ∀ cd cc a ld lcu, cfg.finalQuota cd cc a ld lcu = true ↔ (cd < a + ld ∧ cc > a + lcu)

/-! ### the allowance vector -/

/-- `leftclose` is a 0/1 vector and `sumi` is what is still missing to reach `nover` ones -/
def AJ (k : Nat) (nover : Int) (s : Int × Arr Int) : Prop :=
  (∀ c, c < k → s.2.get c = 0 ∨ s.2.get c = 1) ∧ s.1 = nover - sumTo s.2.get k

theorem loopf_cases {cfg : GainCfg} (good : GoodCfg cfg) (h : Nat) (s : Int × Arr Int) :
    (s.1 < 0 ∧ 0 < s.2.get h ∧ loopf cfg h s = (s.1 + s.2.get h, upd s.2 h 0)) ∨
    (0 < s.1 ∧ s.2.get h = 0 ∧ loopf cfg h s = (s.1 - 1, upd s.2 h 1)) ∨
    (¬ (s.1 < 0 ∧ 0 < s.2.get h) ∧ ¬ (0 < s.1 ∧ s.2.get h = 0) ∧ loopf cfg h s = s) := by
  unfold loopf
  by_cases h1 : cfg.negCond s.1 (s.2.get h) = true
  · have := (good.negCond _ _).mp h1
    left
    refine ⟨this.1, this.2, ?_⟩
    rw [if_pos h1, good.neg]
  · have n1 : ¬ (s.1 < 0 ∧ 0 < s.2.get h) := fun q => h1 ((good.negCond _ _).mpr q)
    by_cases h2 : cfg.posCond s.1 (s.2.get h) = true
    · have := (good.posCond _ _).mp h2
      right; left
      refine ⟨this.1, this.2, ?_⟩
      rw [if_neg h1, if_pos h2, good.pos]
    · have n2 : ¬ (0 < s.1 ∧ s.2.get h = 0) := fun q => h2 ((good.posCond _ _).mpr q)
      right; right
      refine ⟨n1, n2, ?_⟩
      rw [if_neg h1, if_neg h2]

theorem loopf_AJ {cfg : GainCfg} (good : GoodCfg cfg) (k : Nat) (nover : Int) (h : Nat) (hh : h < k)
    (s : Int × Arr Int) (J : AJ k nover s) : AJ k nover (loopf cfg h s) := by
  obtain ⟨hb, hs⟩ := J
  rcases loopf_cases good h s with ⟨a, b, e⟩ | ⟨a, b, e⟩ | ⟨_, _, e⟩
  · rw [e]
    refine ⟨fun c hc => ?_, ?_⟩
    · show (upd s.2 h 0).get c = 0 ∨ _
      rw [upd_get]; split
      · left; rfl
      · exact hb c hc
    · show s.1 + s.2.get h = nover - sumTo (upd s.2 h 0).get k
      rw [sumTo_upd _ _ _ _ hh]; omega
  · rw [e]
    refine ⟨fun c hc => ?_, ?_⟩
    · show (upd s.2 h 1).get c = 0 ∨ _
      rw [upd_get]; split
      · right; rfl
      · exact hb c hc
    · show s.1 - 1 = nover - sumTo (upd s.2 h 1).get k
      rw [sumTo_upd _ _ _ _ hh]; omega
  · rw [e]; exact ⟨hb, hs⟩

theorem adjustRand_AJ {cfg : GainCfg} (good : GoodCfg cfg) (k : Nat) (nover : Int) :
    ∀ (draws : List Nat) (it : Int) (s s' : Int × Arr Int), (∀ h, h ∈ draws → h < k) → AJ k nover s →
      adjustRand cfg k draws it s = some s' → AJ k nover s' := by
  intro draws
  induction draws with
  | nil =>
    intro it s s' _ J h
    simp only [adjustRand] at h
    split at h
    · cases h
    · cases h; exact J
  | cons d ds ih =>
    intro it s s' hd J h
    simp only [adjustRand] at h
    have J1 := loopf_AJ good k nover d (hd d (List.mem_cons_self ..)) s J
    split at h
    · split at h
      · cases h; exact J1
      · exact ih (it + 1) _ s' (fun x hx => hd x (List.mem_cons_of_mem _ hx)) J1 h
    · cases h; exact J

/-- invariant of the deterministic pass at index j -/
def DetInv (k : Nat) (nover : Int) (j : Nat) (s : Int × Arr Int) : Prop :=
  AJ k nover s ∧ (s.1 < 0 → -s.1 ≤ sumTo s.2.get k - sumTo s.2.get j) ∧
    (0 < s.1 → s.1 ≤ ((k : Int) - j) - (sumTo s.2.get k - sumTo s.2.get j))

theorem adjustDet_zero {cfg : GainCfg} (good : GoodCfg cfg) (k : Nat) (nover : Int) :
    ∀ (m j : Nat) (s : Int × Arr Int), j + m = k → DetInv k nover j s →
      AJ k nover (adjustDet cfg (List.range' j m) s) ∧ (adjustDet cfg (List.range' j m) s).1 = 0 := by
  intro m
  induction m with
  | zero =>
    intro j s hj inv
    have : j = k := by omega
    subst this
    simp only [List.range'_zero, adjustDet]
    obtain ⟨J, a, b⟩ := inv
    refine ⟨J, ?_⟩
    by_cases h1 : s.1 < 0
    · have := a h1; omega
    · by_cases h2 : 0 < s.1
      · have := b h2; omega
      · omega
  | succ m ih =>
    intro j s hj inv
    rw [List.range'_succ]
    simp only [adjustDet]
    split
    · rename_i hb
      exact ⟨inv.1, good.detBreak _ hb⟩
    · apply ih (j + 1) _ (by omega)
      obtain ⟨J, a, b⟩ := inv
      have J1 := loopf_AJ good k nover j (by omega) s J
      refine ⟨J1, ?_⟩
      have hjk : j < k := by omega
      have hbit := J.1 j hjk
      rcases loopf_cases good j s with ⟨c1, c2, e⟩ | ⟨c1, c2, e⟩ | ⟨c1, c2, e⟩
      · rw [e]
        have hk := sumTo_upd s.2 j k 0 hjk
        have hj0 : sumTo (upd s.2 j 0).get j = sumTo s.2.get j := sumTo_upd_ge s.2 j j 0 (by omega)
        have hj1 : sumTo (upd s.2 j 0).get (j + 1) = sumTo s.2.get j + 0 := by
          simp only [sumTo, hj0, upd_get_same]
        have := a c1
        constructor
        · intro _
          show -(s.1 + s.2.get j) ≤ sumTo (upd s.2 j 0).get k - sumTo (upd s.2 j 0).get (j + 1)
          omega
        · intro q
          have : 0 < s.1 + s.2.get j := q
          omega
      · rw [e]
        have hk := sumTo_upd s.2 j k 1 hjk
        have hj0 : sumTo (upd s.2 j 1).get j = sumTo s.2.get j := sumTo_upd_ge s.2 j j 1 (by omega)
        have hj1 : sumTo (upd s.2 j 1).get (j + 1) = sumTo s.2.get j + 1 := by
          simp only [sumTo, hj0, upd_get_same]
        have := b c1
        constructor
        · intro q
          have : s.1 - 1 < 0 := q
          omega
        · intro _
          show s.1 - 1 ≤ ((k : Int) - ((j + 1 : Nat) : Int)) - (sumTo (upd s.2 j 1).get k - sumTo (upd s.2 j 1).get (j + 1))
          omega
      · rw [e]
        have hj1 : sumTo s.2.get (j + 1) = sumTo s.2.get j + s.2.get j := by simp only [sumTo]
        constructor
        · intro q
          have := a q
          have : s.2.get j = 0 := by omega
          omega
        · intro q
          have := b q
          have : s.2.get j = 1 := by omega
          show s.1 ≤ ((k : Int) - ((j + 1 : Nat) : Int)) - (sumTo s.2.get k - sumTo s.2.get (j + 1))
          omega

/-- Whatever the draws, the adjusted allowance is a 0/1 vector with exactly `n - ave·k` ones. -/
theorem allowance_good {cfg : GainCfg} (good : GoodCfg cfg) (n k : Nat) (ave : Int)
    (h0 : 0 ≤ (n : Int) - ave * k) (h1 : (n : Int) - ave * k ≤ k) (cnt : Arr Int) (draws : List Nat)
    (hd : ∀ h, h ∈ draws → h < k) (lc : Arr Int) (h : allowance cfg n k ave cnt draws = some lc) :
    (∀ c, c < k → lc.get c = 0 ∨ lc.get c = 1) ∧ sumTo lc.get k = (n : Int) - ave * k := by
  unfold allowance at h
  simp only [] at h
  have hbits : ∀ c, c < k → (tabulate k (fun c => cfg.clip (cfg.lc0 (cnt.get c) ave))).get c = 0 ∨
      (tabulate k (fun c => cfg.clip (cfg.lc0 (cnt.get c) ave))).get c = 1 := fun c _ => by
    rw [tabulate_get]; exact good.clip01 _
  have J0 : AJ k ((n : Int) - ave * k)
      (cfg.sumi (cfg.nover n ave k) (sumTo (tabulate k (fun c => cfg.clip (cfg.lc0 (cnt.get c) ave))).get k),
       tabulate k (fun c => cfg.clip (cfg.lc0 (cnt.get c) ave))) := by
    refine ⟨hbits, ?_⟩
    show cfg.sumi (cfg.nover n ave k) _ = _
    rw [good.sumi, good.nover]
  split at h
  · split at h
    · cases h
    · rename_i s hs
      cases h
      have J1 := adjustRand_AJ good k _ draws 0 _ s hd J0 hs
      have hsum0 : 0 ≤ sumTo s.2.get k := sumTo_nonneg _ _ (fun c hc => by rcases J1.1 c hc with q | q <;> omega)
      have hsumk : sumTo s.2.get k ≤ k := by
        have := sumTo_le s.2.get (fun _ => 1) k (fun c hc => by rcases J1.1 c hc with q | q <;> omega)
        rw [sumTo_const] at this; omega
      have D0 : DetInv k ((n : Int) - ave * k) 0 s := by
        refine ⟨J1, ?_, ?_⟩
        · intro _; have := J1.2; simp only [sumTo]; omega
        · intro _; have := J1.2; simp only [sumTo]; omega
      have := adjustDet_zero good k _ k 0 s (by omega) D0
      rw [← List.range_eq_range'] at this
      obtain ⟨J2, z⟩ := this
      refine ⟨fun c hc => by rw [memo_get]; exact J2.1 c hc, ?_⟩
      have e := sumTo_congr (memo (adjustDet cfg (List.range k) s).2).get (adjustDet cfg (List.range k) s).2.get k
        (fun c _ => memo_get _ c)
      rw [e]
      have := J2.2; omega
  · rename_i hg
    cases h
    have hz := good.guard _ (by simpa using hg)
    refine ⟨hbits, ?_⟩
    have := J0.2
    simp only [] at this
    rw [hz] at this
    show sumTo (tabulate k (fun c => cfg.clip (cfg.lc0 (cnt.get c) ave))).get k = _
    omega

/-! ### the transfer / swap loop keeps counters and labels consistent -/

/-- every recorded candidate of the `transfer` dictionary is a point that either moved since or is still in
the cluster it was registered from -/
def TrOK (n : Nat) (moved : Arr Bool) (lab : Arr Nat) (t : Transfer) : Prop :=
  ∀ e, e ∈ t → ∀ x, x ∈ e.2 → x.2 < n ∧ (moved.get x.2 = true ∨ lab.get x.2 = e.1.1)

structure GInv (n k : Nat) (s : GSt) : Prop where
  valid : ∀ i, i < n → s.lab.get i < k
  cons : ∀ c, c < k → s.cnt.get c = (hist s.lab n c : Int)
  tr : TrOK n s.moved s.lab s.tr

theorem tget_mem (t : Transfer) (key : Key) (v : List (Int × Nat)) (h : tget t key = some v) :
    ∃ e, e ∈ t ∧ e.1 = key ∧ e.2 = v := by
  induction t with
  | nil => simp [tget] at h
  | cons e es ih =>
    simp only [tget] at h
    split at h
    · rename_i he
      cases h
      exact ⟨e, List.mem_cons_self .., he, rfl⟩
    · obtain ⟨e', h1, h2⟩ := ih h
      exact ⟨e', List.mem_cons_of_mem _ h1, h2⟩

theorem tset_mem (t : Transfer) (key : Key) (v : List (Int × Nat)) (e : Key × List (Int × Nat))
    (h : e ∈ tset t key v) : e = (key, v) ∨ e ∈ t := by
  induction t with
  | nil => simp [tset] at h; exact Or.inl h
  | cons a as ih =>
    simp only [tset] at h
    split at h
    · rcases List.mem_cons.mp h with q | q
      · exact Or.inl q
      · exact Or.inr (List.mem_cons_of_mem _ q)
    · rcases List.mem_cons.mp h with q | q
      · exact Or.inr (by rw [q]; exact List.mem_cons_self ..)
      · rcases ih q with r | r
        · exact Or.inl r
        · exact Or.inr (List.mem_cons_of_mem _ r)

theorem dropMoved_mem (moved : Arr Bool) (l : List (Int × Nat)) (x : Int × Nat) (h : x ∈ dropMoved moved l) :
    x ∈ l := by
  induction l with
  | nil => simp [dropMoved] at h
  | cons a as ih =>
    simp only [dropMoved] at h
    split at h
    · exact List.mem_cons_of_mem _ (ih h)
    · exact h

theorem dropMoved_head (moved : Arr Bool) (l : List (Int × Nat)) (y : Int × Nat) (r : List (Int × Nat))
    (h : dropMoved moved l = y :: r) : moved.get y.2 = false := by
  induction l with
  | nil => simp [dropMoved] at h
  | cons a as ih =>
    simp only [dropMoved] at h
    split at h
    · exact ih h
    · rename_i hm
      cases h
      cases hq : moved.get y.2 with
      | false => rfl
      | true => exact absurd hq hm

theorem insort_mem (y : Int × Nat) (l : List (Int × Nat)) (x : Int × Nat) (h : x ∈ insort y l) :
    x = y ∨ x ∈ l := by
  induction l with
  | nil => simp [insort] at h; exact Or.inl h
  | cons a as ih =>
    simp only [insort] at h
    split at h
    · rcases List.mem_cons.mp h with q | q
      · exact Or.inl q
      · exact Or.inr q
    · rcases List.mem_cons.mp h with q | q
      · exact Or.inr (by rw [q]; exact List.mem_cons_self ..)
      · rcases ih q with r | r
        · exact Or.inl r
        · exact Or.inr (List.mem_cons_of_mem _ r)

theorem TrOK_mono (n : Nat) (moved moved' : Arr Bool) (lab lab' : Arr Nat) (t : Transfer)
    (h : ∀ i, moved'.get i = true ∨ (moved'.get i = moved.get i ∧ lab'.get i = lab.get i))
    (ok : TrOK n moved lab t) : TrOK n moved' lab' t := by
  intro e he x hx
  obtain ⟨a, b⟩ := ok e he x hx
  refine ⟨a, ?_⟩
  rcases h x.2 with q | ⟨q1, q2⟩
  · exact Or.inl q
  · rw [q1, q2]; exact b

theorem TrOK_sub (n : Nat) (moved : Arr Bool) (lab : Arr Nat) (t : Transfer) (key : Key) (v v0 : List (Int × Nat))
    (ok : TrOK n moved lab t) (hg : tget t key = some v0) (hsub : ∀ x, x ∈ v → x ∈ v0) :
    TrOK n moved lab (tset t key v) := by
  intro e he x hx
  rcases tset_mem t key v e he with q | q
  · obtain ⟨e0, h1, h2, h3⟩ := tget_mem t key v0 hg
    rw [q] at hx ⊢
    have := ok e0 h1 x (by rw [h3]; exact hsub x hx)
    rw [h2] at this
    exact this
  · exact ok e q x hx

theorem TrOK_add (n : Nat) (moved : Arr Bool) (lab : Arr Nat) (t : Transfer) (cur dest ind : Nat) (gain : Int)
    (ok : TrOK n moved lab t) (hind : ind < n) (hl : lab.get ind = cur) :
    TrOK n moved lab (tset t (cur, dest) (insort (gain, ind) ((tget t (cur, dest)).getD []))) := by
  intro e he x hx
  rcases tset_mem _ _ _ e he with q | q
  · rw [q] at hx ⊢
    rcases insort_mem _ _ x hx with r | r
    · rw [r]; exact ⟨hind, Or.inr hl⟩
    · cases hg : tget t (cur, dest) with
      | none => rw [hg] at r; simp at r
      | some v0 =>
        rw [hg] at r
        obtain ⟨e0, h1, h2, h3⟩ := tget_mem t (cur, dest) v0 hg
        have := ok e0 h1 x (by rw [h3]; exact r)
        rw [h2] at this
        exact this
  · exact ok e q x hx

/-- one row of `sorted_distances` (transfer, swap or registration) keeps the invariant -/
theorem gainStep_inv (cfg : GainCfg) (ave : Int) (lc : Arr Int) (G : Nat → Nat → Int) (n k : Nat)
    (p : Nat × Nat) (hp1 : p.1 < n) (hp2 : p.2 < k) (s : GSt) (inv : GInv n k s) :
    GInv n k (gainStep cfg ave lc G p s) := by
  unfold gainStep
  simp only []
  have hcur := inv.valid p.1 hp1
  split
  · exact inv
  · rename_i hmv
    split
    · exact inv
    · rename_i hne
      split
      · -- plain transfer
        refine ⟨?_, ?_, ?_⟩
        · intro i hi
          show (upd s.lab p.1 p.2).get i < k
          rw [upd_get]; split
          · exact hp2
          · exact inv.valid i hi
        · intro c hc
          show (upd (upd s.cnt (s.lab.get p.1) (s.cnt.get (s.lab.get p.1) - 1)) p.2 (s.cnt.get p.2 + 1)).get c =
            (hist (upd s.lab p.1 p.2) n c : Int)
          rw [hist_upd _ _ _ _ _ hp1, upd_get, upd_get]
          have h1 := inv.cons c hc
          have h2 := inv.cons p.2 hp2
          have h3 := inv.cons _ hcur
          rcases Decidable.em (c = p.2) with a | a
          · subst a
            rw [if_pos rfl, if_neg hne, if_pos rfl]; omega
          · rcases Decidable.em (c = s.lab.get p.1) with b | b
            · subst b
              rw [if_neg a, if_pos rfl, if_pos rfl, if_neg (fun q => a q.symm)]; omega
            · rw [if_neg a, if_neg b, if_neg (fun q => b q.symm), if_neg (fun q => a q.symm)]; omega
        · show TrOK n (upd s.moved p.1 true) (upd s.lab p.1 p.2) s.tr
          apply TrOK_mono n s.moved _ s.lab _ s.tr _ inv.tr
          intro i
          rw [upd_get, upd_get]
          by_cases e : i = p.1
          · left; rw [if_pos e]
          · right; rw [if_neg e, if_neg e]; exact ⟨rfl, rfl⟩
      · -- swap or registration
        have hadd : ∀ t, TrOK n s.moved s.lab t →
            GInv n k (GSt.mk s.lab s.cnt s.moved (tset t (s.lab.get p.1, p.2)
              (insort (G p.1 p.2, p.1) ((tget t (s.lab.get p.1, p.2)).getD [])))) := fun t ok =>
          ⟨inv.valid, inv.cons, TrOK_add n s.moved s.lab t _ _ _ _ ok hp1 rfl⟩
        split
        · exact hadd s.tr inv.tr
        · rename_i cp0 hcp0
          have ok1 : TrOK n s.moved s.lab (tset s.tr (p.2, s.lab.get p.1) (dropMoved s.moved cp0)) :=
            TrOK_sub n s.moved s.lab s.tr _ _ cp0 inv.tr hcp0 (fun x hx => dropMoved_mem _ _ x hx)
          split
          · exact hadd _ ok1
          · rename_i g destind rest hcp
            split
            · -- swap with the head candidate `destind`
              have hunm := dropMoved_head s.moved cp0 (g, destind) rest hcp
              obtain ⟨e0, h1, h2, h3⟩ := tget_mem s.tr _ cp0 hcp0
              have hmem : (g, destind) ∈ cp0 := dropMoved_mem s.moved cp0 _ (by rw [hcp]; exact List.mem_cons_self ..)
              have hd := inv.tr e0 h1 (g, destind) (by rw [h3]; exact hmem)
              rw [h2] at hd
              have hdn : destind < n := hd.1
              have hdl : s.lab.get destind = p.2 := by
                rcases hd.2 with q | q
                · have : s.moved.get destind = false := hunm
                  rw [this] at q; cases q
                · exact q
              have hdi : destind ≠ p.1 := by
                intro q; rw [q] at hdl; exact hne hdl
              refine ⟨?_, ?_, ?_⟩
              · intro i hi
                show (upd (upd s.lab p.1 p.2) destind (s.lab.get p.1)).get i < k
                rw [upd_get, upd_get]; split
                · exact hcur
                · split
                  · exact hp2
                  · exact inv.valid i hi
              · intro c hc
                show s.cnt.get c = (hist (upd (upd s.lab p.1 p.2) destind (s.lab.get p.1)) n c : Int)
                rw [hist_upd _ _ _ _ _ hdn, hist_upd _ _ _ _ _ hp1, upd_get_other _ _ _ _ hdi, hdl]
                have := inv.cons c hc
                rcases Decidable.em (s.lab.get p.1 = c) with a | a <;>
                  rcases Decidable.em (p.2 = c) with b | b
                · exact absurd (a.trans b.symm) hne
                · rw [if_pos a, if_neg b]; omega
                · rw [if_neg a, if_pos b]; omega
                · rw [if_neg a, if_neg b]; omega
              · show TrOK n (upd (upd s.moved p.1 true) destind true)
                  (upd (upd s.lab p.1 p.2) destind (s.lab.get p.1))
                  (tset (tset s.tr (p.2, s.lab.get p.1) (dropMoved s.moved cp0)) (p.2, s.lab.get p.1) rest)
                have ok2 : TrOK n s.moved s.lab
                    (tset (tset s.tr (p.2, s.lab.get p.1) (dropMoved s.moved cp0)) (p.2, s.lab.get p.1) rest) := by
                  intro e he x hx
                  rcases tset_mem _ _ _ e he with q | q
                  · rw [q] at hx ⊢
                    have hx0 : x ∈ cp0 := dropMoved_mem s.moved cp0 x (by rw [hcp]; exact List.mem_cons_of_mem _ hx)
                    have := inv.tr e0 h1 x (by rw [h3]; exact hx0)
                    rw [h2] at this
                    exact this
                  · exact ok1 e q x hx
                apply TrOK_mono n s.moved _ s.lab _ _ _ ok2
                intro i
                rw [upd_get, upd_get, upd_get, upd_get]
                by_cases e1 : i = destind
                · left; rw [if_pos e1]
                · by_cases e2 : i = p.1
                  · left; rw [if_neg e1, if_pos e2]
                  · right; rw [if_neg e1, if_neg e2, if_neg e1, if_neg e2]; exact ⟨rfl, rfl⟩
            · exact hadd _ ok1

theorem gainLoop_inv (cfg : GainCfg) (ave : Int) (lc : Arr Int) (G : Nat → Nat → Int) (n k : Nat) :
    ∀ (pairs : List (Nat × Nat)) (s : GSt), (∀ p, p ∈ pairs → p.1 < n ∧ p.2 < k) → GInv n k s →
      GInv n k (gainLoop cfg ave lc G pairs s) := by
  intro pairs
  induction pairs with
  | nil => intro s _ h; exact h
  | cons p ps ih =>
    intro s hp inv
    simp only [gainLoop]
    have := hp p (List.mem_cons_self ..)
    exact ih _ (fun q hq => hp q (List.mem_cons_of_mem _ hq)) (gainStep_inv cfg ave lc G n k p this.1 this.2 s inv)

/-! ### the last pass of plain transfers restores every quota -/

structure PInv (n k : Nat) (s : Arr Nat × Arr Int) : Prop where
  valid : ∀ i, i < n → s.1.get i < k
  cons : ∀ c, c < k → s.2.get c = (hist s.1 n c : Int)

theorem finalStep_eq {cfg : GainCfg} (good : GoodCfg cfg) (ave : Int) (lc : Arr Int) (p : Nat × Nat)
    (s : Arr Nat × Arr Int) :
    finalStep cfg ave lc p s =
      if s.1.get p.1 ≠ p.2 ∧ s.2.get p.2 < ave + lc.get p.2 ∧ s.2.get (s.1.get p.1) > ave + lc.get (s.1.get p.1) then
        (upd s.1 p.1 p.2, upd (upd s.2 (s.1.get p.1) (s.2.get (s.1.get p.1) - 1)) p.2 (s.2.get p.2 + 1))
      else s := by
  unfold finalStep
  simp only []
  by_cases h1 : s.1.get p.1 = p.2
  · rw [if_pos h1, if_neg (fun q => q.1 h1)]
  · rw [if_neg h1]
    by_cases h2 : cfg.finalQuota (s.2.get p.2) (s.2.get (s.1.get p.1)) ave (lc.get p.2) (lc.get (s.1.get p.1)) = true
    · have := (good.finalQuota _ _ _ _ _).mp h2
      rw [if_pos h2, if_pos ⟨h1, this.1, this.2⟩]
    · have : ¬ (s.1.get p.1 ≠ p.2 ∧ s.2.get p.2 < ave + lc.get p.2 ∧
          s.2.get (s.1.get p.1) > ave + lc.get (s.1.get p.1)) :=
        fun q => h2 ((good.finalQuota _ _ _ _ _).mpr ⟨q.2.1, q.2.2⟩)
      rw [if_neg h2, if_neg this]

theorem finalStep_PInv {cfg : GainCfg} (good : GoodCfg cfg) (ave : Int) (lc : Arr Int) (n k : Nat)
    (p : Nat × Nat) (hp1 : p.1 < n) (hp2 : p.2 < k) (s : Arr Nat × Arr Int) (inv : PInv n k s) :
    PInv n k (finalStep cfg ave lc p s) := by
  rw [finalStep_eq good]
  split
  · rename_i hq
    have hne := hq.1
    have hcur := inv.valid p.1 hp1
    refine ⟨?_, ?_⟩
    · intro i hi
      show (upd s.1 p.1 p.2).get i < k
      rw [upd_get]; split
      · exact hp2
      · exact inv.valid i hi
    · intro c hc
      show (upd (upd s.2 (s.1.get p.1) (s.2.get (s.1.get p.1) - 1)) p.2 (s.2.get p.2 + 1)).get c =
        (hist (upd s.1 p.1 p.2) n c : Int)
      rw [hist_upd _ _ _ _ _ hp1, upd_get, upd_get]
      have h1 := inv.cons c hc
      have h2 := inv.cons p.2 hp2
      have h3 := inv.cons _ hcur
      rcases Decidable.em (c = p.2) with a | a
      · subst a
        rw [if_pos rfl, if_neg hne, if_pos rfl]; omega
      · rcases Decidable.em (c = s.1.get p.1) with b | b
        · subst b
          rw [if_neg a, if_pos rfl, if_pos rfl, if_neg (fun q => a q.symm)]; omega
        · rw [if_neg a, if_neg b, if_neg (fun q => b q.symm), if_neg (fun q => a q.symm)]; omega
  · exact inv

/-- a cluster above (below) its quota after a step was above (below) it before, and a point of a cluster
above its quota was already in it -/
theorem finalStep_mono {cfg : GainCfg} (good : GoodCfg cfg) (ave : Int) (lc : Arr Int) (p : Nat × Nat)
    (s : Arr Nat × Arr Int) (c d i : Nat) :
    ((finalStep cfg ave lc p s).2.get c > ave + lc.get c →
      s.2.get c > ave + lc.get c ∧ ((finalStep cfg ave lc p s).1.get i = c → s.1.get i = c)) ∧
    ((finalStep cfg ave lc p s).2.get d < ave + lc.get d → s.2.get d < ave + lc.get d) := by
  rw [finalStep_eq good]
  split
  · rename_i hq
    obtain ⟨hne, hd, hc⟩ := hq
    constructor
    · intro h
      have h' : (upd (upd s.2 (s.1.get p.1) (s.2.get (s.1.get p.1) - 1)) p.2 (s.2.get p.2 + 1)).get c >
          ave + lc.get c := h
      rw [upd_get, upd_get] at h'
      have hcp : c ≠ p.2 := by
        intro q; subst q; rw [if_pos rfl] at h'; omega
      rw [if_neg hcp] at h'
      constructor
      · rcases Decidable.em (c = s.1.get p.1) with b | b
        · rw [← b] at hc; exact hc
        · rw [if_neg b] at h'; exact h'
      · intro hl
        have hl' : (upd s.1 p.1 p.2).get i = c := hl
        rw [upd_get] at hl'
        rcases Decidable.em (i = p.1) with e | e
        · rw [if_pos e] at hl'; exact absurd hl'.symm hcp
        · rw [if_neg e] at hl'; exact hl'
    · intro h
      have h' : (upd (upd s.2 (s.1.get p.1) (s.2.get (s.1.get p.1) - 1)) p.2 (s.2.get p.2 + 1)).get d <
          ave + lc.get d := h
      rw [upd_get, upd_get] at h'
      rcases Decidable.em (d = p.2) with a | a
      · rw [a]; exact hd
      · rw [if_neg a] at h'
        rcases Decidable.em (d = s.1.get p.1) with b | b
        · rw [if_pos b] at h'; rw [← b] at hc h'; omega
        · rw [if_neg b] at h'; exact h'
  · exact ⟨fun h => ⟨h, id⟩, id⟩

theorem finalLoop_stuck {cfg : GainCfg} (good : GoodCfg cfg) (ave : Int) (lc : Arr Int) (c d i : Nat) :
    ∀ (ps : List (Nat × Nat)) (s : Arr Nat × Arr Int),
      (finalLoop cfg ave lc ps s).2.get c > ave + lc.get c →
      (finalLoop cfg ave lc ps s).2.get d < ave + lc.get d →
      (finalLoop cfg ave lc ps s).1.get i = c →
      s.2.get c > ave + lc.get c ∧ s.2.get d < ave + lc.get d ∧ s.1.get i = c ∧ (i, d) ∉ ps := by
  intro ps
  induction ps with
  | nil => intro s h1 h2 h3; exact ⟨h1, h2, h3, fun h => by cases h⟩
  | cons p ps ih =>
    intro s h1 h2 h3
    simp only [finalLoop] at h1 h2 h3
    obtain ⟨a1, a2, a3, a4⟩ := ih _ h1 h2 h3
    have m := finalStep_mono good ave lc p s c d i
    obtain ⟨b1, b3⟩ := m.1 a1
    have b2 := m.2 a2
    have b3' := b3 a3
    refine ⟨b1, b2, b3', ?_⟩
    intro hm
    rcases List.mem_cons.mp hm with e | e
    · -- the pair (i, d) is processed now: the transfer happens, so point i leaves cluster c
      have hcd : c ≠ d := by intro q; subst q; omega
      rw [finalStep_eq good, ← e] at a3
      have hcond : s.1.get i ≠ d ∧ s.2.get d < ave + lc.get d ∧ s.2.get (s.1.get i) > ave + lc.get (s.1.get i) := by
        rw [b3']; exact ⟨hcd, b2, b1⟩
      rw [if_pos hcond] at a3
      have : (upd s.1 i d).get i = c := a3
      rw [upd_get_same] at this
      exact hcd this.symm
    · exact a4 e

theorem finalLoop_PInv {cfg : GainCfg} (good : GoodCfg cfg) (ave : Int) (lc : Arr Int) (n k : Nat) :
    ∀ (ps : List (Nat × Nat)) (s : Arr Nat × Arr Int), (∀ p, p ∈ ps → p.1 < n ∧ p.2 < k) → PInv n k s →
      PInv n k (finalLoop cfg ave lc ps s) := by
  intro ps
  induction ps with
  | nil => intro s _ h; exact h
  | cons p ps ih =>
    intro s hp inv
    simp only [finalLoop]
    have := hp p (List.mem_cons_self ..)
    exact ih _ (fun q hq => hp q (List.mem_cons_of_mem _ hq)) (finalStep_PInv good ave lc n k p this.1 this.2 s inv)

/-- After the last pass every cluster holds exactly its quota `ave + leftclose[c]`. -/
theorem finalLoop_exact {cfg : GainCfg} (good : GoodCfg cfg) (n k : Nat) (ave : Int) (lc : Arr Int)
    (hlc0 : ∀ c, c < k → 0 ≤ lc.get c) (have0 : 0 ≤ ave)
    (hsum : sumTo (fun c => ave + lc.get c) k = n)
    (pairs : List (Nat × Nat)) (hcov : ∀ i d, i < n → d < k → (i, d) ∈ pairs)
    (hrange : ∀ p, p ∈ pairs → p.1 < n ∧ p.2 < k) (s : Arr Nat × Arr Int) (inv : PInv n k s) :
    PInv n k (finalLoop cfg ave lc pairs s) ∧
    ∀ c, c < k → (finalLoop cfg ave lc pairs s).2.get c = ave + lc.get c := by
  have inv' := finalLoop_PInv good ave lc n k pairs s hrange inv
  refine ⟨inv', ?_⟩
  have hno : ∀ c d, c < k → d < k → (finalLoop cfg ave lc pairs s).2.get c > ave + lc.get c →
      (finalLoop cfg ave lc pairs s).2.get d < ave + lc.get d → False := by
    intro c d hc hd h1 h2
    have hpos : 0 < hist (finalLoop cfg ave lc pairs s).1 n c := by
      have := inv'.cons c hc; have := hlc0 c hc; omega
    obtain ⟨i, hi, hl⟩ := hist_pos_exists _ _ _ hpos
    exact (finalLoop_stuck good ave lc c d i pairs s h1 h2 hl).2.2.2 (hcov i d hi hd)
  have htot : sumTo (finalLoop cfg ave lc pairs s).2.get k = n := by
    rw [sumTo_congr _ _ k (fun c hc => inv'.cons c hc)]
    exact sum_hist _ n k inv'.valid
  by_cases hover : ∃ c, c < k ∧ (finalLoop cfg ave lc pairs s).2.get c > ave + lc.get c
  · obtain ⟨c, hc, h1⟩ := hover
    have hall : ∀ d, d < k → ave + lc.get d ≤ (finalLoop cfg ave lc pairs s).2.get d := by
      intro d hd
      by_cases q : (finalLoop cfg ave lc pairs s).2.get d < ave + lc.get d
      · exact absurd q (fun q => hno c d hc hd h1 q)
      · omega
    have := sumTo_eq_of_le (fun c => ave + lc.get c) (finalLoop cfg ave lc pairs s).2.get k hall (by omega)
    have := this c hc
    omega
  · have hall : ∀ d, d < k → (finalLoop cfg ave lc pairs s).2.get d ≤ ave + lc.get d := by
      intro d hd
      by_cases q : (finalLoop cfg ave lc pairs s).2.get d > ave + lc.get d
      · exact absurd ⟨d, hd, q⟩ hover
      · omega
    exact sumTo_eq_of_le (finalLoop cfg ave lc pairs s).2.get (fun c => ave + lc.get c) k hall (by omega)

theorem argminRow_lt (row : Nat → Int) (k : Nat) (hk : 0 < k) : argminRow row k < k := by
  induction k with
  | zero => omega
  | succ k ih =>
    simp only [argminRow]
    by_cases e : k = 0
    · simp [e]
    · have := ih (by omega)
      rw [if_neg e]; split <;> omega

/-- The gain association up to (not including) `_switch_clusters`: with the repaired tests it never hits
`assert neg <= 0` and every cluster ends with `limit` points, or `limit + 1` (only when n is not a multiple
of k) -- for every distance matrix, every start, every order of `sorted_distances`, every draw. -/
theorem gainCore_good {cfg : GainCfg} (good : GoodCfg cfg) (n k : Nat) (limit : Int) (hlim : 0 ≤ limit)
    (hlo0 : 0 ≤ (n : Int) - limit * k) (hlo : (n : Int) - limit * k ≤ k) (D : Mat) (lab0 : Arr Nat)
    (hv : ValidLab lab0 n k) (pairs : List (Nat × Nat)) (hcov : ∀ i d, i < n → d < k → (i, d) ∈ pairs)
    (hrange : ∀ p, p ∈ pairs → p.1 < n ∧ p.2 < k) (draws : List Nat) (hd : ∀ h, h ∈ draws → h < k) :
    gainCore cfg n k limit D lab0 pairs draws ≠ .error .assertion ∧
    ∀ r, gainCore cfg n k limit D lab0 pairs draws = .ok r →
      ValidLab r.1 n k ∧ ∀ c, c < k → (hist r.1 n c : Int) = limit ∨
        ((hist r.1 n c : Int) = limit + 1 ∧ 0 < (n : Int) - limit * k) := by
  unfold gainCore
  simp only [good.ave, good.finalPass, if_true]
  split
  · exact ⟨fun h => (by cases h), fun r h => (by cases h)⟩
  · rename_i lc hlc
    obtain ⟨hbits, hsumlc⟩ := allowance_good good n k limit hlo0 hlo _ draws hd lc hlc
    have inv0 : GInv n k (GSt.mk lab0 (tabulate k (fun c => (hist lab0 n c : Int))) (Arr.const n false) []) :=
      ⟨hv, fun c _ => (by show (tabulate k (fun c => (hist lab0 n c : Int))).get c = _; rw [tabulate_get]),
        fun e he => (by cases he)⟩
    have inv1 := gainLoop_inv cfg limit lc (fun i c => D.at i c - D.at i (lab0.get i)) n k pairs _ hrange inv0
    have hsum : sumTo (fun c => limit + lc.get c) k = n := by
      rw [sumTo_add, sumTo_const, hsumlc]
      have : (k : Int) * limit = limit * k := Int.mul_comm _ _
      omega
    generalize gainLoop cfg limit lc (fun i c => D.at i c - D.at i (lab0.get i)) pairs
      (GSt.mk lab0 (tabulate k (fun c => (hist lab0 n c : Int))) (Arr.const n false) []) = s1 at inv1 ⊢
    have pinv : PInv n k (s1.lab, s1.cnt) := ⟨inv1.valid, inv1.cons⟩
    obtain ⟨inv2, hex⟩ := finalLoop_exact good n k limit lc
      (fun c hc => by rcases hbits c hc with q | q <;> omega) hlim hsum pairs hcov hrange (s1.lab, s1.cnt) pinv
    have hz : countTo (fun c => decide ((finalLoop cfg limit lc pairs (s1.lab, s1.cnt)).2.get c < limit)) k = 0 := by
      apply countTo_zero_of_none
      intro c hc
      have := hex c hc
      have : ¬ (finalLoop cfg limit lc pairs (s1.lab, s1.cnt)).2.get c < limit := by
        rcases hbits c hc with q | q <;> omega
      simp [this]
    rw [hz]
    simp only [Nat.le_refl, if_true]
    refine ⟨fun h => (by cases h), fun r h => ?_⟩
    cases h
    refine ⟨inv2.valid, fun c hc => ?_⟩
    have h1 := hex c hc
    have h2 := inv2.cons c hc
    rcases hbits c hc with q | q
    · left; omega
    · right
      refine ⟨by omega, ?_⟩
      have := single_le_sumTo lc.get k c (fun x hx => by rcases hbits x hx with q | q <;> omega) hc
      omega

/-! ### helpers for Properties/C07.lean: switch, outer loop, argmin -/

theorem balanced_of_switch (D : Mat) (n k : Nat) (perm : List Nat) (hp : ∀ j, j ∈ perm → j < n) (lab : Arr Nat)
    (h : Balanced lab n k) : Balanced (switchClusters D perm lab) n k := by
  intro c hc
  rw [(switchClusters_inv D n k perm hp lab).1 c]; exact h c hc

theorem outerGuard_iff (iter maxIter : Int) : C07.outerGuard iter maxIter = true ↔ iter < maxIter := by
  unfold C07.outerGuard; simp <;> omega

theorem iterNext_eq (iter : Int) : C07.iterNext iter = iter + 1 := by
  unfold C07.iterNext; rfl

theorem outerLoop_inv {α} (assoc : Arr Nat → α → Option (Arr Nat)) (P : Arr Nat → Prop) (maxIter : Int) :
    ∀ (steps : List (α × Rat)) (lab : Arr Nat) (iter : Int) (best : Option Best) (r : Option Best × Int),
      (∀ lab a lab' x, (a, x) ∈ steps → assoc lab a = some lab' → P lab') →
      (∀ b, best = some b → P b.lab) → iter ≤ maxIter →
      outerLoop assoc maxIter steps lab iter best = some r →
      (∀ b, r.1 = some b → P b.lab) ∧ r.2 ≤ maxIter := by
  intro steps
  induction steps with
  | nil =>
    intro lab iter best r _ hb hi h
    simp only [outerLoop] at h
    split at h
    · cases h
    · cases h; exact ⟨hb, hi⟩
  | cons st rest ih =>
    intro lab iter best r hassoc hb hi h
    obtain ⟨a, inertia⟩ := st
    simp only [outerLoop] at h
    by_cases hg : C07.outerGuard iter maxIter = true
    · rw [if_pos hg] at h
      rw [outerGuard_iff] at hg
      cases hl : assoc lab a with
      | none => rw [hl] at h; cases h
      | some lab' =>
        rw [hl] at h
        simp only [] at h
        have hP := hassoc lab a lab' inertia (List.mem_cons_self ..) hl
        have hi' : C07.iterNext iter ≤ maxIter := by rw [iterNext_eq]; omega
        have hb' : ∀ b, updateBest best lab' inertia (C07.iterNext iter) = some b → P b.lab := by
          intro b hbb
          unfold updateBest at hbb
          split at hbb
          · cases hbb; exact hP
          · exact hb b hbb
        split at h
        · cases h; exact ⟨hb', hi'⟩
        · exact ih lab' _ _ r (fun lab a lab' x hx => hassoc lab a lab' x (List.mem_cons_of_mem _ hx)) hb' hi' h
    · rw [if_neg hg] at h; cases h; exact ⟨hb, hi⟩

theorem argminRow_min (row : Nat → Int) (k : Nat) : ∀ c, c < k → row (argminRow row k) ≤ row c := by
  induction k with
  | zero => intro c hc; omega
  | succ k ih =>
    intro c hc
    simp only [argminRow]
    by_cases e : k = 0
    · subst e
      have : c = 0 := by omega
      subst this; simp
    · rw [if_neg e]
      by_cases hc' : c = k
      · subst hc'
        split <;> omega
      · have := ih c (by omega)
        split <;> omega

/-! ### concrete witnesses used by Properties/C07.lean -/

def matOfLists (m : List (List Int)) : Mat := Arr.ofList (m.map (fun r => Arr.ofList r 0)) (Arr.ofList [] 0)

/-- D11 witness (replayed on the real code): 5 points, 3 clusters, all centres equal, start sizes 4,1,0 -/
def witD : Mat := matOfLists [[0,0,0],[0,0,0],[1,1,1],[1,1,1],[0,0,0]]
def witLab : Arr Nat := Arr.ofList [0,0,0,0,1] 0
def witPairs : List (Nat × Nat) := (List.range 15).map (fun r => (r / 3, r % 3))
def witDraws : List Nat := [0,1,2,0,2,0,1]
def witPerm : List Nat := [3,4,1,0,2]

/-- cluster sizes of the result of a gain association (`[]` = the call failed) -/
def gainSizes (cfg : GainCfg) (n k : Nat) (limit : Int) (D : Mat) (labP : Bool) (lab0 : Arr Nat)
    (pairs : List (Nat × Nat)) (draws perm : List Nat) : List Nat :=
  match assocGain cfg n k limit D labP lab0 pairs draws perm with
  | .ok lab => (List.range k).map (hist lab n)
  | .error _ => []

/-- distance witness: 5 points on a line, 2 clusters -/
def witD2 : Mat := matOfLists [[0,16],[1,9],[4,4],[9,1],[1,9]]
def witPrefs2 : Arr (List Nat) := Arr.ofList [[0,1],[0,1],[0,1],[1,0],[0,1]] []
def witPass2 : PassIn := { order := Arr.ofList [0,1,4,3,2] 0, rand := Arr.ofList [0, 1/2, 3/4, 1/4, 1] 0 }
def witPerm2 : List Nat := [4,2,0,1,3]

def distSizes (n k : Nat) (limit leftover : Int) (D : Mat) (prefs : Arr (List Nat)) (passes : List PassIn)
    (eps : Rat) (perm : List Nat) : List Nat :=
  match assocDistance n k limit leftover D prefs passes eps perm with
  | some lab => (List.range k).map (hist lab n)
  | none => []

/-- sizes of `best_labels` and the returned `iter` of a run of `constraint_kmeans` (`none` = failed) -/
def fitSizes {α} (assoc : Arr Nat → α → Option (Arr Nat)) (n k : Nat) (maxIter : Int) (lab0 : Arr Nat) (iter0 : Int)
    (first : α) (steps : List (α × Rat)) : Option (List Nat × Int) :=
  match constraintKMeans assoc maxIter lab0 iter0 first steps with
  | some (lab, it) => some ((List.range k).map (hist lab n), it)
  | none => none

end MlVerif.Balance
