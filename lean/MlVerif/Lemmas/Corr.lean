/-
C18 helper lemmas (core Lean only): sums, the population variance, the invariant of the per-cell
accumulation over draws.
-/
import MlVerif.Model.Corr

namespace MlVerif.Corr
open Lean.Grind Std
open MlVerif.Gen.C18 (maxR minR)
set_option linter.unusedSectionVars false

section
variable {α : Type} [Field α] [LE α] [LT α] [DecidableLE α] [DecidableLT α] [DecidableEq α]
  [IsLinearOrder α] [LawfulOrderLT α] [OrderedRing α]

theorem natTo_nonneg (k : Nat) : (0 : α) ≤ natTo k := by
  induction k with
  | zero => simp [natTo]
  | succ k ih => simp only [natTo]; grind

theorem natTo_pos (k : Nat) (h : 0 < k) : (0 : α) < natTo k := by
  cases k with
  | zero => omega
  | succ k => have := natTo_nonneg (α := α) k; simp only [natTo]; grind

theorem sumL_nonneg (l : List α) (h : ∀ x ∈ l, 0 ≤ x) : 0 ≤ sumL l := by
  induction l with
  | nil => simp [sumL]
  | cons x xs ih =>
    have h1 := h x (by simp)
    have h2 := ih (fun y hy => h y (by simp [hy]))
    simp only [sumL]; grind

theorem sumL_zero (l : List α) (h : ∀ x ∈ l, x = 0) : sumL l = 0 := by
  induction l with
  | nil => rfl
  | cons x xs ih =>
    have h1 := h x (by simp)
    have h2 := ih (fun y hy => h y (by simp [hy]))
    simp only [sumL]; grind

theorem div_nonneg {a b : α} (ha : 0 ≤ a) (hb : 0 ≤ b) : 0 ≤ a / b := by
  rw [Field.div_eq_mul_inv]
  exact OrderedRing.mul_nonneg ha (Field.IsOrdered.inv_nonneg_iff.mpr hb)

/-- `numpy.var >= 0` for this definition of the variance (so the hypothesis of `co_in_unit_interval` holds) -/
theorem variance_nonneg (r : List α) : 0 ≤ variance r := by
  unfold variance
  apply div_nonneg _ (natTo_nonneg _)
  apply sumL_nonneg
  intro x hx
  simp only [List.mem_map] at hx
  obtain ⟨y, _, rfl⟩ := hx
  have := OrderedRing.sq_nonneg (a := y - mean r)
  rw [Semiring.pow_two] at this
  exact this

theorem zero_div' (b : α) : (0 : α) / b = 0 := by
  rw [Field.div_eq_mul_inv]; grind

/-- a residual that is zero everywhere has variance 0 -/
theorem variance_zero (r : List α) (h : ∀ x ∈ r, x = 0) : variance r = 0 := by
  have hm : mean r = 0 := by unfold mean; rw [sumL_zero r h]; exact zero_div' _
  unfold variance
  rw [hm, sumL_zero, zero_div']
  intro x hx
  simp only [List.mem_map] at hx
  obtain ⟨y, hy, rfl⟩ := hx
  rw [h y hy]; grind

theorem residual_zero (p : List α) : ∀ x ∈ residual p p, x = 0 := by
  induction p with
  | nil => simp [residual]
  | cons a p ih =>
    intro x hx
    simp only [residual, List.zipWith_cons_cons, List.mem_cons] at hx
    rcases hx with h | h
    · rw [h]; grind
    · exact ih x h

/-! ### the accumulation over draws -/

theorem stepCell_frame_eq_array (k : Nat) (c : Cell α) (co : α) : stepCell true k c co = stepCell false k c co := by
  simp only [stepCell, Gen.C18.frameCor, Gen.C18.arrayCor, Gen.C18.frameMiniFirst, Gen.C18.arrayMiniFirst,
    Gen.C18.frameMaxiFirst, Gen.C18.arrayMaxiFirst, Gen.C18.frameMiniNext, Gen.C18.arrayMiniNext,
    Gen.C18.frameMaxiNext, Gen.C18.arrayMaxiNext, if_true, Bool.false_eq_true, if_false]

theorem runFrom_frame_eq_array (k : Nat) (c : Cell α) (cos : List α) : runFrom true k c cos = runFrom false k c cos := by
  induction cos generalizing k c with
  | nil => rfl
  | cons co cos ih => simp only [runFrom, stepCell_frame_eq_array, ih]

/-- invariant after `k ≥ 1` draws: `lo ≤ mini`, `maxi ≤ hi`, `k·mini ≤ cor ≤ k·maxi` -/
def Inv' (lo hi : α) (k : Nat) (c : Cell α) : Prop :=
  lo ≤ c.mini ∧ c.maxi ≤ hi ∧ natTo k * c.mini ≤ c.cor ∧ c.cor ≤ natTo k * c.maxi

theorem stepCell_first (lo hi : α) (co : α) (h : lo ≤ co ∧ co ≤ hi) :
    Inv' lo hi 1 (stepCell false 0 (⟨0, 0, 0⟩ : Cell α) co) := by
  simp only [Inv', stepCell, Bool.false_eq_true, if_false, if_true, Gen.C18.arrayCor, Gen.C18.arrayMiniFirst,
    Gen.C18.arrayMaxiFirst, natTo]
  grind

theorem stepCell_next (lo hi : α) (k : Nat) (hk : k ≠ 0) (c : Cell α) (co : α) (h : lo ≤ co ∧ co ≤ hi)
    (hc : Inv' lo hi k c) : Inv' lo hi (k + 1) (stepCell false k c co) := by
  obtain ⟨h1, h2, h3, h4⟩ := hc
  have hn := natTo_nonneg (α := α) k
  simp only [Inv', stepCell, Bool.false_eq_true, if_false, hk, Gen.C18.arrayCor, Gen.C18.arrayMiniNext,
    Gen.C18.arrayMaxiNext, natTo, minR, maxR]
  refine ⟨by split <;> grind, by split <;> grind, ?_, ?_⟩
  · split
    · have := OrderedRing.mul_le_mul_of_nonneg_left (a := co) (b := c.mini) (c := natTo k) (by assumption) hn
      grind
    · grind
  · split
    · have := OrderedRing.mul_le_mul_of_nonneg_left (a := c.maxi) (b := co) (c := natTo k) (by assumption) hn
      grind
    · grind

theorem runFrom_inv (lo hi : α) (k : Nat) (hk : k ≠ 0) (c : Cell α) (cos : List α)
    (h : ∀ co ∈ cos, lo ≤ co ∧ co ≤ hi) (hc : Inv' lo hi k c) :
    Inv' lo hi (k + cos.length) (runFrom false k c cos) := by
  induction cos generalizing k c with
  | nil => simpa [runFrom] using hc
  | cons co cos ih =>
    have := ih (k + 1) (by omega) (stepCell false k c co) (fun x hx => h x (by simp [hx]))
      (stepCell_next lo hi k hk c co (h co (by simp)) hc)
    simp only [runFrom, List.length_cons]
    have e : k + (cos.length + 1) = k + 1 + cos.length := by omega
    rw [e]; exact this

theorem runCell_inv (lo hi : α) (frame : Bool) (cos : List α) (hne : cos ≠ [])
    (h : ∀ co ∈ cos, lo ≤ co ∧ co ≤ hi) : Inv' lo hi cos.length (runCell frame cos) := by
  have e : runCell frame cos = runCell false cos := by
    cases frame
    · rfl
    · exact runFrom_frame_eq_array _ _ _
  rw [e]
  cases cos with
  | nil => exact absurd rfl hne
  | cons co cos =>
    have := runFrom_inv lo hi 1 (by omega) _ cos (fun x hx => h x (by simp [hx]))
      (stepCell_first lo hi co (h co (by simp)))
    simp only [runCell, runFrom, List.length_cons]
    have e : cos.length + 1 = 1 + cos.length := by omega
    rw [e]; exact this

/-- dividing the invariant by the number of draws -/
theorem div_bounds (a m M n : α) (hn : 0 < n) (h1 : n * m ≤ a) (h2 : a ≤ n * M) : m ≤ a / n ∧ a / n ≤ M := by
  have hi : 0 ≤ n⁻¹ := Field.IsOrdered.inv_nonneg_iff.mpr (by grind)
  have hne : n ≠ 0 := by grind
  rw [Field.div_eq_mul_inv]
  have e1 := OrderedRing.mul_le_mul_of_nonneg_right h1 hi
  have e2 := OrderedRing.mul_le_mul_of_nonneg_right h2 hi
  have c1 : n * m * n⁻¹ = m := by
    have := Field.mul_inv_cancel hne; grind
  have c2 : n * M * n⁻¹ = M := by
    have := Field.mul_inv_cancel hne; grind
  rw [c1] at e1; rw [c2] at e2
  exact ⟨e1, e2⟩

end
end MlVerif.Corr
