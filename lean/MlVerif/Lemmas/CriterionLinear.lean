/-
C09 — lemmas about LinearRegressorCriterion: what `init_with_X` leaves in the accumulators and
in `sample_f`, the column-major packing loop of `_reglin`, the residual loop of `_mse`, and the
identification of the system handed to LAPACK with the node's least-squares problem.
-/
import MlVerif.Lemmas.CriterionConst
namespace MlVerif.Criterion
open MlVerif.Gen MlVerif.Gen.C09

/-- cell (k, c) of a row-major matrix lies before row `ki` when `k < ki` -/
theorem cell_lt (k ki nb c : Int) (h : k < ki) (hc : c < nb) (hnb : 0 ≤ nb) :
    k * nb + c < ki * nb := by
  have h1 : (k + 1) * nb ≤ ki * nb := Int.mul_le_mul_of_nonneg_right (by omega) hnb
  rw [Int.add_mul] at h1
  omega

theorem cell_ge (k ki nb c : Int) (h : ki ≤ k) (hc : 0 ≤ c) (hnb : 0 ≤ nb) :
    ki * nb ≤ k * nb + c := by
  have h1 : ki * nb ≤ k * nb := Int.mul_le_mul_of_nonneg_right h hnb
  omega

/-- `for c in range(0, m): f[idx] = g c; idx += 1` -/
theorem fillRow (g : Int → Rat) (m : Nat) (f : Buf) (i0 : Int) :
    (loopN m 0 (fun c (fi : Buf × Int) => (bset fi.1 fi.2 (g c), fi.2 + 1)) (f, i0)).2 = i0 + m ∧
    ∀ j, (loopN m 0 (fun c (fi : Buf × Int) => (bset fi.1 fi.2 (g c), fi.2 + 1)) (f, i0)).1 j
      = if i0 ≤ j ∧ j < i0 + m then g (j - i0) else f j := by
  induction m with
  | zero => simp only [loopN]; refine ⟨by simp, ?_⟩; intro j; simp; omega
  | succ m ih =>
    rw [loopN_last]
    obtain ⟨h1, h2⟩ := ih
    generalize loopN m 0 (fun c (fi : Buf × Int) => (bset fi.1 fi.2 (g c), fi.2 + 1)) (f, i0) = r at *
    refine ⟨by simp only [h1]; push_cast; omega, ?_⟩
    intro j
    simp only [bset, h1]
    by_cases hj : j = i0 + m
    · subst hj
      rw [if_pos rfl, if_pos ⟨by omega, by push_cast; omega⟩]; congr 1; omega
    · rw [if_neg hj, h2 j]; push_cast; grind

structure Linear.Filled (s : Linear) (d : Data) (start stop : Int) : Prop where
  y : s.y = d.y
  w : ∀ k, start ≤ k → k < stop → s.sample_w k = d.wk k
  wy : ∀ k, start ≤ k → k < stop → s.sample_wy k = d.wk k * d.yk k
  sy : ∀ k, start ≤ k → k < stop → s.sample_y k = d.yk k
  i : ∀ k, start ≤ k → k < stop → s.sample_i k = d.samples k
  f : ∀ k, start ≤ k → k < stop → ∀ c, 0 ≤ c → c < s.nbvar →
        s.sample_f (k * s.nbvar + c) = xone s.X s.nbvar (d.samples k) c

theorem Linear.initLoop (d : Data) (s0 : Linear) (start : Int) (n : Nat) (hnb : 1 ≤ s0.nbvar) :
    let r := loopN n start (Linear.initBody d) (s0, start * s0.nbvar)
    r.2 = (start + n) * s0.nbvar ∧
    r.1.core = s0.core ∧ r.1.y = s0.y ∧ r.1.nbvar = s0.nbvar ∧ r.1.X = s0.X ∧
    r.1.f_buffer = s0.f_buffer ∧ r.1.pC = s0.pC ∧
    (∀ k, r.1.sample_w k = if start ≤ k ∧ k < start + n then d.wk k else s0.sample_w k) ∧
    (∀ k, r.1.sample_wy k = if start ≤ k ∧ k < start + n then d.wk k * d.yk k else s0.sample_wy k) ∧
    (∀ k, r.1.sample_y k = if start ≤ k ∧ k < start + n then d.yk k else s0.sample_y k) ∧
    (∀ k, r.1.sample_i k = if start ≤ k ∧ k < start + n then d.samples k else s0.sample_i k) ∧
    r.1.sum_w = s0.sum_w + rsumN d.wk start n ∧
    (∀ k, start ≤ k → k < start + n → ∀ c, 0 ≤ c → c < s0.nbvar →
        r.1.sample_f (k * s0.nbvar + c) = xone s0.X s0.nbvar (d.samples k) c) := by
  induction n with
  | zero =>
    simp only [loopN, rsumN]
    refine ⟨by simp, trivial, trivial, trivial, trivial, trivial, trivial, ?_, ?_, ?_, ?_, by grind, ?_⟩
    · intro k; simp; omega
    · intro k; simp; omega
    · intro k; simp; omega
    · intro k; simp; omega
    · intro k h1 h2; simp at h2; omega
  | succ n ih =>
    intro r
    have hr : r = Linear.initBody d (start + n) (loopN n start (Linear.initBody d) (s0, start * s0.nbvar)) := by
      simp only [r]; rw [loopN_last]
    obtain ⟨h0, h1, h2, h3, h4, h5, h6, h7, h8, h9, h10, h11, h12⟩ := ih
    generalize loopN n start (Linear.initBody d) (s0, start * s0.nbvar) = r0 at *
    obtain ⟨s, idx⟩ := r0
    simp only at h0 h1 h2 h3 h4 h5 h6 h7 h8 h9 h10 h11 h12
    subst h0
    have hm : ((s0.nbvar - 1 - 0).toNat : Int) = s0.nbvar - 1 := by omega
    obtain ⟨g1, g2⟩ := fillRow (fun c => s.X (d.samples (start + n)) c) (s0.nbvar - 1 - 0).toNat
      s.sample_f ((start + n) * s0.nbvar)
    rw [hr]
    simp only [Linear.initBody, linInitCols, linInitIdxStep, loop, h3]
    generalize loopN (s0.nbvar - 1 - 0).toNat 0
      (fun c (fi : Buf × Int) => (bset fi.1 fi.2 (s.X (d.samples (start + n)) c), fi.2 + 1))
      (s.sample_f, (start + n) * s0.nbvar) = fi at *
    rw [hm] at g1 g2
    refine ⟨?_, by first | exact h1 | trivial, by first | exact h2 | trivial,
      by first | exact h3 | trivial, by first | exact h4 | trivial, by first | exact h5 | trivial,
      by first | exact h6 | trivial, ?_, ?_, ?_, ?_, ?_, ?_⟩
    · rw [g1]; push_cast; grind
    · intro k; simp only [bset]; rw [h7 k]; push_cast; simp only [Data.wk]; grind
    · intro k; simp only [bset]; rw [h8 k]; push_cast; simp only [Data.wk, Data.yk]; grind
    · intro k; simp only [bset]; rw [h9 k]; push_cast; simp only [Data.yk]; grind
    · intro k; simp only [bset]; rw [h10 k]; push_cast; grind
    · rw [h11]; simp only [bset, rsumN, Data.wk]; grind
    · intro k hk1 hk2 c hc1 hc2
      simp only [bset, g1]
      by_cases hk : k = start + n
      · subst hk
        by_cases hc : c = s0.nbvar - 1
        · subst hc
          rw [if_pos (by omega)]; simp [xone]
        · rw [if_neg (by omega), g2, if_pos ⟨by omega, by omega⟩]
          simp only [xone, if_neg hc, h4]
          congr 1; omega
      · have hlt : k * s0.nbvar + c < (start + n) * s0.nbvar :=
          cell_lt k (start + n) s0.nbvar c (by push_cast at hk2; omega) hc2 (by omega)
        rw [if_neg (by omega), g2, if_neg (by omega)]
        exact h12 k hk1 (by push_cast at hk2; omega) c hc1 hc2

/-- inner packing loop: one column of the column-major buffer -/
theorem packCol (sf sw : Buf) (nb start : Int) (m : Nat) (b : Buf) (p0 i0 : Int) :
    let r := loopN m start (fun i (st : Buf × Int × Int) =>
      (bset st.1 st.2.1 (sf st.2.2 * sw i), st.2.1 + 1, st.2.2 + nb)) (b, p0, i0)
    r.2.1 = p0 + m ∧ r.2.2 = i0 + m * nb ∧
    ∀ q, r.1 q = if p0 ≤ q ∧ q < p0 + m then sf (i0 + (q - p0) * nb) * sw (start + (q - p0)) else b q := by
  induction m with
  | zero => simp only [loopN]; refine ⟨by simp, by simp, ?_⟩; intro q; simp; omega
  | succ m ih =>
    intro r
    have hr : r = (fun i (st : Buf × Int × Int) =>
        (bset st.1 st.2.1 (sf st.2.2 * sw i), st.2.1 + 1, st.2.2 + nb)) (start + m)
        (loopN m start (fun i (st : Buf × Int × Int) =>
          (bset st.1 st.2.1 (sf st.2.2 * sw i), st.2.1 + 1, st.2.2 + nb)) (b, p0, i0)) := by
      simp only [r]; rw [loopN_last]
    obtain ⟨h1, h2, h3⟩ := ih
    generalize loopN m start (fun i (st : Buf × Int × Int) =>
          (bset st.1 st.2.1 (sf st.2.2 * sw i), st.2.1 + 1, st.2.2 + nb)) (b, p0, i0) = r0 at *
    rw [hr]
    simp only at h1 h2 h3 ⊢
    refine ⟨by rw [h1]; push_cast; omega, by rw [h2]; push_cast; grind, ?_⟩
    intro q
    simp only [bset, h1, h2]
    by_cases hq : q = p0 + m
    · subst hq
      rw [if_pos rfl, if_pos ⟨by omega, by push_cast; omega⟩]
      have : p0 + (m : Int) - p0 = m := by omega
      rw [this]
    · rw [if_neg hq, h3 q]; push_cast; grind

/-- the packing loops of `_reglin`: cell `j*row + t` of the buffer holds
`sample_f[(start+t)*nbvar + j] * sample_w[start+t]` (column-major, lda = row) -/
theorem packAll (sf sw : Buf) (nb start : Int) (m : Nat) (b0 : Buf) (n : Nat) :
    let r := loopN n 0 (fun j (bp : Buf × Int) =>
      let r := loopN m start (fun i (st : Buf × Int × Int) =>
        (bset st.1 st.2.1 (sf st.2.2 * sw i), st.2.1 + 1, st.2.2 + nb)) (bp.1, bp.2, start * nb + j)
      (r.1, r.2.1)) (b0, 0)
    r.2 = n * m ∧
    ∀ j t : Int, 0 ≤ j → j < n → 0 ≤ t → t < m →
      r.1 (j * m + t) = sf ((start + t) * nb + j) * sw (start + t) := by
  induction n with
  | zero => simp only [loopN]; refine ⟨by simp, ?_⟩; intro j t h1 h2; simp at h2; try omega
  | succ n ih =>
    intro r
    obtain ⟨h1, h2⟩ := ih
    have hr := loopN_last n 0 (fun j (bp : Buf × Int) =>
      let r := loopN m start (fun i (st : Buf × Int × Int) =>
        (bset st.1 st.2.1 (sf st.2.2 * sw i), st.2.1 + 1, st.2.2 + nb)) (bp.1, bp.2, start * nb + j)
      (r.1, r.2.1)) (b0, 0)
    generalize loopN n 0 (fun j (bp : Buf × Int) =>
      let r := loopN m start (fun i (st : Buf × Int × Int) =>
        (bset st.1 st.2.1 (sf st.2.2 * sw i), st.2.1 + 1, st.2.2 + nb)) (bp.1, bp.2, start * nb + j)
      (r.1, r.2.1)) (b0, 0) = r0 at *
    have hr' : r = _ := hr
    rw [hr']
    simp only at h1 h2 ⊢
    obtain ⟨g1, g2, g3⟩ := packCol sf sw nb start m r0.1 r0.2 (start * nb + (0 + n))
    generalize loopN m start (fun i (st : Buf × Int × Int) =>
        (bset st.1 st.2.1 (sf st.2.2 * sw i), st.2.1 + 1, st.2.2 + nb))
        (r0.1, r0.2, start * nb + (0 + n)) = c at *
    refine ⟨by rw [g1, h1]; push_cast; grind, ?_⟩
    intro j t hj1 hj2 ht1 ht2
    rw [g3, h1]
    by_cases hj : j = n
    · subst hj
      rw [if_pos ⟨by omega, by omega⟩]
      have e1 : (n : Int) * m + t - n * m = t := by omega
      rw [e1]
      congr 2
      grind
    · have hlt : j * (m : Int) + t < n * m := cell_lt j n m t (by push_cast at hj2; omega) ht2 (by omega)
      rw [if_neg (by omega)]
      exact h2 j t hj1 (by push_cast at hj2; omega) ht1 ht2

/-- `for i in range(start, end): pC[i-start] = sample_wy[i]` -/
theorem rhsLoop (swy : Buf) (start : Int) (m : Nat) (b0 : Buf) :
    ∀ q, loopN m start (fun i (b : Buf) => bset b (i - start) (swy i)) b0 q
      = if 0 ≤ q ∧ q < m then swy (start + q) else b0 q := by
  induction m with
  | zero => intro q; simp only [loopN]; simp; omega
  | succ m ih =>
    intro q
    rw [loopN_last]
    simp only [bset]
    by_cases hq : q = m
    · subst hq
      rw [if_pos (by omega), if_pos ⟨by omega, by push_cast; omega⟩]
    · rw [if_neg (by omega), ih q]; push_cast; grind

/-- inner loop of `_mse`: one dot product -/
theorem dotLoop (sf pC : Buf) (m : Nat) (i0 : Int) (a : Rat) :
    loopN m 0 (fun j (di : Rat × Int) => (di.1 + sf di.2 * pC j, di.2 + 1)) (a, i0)
      = (a + rsumN (fun j => sf (i0 + j) * pC j) 0 m, i0 + m) := by
  induction m with
  | zero => simp only [loopN, rsumN]; ext <;> simp <;> grind
  | succ m ih =>
    rw [loopN_last, ih]
    simp only [rsumN]
    ext
    · simp; grind
    · simp; omega

/-- the residual loop of `_mse` -/
theorem mseLoop (sf pC sy sw : Buf) (nb : Int) (hnb : 0 ≤ nb) (start : Int) (n : Nat) :
    loopN n start (fun k (st : Rat × Int) =>
        let di := loopN (nb - 0).toNat 0
          (fun j (di : Rat × Int) => (di.1 + sf di.2 * pC j, di.2 + 1)) (0, st.2)
        let d := di.1 - sy k
        (st.1 + d * d * sw k, di.2)) (0, start * nb)
      = (rsumN (fun k => (rsum (fun j => sf (k * nb + j) * pC j) 0 nb - sy k) ^ 2 * sw k) start n,
         (start + n) * nb) := by
  induction n with
  | zero => simp only [loopN, rsumN]; ext <;> simp
  | succ n ih =>
    rw [loopN_last, ih]
    simp only [dotLoop, rsumN, rsum]
    have : ((nb - 0).toNat : Int) = nb := by omega
    ext
    · simp; grind
    · simp only [this]; push_cast; grind


/-- whatever its body, `_update_weights` only touches `weighted_n_left/right` -/
theorem applyUpd_frame (u : UpdSpec) (wbuf : Buf) (c : Core) (a b p q : Int) :
    (applyUpd u wbuf c a b p q).start = c.start ∧ (applyUpd u wbuf c a b p q).pos = c.pos ∧
    (applyUpd u wbuf c a b p q).stop = c.stop ∧ (applyUpd u wbuf c a b p q).wN = c.wN ∧
    (applyUpd u wbuf c a b p q).wNode = c.wNode := by
  have hL : ∀ (n : Nat) (lo : Int) (c : Core),
      (loopN n lo (fun k (c : Core) => { c with wL := c.wL + wbuf k }) c).start = c.start ∧
      (loopN n lo (fun k (c : Core) => { c with wL := c.wL + wbuf k }) c).pos = c.pos ∧
      (loopN n lo (fun k (c : Core) => { c with wL := c.wL + wbuf k }) c).stop = c.stop ∧
      (loopN n lo (fun k (c : Core) => { c with wL := c.wL + wbuf k }) c).wN = c.wN ∧
      (loopN n lo (fun k (c : Core) => { c with wL := c.wL + wbuf k }) c).wNode = c.wNode := by
    intro n lo c
    induction n with
    | zero => simp [loopN]
    | succ n ih => rw [loopN_last]; exact ih
  have hR : ∀ (n : Nat) (lo : Int) (c : Core),
      (loopN n lo (fun k (c : Core) => { c with wR := c.wR + wbuf k }) c).start = c.start ∧
      (loopN n lo (fun k (c : Core) => { c with wR := c.wR + wbuf k }) c).pos = c.pos ∧
      (loopN n lo (fun k (c : Core) => { c with wR := c.wR + wbuf k }) c).stop = c.stop ∧
      (loopN n lo (fun k (c : Core) => { c with wR := c.wR + wbuf k }) c).wN = c.wN ∧
      (loopN n lo (fun k (c : Core) => { c with wR := c.wR + wbuf k }) c).wNode = c.wNode := by
    intro n lo c
    induction n with
    | zero => simp [loopN]
    | succ n ih => rw [loopN_last]; exact ih
  unfold applyUpd
  cases u.kind with
  | inherited => simp
  | loops =>
    simp only [loop]
    obtain ⟨a1, a2, a3, a4, a5⟩ := hR (u.rightHi a b p q - u.rightLo a b p q).toNat (u.rightLo a b p q)
      (loopN (u.leftHi a b p q - u.leftLo a b p q).toNat (u.leftLo a b p q)
        (fun k (c : Core) => { c with wL := c.wL + wbuf k }) { c with wR := 0, wL := 0 })
    obtain ⟨b1, b2, b3, b4, b5⟩ := hL (u.leftHi a b p q - u.leftLo a b p q).toNat (u.leftLo a b p q)
      { c with wR := 0, wL := 0 }
    exact ⟨a1.trans b1, a2.trans b2, a3.trans b3, a4.trans b4, a5.trans b5⟩
  | «prefix» => simp only; split <;> simp
  | unknown => simp

theorem Linear.mean_filled {s : Linear} {d : Data} {start stop : Int} (h : Linear.Filled s d start stop)
    (a b : Int) (wp : Rat) (h1 : start ≤ a) (h3 : b ≤ stop) :
    Linear.mean s a b wp = if a = b then (0, wp) else (d.wmean a b, d.W a b) := by
  unfold Linear.mean
  split
  · rfl
  · simp only [linMeanRange, loop_acc2]
    have e1 : rsum (fun k => s.sample_wy k) a b = d.WY a b := by
      unfold Data.WY; apply rsum_congr; intro k hk1 hk2; exact h.wy k (by omega) (by omega)
    have e2 : rsum (fun k => s.sample_w k) a b = d.W a b := by
      unfold Data.W; apply rsum_congr; intro k hk1 hk2; exact h.w k (by omega) (by omega)
    rw [e1, e2]
    unfold Data.wmean
    ext <;> simp <;> grind

/-- `_update_weights` of the linear criterion computes the true child weights -/
theorem Linear.upd_good {d : Data} {start stop : Int} (wbuf : Buf)
    (hw : ∀ k, start ≤ k → k < stop → wbuf k = d.wk k)
    (c : Core) (p q : Int) (h1 : start ≤ q) (h2 : q ≤ stop) :
    applyUpd linearUpd wbuf c start stop p q
      = { c with wL := d.W start q, wR := d.W q stop } := by
  rw [applyUpd_loops linearUpd (by rfl)]
  have eL : rsum wbuf (linearUpd.leftLo start stop p q) (linearUpd.leftHi start stop p q)
      = d.W start q := by
    simp only [linearUpd, Data.W]
    apply rsum_congr; intro k hk1 hk2; exact hw k (by omega) (by omega)
  have eR : rsum wbuf (linearUpd.rightLo start stop p q) (linearUpd.rightHi start stop p q)
      = d.W q stop := by
    simp only [linearUpd, Data.W]
    apply rsum_congr; intro k hk1 hk2; exact hw k (by omega) (by omega)
  rw [eL, eR]

/-- the part of `init_with_X` before `reset`: filled accumulators (independent of `_update_weights`) -/
theorem Linear.init_filled (solve : Solver) (prev : Linear) (d : Data) (start stop : Int)
    (h : start ≤ stop) (hnb : 1 ≤ prev.nbvar) :
    Linear.Filled (Linear.initWithX solve prev d start stop) d start stop ∧
    (Linear.initWithX solve prev d start stop).nbvar = prev.nbvar ∧
    (Linear.initWithX solve prev d start stop).X = prev.X ∧
    (Linear.initWithX solve prev d start stop).core.start = start ∧
    (Linear.initWithX solve prev d start stop).core.pos = start ∧
    (Linear.initWithX solve prev d start stop).core.stop = stop := by
  unfold Linear.initWithX
  simp only [linInitRange, linInitIdx0, loop]
  generalize hs0 : ({ prev with
    core := { prev.core with start := start, pos := start, stop := stop, wN := d.wN },
    y := d.y, sum_wy := 0, sum_w := 0 } : Linear) = s0
  have hnb0 : s0.nbvar = prev.nbvar := by rw [← hs0]
  have hX0 : s0.X = prev.X := by rw [← hs0]
  have hl := Linear.initLoop d s0 start (stop - start).toNat (by omega)
  simp only [hnb0] at hl
  obtain ⟨_, h1, h2, h3, h4, _, _, h7, h8, h9, h10, h11, h12⟩ := hl
  generalize loopN (stop - start).toNat start (Linear.initBody d) (s0, start * prev.nbvar) = r at *
  have hn : start + ((stop - start).toNat : Int) = stop := by omega
  rw [hn] at h7 h8 h9 h10 h12
  have hf : Linear.Filled r.1 d start stop := by
    refine ⟨by rw [h2, ← hs0], ?_, ?_, ?_, ?_, ?_⟩
    · intro k hk1 hk2; rw [h7 k, if_pos ⟨hk1, hk2⟩]
    · intro k hk1 hk2; rw [h8 k, if_pos ⟨hk1, hk2⟩]
    · intro k hk1 hk2; rw [h9 k, if_pos ⟨hk1, hk2⟩]
    · intro k hk1 hk2; rw [h10 k, if_pos ⟨hk1, hk2⟩]
    · intro k hk1 hk2 c hc1 hc2; rw [h3, h4, hX0] at *; exact h12 k hk1 hk2 c hc1 hc2
  have hc : r.1.core = { prev.core with start := start, pos := start, stop := stop, wN := d.wN } := by
    rw [h1, ← hs0]
  simp only [reset, Linear.ops, resetArgs, resetPos, hc]
  obtain ⟨f1, _, f3, _, _⟩ := applyUpd_frame linearUpd r.1.sample_w
    { prev.core with start := start, pos := start, stop := stop, wN := d.wN, wNode := r.1.sum_w }
    start stop start start
  exact ⟨⟨hf.y, hf.w, hf.wy, hf.sy, hf.i, hf.f⟩, h3, by rw [h4, hX0], f1, trivial, f3⟩


theorem Linear.filled_withCore {s : Linear} {d : Data} {start stop : Int} (c : Core)
    (h : Linear.Filled s d start stop) : Linear.Filled { s with core := c } d start stop :=
  ⟨h.y, h.w, h.wy, h.sy, h.i, h.f⟩

/-- `update` keeps the accumulators, whatever `_update_weights` does -/
theorem Linear.update_filled (solve : Solver) {s : Linear} {d : Data} {start stop : Int} (q : Int)
    (hf : Linear.Filled s d start stop) :
    Linear.Filled (update (Linear.ops solve) s q) d start stop ∧
    (update (Linear.ops solve) s q).nbvar = s.nbvar ∧ (update (Linear.ops solve) s q).X = s.X ∧
    (update (Linear.ops solve) s q).core.start = s.core.start ∧
    (update (Linear.ops solve) s q).core.stop = s.core.stop := by
  simp only [update, Linear.ops, updateArgs, updatePos]
  obtain ⟨f1, _, f3, _, _⟩ := applyUpd_frame linearUpd s.sample_w s.core s.core.start s.core.stop
    s.core.pos q
  exact ⟨⟨hf.y, hf.w, hf.wy, hf.sy, hf.i, hf.f⟩, trivial, trivial, f1, f3⟩

theorem Linear.init_good (solve : Solver) (prev : Linear) (d : Data) (start stop : Int)
    (h : start ≤ stop) (hnb : 1 ≤ prev.nbvar) :
    CoreGood (Linear.initWithX solve prev d start stop).core d start start stop := by
  unfold Linear.initWithX
  simp only [linInitRange, linInitIdx0, loop]
  generalize hs0 : ({ prev with
    core := { prev.core with start := start, pos := start, stop := stop, wN := d.wN },
    y := d.y, sum_wy := 0, sum_w := 0 } : Linear) = s0
  have hnb0 : s0.nbvar = prev.nbvar := by rw [← hs0]
  have hl := Linear.initLoop d s0 start (stop - start).toNat (by omega)
  simp only [hnb0] at hl
  obtain ⟨_, h1, _, _, _, _, _, h7, _, _, _, h11, _⟩ := hl
  generalize loopN (stop - start).toNat start (Linear.initBody d) (s0, start * prev.nbvar) = r at *
  have hn : start + ((stop - start).toNat : Int) = stop := by omega
  rw [hn] at h7
  have hw : ∀ k, start ≤ k → k < stop → r.1.sample_w k = d.wk k := by
    intro k hk1 hk2; rw [h7 k, if_pos ⟨hk1, hk2⟩]
  have hsum : r.1.sum_w = d.W start stop := by
    rw [h11, ← hs0]; simp only [Data.W, rsum]; grind
  have hc : r.1.core = { prev.core with start := start, pos := start, stop := stop, wN := d.wN } := by
    rw [h1, ← hs0]
  simp only [reset, Linear.ops, resetArgs, resetPos, hc]
  rw [Linear.upd_good _ hw _ _ _ (by omega) h]
  exact ⟨rfl, rfl, rfl, rfl, hsum, rfl, rfl⟩

theorem Linear.update_good (solve : Solver) {s : Linear} {d : Data} {start pos stop : Int} (q : Int)
    (hf : Linear.Filled s d start stop) (hc : CoreGood s.core d start pos stop)
    (h1 : start ≤ q) (h2 : q ≤ stop) :
    CoreGood (update (Linear.ops solve) s q).core d start q stop := by
  simp only [update, Linear.ops, updateArgs, updatePos, hc.hstart, hc.hstop]
  rw [Linear.upd_good _ hf.w _ _ _ h1 h2]
  exact ⟨hc.hstart, rfl, hc.hstop, hc.hwN, hc.hwNode, rfl, rfl⟩

theorem rsumN_shift (g : Int → Rat) (a : Int) (n : Nat) :
    rsumN (fun t => g (a + t)) 0 n = rsumN g a n := by
  induction n with
  | zero => rfl
  | succ n ih => simp only [rsumN, ih]; congr 2; omega

theorem rsum_unit (lo hi : Int) (h : lo ≤ hi) : rsum (fun _ => (1 : Rat)) lo hi = ((hi - lo : Int) : Rat) := by
  unfold rsum
  have : ∀ n : Nat, rsumN (fun _ => (1 : Rat)) lo n = (n : Rat) := by
    intro n; induction n with
    | zero => rfl
    | succ n ih => simp only [rsumN, ih]; push_cast; rfl
  rw [this]
  have e : (((hi - lo).toNat : Nat) : Int) = hi - lo := by omega
  rw [← e]; rfl

/-- what `_mse` of the linear criterion computes on filled accumulators: the weighted squared
residual of the vector LAPACK returned for the packed system, over the total weight passed in -/
theorem Linear.mse_filled (solve : Solver) {s : Linear} {d : Data} {start stop : Int}
    (hf : Linear.Filled s d start stop) (a b : Int) (m w : Rat)
    (h1 : start ≤ a) (h3 : b ≤ stop) (hnb : 1 ≤ s.nbvar) (hlen : s.nbvar < b - a) :
    Linear.mse solve s a b m w =
      if w = 0 then 0 else
        rsum (fun k => (rsum (fun j => xone s.X s.nbvar (d.samples k) j *
            (solve (b - a) s.nbvar (Linear.pack s a b).1 (b - a) (Linear.rhs s a b) (b - a)) j) 0 s.nbvar
          - d.yk k) ^ 2 * d.wk k) a b / w := by
  unfold Linear.mse
  have hskip : linMseSkip a b s.nbvar = false := by
    simp only [linMseSkip, decide_eq_false_iff_not]; omega
  rw [hskip]
  simp only [Bool.false_eq_true, if_false, linMseRows, linMseCols, linMseIdx0, linMseIdxStep, loop]
  have hreg : Linear.reglin solve s a b false
      = solve (b - a) s.nbvar (Linear.pack s a b).1 (b - a) (Linear.rhs s a b) (b - a) := by
    unfold Linear.reglin
    simp only
    rw [if_neg (by omega)]
  rw [hreg]
  generalize solve (b - a) s.nbvar (Linear.pack s a b).1 (b - a) (Linear.rhs s a b) (b - a) = pC
  rw [mseLoop s.sample_f pC s.sample_y s.sample_w s.nbvar (by omega) a (b - a).toNat]
  simp only
  have e : rsumN (fun k => (rsum (fun j => s.sample_f (k * s.nbvar + j) * pC j) 0 s.nbvar
        - s.sample_y k) ^ 2 * s.sample_w k) a (b - a).toNat
      = rsum (fun k => (rsum (fun j => xone s.X s.nbvar (d.samples k) j * pC j) 0 s.nbvar
        - d.yk k) ^ 2 * d.wk k) a b := by
    unfold rsum
    apply rsumN_congr
    intro k hk1 hk2
    rw [hf.sy k (by omega) (by omega), hf.w k (by omega) (by omega)]
    congr 3
    apply rsumN_congr
    intro j hj1 hj2
    rw [hf.f k (by omega) (by omega) j (by omega) (by omega)]
  rw [e]


/-- `mselin_packing`, buffer side: cell `j*row + t` of the LAPACK buffer is entry (row `t` of
the node, column `j`) of the design matrix with intercept, times the row's weight -/
theorem Linear.pack_cell {s : Linear} {d : Data} {start stop : Int} (hf : Linear.Filled s d start stop)
    (a b : Int) (h1 : start ≤ a) (h3 : b ≤ stop) (hnb : 1 ≤ s.nbvar)
    (j t : Int) (hj : 0 ≤ j) (hj2 : j < s.nbvar) (ht : 0 ≤ t) (ht2 : t < b - a) :
    (Linear.pack s a b).1 (j * (b - a) + t)
      = xone s.X s.nbvar (d.samples (a + t)) j * d.wk (a + t) := by
  unfold Linear.pack
  simp only [linPackCols, linPackRows, linPackIdx0, linPackIdxStep, linPackPosStep, loop]
  obtain ⟨_, g⟩ := packAll s.sample_f s.sample_w s.nbvar a (b - a).toNat s.f_buffer (s.nbvar - 0).toNat
  have e1 : (((b - a).toNat : Nat) : Int) = b - a := by omega
  have e2 : (((s.nbvar - 0).toNat : Nat) : Int) = s.nbvar := by omega
  have := g j t hj (by omega) ht (by omega)
  rw [e1] at this
  rw [this, hf.f (a + t) (by omega) (by omega) j hj hj2, hf.w (a + t) (by omega) (by omega)]

theorem Linear.rhs_cell {s : Linear} {d : Data} {start stop : Int} (hf : Linear.Filled s d start stop)
    (a b : Int) (h1 : start ≤ a) (h3 : b ≤ stop) (t : Int) (ht : 0 ≤ t) (ht2 : t < b - a) :
    Linear.rhs s a b t = d.wk (a + t) * d.yk (a + t) := by
  unfold Linear.rhs
  simp only [linRhsRange, linRhsIdx, loop]
  rw [rhsLoop s.sample_wy a (b - a).toNat s.pC t, if_pos ⟨ht, by omega⟩,
    hf.wy (a + t) (by omega) (by omega)]

/-- with unit weights the system handed to LAPACK is the node's least-squares problem -/
theorem Linear.resid_transfer {s : Linear} {d : Data} {start stop : Int} (hf : Linear.Filled s d start stop)
    (a b : Int) (h1 : start ≤ a) (h2 : a ≤ b) (h3 : b ≤ stop) (hnb : 1 ≤ s.nbvar)
    (hu : ∀ k, a ≤ k → k < b → d.wk k = 1) (bv : Int → Rat) :
    lapackResid (b - a) s.nbvar (Linear.pack s a b).1 (b - a) (Linear.rhs s a b) bv
      = d.lsResid s.X s.nbvar bv a b := by
  unfold lapackResid Data.lsResid
  have e0 : rsum (fun k => (rsum (fun j => xone s.X s.nbvar (d.samples k) j * bv j) 0 s.nbvar
      - d.yk k) ^ 2) a b
      = rsum (fun t => (rsum (fun j => xone s.X s.nbvar (d.samples (a + t)) j * bv j) 0 s.nbvar
      - d.yk (a + t)) ^ 2) 0 (b - a) := by
    unfold rsum
    have : (b - a - 0).toNat = (b - a).toNat := by omega
    rw [this, rsumN_shift (fun k => (rsumN (fun j => xone s.X s.nbvar (d.samples k) j * bv j) 0
      (s.nbvar - 0).toNat - d.yk k) ^ 2) a]
  rw [e0]
  apply rsum_congr
  intro t ht1 ht2
  rw [Linear.rhs_cell hf a b h1 h3 t ht1 ht2, hu (a + t) (by omega) (by omega)]
  have : rsum (fun j => (Linear.pack s a b).1 (j * (b - a) + t) * bv j) 0 s.nbvar
      = rsum (fun j => xone s.X s.nbvar (d.samples (a + t)) j * bv j) 0 s.nbvar := by
    apply rsum_congr
    intro j hj1 hj2
    rw [Linear.pack_cell hf a b h1 h3 hnb j t hj1 hj2 ht1 ht2, hu (a + t) (by omega) (by omega)]
    grind
  rw [this]; grind

end MlVerif.Criterion
