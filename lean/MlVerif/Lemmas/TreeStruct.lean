/-
C12 — lemmas about array-form trees (core Lean only).
-/
import MlVerif.Model.TreeStruct
set_option linter.unusedSimpArgs false
namespace MlVerif.TreeStruct

/-! ### well-formedness: accessors and the executable check -/

theorem WF.pos {t : ATree} {d : Nat} (h : WF t d) : 0 < t.length := h.1

theorem WF.node {t : ATree} {d : Nat} (h : WF t d) {i : Nat} {nd : Node} (hi : t[i]? = some nd) :
    nodeOk t.length d i nd := by
  have hlt : i < t.length := by
    rcases Nat.lt_or_ge i t.length with h1 | h1
    · exact h1
    · rw [List.getElem?_eq_none h1] at hi; cases hi
  exact h.2.1 i hlt nd hi

/-- a split node: both children are later nodes of the array, distinct, and the feature is a column -/
theorem WF.split {t : ATree} {d : Nat} (h : WF t d) {i : Nat} {nd : Node} (hi : t[i]? = some nd)
    (hs : nd.left ≠ TREE_LEAF) :
    (i : Int) < nd.left ∧ nd.left < t.length ∧ (i : Int) < nd.right ∧ nd.right < t.length ∧
      nd.left ≠ nd.right ∧ 0 ≤ nd.feature ∧ nd.feature < d := by
  rcases h.node hi with hl | hsp
  · exact absurd hl.1 hs
  · exact hsp

theorem childOf_lt {t : ATree} {d : Nat} (h : WF t d) {i j : Nat} (hc : childOf t i j) : i < j ∧ j < t.length := by
  obtain ⟨nd, hi, hs, hj⟩ := hc
  have := h.split hi hs
  rcases hj with hj | hj <;> omega

/-- a node has at most one parent -/
theorem parent_unique {t : ATree} {d : Nat} (h : WF t d) {i i' j : Nat} (hc : childOf t i j)
    (hc' : childOf t i' j) : i = i' := by
  apply Classical.byContradiction
  intro hne
  obtain ⟨a, hi, hsa, hj⟩ := hc
  obtain ⟨b, hi', hsb, hj'⟩ := hc'
  have hlt : i < t.length := by
    rcases Nat.lt_or_ge i t.length with h1 | h1
    · exact h1
    · rw [List.getElem?_eq_none h1] at hi; cases hi
  have hlt' : i' < t.length := by
    rcases Nat.lt_or_ge i' t.length with h1 | h1
    · exact h1
    · rw [List.getElem?_eq_none h1] at hi'; cases hi'
  have hd := h.2.2.1 i hlt i' hlt' a b hi hi' hne hsa hsb
  unfold disjointKids at hd
  rcases hj with hj | hj <;> rcases hj' with hj' | hj' <;> omega

theorem wfb_sound (t : ATree) (d : Nat) (h : wfb t d = true) : WF t d := by
  simp only [wfb, Bool.and_eq_true, decide_eq_true_eq, List.all_eq_true, List.mem_range] at h
  obtain ⟨⟨⟨h0, h1⟩, h2⟩, h3⟩ := h
  refine ⟨h0, ?_, ?_, ?_⟩
  · intro i hi nd hnd
    have := h1 i hi
    simpa [hnd] using this
  · intro i hi j hj a b ha hb hne hla hlb
    have := h2 i hi j hj
    simp only [ha, hb, Bool.or_eq_true, beq_iff_eq, decide_eq_true_eq] at this
    rcases this with ((h | h) | h) | h
    · exact absurd h hne
    · exact absurd h hla
    · exact absurd h hlb
    · exact h
  · intro j hj0 hjn
    have := h3 j hjn
    simp only [Bool.or_eq_true, beq_iff_eq, List.any_eq_true, List.mem_range] at this
    rcases this with h | ⟨i, hij, hc⟩
    · omega
    · refine ⟨i, hij, ?_⟩
      unfold childOfB at hc
      split at hc
      · rename_i nd hnd
        simp only [Bool.and_eq_true, Bool.not_eq_eq_eq_not, Bool.not_true, decide_eq_false_iff_not,
          Bool.or_eq_true, decide_eq_true_eq] at hc
        exact ⟨nd, hnd, hc.1, hc.2⟩
      · cases hc

/-! ### tree_leave_index -/

theorem mem_treeLeaveIndex (t : ATree) (i : Nat) :
    i ∈ treeLeaveIndex t ↔ ∃ nd, t[i]? = some nd ∧ nd.left = TREE_LEAF := by
  simp only [treeLeaveIndex, List.mem_filter, List.mem_range]
  constructor
  · rintro ⟨_, h⟩
    split at h
    · rename_i nd hnd; exact ⟨nd, hnd, by simpa using h⟩
    · cases h
  · rintro ⟨nd, hnd, hl⟩
    refine ⟨?_, by simp [hnd, hl]⟩
    rcases Nat.lt_or_ge i t.length with h1 | h1
    · exact h1
    · rw [List.getElem?_eq_none h1] at hnd; cases hnd

theorem treeLeaveIndex_sorted (t : ATree) : (treeLeaveIndex t).Pairwise (· < ·) :=
  List.Pairwise.filter _ List.pairwise_lt_range

/-! ### the traversal -/

/-- at split node `a`, the point `x` moves to child `b` -/
def goes (t : ATree) (x : List Rat) (a b : Nat) : Prop :=
  ∃ nd v, t[a]? = some nd ∧ nd.left ≠ TREE_LEAF ∧ (idx? nd.feature).bind (x[·]?) = some v ∧
    idx? (if v ≤ nd.threshold then nd.left else nd.right) = some b

theorem idx?_eq_some {k : Int} {b : Nat} : idx? k = some b ↔ k = (b : Int) := by
  unfold idx?
  split
  · simp; omega
  · simp; omega

theorem goes_childOf {t : ATree} {x : List Rat} {a b : Nat} (h : goes t x a b) : childOf t a b := by
  obtain ⟨nd, v, ha, hs, _, hb⟩ := h
  refine ⟨nd, ha, hs, ?_⟩
  rw [idx?_eq_some] at hb
  split at hb
  · left; exact hb
  · right; exact hb

theorem goes_fun {t : ATree} {x : List Rat} {a b b' : Nat} (h : goes t x a b) (h' : goes t x a b') : b = b' := by
  obtain ⟨nd, v, ha, _, hv, hb⟩ := h
  obtain ⟨nd', v', ha', _, hv', hb'⟩ := h'
  rw [ha] at ha'; cases ha'
  rw [hv] at hv'; cases hv'
  rw [hb] at hb'; exact Option.some.inj hb'

/-- `Run t x i p`: `p` is the list of nodes visited from `i` down to a leaf -/
inductive Run (t : ATree) (x : List Rat) : Nat → List Nat → Prop
  | leaf {i nd} : t[i]? = some nd → nd.left = TREE_LEAF → Run t x i [i]
  | step {i c p} : goes t x i c → Run t x c p → Run t x i (i :: p)

theorem descend_run {t : ATree} {x : List Rat} : ∀ {fuel i p}, descend t x fuel i = some p → Run t x i p := by
  intro fuel
  induction fuel with
  | zero => intro i p h; simp [descend] at h
  | succ fuel ih =>
    intro i p h
    unfold descend at h
    split at h
    · cases h
    · rename_i nd hnd
      split at h
      · rename_i hl
        cases h
        exact Run.leaf hnd hl
      · rename_i hl
        split at h
        · cases h
        · rename_i v hv
          split at h
          · cases h
          · rename_i c hc
            cases hd : descend t x fuel c with
            | none => simp [hd] at h
            | some p' =>
              simp [hd] at h
              subst h
              exact Run.step ⟨nd, v, hnd, hl, hv, hc⟩ (ih hd)

/-- under WF, the traversal from any node ends (enough fuel: the ids increase) -/
theorem descend_total {t : ATree} {d : Nat} (hw : WF t d) (x : List Rat) (hx : d ≤ x.length) :
    ∀ fuel i, i < t.length → t.length - i ≤ fuel → ∃ p, descend t x fuel i = some p := by
  intro fuel
  induction fuel with
  | zero => intro i hi hf; omega
  | succ fuel ih =>
    intro i hi hf
    unfold descend
    rw [List.getElem?_eq_getElem hi]
    simp only
    by_cases hl : t[i].left = TREE_LEAF
    · simp [hl]
    · simp only [hl, if_false]
      have hs := hw.split (List.getElem?_eq_getElem hi) hl
      have hf0 : 0 ≤ t[i].feature := hs.2.2.2.2.2.1
      have hfx : t[i].feature.toNat < x.length := by omega
      simp only [idx?, hf0, if_true, Option.bind_some, List.getElem?_eq_getElem hfx]
      by_cases hv : x[t[i].feature.toNat] ≤ t[i].threshold
      · simp only [hv, if_true]
        have h0 : 0 ≤ t[i].left := by omega
        simp only [h0, if_true]
        obtain ⟨p, hp⟩ := ih t[i].left.toNat (by omega) (by omega)
        exact ⟨i :: p, by simp [hp]⟩
      · simp only [hv, if_false]
        have h0 : 0 ≤ t[i].right := by omega
        simp only [h0, if_true]
        obtain ⟨p, hp⟩ := ih t[i].right.toNat (by omega) (by omega)
        exact ⟨i :: p, by simp [hp]⟩

theorem decisionPath_total {t : ATree} {d : Nat} (hw : WF t d) (x : List Rat) (hx : d ≤ x.length) :
    ∃ p, decisionPath t x = some p ∧ Run t x 0 p := by
  obtain ⟨p, hp⟩ := descend_total hw x hx t.length 0 hw.pos (by omega)
  exact ⟨p, hp, descend_run hp⟩

/-! facts about a run -/

theorem Run.head {t x i p} (h : Run t x i p) : p.head? = some i := by cases h <;> rfl

theorem Run.ne_nil {t x i p} (h : Run t x i p) : p ≠ [] := by cases h <;> simp

/-- the last node of a run is a leaf -/
theorem Run.last_leaf {t x i p} (h : Run t x i p) :
    ∃ l nd, p.getLast? = some l ∧ t[l]? = some nd ∧ nd.left = TREE_LEAF := by
  induction h with
  | leaf hnd hl => exact ⟨_, _, rfl, hnd, hl⟩
  | step hg hr ih =>
    obtain ⟨l, nd, h1, h2, h3⟩ := ih
    refine ⟨l, nd, ?_, h2, h3⟩
    rename_i i c p
    cases p with
    | nil => exact absurd rfl hr.ne_nil
    | cons a p' => simpa [List.getLast?_cons_cons] using h1

/-- and it is the only leaf of the run -/
theorem Run.leaf_is_last {t x i p} (h : Run t x i p) {a nd} (ha : a ∈ p) (hnd : t[a]? = some nd)
    (hl : nd.left = TREE_LEAF) : p.getLast? = some a := by
  induction h with
  | leaf _ _ => simp at ha; subst ha; rfl
  | step hg hr ih =>
    rename_i i c p
    rcases List.mem_cons.mp ha with h1 | h1
    · subst h1
      obtain ⟨nd', v, hnd', hs, _⟩ := hg
      rw [hnd] at hnd'; cases hnd'
      exact absurd hl hs
    · have := ih h1
      cases p with
      | nil => cases h1
      | cons b p' => simpa [List.getLast?_cons_cons] using this

/-- every node of the run other than its start was entered from a node of the run -/
theorem Run.pred {t x i p} (h : Run t x i p) {b} (hb : b ∈ p) (hne : b ≠ i) : ∃ a ∈ p, goes t x a b := by
  induction h with
  | leaf _ _ => simp at hb; exact absurd hb hne
  | step hg hr ih =>
    rename_i i c p
    rcases List.mem_cons.mp hb with h1 | h1
    · exact absurd h1 hne
    · by_cases hbc : b = c
      · subst hbc; exact ⟨i, by simp, hg⟩
      · obtain ⟨a, ha, hga⟩ := ih h1 hbc
        exact ⟨a, by simp [ha], hga⟩

/-- the run is closed under the move of its point -/
theorem Run.succ {t x i p} (h : Run t x i p) {a b} (ha : a ∈ p) (hg : goes t x a b) : b ∈ p := by
  induction h with
  | leaf hnd hl =>
    simp at ha; subst ha
    obtain ⟨nd', v, hnd', hs, _⟩ := hg
    rw [hnd] at hnd'; cases hnd'
    exact absurd hl hs
  | step hg' hr ih =>
    rename_i i c p
    rcases List.mem_cons.mp ha with h1 | h1
    · subst h1
      have := goes_fun hg hg'
      subst this
      have := hr.head
      cases p with
      | nil => exact absurd rfl hr.ne_nil
      | cons q p' => simp at this; subst this; simp
    · exact List.mem_cons_of_mem _ (ih h1)

/-! ### predict_leaves -/

theorem ind_getD_le (li : List Nat) (l k : Nat) :
    (li.map (fun l' => if l' = l then 1 else 0)).getD k 0 ≤ 1 := by
  simp only [List.getD_eq_getElem?_getD, List.getElem?_map]
  cases li[k]? with
  | none => simp
  | some a => simp; split <;> omega

/-- argmax of the indicator row of `l` over the leaf columns is a column holding `l` -/
theorem argmax_indicator (l : Nat) : ∀ (li : List Nat), l ∈ li →
    ∃ k, argmaxFirst (li.map (fun l' => if l' = l then 1 else 0)) = some k ∧ li[k]? = some l ∧
      (li.map (fun l' => if l' = l then 1 else 0)).getD k 0 = 1 := by
  intro li
  induction li with
  | nil => intro h; cases h
  | cons a rest ih =>
    intro hmem
    by_cases ha : a = l
    · refine ⟨0, ?_, by simp [ha], by simp [ha]⟩
      simp only [List.map_cons, argmaxFirst, ha, if_true]
      cases h : argmaxFirst (rest.map (fun l' => if l' = l then 1 else 0)) with
      | none => rfl
      | some k => simp only [ind_getD_le rest l k, if_true]
    · have hmem' : l ∈ rest := by
        rcases List.mem_cons.mp hmem with h | h
        · exact absurd h.symm ha
        · exact h
      obtain ⟨k, hk, hlk, hv⟩ := ih hmem'
      refine ⟨k + 1, ?_, by simpa using hlk, by simpa using hv⟩
      simp only [List.map_cons, argmaxFirst, hk, ha, if_false, hv]
      simp

theorem apply_eq {t : ATree} {x : List Rat} {p : List Nat} (hp : decisionPath t x = some p) :
    apply t x = p.getLast? := by simp [apply, hp]

theorem predictLeaves1_eq_apply {t : ATree} {d : Nat} (hw : WF t d) (x : List Rat) (hx : d ≤ x.length) :
    predictLeaves1 t x = apply t x := by
  obtain ⟨p, hp, hr⟩ := decisionPath_total hw x hx
  obtain ⟨l, nd, hlast, hnd, hl⟩ := hr.last_leaf
  have hlp : l ∈ p := List.mem_of_getLast? hlast
  have hli : l ∈ treeLeaveIndex t := (mem_treeLeaveIndex t l).mpr ⟨nd, hnd, hl⟩
  have hrow : (treeLeaveIndex t).map (fun l' => if l' ∈ p then 1 else 0) =
      (treeLeaveIndex t).map (fun l' => if l' = l then 1 else 0) := by
    apply List.map_congr_left
    intro a ha
    obtain ⟨nda, hnda, hla⟩ := (mem_treeLeaveIndex t a).mp ha
    by_cases hal : a = l
    · simp [hal, hlp]
    · have : a ∉ p := by
        intro hap
        have := hr.leaf_is_last hap hnda hla
        rw [hlast] at this
        exact hal (Option.some.inj this).symm
      simp [hal, this]
  obtain ⟨k, hk, hlk, _⟩ := argmax_indicator l (treeLeaveIndex t) hli
  rw [apply_eq hp, hlast]
  simp only [predictLeaves1, hp, Option.bind_eq_bind, Option.bind_some, hrow, hk, hlk]

theorem predictLeaves_eq_apply {t : ATree} {d : Nat} (hw : WF t d) (X : List (List Rat))
    (hX : ∀ x ∈ X, d ≤ x.length) : predictLeaves t X = X.mapM (apply t) := by
  unfold predictLeaves
  induction X with
  | nil => rfl
  | cons x rest ih =>
    have h1 := predictLeaves1_eq_apply hw x (hX x (by simp))
    have h2 := ih (fun y hy => hX y (by simp [hy]))
    simp only [List.mapM_cons, h1, h2]

/-! ### tree_node_parents and tree_find_path_to_root -/

theorem getElem?_lt {α} {l : List α} {i : Nat} {a : α} (h : l[i]? = some a) : i < l.length := by
  rcases Nat.lt_or_ge i l.length with h1 | h1
  · exact h1
  · rw [List.getElem?_eq_none h1] at h; cases h

theorem mem_treeNodeParents {t : ATree} {k v : Int} (h : (k, v) ∈ treeNodeParents t) :
    ∃ (i : Nat) (nd : Node), t[i]? = some nd ∧ nd.left ≠ TREE_LEAF ∧
      ((k = nd.left ∧ v = (i : Int)) ∨ (k = nd.right ∧ v = -(i : Int))) := by
  simp only [treeNodeParents, List.mem_flatMap, List.mem_range] at h
  obtain ⟨i, _, hi⟩ := h
  split at hi
  · rename_i nd hnd
    split at hi
    · cases hi
    · rename_i hl
      simp only [List.mem_cons, Prod.mk.injEq, List.mem_nil_iff, or_false] at hi
      exact ⟨i, nd, hnd, hl, hi⟩
  · cases hi

theorem treeNodeParents_mem {t : ATree} {i : Nat} {nd : Node} (hi : t[i]? = some nd) (hl : nd.left ≠ TREE_LEAF) :
    (nd.left, (i : Int)) ∈ treeNodeParents t ∧ (nd.right, -(i : Int)) ∈ treeNodeParents t := by
  simp only [treeNodeParents, List.mem_flatMap, List.mem_range]
  exact ⟨⟨i, getElem?_lt hi, by simp [hi, hl]⟩, ⟨i, getElem?_lt hi, by simp [hi, hl]⟩⟩

theorem dictGet_some {d : List (Int × Int)} {k v : Int} (h : dictGet d k = some v) : (k, v) ∈ d := by
  simp only [dictGet, Option.map_eq_some_iff] at h
  obtain ⟨p, hp, hv⟩ := h
  have hm := List.mem_of_find?_eq_some hp
  have hk := List.find?_some hp
  simp only [beq_iff_eq] at hk
  rw [List.mem_reverse] at hm
  have : p = (k, v) := by cases p; simp_all
  rw [← this]; exact hm

theorem dictGet_none {d : List (Int × Int)} {k : Int} (h : dictGet d k = none) : ∀ v, (k, v) ∉ d := by
  simp only [dictGet, Option.map_eq_none_iff, List.find?_eq_none, List.mem_reverse, beq_iff_eq] at h
  intro v hv
  exact h (k, v) hv rfl

/-- the parents dict holds, for every non-root node, its unique parent (up to the sign) -/
theorem dictGet_parent {t : ATree} {d : Nat} (hw : WF t d) {i j : Nat} (hc : childOf t i j) :
    ∃ v, dictGet (treeNodeParents t) (j : Int) = some v ∧ v.natAbs = i := by
  obtain ⟨nd, hi, hl, hj⟩ := hc
  have hmem := treeNodeParents_mem hi hl
  cases hg : dictGet (treeNodeParents t) (j : Int) with
  | none =>
    rcases hj with hj | hj
    · exact absurd (hj ▸ hmem.1) (dictGet_none hg _)
    · exact absurd (hj ▸ hmem.2) (dictGet_none hg _)
  | some v =>
    refine ⟨v, rfl, ?_⟩
    obtain ⟨i', nd', hi', hl', hkv⟩ := mem_treeNodeParents (dictGet_some hg)
    have hc' : childOf t i' j := ⟨nd', hi', hl', by
      rcases hkv with h | h
      · left; omega
      · right; omega⟩
    have := parent_unique hw ⟨nd, hi, hl, hj⟩ hc'
    rcases hkv with h | h <;> omega

theorem dictGet_root {t : ATree} {d : Nat} (hw : WF t d) : dictGet (treeNodeParents t) ((0 : Nat) : Int) = none := by
  cases hg : dictGet (treeNodeParents t) ((0 : Nat) : Int) with
  | none => rfl
  | some v =>
    obtain ⟨i', nd', hi', hl', hkv⟩ := mem_treeNodeParents (dictGet_some hg)
    have := hw.split hi' hl'
    rcases hkv with h | h <;> omega

/-- nearest-first list `c, parent c, …, root` -/
def Chain (t : ATree) : List Nat → Prop
  | [] => False
  | [c] => c = 0
  | c :: a :: rest => childOf t a c ∧ Chain t (a :: rest)

theorem climb_chain {t : ATree} {d : Nat} (hw : WF t d) :
    ∀ fuel c, c < t.length → c < fuel →
      ∃ up, climb (treeNodeParents t) fuel c = some up ∧ Chain t (c :: up) ∧ ∀ a ∈ up, a < c := by
  intro fuel
  induction fuel with
  | zero => intro c _ h; omega
  | succ fuel ih =>
    intro c hc hf
    unfold climb
    by_cases h0 : c = 0
    · subst h0
      rw [dictGet_root hw]
      exact ⟨[], rfl, rfl, by simp⟩
    · obtain ⟨i, hic, hch⟩ := hw.2.2.2 c (by omega) hc
      obtain ⟨v, hv, hvi⟩ := dictGet_parent hw hch
      rw [hv]
      simp only [hvi]
      obtain ⟨up, hup, hchain, hlt⟩ := ih i (by omega) (by omega)
      refine ⟨i :: up, by simp [hup], ⟨hch, hchain⟩, ?_⟩
      intro a ha
      rcases List.mem_cons.mp ha with h | h
      · omega
      · have := hlt a h; omega

/-- membership of a node in the decision path of x, read along its chain of ancestors -/
def GoesUp (t : ATree) (x : List Rat) : List Nat → Prop
  | [] => True
  | [_] => True
  | c :: a :: rest => goes t x a c ∧ GoesUp t x (a :: rest)

theorem mem_run_iff {t : ATree} {d : Nat} (hw : WF t d) {x : List Rat} {p : List Nat} (hr : Run t x 0 p) :
    ∀ (up : List Nat) (c : Nat), Chain t (c :: up) → (c ∈ p ↔ GoesUp t x (c :: up)) := by
  intro up
  induction up with
  | nil =>
    intro c hc
    simp only [Chain] at hc
    subst hc
    simp only [GoesUp, iff_true]
    have := hr.head
    cases p with
    | nil => cases this
    | cons a p' => simp at this; simp [this]
  | cons a rest ih =>
    intro c hc
    obtain ⟨hch, hrest⟩ := hc
    have hlt := childOf_lt hw hch
    simp only [GoesUp]
    rw [← ih a hrest]
    constructor
    · intro hcp
      obtain ⟨a', ha', hg⟩ := hr.pred hcp (by omega)
      have := parent_unique hw hch (goes_childOf hg)
      subst this
      exact ⟨hg, ha'⟩
    · rintro ⟨hg, hap⟩
      exact hr.succ hap hg

/-! ### tree_node_range -/

/-- the loop without its `break`: one `rangeStep` per consecutive pair of the path -/
def foldPairs (t : ATree) : List Nat → List Row → Except Err (List Row)
  | [], res => .ok res
  | [_], res => .ok res
  | p :: nxt :: rest, res =>
    match rangeStep t res p nxt with
    | .error e => .error e
    | .ok res' => foldPairs t (nxt :: rest) res'

/-- the `break` fires at the last node only when no earlier node of the path equals `i` -/
theorem rangeLoop_eq_foldPairs (t : ATree) (i : Nat) : ∀ (Q : List Nat) (res : List Row),
    (∀ p ∈ Q, p ≠ i) → rangeLoop t i (Q ++ [i]) res = foldPairs t (Q ++ [i]) res := by
  intro Q
  induction Q with
  | nil => intro res _; simp [rangeLoop, foldPairs]
  | cons a Q ih =>
    intro res hne
    have ha : a ≠ i := hne a (by simp)
    cases Q with
    | nil =>
      simp only [List.cons_append, List.nil_append, rangeLoop, foldPairs, ha, if_false]
      cases rangeStep t res a i <;> simp [rangeLoop, foldPairs]
    | cons b Q' =>
      simp only [List.cons_append, rangeLoop, foldPairs, ha, if_false]
      cases h : rangeStep t res a b with
      | error e => rfl
      | ok res' =>
        simp only
        exact ih res' (fun p hp => hne p (List.mem_cons_of_mem _ hp))

theorem foldPairs_snoc (t : ATree) (a c : Nat) : ∀ (P : List Nat) (res : List Row),
    foldPairs t (P ++ [a] ++ [c]) res =
      match foldPairs t (P ++ [a]) res with
      | .error e => .error e
      | .ok r => rangeStep t r a c := by
  intro P
  induction P with
  | nil =>
    intro res
    simp only [List.nil_append, List.cons_append, foldPairs]
    cases rangeStep t res a c <;> rfl
  | cons b P ih =>
    intro res
    cases P with
    | nil =>
      simp only [List.cons_append, List.nil_append, foldPairs]
      cases h : rangeStep t res b a with
      | error e => rfl
      | ok r =>
        simp only
        cases rangeStep t r a c <;> rfl
    | cons b' P' =>
      simp only [List.cons_append, foldPairs]
      cases h : rangeStep t res b b' with
      | error e => rfl
      | ok r =>
        simp only
        have := ih r
        simpa using this

theorem inRow_upper (lo : Option Rat) (hi : Option Rat) (th v : Rat) :
    inRow (lo, some (match hi with | some u => min u th | none => th)) v ↔ inRow (lo, hi) v ∧ v ≤ th := by
  unfold inRow
  cases lo <;> cases hi <;> simp <;> grind

theorem inRow_lower (lo : Option Rat) (hi : Option Rat) (th v : Rat) :
    inRow (some (match lo with | some l => max l th | none => th), hi) v ↔ inRow (lo, hi) v ∧ th < v := by
  unfold inRow
  cases lo <;> cases hi <;> simp <;> grind

theorem inBox_set (box : List Row) (x : List Rat) (f : Nat) (r r' : Row) (v : Rat) (P : Prop)
    (hr : box[f]? = some r) (hv : x[f]? = some v) (hrow : inRow r' v ↔ inRow r v ∧ P) :
    inBox (box.set f r') x ↔ inBox box x ∧ P := by
  have hf : f < box.length := getElem?_lt hr
  unfold inBox
  simp only [List.length_set]
  constructor
  · intro h
    have hP : P := by
      have := h f hf r' v (by simp [hf]) hv
      exact (hrow.mp this).2
    refine ⟨?_, hP⟩
    intro g hg rg vg hrg hvg
    by_cases hgf : f = g
    · subst hgf
      rw [hr] at hrg; cases hrg
      rw [hv] at hvg; cases hvg
      have := h f hf r' v (by simp [hf]) hv
      exact (hrow.mp this).1
    · exact h g hg rg vg (by simp [hgf, hrg]) hvg
  · rintro ⟨h, hP⟩ g hg rg vg hrg hvg
    by_cases hgf : f = g
    · subst hgf
      simp [hf] at hrg
      subst hrg
      rw [hv] at hvg; cases hvg
      exact hrow.mpr ⟨h f hf r v hr hv, hP⟩
    · simp [hgf] at hrg
      exact h g hg rg vg hrg hvg

/-- one loop step narrows the box by exactly the test the point has to pass at `a` to reach `c` -/
theorem rangeStep_spec {t : ATree} {d : Nat} (hw : WF t d) {a c : Nat} (hc : childOf t a c)
    (box : List Row) (hbox : ∀ nd, t[a]? = some nd → nd.feature < box.length) :
    ∃ box', rangeStep t box a c = .ok box' ∧ box'.length = box.length ∧
      ∀ x : List Rat, d ≤ x.length → (inBox box' x ↔ inBox box x ∧ goes t x a c) := by
  obtain ⟨nd, ha, hl, hcc⟩ := hc
  have hs := hw.split ha hl
  have hf0 : 0 ≤ nd.feature := hs.2.2.2.2.2.1
  have hfb : nd.feature.toNat < box.length := by have := hbox nd ha; omega
  unfold rangeStep
  simp only [ha, idx?, hf0, if_true, Option.bind_some, List.getElem?_eq_getElem hfb, Option.map_some]
  have hgoes : ∀ x : List Rat, d ≤ x.length → ∀ v, x[nd.feature.toNat]? = some v →
      (goes t x a c ↔ (if nd.left = (c : Int) then v ≤ nd.threshold else nd.threshold < v)) := by
    intro x hx v hv
    constructor
    · rintro ⟨nd', v', ha', _, hv', hb'⟩
      rw [ha] at ha'; cases ha'
      simp only [idx?, hf0, if_true, Option.bind_some, hv] at hv'
      cases hv'
      rw [idx?_eq_some] at hb'
      by_cases hle : v ≤ nd.threshold
      · simp only [hle, if_true] at hb'
        simp [hb', hle]
      · simp only [hle, if_false] at hb'
        have : ¬ nd.left = (c : Int) := by omega
        simp only [this, if_false]
        grind
    · intro h
      refine ⟨nd, v, ha, hl, by simp [idx?, hf0, hv], ?_⟩
      rw [idx?_eq_some]
      by_cases hlc : nd.left = (c : Int)
      · simp only [hlc, if_true] at h
        simp [h, hlc]
      · simp only [hlc, if_false] at h
        have : ¬ v ≤ nd.threshold := by grind
        simp only [this, if_false]
        rcases hcc with h1 | h1
        · exact absurd h1 hlc
        · exact h1
  by_cases hlc : nd.left = (c : Int)
  · simp only [hlc, if_true]
    refine ⟨_, rfl, by simp, ?_⟩
    intro x hx
    have hfx : nd.feature.toNat < x.length := by omega
    have hv := List.getElem?_eq_getElem hfx
    rw [hgoes x hx _ hv]
    simp only [hlc, if_true]
    exact inBox_set box x _ box[nd.feature.toNat] _ _ _ (List.getElem?_eq_getElem hfb) hv
      (inRow_upper _ _ _ _)
  · simp only [hlc, if_false]
    refine ⟨_, rfl, by simp, ?_⟩
    intro x hx
    have hfx : nd.feature.toNat < x.length := by omega
    have hv := List.getElem?_eq_getElem hfx
    rw [hgoes x hx _ hv]
    simp only [hlc, if_false]
    exact inBox_set box x _ box[nd.feature.toNat] _ _ _ (List.getElem?_eq_getElem hfb) hv
      (inRow_lower _ _ _ _)

open MlVerif.Gen.C12

theorem inBox_replicate (R : Nat) (x : List Rat) : inBox (List.replicate R ((none, none) : Row)) x := by
  intro f hf r v hr _
  simp only [List.getElem?_replicate] at hr
  split at hr
  · cases hr; simp [inRow]
  · cases hr

theorem foldPairs_chain {t : ATree} {d : Nat} (hw : WF t d) (R : Nat) :
    ∀ (up : List Nat) (c : Nat), Chain t (c :: up) →
      (∀ a ∈ up, ∀ nd, t[a]? = some nd → nd.feature < R) →
      ∃ box, foldPairs t (c :: up).reverse (List.replicate R (none, none)) = .ok box ∧ box.length = R ∧
        ∀ x : List Rat, d ≤ x.length → (inBox box x ↔ GoesUp t x (c :: up)) := by
  intro up
  induction up with
  | nil =>
    intro c _ _
    refine ⟨_, rfl, by simp, ?_⟩
    intro x _
    simp only [GoesUp, iff_true]
    exact inBox_replicate R x
  | cons a rest ih =>
    intro c hc hfeat
    obtain ⟨hch, hrest⟩ := hc
    obtain ⟨boxa, hba, hlen, hin⟩ := ih a hrest (fun a' ha' => hfeat a' (List.mem_cons_of_mem _ ha'))
    have hrev : (c :: a :: rest).reverse = rest.reverse ++ [a] ++ [c] := by simp
    have hrev' : (a :: rest).reverse = rest.reverse ++ [a] := by simp
    rw [hrev, foldPairs_snoc, ← hrev', hba]
    simp only
    obtain ⟨box', hb', hlen', hin'⟩ := rangeStep_spec hw hch boxa (by
      intro nd hnd
      have := hfeat a (by simp) nd hnd
      omega)
    refine ⟨box', hb', by omega, ?_⟩
    intro x hx
    rw [hin' x hx, hin x hx]
    simp only [GoesUp]
    exact And.comm

theorem chain_up_split {t : ATree} : ∀ (up : List Nat) (c : Nat), Chain t (c :: up) →
    ∀ a ∈ up, ∃ nd, t[a]? = some nd ∧ nd.left ≠ TREE_LEAF := by
  intro up
  induction up with
  | nil => intro c _ a ha; cases ha
  | cons b rest ih =>
    intro c hc a ha
    obtain ⟨⟨nd, hnd, hl, _⟩, hrest⟩ := hc
    rcases List.mem_cons.mp ha with h | h
    · subst h; exact ⟨nd, hnd, hl⟩
    · exact ih b hrest a h

theorem foldl_max_spec : ∀ (rest : List Int) (f : Int),
    f ≤ rest.foldl max f ∧ (∀ g ∈ rest, g ≤ rest.foldl max f) ∧
      (rest.foldl max f = f ∨ rest.foldl max f ∈ rest) := by
  intro rest
  induction rest with
  | nil => intro f; simp
  | cons a rest ih =>
    intro f
    obtain ⟨h1, h2, h3⟩ := ih (max f a)
    simp only [List.foldl_cons]
    refine ⟨by omega, ?_, ?_⟩
    · intro g hg
      rcases List.mem_cons.mp hg with h | h
      · subst h; omega
      · exact h2 g h
    · rcases h3 with h | h
      · rcases Int.le_total f a with hfa | hfa
        · right; rw [h]; simp [Int.max_eq_right hfa]
        · left; rw [h]; exact Int.max_eq_left hfa
      · right; exact List.mem_cons_of_mem _ h

theorem features_spec {t : ATree} : ∀ (path : List Nat), (∀ p ∈ path, p < t.length) →
    ∃ fs, features t path = .ok fs ∧
      (∀ p ∈ path, ∀ nd, t[p]? = some nd → nd.feature ∈ fs) ∧
      (∀ f ∈ fs, ∃ p ∈ path, ∃ nd, t[p]? = some nd ∧ nd.feature = f) ∧ (path ≠ [] → fs ≠ []) := by
  intro path
  induction path with
  | nil => intro _; exact ⟨[], rfl, by simp, by simp, by simp⟩
  | cons a rest ih =>
    intro h
    obtain ⟨fs, hfs, h1, h2, _⟩ := ih (fun p hp => h p (List.mem_cons_of_mem _ hp))
    have ha := h a (by simp)
    refine ⟨t[a].feature :: fs, by simp [features, List.getElem?_eq_getElem ha, hfs], ?_, ?_, by simp⟩
    · intro p hp nd hnd
      rcases List.mem_cons.mp hp with h' | h'
      · subst h'
        rw [List.getElem?_eq_getElem ha] at hnd
        cases hnd; simp
      · exact List.mem_cons_of_mem _ (h1 p h' nd hnd)
    · intro f hf
      rcases List.mem_cons.mp hf with h' | h'
      · exact ⟨a, by simp, t[a], List.getElem?_eq_getElem ha, h'.symm⟩
      · obtain ⟨p, hp, nd, hnd, hnf⟩ := h2 f h'
        exact ⟨p, List.mem_cons_of_mem _ hp, nd, hnd, hnf⟩

theorem feature_ge {t : ATree} {d : Nat} (hw : WF t d) {p : Nat} {nd : Node} (h : t[p]? = some nd) :
    -2 ≤ nd.feature := by
  rcases hw.node h with hl | hs
  · omega
  · omega

/-- what the number of rows of the box has to satisfy -/
def BoxRowsOk : Prop :=
  ∀ (mx nf : Int), 0 ≤ nf → (boxUsesMx = true → -2 ≤ mx) →
    0 ≤ boxRows mx nf ∧
    ∀ f : Int, 0 ≤ f → f < nf → (boxUsesMx = true → f ≤ mx) → f < boxRows mx nf

/-- `tree_node_range(tree, c)` succeeds for every node of a well-formed tree and returns the box
of exactly the points whose decision path goes through `c` -/
theorem treeNodeRange_spec {t : ATree} {d : Nat} (hw : WF t d) (hb : BoxRowsOk) (c : Nat) (hc : c < t.length) :
    ∃ box, treeNodeRange t d c = .ok box ∧
      ∀ (x : List Rat), d ≤ x.length → ∀ p, decisionPath t x = some p → (inBox box x ↔ c ∈ p) := by
  obtain ⟨up, hup, hchain, hlt⟩ := climb_chain hw (max (treeNodeParents t).length c + 1) c hc (by omega)
  have hpathlt : ∀ p ∈ (c :: up).reverse, p < t.length := by
    intro p hp
    rw [List.mem_reverse] at hp
    rcases List.mem_cons.mp hp with h | h
    · omega
    · have := hlt p h; omega
  -- the maximum feature, when the source computes it
  have hmx : ∃ mx, (if boxUsesMx then maxFeature t (c :: up).reverse else .ok (-2)) = Except.ok mx ∧
      (boxUsesMx = true → -2 ≤ mx ∧ ∀ a ∈ up, ∀ nd, t[a]? = some nd → nd.feature ≤ mx) := by
    cases hbm : boxUsesMx with
    | false => exact ⟨-2, by simp, by intro h; cases h⟩
    | true =>
      obtain ⟨fs, hfs, h1, h2, hne⟩ := features_spec (c :: up).reverse hpathlt
      cases fs with
      | nil => exact absurd rfl (hne (by simp))
      | cons f rest =>
        obtain ⟨g1, g2, g3⟩ := foldl_max_spec rest f
        refine ⟨rest.foldl max f, by rw [if_pos rfl]; unfold maxFeature; rw [hfs], fun _ => ⟨?_, ?_⟩⟩
        · have hmem : rest.foldl max f ∈ f :: rest := by
            rcases g3 with h | h
            · rw [h]; simp
            · exact List.mem_cons_of_mem _ h
          obtain ⟨p, _, nd, hnd, hnf⟩ := h2 _ hmem
          have := feature_ge hw hnd
          omega
        · intro a ha nd hnd
          have := h1 a (by rw [List.mem_reverse]; exact List.mem_cons_of_mem _ ha) nd hnd
          rcases List.mem_cons.mp this with h | h
          · omega
          · exact g2 _ h
  obtain ⟨mx, hmxe, hmxp⟩ := hmx
  obtain ⟨hrows0, hrowsf⟩ := hb mx d (by omega) (fun h => (hmxp h).1)
  have hfeat : ∀ a ∈ up, ∀ nd, t[a]? = some nd → nd.feature < ((boxRows mx d).toNat : Int) := by
    intro a ha nd hnd
    obtain ⟨nd', hnd', hl'⟩ := chain_up_split up c hchain a ha
    rw [hnd] at hnd'; cases hnd'
    have hs := hw.split hnd hl'
    have := hrowsf nd.feature (by omega) (by omega) (fun h => (hmxp h).2 a ha nd hnd)
    omega
  obtain ⟨box, hbox, _, hin⟩ := foldPairs_chain hw (boxRows mx d).toNat up c hchain (by
    intro a ha nd hnd
    have := hfeat a ha nd hnd
    omega)
  refine ⟨box, ?_, ?_⟩
  · unfold treeNodeRange treeFindPathToRoot
    simp only [hup, Option.map_some, hmxe]
    have : ¬ boxRows mx d < 0 := by omega
    simp only [this, if_false]
    have hrev : (c :: up).reverse = up.reverse ++ [c] := by simp
    rw [hrev, rangeLoop_eq_foldPairs, ← hrev]
    · exact hbox
    · intro p hp
      rw [List.mem_reverse] at hp
      have := hlt p hp; omega
  · intro x hx p hp
    rw [hin x hx]
    exact (mem_run_iff hw (descend_run hp) up c hchain).symm

/-- for a leaf: the points in the box are exactly those `apply` sends to it -/
theorem treeNodeRange_leaf {t : ATree} {d : Nat} (hw : WF t d) (hb : BoxRowsOk) (l : Nat)
    (hl : l ∈ treeLeaveIndex t) :
    ∃ box, treeNodeRange t d l = .ok box ∧
      ∀ (x : List Rat), d ≤ x.length → (apply t x = some l ↔ inBox box x) := by
  obtain ⟨nd, hnd, hleaf⟩ := (mem_treeLeaveIndex t l).mp hl
  obtain ⟨box, hbox, hin⟩ := treeNodeRange_spec hw hb l (getElem?_lt hnd)
  refine ⟨box, hbox, ?_⟩
  intro x hx
  obtain ⟨p, hp, hr⟩ := decisionPath_total hw x hx
  rw [hin x hx p hp, apply_eq hp]
  constructor
  · exact List.mem_of_getLast?
  · intro hm; exact hr.leaf_is_last hm hnd hleaf

end MlVerif.TreeStruct
