/-
C11 — the three recurrences meet the specification (core Lean only).
Layer 1 (`*_step*`): one loop iteration of the model, under the facts the invariant provides,
rewritten with the canonical forms of the regenerated index expressions (Lemmas/PolyGen).
Layer 2: induction over the variables (inner loop) and over the degrees (outer loop).
-/
import MlVerif.Lemmas.Poly
import MlVerif.Lemmas.PolyGen

namespace MlVerif.Poly
open MlVerif.Gen.C11

variable {β : Type}

/-! ### what the invariant says about one block -/

theorem IdxOk.at {ops : Ops β} {io : Bool} {n d L : Nat} {xp : List β} {index : List Nat}
    (ok : IdxOk ops io n d L xp index) {k a : Nat} (hk : k ≤ L) (ha : index[k]? = some a) :
    a ≤ xp.length ∧ xp.drop a = (combs io n d k).map (interp ops) := by
  obtain ⟨a', h1, h2, h3⟩ := ok.suf k hk
  rw [ha] at h1; cases h1; exact ⟨h2, h3⟩

theorem IdxOk.slice_eq {ops : Ops β} {io : Bool} {n d L : Nat} {xp : List β} {index : List Nat}
    (ok : IdxOk ops io n d L xp index) {k a : Nat} (hk : k ≤ L) (ha : index[k]? = some a) (B : List β) :
    slice (xp ++ B) a xp.length = (combs io n d k).map (interp ops) ∧
    (slice (xp ++ B) a xp.length).length = xp.length - a := by
  obtain ⟨h2, h3⟩ := ok.at hk ha
  rw [slice_append_left _ _ _ h2]
  exact ⟨h3, by simp⟩

/-- the new block of variable `i`, appended after the blocks of variables `< i` -/
theorem block_append (ops : Ops β) (io : Bool) (n d i : Nat) (hd : 1 ≤ d) (xpOld : List β) :
    (xpOld ++ (seg io n d 0 i).map (interp ops)) ++
        ((combs io n d (nxt io i)).map (interp ops)).map (ops.mul · i) =
      xpOld ++ (seg io n d 0 (i+1)).map (interp ops) := by
  rw [map_mul_interp ops io n d _ i hd, seg_snoc io n d 0 i (by omega), List.map_append, List.append_assoc]

theorem posOf_len (ops : Ops β) (io : Bool) (n d j : Nat) (xpOld : List β) :
    (xpOld ++ (seg io n d 0 j).map (interp ops)).length = posOf io n d xpOld.length j := by
  simp [posOf]

theorem range_map_snoc (f : Nat → Nat) (i : Nat) :
    (List.range i).map f ++ [f i] = (List.range (i+1)).map f := by
  rw [List.range_succ, List.map_append]; rfl

/-! ### the initial step (`d == 0`) -/

theorem init_ok (ops : Ops β) (io : Bool) (n : Nat) (xp0 : List β) :
    IdxOk ops io n 1 n (xp0 ++ (List.range n).map ops.base)
      (List.range' xp0.length n ++ [xp0.length + n]) := by
  have hget : ∀ j, j ≤ n → (List.range' xp0.length n ++ [xp0.length + n])[j]? = some (xp0.length + j) := by
    intro j hj
    by_cases h : j < n
    · rw [List.getElem?_append_left (by simpa using h)]
      simp [h]
    · have : j = n := by omega
      subst this
      rw [List.getElem?_append_right (by simp)]
      simp
  refine ⟨by omega, by simp, Nat.le_refl _, fun h => h, ?_, ?_, ?_⟩
  · rw [hget n (Nat.le_refl _)]; simp
  · intro j hj
    refine ⟨_, hget j hj, by simp; omega, ?_⟩
    have e1 : xp0.length + j - xp0.length = j := by omega
    rw [List.drop_append, e1, List.drop_of_length_le (by omega), List.nil_append,
      ← List.map_drop, drop_range, combs_one, List.map_map]
    apply List.map_congr_left
    intro i _; rfl
  · intro j h1 h2
    have : j = n := by omega
    subst this
    exact combs_ge_n io j 0 j (Nat.le_refl _)

/-! ### `_transform_iall` -/

theorem iallInner_step (ops : Ops β) (n : Nat) (index : List Nat) (e i cnt : Nat) (xp : List β) (pos : Nat)
    (ni : List Nat) (a : Nat) (ha : index[i]? = some a) (hae : a ≤ e) (hin : i < n) (hpos : pos = xp.length)
    (hlen : (slice xp a e).length = e - a) :
    iallInner ops n index e i (cnt+1) xp pos ni =
      iallInner ops n index e (i+1) cnt (xp ++ (slice xp a e).map (ops.mul · i)) (pos + (e - a)) (ni ++ [pos]) := by
  rw [iallInner]
  simp only [Iall.aSub_eq, Iall.newPos_eq, Iall.srcLo_eq, Iall.srcHi_eq, Iall.colLo_eq, Iall.colHi_eq,
    Iall.dstLo_eq, Iall.dstHi_eq]
  have h1 : natOf ((pos:Int) + e - a) = some (pos + (e - a)) := natOf_eq (by omega)
  have h4 : colOf n (i:Int) ((i:Int)+1) = some i := colOf_eq rfl rfl hin
  have h5 : writeAt xp (pos:Int) ((pos + (e-a) : Nat) : Int) ((slice xp a e).map (ops.mul · i))
      = some (xp ++ (slice xp a e).map (ops.mul · i)) :=
    writeAt_eq (by omega) (by simp [hlen]; omega)
  simp only [pyIndex_nat, ha, h1, natOf_cast, h4, h5, bind, Option.bind]

theorem iallInner_spec (ops : Ops β) (n d : Nat) (xpOld : List β) (index : List Nat)
    (ok : IdxOk ops false n d n xpOld index) :
    ∀ (cnt i : Nat) (ni : List Nat), i + cnt = n →
      ni = (List.range i).map (posOf false n d xpOld.length) →
      iallInner ops n index xpOld.length i cnt (xpOld ++ (seg false n d 0 i).map (interp ops))
          (posOf false n d xpOld.length i) ni =
        some (xpOld ++ (seg false n d 0 n).map (interp ops), posOf false n d xpOld.length n,
              (List.range n).map (posOf false n d xpOld.length)) := by
  intro cnt
  induction cnt with
  | zero =>
    intro i ni h hni
    have : i = n := by omega
    subst this; simp [iallInner, hni]
  | succ cnt ih =>
    intro i ni h hni
    have hi : i < n := by omega
    obtain ⟨a, ha, _, _⟩ := ok.suf i (by omega)
    obtain ⟨hs, hl⟩ := ok.slice_eq (by omega : i ≤ n) ha ((seg false n d 0 i).map (interp ops))
    have hae := (ok.at (by omega : i ≤ n) ha).1
    rw [iallInner_step ops n index xpOld.length i cnt _ _ ni a ha hae hi (posOf_len ops false n d i xpOld).symm hl]
    rw [hs]
    have hb := block_append ops false n d i ok.dpos xpOld
    simp only [nxt, Bool.false_eq_true, if_false] at hb
    rw [hb]
    have hp : posOf false n d xpOld.length i + (xpOld.length - a) = posOf false n d xpOld.length (i+1) := by
      rw [← posOf_len ops, ← posOf_len ops, ← hb, ← hs]
      simp only [List.length_append, List.length_map]
      rw [hl]
    rw [hp]
    exact ih (i+1) _ (by omega) (by rw [hni, range_map_snoc])

theorem polySpec_succ (n d : Nat) (io bias : Bool) :
    polySpec n (d+1) io bias = polySpec n d io bias ++ combs io n (d+1) 0 := by
  unfold polySpec
  rw [List.range'_concat, List.flatMap_append, List.append_assoc]
  have e : 1 + 1 * d = d + 1 := by omega
  rw [e]
  simp

/-- invariant of `for d in range(0, degree)`: after `d` steps -/
def Inv (ops : Ops β) (io bias : Bool) (n : Nat) (fullIndex : Bool) (d : Nat) (s : St β) : Prop :=
  s.pos = s.xp.length ∧ s.xp = (polySpec n d io bias).map (interp ops) ∧
  (1 ≤ d → ∃ L, (fullIndex = true → L = n) ∧ IdxOk ops io n d L s.xp s.index)

theorem inv_init (ops : Ops β) (io bias : Bool) (n : Nat) (fi : Bool) :
    Inv ops io bias n fi 0 ⟨if bias then [ops.one] else [], if bias then 1 else 0, []⟩ := by
  refine ⟨?_, ?_, fun h => absurd h (by omega)⟩
  · cases bias <;> simp
  · cases bias <;> simp [polySpec, interp]

/-- the `d == 0` branch re-establishes the invariant for `d = 1` -/
theorem inv_first (ops : Ops β) (io bias : Bool) (n : Nat) (fi : Bool) (s : St β)
    (h : Inv ops io bias n fi 0 s) :
    Inv ops io bias n fi 1 ⟨s.xp ++ (List.range n).map ops.base, s.xp.length + n,
      List.range' s.xp.length n ++ [s.xp.length + n]⟩ := by
  obtain ⟨_, h2, _⟩ := h
  refine ⟨by simp, ?_, fun _ => ⟨n, fun _ => rfl, init_ok ops io n s.xp⟩⟩
  show s.xp ++ _ = _
  rw [polySpec_succ, List.map_append, ← h2, combs_one, List.map_map]
  congr 1
  rw [List.range_eq_range']
  simp only [Nat.sub_zero]
  apply List.map_congr_left
  intro i _; rfl

/-- a later step re-establishes the invariant, given what the inner loop produced -/
theorem inv_next (ops : Ops β) (io bias : Bool) (n d L L' : Nat) (fi : Bool) (s : St β) (hd : 1 ≤ d)
    (h : Inv ops io bias n fi d s) (_ok : IdxOk ops io n d L s.xp s.index)
    (hL : L' ≤ n) (hLpos : 1 ≤ n → 1 ≤ L') (hfi : fi = true → L' = n)
    (htail : ∀ j, L' ≤ j → j ≤ n → combs io n (d+1) j = []) :
    Inv ops io bias n fi (d+1) ⟨s.xp ++ (seg io n d 0 n).map (interp ops),
      posOf io n d s.xp.length n, (List.range (L'+1)).map (posOf io n d s.xp.length)⟩ := by
  obtain ⟨_, h2, _⟩ := h
  refine ⟨(posOf_len ops io n d n s.xp).symm, ?_,
    fun _ => ⟨L', hfi, idxOk_next ops io n d L' s.xp hd hL hLpos htail⟩⟩
  show s.xp ++ _ = _
  rw [polySpec_succ, List.map_append, ← h2, combs_succ]

theorem iallStep_spec (ops : Ops β) (bias : Bool) (n degree d : Nat) (s : St β)
    (h : Inv ops false bias n true d s) :
    ∃ s', iallStep ops n degree d s = some s' ∧ Inv ops false bias n true (d+1) s' := by
  unfold iallStep
  by_cases hd : d = 0
  · subst hd
    have hi : Iall.isInit { degree := (degree : Int), n := (n : Int), d := ((0 : Nat) : Int), pos := (s.pos : Int) }
        = true := (Iall.isInit_iff _).2 rfl
    simp only [hi, if_true, Iall.initDstLo_eq, Iall.initDstHi_eq, Iall.initIdxLo_eq, Iall.initIdxHi_eq,
      Iall.initPosInc_eq]
    have hp := h.1
    have h1 : writeAt s.xp (s.pos : Int) ((s.pos : Int) + (n : Int)) ((List.range n).map ops.base)
        = some (s.xp ++ (List.range n).map ops.base) :=
      writeAt_eq (by omega) (by simp; omega)
    have h2 : pyRange (s.pos : Int) ((s.pos : Int) + (n : Int)) = some (s.pos, n) := pyRange_eq rfl rfl
    have h3 : natOf ((s.pos : Int) + (n : Int)) = some (s.pos + n) := natOf_eq (by omega)
    simp only [h1, h2, h3, bind, Option.bind]
    refine ⟨_, rfl, ?_⟩
    rw [hp]
    exact inv_first ops false bias n true s h
  · have hd1 : 1 ≤ d := by omega
    have hi : Iall.isInit { degree := (degree : Int), n := (n : Int), d := (d : Int), pos := (s.pos : Int) }
        = false := by
      cases hc : Iall.isInit { degree := (degree : Int), n := (n : Int), d := (d : Int), pos := (s.pos : Int) }
      · rfl
      · have := (Iall.isInit_iff _).1 hc; simp at this; omega
    obtain ⟨L, hLn, ok⟩ := h.2.2 hd1
    have hL : L = n := hLn rfl
    subst hL
    simp only [hi, Bool.false_eq_true, if_false, Iall.endSub_eq, Iall.varLo_eq, Iall.varHi_eq]
    have h1 : pyIndex s.index (-1) = some s.xp.length := by
      rw [pyIndex_last rfl ok.len]; exact ok.last
    have h2 : pyRange (0 : Int) (L : Int) = some (0, L) := pyRange_eq rfl (by simp)
    have hin := iallInner_spec ops L d s.xp s.index ok L 0 [] (by omega) (by simp)
    simp only [seg_self, List.map_nil, List.append_nil] at hin
    have hp0 : posOf false L d s.xp.length 0 = s.pos := by simp [posOf, seg_self, h.1]
    rw [hp0] at hin
    simp only [h1, h2, hin, bind, Option.bind]
    refine ⟨_, rfl, ?_⟩
    rw [range_map_snoc]
    exact inv_next ops false bias L d L L true s hd1 h ok (Nat.le_refl _) (fun x => x) (fun _ => rfl)
      (fun j h1 h2 => combs_ge_n false L d j h1)

/-! ### main theorem for `_transform_iall`, then `_get_feature_names_poly` and `_transform_ionly` -/

theorem transformIall_spec (ops : Ops β) (n degree : Nat) (bias : Bool) :
    transformIall ops n degree bias = some ((polySpec n degree false bias).map (interp ops)) := by
  unfold transformIall
  simp only [Iall.posBias_eq, Iall.posNoBias_eq, Iall.degLo_eq, Iall.degHi_eq]
  have h1 : natOf (if bias = true then (1:Int) else 0) = some (if bias then 1 else 0) := by
    cases bias <;> simp [natOf]
  have h2 : pyRange (0 : Int) (degree : Int) = some (0, degree) := pyRange_eq rfl (by simp)
  obtain ⟨s', hs, hinv⟩ := loopD_inv (iallStep ops n degree) (Inv ops false bias n true)
    (iallStep_spec ops bias n degree) degree 0 _ (inv_init ops false bias n true)
  simp only [h1, h2, hs, bind, Option.bind]
  rw [hinv.2.1]; simp

theorem namesInner_step (ops : Ops β) (io : Bool) (n : Nat) (index : List Nat) (e i cnt : Nat)
    (names : List β) (ni : List Nat) (a a' : Nat)
    (ha : index[i]? = some a) (ha' : index[nxt io i]? = some a') (hin : i < n) :
    namesInner ops io n index e i (cnt+1) names ni =
      namesInner ops io n index e (i+1) cnt (names ++ (slice names a' e).map (ops.mul · i))
        (ni ++ [names.length]) := by
  rw [namesInner]
  cases io
  · simp only [nxt, Bool.false_eq_true, if_false] at ha'
    rw [ha] at ha'; cases ha'
    simp only [Names.aSub_eq, Names.srcHi_eq, Names.nameSub_eq, Bool.false_eq_true, if_false]
    simp only [pyIndex_nat, ha, bind, Option.bind]
    rw [Names.start_all _ rfl]
    simp only [natOf_cast, hin, if_true]
  · simp only [nxt, if_true] at ha'
    simp only [Names.aSub_eq, Names.srcHi_eq, Names.nameSub_eq, Names.startSub0_eq, Names.startSub1_eq, if_true]
    have e1 : ((i : Int) + 1) = ((i + 1 : Nat) : Int) := by omega
    simp only [e1, pyIndex_nat, ha, ha', bind, Option.bind]
    rw [Names.start_io _ rfl]
    have h1 : natOf ((a : Int) + ((a' : Int) - (a : Int))) = some a' := natOf_eq (by omega)
    simp only [h1, natOf_cast, hin, if_true]
theorem namesInner_spec (ops : Ops β) (io : Bool) (n d : Nat) (xpOld : List β) (index : List Nat)
    (ok : IdxOk ops io n d n xpOld index) :
    ∀ (cnt i : Nat) (ni : List Nat), i + cnt = n →
      ni = (List.range i).map (posOf io n d xpOld.length) →
      namesInner ops io n index xpOld.length i cnt (xpOld ++ (seg io n d 0 i).map (interp ops)) ni =
        some (xpOld ++ (seg io n d 0 n).map (interp ops),
              (List.range n).map (posOf io n d xpOld.length)) := by
  intro cnt
  induction cnt with
  | zero =>
    intro i ni h hni
    have : i = n := by omega
    subst this; simp [namesInner, hni]
  | succ cnt ih =>
    intro i ni h hni
    have hi : i < n := by omega
    have hk : nxt io i ≤ n := by unfold nxt; split <;> omega
    obtain ⟨a, ha, _, _⟩ := ok.suf i (by omega)
    obtain ⟨a', ha', _, _⟩ := ok.suf (nxt io i) hk
    obtain ⟨hs, _⟩ := ok.slice_eq hk ha' ((seg io n d 0 i).map (interp ops))
    rw [namesInner_step ops io n index xpOld.length i cnt _ ni a a' ha ha' hi, hs,
      block_append ops io n d i ok.dpos xpOld, posOf_len]
    exact ih (i+1) _ (by omega) (by rw [hni, range_map_snoc])

theorem namesStep_spec (ops : Ops β) (io bias : Bool) (n degree d : Nat) (s : St β)
    (h : Inv ops io bias n true d s) :
    ∃ s', namesStep ops io n degree d s = some s' ∧ Inv ops io bias n true (d+1) s' := by
  unfold namesStep
  by_cases hd : d = 0
  · subst hd
    have hi : Names.isInit { degree := (degree : Int), n := (n : Int), d := ((0 : Nat) : Int), io := io }
        = true := (Names.isInit_iff _).2 rfl
    simp only [hi, if_true, Names.initIdxLo_eq, Names.initIdxHi_eq]
    have hl : (s.xp ++ (List.range n).map ops.base).length = s.xp.length + n := by simp
    have h2 : pyRange (s.xp.length : Int) (((s.xp ++ (List.range n).map ops.base).length : Nat) : Int)
        = some (s.xp.length, n) := pyRange_eq rfl (by rw [hl]; omega)
    simp only [h2, bind, Option.bind]
    refine ⟨_, rfl, ?_⟩
    rw [hl]
    exact inv_first ops io bias n true s h
  · have hd1 : 1 ≤ d := by omega
    have hi : Names.isInit { degree := (degree : Int), n := (n : Int), d := (d : Int), io := io }
        = false := by
      cases hc : Names.isInit { degree := (degree : Int), n := (n : Int), d := (d : Int), io := io }
      · rfl
      · have := (Names.isInit_iff _).1 hc; simp at this; omega
    obtain ⟨L, hLn, ok⟩ := h.2.2 hd1
    have hL : L = n := hLn rfl
    subst hL
    simp only [hi, Bool.false_eq_true, if_false, Names.endSub_eq, Names.varLo_eq, Names.varHi_eq]
    have h1 : pyIndex s.index (-1) = some s.xp.length := by
      rw [pyIndex_last rfl ok.len]; exact ok.last
    have h2 : pyRange (0 : Int) (L : Int) = some (0, L) := pyRange_eq rfl (by simp)
    have hin := namesInner_spec ops io L d s.xp s.index ok L 0 [] (by omega) (by simp)
    simp only [seg_self, List.map_nil, List.append_nil] at hin
    simp only [h1, h2, hin, bind, Option.bind]
    refine ⟨_, rfl, ?_⟩
    rw [posOf_len, range_map_snoc]
    exact inv_next ops io bias L d L L true s hd1 h ok (Nat.le_refl _) (fun x => x) (fun _ => rfl)
      (fun j h1 h2 => combs_ge_n io L d j h1)

theorem namesRaw_spec (ops : Ops β) (n degree : Nat) (io bias : Bool) :
    namesRaw ops n degree io bias = some ((polySpec n degree io bias).map (interp ops)) := by
  unfold namesRaw
  simp only [Names.degLo_eq, Names.degHi_eq]
  have h2 : pyRange (0 : Int) (degree : Int) = some (0, degree) := pyRange_eq rfl (by simp)
  have h0 : (if bias = true then [ops.one] else ([] : List β)).length = if bias then 1 else 0 := by
    cases bias <;> rfl
  obtain ⟨s', hs, hinv⟩ := loopD_inv (namesStep ops io n degree) (Inv ops io bias n true)
    (namesStep_spec ops io bias n degree) degree 0 _ (inv_init ops io bias n true)
  rw [h0]
  simp only [h2, hs, bind, Option.bind]
  rw [hinv.2.1]; simp

theorem ionlyInner_step_break (ops : Ops β) (n : Nat) (index : List Nat) (e i cnt : Nat) (xp : List β)
    (pos : Nat) (ni : List Nat) (a a1 : Nat) (ha : index[i]? = some a) (ha1 : index[i+1]? = some a1)
    (hb : e ≤ a1) :
    ionlyInner ops n index e i (cnt+1) xp pos ni = some (xp, pos, ni ++ [pos]) := by
  rw [ionlyInner]
  have e1 : ((i : Int) + 1) = ((i + 1 : Nat) : Int) := by omega
  simp only [Ionly.aSub_eq, Ionly.decSub0_eq, Ionly.decSub1_eq, e1, pyIndex_nat, ha, ha1, bind, Option.bind]
  rw [if_pos]
  rw [Ionly.breakCond_iff]
  simp only [Ionly.newPos_eq, Ionly.dec_eq]
  omega

theorem ionlyInner_step_cont (ops : Ops β) (n : Nat) (index : List Nat) (e i cnt : Nat) (xp : List β)
    (pos : Nat) (ni : List Nat) (a a1 : Nat) (ha : index[i]? = some a) (ha1 : index[i+1]? = some a1)
    (hb : a1 < e) (hin : i < n) (hpos : pos = xp.length) (hlen : (slice xp a1 e).length = e - a1) :
    ionlyInner ops n index e i (cnt+1) xp pos ni =
      ionlyInner ops n index e (i+1) cnt (xp ++ (slice xp a1 e).map (ops.mul · i)) (pos + (e - a1))
        (ni ++ [pos]) := by
  rw [ionlyInner]
  have e1 : ((i : Int) + 1) = ((i + 1 : Nat) : Int) := by omega
  simp only [Ionly.aSub_eq, Ionly.decSub0_eq, Ionly.decSub1_eq, e1, pyIndex_nat, ha, ha1, bind, Option.bind]
  rw [if_neg]
  · simp only [Ionly.newPos_eq, Ionly.dec_eq, Ionly.srcLo_eq, Ionly.srcHi_eq, Ionly.colLo_eq, Ionly.colHi_eq,
      Ionly.dstLo_eq, Ionly.dstHi_eq]
    have h1 : natOf ((pos:Int) + e - a - ((a1:Int) - a)) = some (pos + (e - a1)) := natOf_eq (by omega)
    have h2 : natOf ((a:Int) + ((a1:Int) - a)) = some a1 := natOf_eq (by omega)
    have h4 : colOf n (i:Int) ((i:Int)+1) = some i := colOf_eq rfl rfl hin
    have h5 : writeAt xp (pos:Int) ((pos:Int) + e - a - ((a1:Int) - a)) ((slice xp a1 e).map (ops.mul · i))
        = some (xp ++ (slice xp a1 e).map (ops.mul · i)) :=
      writeAt_eq (by omega) (by simp [hlen]; omega)
    simp only [h1, h2, natOf_cast, h4, h5]
  · rw [Ionly.breakCond_iff]
    simp only [Ionly.newPos_eq, Ionly.dec_eq]
    omega

theorem nxt_true (i : Nat) : nxt true i = i + 1 := rfl

theorem ionlyInner_spec (ops : Ops β) (n d L : Nat) (xpOld : List β) (index : List Nat)
    (ok : IdxOk ops true n d L xpOld index) :
    ∀ (cnt i : Nat) (ni : List Nat), i + cnt = n → (cnt = 0 ∨ i < L) →
      ni = (List.range i).map (posOf true n d xpOld.length) →
      ∃ L' ni', L' ≤ n ∧ (1 ≤ n → 1 ≤ L') ∧
        (∀ j, L' ≤ j → j ≤ n → combs true n (d+1) j = []) ∧
        ionlyInner ops n index xpOld.length i cnt (xpOld ++ (seg true n d 0 i).map (interp ops))
          (posOf true n d xpOld.length i) ni =
          some (xpOld ++ (seg true n d 0 n).map (interp ops), posOf true n d xpOld.length n, ni') ∧
        ni' ++ [posOf true n d xpOld.length n] = (List.range (L'+1)).map (posOf true n d xpOld.length) := by
  intro cnt
  induction cnt with
  | zero =>
    intro i ni h _ hni
    have : i = n := by omega
    subst this
    exact ⟨i, ni, Nat.le_refl _, fun x => x, fun j h1 _ => combs_ge_n true i d j h1,
      by simp [ionlyInner], by rw [hni, range_map_snoc]⟩
  | succ cnt ih =>
    intro i ni h hor hni
    have hi : i < n := by omega
    have hiL : i < L := by cases hor with
      | inl h0 => omega
      | inr h1 => exact h1
    obtain ⟨a, ha, _, _⟩ := ok.suf i (by omega)
    obtain ⟨a1, ha1, ha1le, hdrop⟩ := ok.suf (i+1) (by omega)
    by_cases hb : xpOld.length ≤ a1
    · -- the early `break`
      have hnil : combs true n d (nxt true i) = [] := by
        rw [List.drop_of_length_le hb] at hdrop
        have := hdrop.symm
        rwa [List.map_eq_nil_iff] at this
      have hseg : ∀ k, i ≤ k → k ≤ n → seg true n d 0 k = seg true n d 0 i := by
        intro k h1 h2
        rw [seg_split true n d 0 i k (by omega) h1, seg_nil_of true n d i i k hnil (Nat.le_refl _)]
        simp
      have hpos : ∀ k, i ≤ k → k ≤ n → posOf true n d xpOld.length k = posOf true n d xpOld.length i := by
        intro k h1 h2; simp [posOf, hseg k h1 h2]
      refine ⟨i+1, ni ++ [posOf true n d xpOld.length i], by omega, fun _ => by omega, ?_, ?_, ?_⟩
      · intro j h1 h2
        rw [combs_succ]; exact seg_nil_of true n d i j n hnil (by omega)
      · rw [ionlyInner_step_break ops n index xpOld.length i cnt _ _ ni a a1 ha ha1 hb,
          hseg n (by omega) (Nat.le_refl _), hpos n (by omega) (Nat.le_refl _)]
      · rw [hni, range_map_snoc, hpos n (by omega) (Nat.le_refl _), ← hpos (i+1) (by omega) (by omega),
          range_map_snoc]
    · have hlt : a1 < xpOld.length := by omega
      obtain ⟨hs, hl⟩ := ok.slice_eq (by omega : i + 1 ≤ L) ha1 ((seg true n d 0 i).map (interp ops))
      rw [ionlyInner_step_cont ops n index xpOld.length i cnt _ _ ni a a1 ha ha1 hlt hi
        (posOf_len ops true n d i xpOld).symm hl]
      rw [hs]
      have hbk := block_append ops true n d i ok.dpos xpOld
      rw [nxt_true] at hbk
      rw [hbk]
      have hp : posOf true n d xpOld.length i + (xpOld.length - a1) = posOf true n d xpOld.length (i+1) := by
        rw [← posOf_len ops, ← posOf_len ops, ← hbk, ← hs]
        simp only [List.length_append, List.length_map]
        rw [hl]
      rw [hp]
      refine ih (i+1) _ (by omega) (Or.inr ?_) (by rw [hni, range_map_snoc])
      have : i + 1 ≠ L := by
        intro hL
        have h1 := ok.last
        rw [← hL, ha1] at h1
        cases h1; omega
      omega

theorem ionlyStep_spec (ops : Ops β) (bias : Bool) (n degree d : Nat) (s : St β)
    (h : Inv ops true bias n false d s) :
    ∃ s', ionlyStep ops n degree d s = some s' ∧ Inv ops true bias n false (d+1) s' := by
  unfold ionlyStep
  by_cases hd : d = 0
  · subst hd
    have hi : Ionly.isInit { degree := (degree : Int), n := (n : Int), d := ((0 : Nat) : Int), pos := (s.pos : Int) }
        = true := (Ionly.isInit_iff _).2 rfl
    simp only [hi, if_true, Ionly.initDstLo_eq, Ionly.initDstHi_eq, Ionly.initIdxLo_eq, Ionly.initIdxHi_eq,
      Ionly.initPosInc_eq]
    have hp := h.1
    have h1 : writeAt s.xp (s.pos : Int) ((s.pos : Int) + (n : Int)) ((List.range n).map ops.base)
        = some (s.xp ++ (List.range n).map ops.base) :=
      writeAt_eq (by omega) (by simp; omega)
    have h2 : pyRange (s.pos : Int) ((s.pos : Int) + (n : Int)) = some (s.pos, n) := pyRange_eq rfl rfl
    have h3 : natOf ((s.pos : Int) + (n : Int)) = some (s.pos + n) := natOf_eq (by omega)
    simp only [h1, h2, h3, bind, Option.bind]
    refine ⟨_, rfl, ?_⟩
    rw [hp]
    exact inv_first ops true bias n false s h
  · have hd1 : 1 ≤ d := by omega
    have hi : Ionly.isInit { degree := (degree : Int), n := (n : Int), d := (d : Int), pos := (s.pos : Int) }
        = false := by
      cases hc : Ionly.isInit { degree := (degree : Int), n := (n : Int), d := (d : Int), pos := (s.pos : Int) }
      · rfl
      · have := (Ionly.isInit_iff _).1 hc; simp at this; omega
    obtain ⟨L, _, ok⟩ := h.2.2 hd1
    simp only [hi, Bool.false_eq_true, if_false, Ionly.endSub_eq, Ionly.varLo_eq, Ionly.varHi_eq]
    have h1 : pyIndex s.index (-1) = some s.xp.length := by
      rw [pyIndex_last rfl ok.len]; exact ok.last
    have h2 : pyRange (0 : Int) (n : Int) = some (0, n) := pyRange_eq rfl (by simp)
    have hor : n = 0 ∨ 0 < L := by
      by_cases hn : n = 0
      · exact Or.inl hn
      · exact Or.inr (ok.Lpos (by omega))
    obtain ⟨L', ni', hL', hLpos, htail, hin, hni⟩ :=
      ionlyInner_spec ops n d L s.xp s.index ok n 0 [] (by omega) hor (by simp)
    simp only [seg_self, List.map_nil, List.append_nil] at hin
    have hp0 : posOf true n d s.xp.length 0 = s.pos := by simp [posOf, seg_self, h.1]
    rw [hp0] at hin
    simp only [h1, h2, hin, bind, Option.bind]
    refine ⟨_, rfl, ?_⟩
    rw [hni]
    exact inv_next ops true bias n d L L' false s hd1 h ok hL' hLpos (fun hf => by cases hf) htail

theorem transformIonly_spec (ops : Ops β) (n degree : Nat) (bias : Bool) :
    transformIonly ops n degree bias = some ((polySpec n degree true bias).map (interp ops)) := by
  unfold transformIonly
  simp only [Ionly.posBias_eq, Ionly.posNoBias_eq, Ionly.degLo_eq, Ionly.degHi_eq]
  have h1 : natOf (if bias = true then (1:Int) else 0) = some (if bias then 1 else 0) := by
    cases bias <;> simp [natOf]
  have h2 : pyRange (0 : Int) (degree : Int) = some (0, degree) := pyRange_eq rfl (by simp)
  obtain ⟨s', hs, hinv⟩ := loopD_inv (ionlyStep ops n degree) (Inv ops true bias n false)
    (ionlyStep_spec ops bias n degree) degree 0 _ (inv_init ops true bias n false)
  simp only [h1, h2, hs, bind, Option.bind]
  rw [hinv.2.1]; simp

end MlVerif.Poly
