/-
Helper lemmas for C08: closed forms of the bucket-map loops of `_mapping_train` /
`transform_bins`, of the class-borrowing pass and of `_apply_predict_method`.
-/
import MlVerif.Model.Piecewise
import MlVerif.Lemmas.Scatter2
namespace MlVerif.Piecewise
open MlVerif.Scatter MlVerif.Gen.C08
open MlVerif.RowWise (maskFill)

/-! ### small facts -/

theorem mapM_some' {α β} (f : α → β) : ∀ (l : List α), l.mapM (fun a => some (f a)) = some (l.map f) := by
  intro l
  induction l with
  | nil => simp
  | cons a l ih => simp [List.mapM_cons, ih]

theorem keyMask_any {κ} [BEq κ] [LawfulBEq κ] (keys : List κ) (j : κ) :
    (keyMask keys j).any id = keys.contains j := by
  unfold keyMask
  rw [List.any_map]
  induction keys with
  | nil => simp
  | cons k ks ih =>
    simp only [List.any_cons, Function.comp, id, List.contains_cons, ih]
    by_cases h : k = j
    · subst h; simp
    · have h1 : (k == j) = false := by simpa using h
      have h2 : (j == k) = false := by simpa using (fun e => h (Eq.symm e))
      simp [h1, h2]

/-! ### `_mapping_train`, tree branch -/

/-- bucket id of a key given the list of keys that received a model, in order: the code's
`mapping.get(key, -1)` -/
def bucketId {κ} [BEq κ] (mapped : List κ) (k : κ) : Int :=
  if mapped.contains k then (mapped.idxOf k : Int) else unseenValue

/-- the leaves that receive a model: those with at least one training row, in leaf order -/
def mappedLeaves {κ} [BEq κ] (leaves keys : List κ) : List κ := leaves.filter (fun j => keys.contains j)

/-- row-level reading of the training loop -/
def trainRow {κ} [BEq κ] (keys : List κ) : List κ → Nat → Int → κ → Int
  | [], _, o, _ => o
  | j :: rest, n, o, k =>
    if keys.contains j then trainRow keys rest (n + 1) (if k == j then (n : Int) else o) k
    else trainRow keys rest n o k

theorem trainLoop_rows {κ} [BEq κ] [LawfulBEq κ] (keys : List κ) :
    ∀ (rest : List κ) (assoc : List Int) (mapping : List (κ × Nat)) (n : Nat),
      assoc.length = keys.length →
      mappingTrainTreeLoop keys rest assoc mapping n =
        (List.zipWith (trainRow keys rest n) assoc keys, mapping ++ (mappedLeaves rest keys).zipIdx n) := by
  intro rest
  induction rest with
  | nil =>
    intro assoc mapping n h
    simp only [mappingTrainTreeLoop, mappedLeaves, List.filter_nil, List.zipIdx_nil, List.append_nil]
    congr 1
    have : ∀ (assoc : List Int) (ks : List κ), assoc.length = ks.length →
        assoc = List.zipWith (trainRow keys [] n) assoc ks := by
      intro assoc
      induction assoc with
      | nil => intro ks _; simp
      | cons o os ih =>
        intro ks h
        cases ks with
        | nil => simp at h
        | cons k ks =>
          have e := ih ks (by simpa using h)
          simp only [trainRow] at e
          simp only [List.zipWith_cons_cons, trainRow, ← e]
    exact this assoc keys h
  | cons j rest ih =>
    intro assoc mapping n h
    simp only [mappingTrainTreeLoop, keyMask_any]
    by_cases hj : keys.contains j = true
    · simp only [hj, if_true]
      rw [ih _ _ _ (by
        unfold keyMask
        rw [maskFill_keys_eq _ _ _ _ h]; simp [h])]
      unfold keyMask
      rw [maskFill_keys_eq _ _ _ _ h, zipWith_zipWith_same]
      simp only [mappedLeaves, List.filter_cons, hj, if_true, List.zipIdx_cons, List.append_assoc,
        List.singleton_append]
      congr 1
      apply zipWith_congr_right
      intro o k _
      simp only [trainRow, hj, if_true]
    · have hj' : keys.contains j = false := by simpa using hj
      simp only [hj', Bool.false_eq_true, if_false]
      rw [ih _ _ _ h]
      simp only [mappedLeaves, List.filter_cons, hj', Bool.false_eq_true, if_false]
      congr 1
      apply zipWith_congr_right
      intro o k _
      simp only [trainRow, hj', Bool.false_eq_true, if_false]

theorem trainRow_closed {κ} [BEq κ] [LawfulBEq κ] (keys : List κ) :
    ∀ (rest : List κ) (n : Nat) (o : Int) (k : κ), rest.Nodup →
      trainRow keys rest n o k =
        if (mappedLeaves rest keys).contains k then ((n + (mappedLeaves rest keys).idxOf k : Nat) : Int) else o := by
  intro rest
  induction rest with
  | nil => intro n o k _; simp [trainRow, mappedLeaves]
  | cons j rest ih =>
    intro n o k hnd
    have hnd' := (List.nodup_cons.mp hnd)
    by_cases hj : keys.contains j = true
    · simp only [trainRow, hj, if_true, mappedLeaves, List.filter_cons]
      rw [ih _ _ _ hnd'.2]
      by_cases hkj : k = j
      · subst hkj
        have : ¬ k ∈ mappedLeaves rest keys := fun hm => hnd'.1 (List.mem_filter.mp hm).1
        simp [mappedLeaves] at this
        simp [mappedLeaves, List.idxOf_cons]
        intro h1 h2; exact absurd h2 (by simpa using this h1)
      · have h1 : (k == j) = false := by simpa using hkj
        have h2 : (j == k) = false := by simpa using (fun e => hkj (Eq.symm e))
        simp only [h1, Bool.false_eq_true, if_false, mappedLeaves, List.contains_cons, List.idxOf_cons, h2,
          Bool.false_or, cond_false]
        split
        · congr 1; omega
        · rfl
    · have hj' : keys.contains j = false := by simpa using hj
      simp only [trainRow, hj', Bool.false_eq_true, if_false, mappedLeaves, List.filter_cons]
      exact ih _ _ _ hnd'.2

/-- `_mapping_train` (tree branch) in closed form: `mapping_` numbers the non-empty leaves densely
in leaf order and `association` is the bucket id of every row's leaf. -/
theorem mappingTrainTree_closed {κ} [BEq κ] [LawfulBEq κ] (leaves keys : List κ) (hnd : leaves.Nodup) :
    mappingTrainTree leaves keys =
      (keys.map (bucketId (mappedLeaves leaves keys)), (mappedLeaves leaves keys).zipIdx) := by
  unfold mappingTrainTree
  rw [trainLoop_rows keys leaves _ [] 0 (by simp)]
  simp only [List.nil_append]
  congr 1
  rw [zipWith_const_left]
  apply List.map_congr_left
  intro k _
  rw [trainRow_closed keys leaves 0 _ k hnd]
  simp [bucketId]

/-! ### dict lookups in `mapping_` -/

theorem lookup_zipIdx {κ} [BEq κ] [LawfulBEq κ] : ∀ (l : List κ) (n : Nat) (k : κ),
    (l.zipIdx n).lookup k = if l.contains k then some (n + l.idxOf k) else none := by
  intro l
  induction l with
  | nil => intro n k; simp
  | cons a l ih =>
    intro n k
    simp only [List.zipIdx_cons, List.lookup_cons, List.contains_cons, List.idxOf_cons, ih]
    by_cases hka : k = a
    · subst hka; simp
    · have h1 : (k == a) = false := by simpa using hka
      have h2 : (a == k) = false := by simpa using (fun e => hka (Eq.symm e))
      simp only [h1, h2, Bool.false_or, cond_false]
      split <;> simp <;> omega

theorem dictGet_zipIdx {κ} [BEq κ] [LawfulBEq κ] (mapped : List κ) (k : κ) :
    dictGet mapped.zipIdx k unseenValue = bucketId mapped k := by
  unfold dictGet bucketId
  rw [lookup_zipIdx]
  split <;> simp_all

/-! ### `transform_bins` -/

def tbRow {κ} [BEq κ] (mapping : List (κ × Nat)) (keys : List κ) : List κ → Int → κ → Int
  | [], o, _ => o
  | j :: rest, o, k =>
    if keys.contains j then tbRow mapping keys rest (if k == j then dictGet mapping j unseenValue else o) k
    else tbRow mapping keys rest o k

theorem tbLoop_rows {κ} [BEq κ] [LawfulBEq κ] (mapping : List (κ × Nat)) (keys : List κ) :
    ∀ (rest : List κ) (assoc : List Int), assoc.length = keys.length →
      transformBinsTreeLoop mapping keys rest assoc = List.zipWith (tbRow mapping keys rest) assoc keys := by
  intro rest
  induction rest with
  | nil =>
    intro assoc h
    simp only [transformBinsTreeLoop]
    have : ∀ (assoc : List Int) (ks : List κ), assoc.length = ks.length →
        assoc = List.zipWith (tbRow mapping keys []) assoc ks := by
      intro assoc
      induction assoc with
      | nil => intro ks _; simp
      | cons o os ih =>
        intro ks h
        cases ks with
        | nil => simp at h
        | cons k ks =>
          have e := ih ks (by simpa using h)
          simp only [tbRow] at e
          simp only [List.zipWith_cons_cons, tbRow, ← e]
    exact this assoc keys h
  | cons j rest ih =>
    intro assoc h
    simp only [transformBinsTreeLoop, keyMask_any]
    by_cases hj : keys.contains j = true
    · simp only [hj, if_true]
      unfold keyMask
      rw [ih _ (by rw [maskFill_keys_eq _ _ _ _ h]; simp [h])]
      rw [maskFill_keys_eq _ _ _ _ h, zipWith_zipWith_same]
      apply zipWith_congr_right
      intro o k _
      simp only [tbRow, hj, if_true]
    · have hj' : keys.contains j = false := by simpa using hj
      simp only [hj', Bool.false_eq_true, if_false]
      rw [ih _ h]
      apply zipWith_congr_right
      intro o k _
      simp only [tbRow, hj', Bool.false_eq_true, if_false]

theorem tbRow_closed {κ} [BEq κ] [LawfulBEq κ] (mapping : List (κ × Nat)) (keys : List κ) :
    ∀ (rest : List κ) (o : Int) (k : κ), k ∈ keys →
      tbRow mapping keys rest o k = if rest.contains k then dictGet mapping k unseenValue else o := by
  intro rest
  induction rest with
  | nil => intro o k _; simp [tbRow]
  | cons j rest ih =>
    intro o k hk
    by_cases hkj : k = j
    · subst hkj
      have : keys.contains k = true := by simpa using hk
      simp only [tbRow, this, if_true, ih _ _ hk, beq_self_eq_true, List.contains_cons, Bool.true_or]
      split <;> rfl
    · have h1 : (k == j) = false := by simpa using hkj
      by_cases hj : keys.contains j = true
      · simp [tbRow, hj, h1, ih _ _ hk, List.contains_cons]
      · have hj' : keys.contains j = false := by simpa using hj
        simp [tbRow, hj', h1, ih _ _ hk, List.contains_cons]

/-- `transform_bins` (tree branch) in closed form -/
theorem transformBinsTree_closed {κ} [BEq κ] [LawfulBEq κ] (leaves : List κ) (mapping : List (κ × Nat))
    (keys : List κ) :
    transformBinsTree leaves mapping keys =
      keys.map (fun k => if leaves.contains k then dictGet mapping k unseenValue else unseenValue) := by
  unfold transformBinsTree
  rw [tbLoop_rows mapping keys leaves _ (by simp), zipWith_const_left]
  apply List.map_congr_left
  intro k hk
  exact tbRow_closed mapping keys leaves _ k hk

/-! ### `uniq` (python `set`) -/

theorem uniqLoop_spec {α} [BEq α] [LawfulBEq α] : ∀ (xs acc : List α), acc.Nodup →
    (xs.foldl (fun acc x => if acc.contains x then acc else acc ++ [x]) acc).Nodup ∧
    ∀ a, a ∈ xs.foldl (fun acc x => if acc.contains x then acc else acc ++ [x]) acc ↔ a ∈ acc ∨ a ∈ xs := by
  intro xs
  induction xs with
  | nil => intro acc h; simp [h]
  | cons x xs ih =>
    intro acc h
    simp only [List.foldl_cons]
    by_cases hx : acc.contains x = true
    · simp only [hx, if_true]
      have := ih acc h
      refine ⟨this.1, fun a => ?_⟩
      rw [this.2 a]
      have hx' : x ∈ acc := by simpa using hx
      constructor
      · rintro (h1 | h1)
        · exact Or.inl h1
        · exact Or.inr (by simp [h1])
      · rintro (h1 | h1)
        · exact Or.inl h1
        · rcases List.mem_cons.mp h1 with h2 | h2
          · subst h2; exact Or.inl hx'
          · exact Or.inr h2
    · have hx' : ¬ x ∈ acc := by simpa using hx
      have hx2 : acc.contains x = false := by simpa using hx
      simp only [hx2, Bool.false_eq_true, if_false]
      have hnd : (acc ++ [x]).Nodup := by
        rw [List.nodup_append]
        refine ⟨h, by simp, ?_⟩
        intro a ha b hb
        have : b = x := by simpa using hb
        subst this
        intro e; subst e; exact hx' ha
      have := ih (acc ++ [x]) hnd
      refine ⟨this.1, fun a => ?_⟩
      rw [this.2 a]
      simp only [List.mem_append, List.mem_cons, List.not_mem_nil, or_false]
      constructor
      · rintro ((h1 | h1) | h1)
        · exact Or.inl h1
        · exact Or.inr (Or.inl h1)
        · exact Or.inr (Or.inr h1)
      · rintro (h1 | h1 | h1)
        · exact Or.inl (Or.inl h1)
        · exact Or.inl (Or.inr h1)
        · exact Or.inr h1

theorem uniq_nodup {α} [BEq α] [LawfulBEq α] (xs : List α) : (uniq xs).Nodup :=
  (uniqLoop_spec xs [] (by simp)).1

theorem mem_uniq {α} [BEq α] [LawfulBEq α] (xs : List α) (a : α) : a ∈ uniq xs ↔ a ∈ xs := by
  have := (uniqLoop_spec xs [] (by simp)).2 a
  simpa [uniq] using this

end MlVerif.Piecewise
