/-
Helper lemmas for C08, part 2: the class-borrowing pass of `_fit_piecewise_estimator` and the
closed form of `_apply_predict_method` (derived from the shared `dispatch_rows`).
-/
import MlVerif.Lemmas.Piecewise
namespace MlVerif.Piecewise
open MlVerif.Scatter MlVerif.Gen.C08

/-! ### membership in a masked slice -/

theorem mem_maskGet_iff {α} : ∀ (xs : List α) (ms : List Bool) (c : α),
    c ∈ maskGet xs ms ↔ ∃ k : Nat, xs[k]? = some c ∧ ms[k]? = some true := by
  intro xs
  induction xs with
  | nil =>
    intro ms c
    cases ms with
    | nil => simp [maskGet]
    | cons m ms => cases m <;> simp [maskGet]
  | cons x xs ih =>
    intro ms c
    cases ms with
    | nil => simp [maskGet]
    | cons m ms =>
      cases m with
      | true =>
        simp only [maskGet, List.mem_cons, ih ms c]
        constructor
        · rintro (h | ⟨k, h1, h2⟩)
          · exact ⟨0, by simp [h], by simp⟩
          · exact ⟨k + 1, by simpa using h1, by simpa using h2⟩
        · rintro ⟨k, h1, h2⟩
          cases k with
          | zero => left; simpa using h1.symm
          | succ k => right; exact ⟨k, by simpa using h1, by simpa using h2⟩
      | false =>
        simp only [maskGet, ih ms c]
        constructor
        · rintro ⟨k, h1, h2⟩
          exact ⟨k + 1, by simpa using h1, by simpa using h2⟩
        · rintro ⟨k, h1, h2⟩
          cases k with
          | zero => simp at h2
          | succ k => exact ⟨k, by simpa using h1, by simpa using h2⟩

theorem setTrue_getElem? (ind : List Bool) (res : List Nat) (k : Nat) :
    (setTrue ind res)[k]? = if k ∈ res then ind[k]?.map (fun _ => true) else ind[k]? := by
  unfold setTrue
  exact foldl_set_getElem? (fun _ => true) res ind k

theorem setTrue_length (ind : List Bool) (res : List Nat) : (setTrue ind res).length = ind.length := by
  unfold setTrue
  induction res generalizing ind with
  | nil => simp
  | cons r rs ih => simp [List.foldl_cons, ih]

/-! ### pigeonhole on duplicate-free lists -/

theorem subset_of_nodup_length {α} [BEq α] [LawfulBEq α] : ∀ (l1 l2 : List α), l1.Nodup → l1 ⊆ l2 → l2.Nodup →
    l2.length ≤ l1.length → l2 ⊆ l1 := by
  intro l1
  induction l1 with
  | nil =>
    intro l2 _ _ _ hlen
    have : l2 = [] := List.eq_nil_of_length_eq_zero (by simpa using hlen)
    simp [this]
  | cons a l1 ih =>
    intro l2 hnd hsub hnd2 hlen
    have ha : a ∈ l2 := hsub (by simp)
    have hnd' := List.nodup_cons.mp hnd
    have h1 : l1 ⊆ l2.erase a := by
      intro b hb
      have hne : b ≠ a := fun e => hnd'.1 (e ▸ hb)
      exact (List.mem_erase_of_ne hne).mpr (hsub (by simp [hb]))
    have h2 : (l2.erase a).Nodup := hnd2.erase a
    have h3 : (l2.erase a).length ≤ l1.length := by
      rw [List.length_erase_of_mem ha]; simp at hlen; omega
    have := ih (l2.erase a) hnd'.2 h1 h2 h3
    intro b hb
    by_cases hba : b = a
    · simp [hba]
    · exact List.mem_cons_of_mem _ (this ((List.mem_erase_of_ne hba).mpr hb))

/-! ### the borrowing pass -/

/-- what one pass over the shuffled row numbers returns: the rows `new` appended to `res` are
taken from `addition` in order, their classes are appended to `found`, `found` stays
duplicate free, and afterwards the class of every visited row is in `found`. -/
theorem borrowPass_spec {τ} [BEq τ] [LawfulBEq τ] (y : List τ) :
    ∀ (addition : List Nat) (found : List τ) (res : List Nat) (found' : List τ) (res' : List Nat),
      borrowPass y addition found res = some (found', res') → found.Nodup →
      ∃ new : List Nat, res' = res ++ new ∧ new.Sublist addition ∧
        found' = found ++ new.filterMap (fun k => y[k]?) ∧
        (new.filterMap (fun k => y[k]?)).length = new.length ∧
        found'.Nodup ∧
        (∀ ki ∈ addition, ∀ c, y[ki]? = some c → c ∈ found') := by
  intro addition
  induction addition with
  | nil =>
    intro found res found' res' h hnd
    simp only [borrowPass, Option.some.injEq, Prod.mk.injEq] at h
    obtain ⟨rfl, rfl⟩ := h
    exact ⟨[], by simp, by simp, by simp, by simp, hnd, by simp⟩
  | cons ki rest ih =>
    intro found res found' res' h hnd
    simp only [borrowPass] at h
    cases hy : y[ki]? with
    | none => simp [hy] at h
    | some c =>
      simp only [hy] at h
      by_cases hc : found.contains c = true
      · simp only [hc, if_true] at h
        obtain ⟨new, h1, h2, h3, h4, h5, h6⟩ := ih found res found' res' h hnd
        refine ⟨new, h1, h2.cons ki, h3, h4, h5, ?_⟩
        intro kj hkj c' hc'
        rcases List.mem_cons.mp hkj with e | e
        · subst e
          rw [hy] at hc'
          have : c' = c := by simpa using hc'.symm
          subst this
          rw [h3]
          exact List.mem_append_left _ (by simpa using hc)
        · exact h6 kj e c' hc'
      · have hc' : found.contains c = false := by simpa using hc
        simp only [hc', Bool.false_eq_true, if_false] at h
        have hnd2 : (found ++ [c]).Nodup := by
          rw [List.nodup_append]
          refine ⟨hnd, by simp, ?_⟩
          intro a ha b hb
          have : b = c := by simpa using hb
          subst this
          intro e; subst e
          have : ¬ a ∈ found := by simpa using hc'
          exact this ha
        obtain ⟨new, h1, h2, h3, h4, h5, h6⟩ := ih (found ++ [c]) (res ++ [ki]) found' res' h hnd2
        refine ⟨ki :: new, by simp [h1], h2.cons_cons ki, ?_, ?_, h5, ?_⟩
        · simp [h3, List.filterMap_cons, hy]
        · simp [List.filterMap_cons, hy, h4]
        · intro kj hkj c'' hc''
          rcases List.mem_cons.mp hkj with e | e
          · subst e
            rw [hy] at hc''
            have : c'' = c := by simpa using hc''.symm
            subst this
            rw [h3]
            exact List.mem_append_left _ (by simp)
          · exact h6 kj e c'' hc''

/-! ### `_apply_predict_method` -/

theorem maskSet_length {β} : ∀ (old : List β) (ms : List Bool) (ps : List β),
    (maskSet old ms ps).length = old.length := by
  intro old
  induction old with
  | nil => intro ms ps; cases ms <;> cases ps <;> simp [maskSet]
  | cons o os ih =>
    intro ms ps
    cases ms with
    | nil => cases ps <;> simp [maskSet]
    | cons m ms =>
      cases m with
      | true => cases ps <;> simp [maskSet, ih]
      | false => simp [maskSet, ih]

/-- `numpy.logical_or(indall, ind)` is itself a masked write of `True` -/
theorem or_eq_maskSet {α} : ∀ (indall ind : List Bool) (xs : List α),
    indall.length = ind.length → xs.length = ind.length →
    (indall.zip ind).map (fun ab => ab.1 || ab.2) =
      maskSet indall ind ((maskGet xs ind).map (fun _ => true)) := by
  intro indall
  induction indall with
  | nil => intro ind xs h1 h2; cases ind <;> simp_all [maskSet]
  | cons b bs ih =>
    intro ind xs h1 h2
    cases ind with
    | nil => simp at h1
    | cons m ms =>
      cases xs with
      | nil => simp at h2
      | cons x xs =>
        have := ih ms xs (by simpa using h1) (by simpa using h2)
        cases m <;> simp [maskSet, maskGet, this]

/-- bucket ids as naturals: a negative id (unseen bucket) becomes `nEst`, which no task selects -/
def enc (nEst : Nat) (a : Int) : Nat := if 0 ≤ a then a.toNat else nEst

theorem mask_enc (nEst : Nat) (assoc : List Int) (i : Nat) (hi : i < nEst) :
    assoc.map (fun a => a == (i : Int)) = (assoc.map (enc nEst)).map (· == i) := by
  rw [List.map_map]
  apply List.map_congr_left
  intro a _
  simp only [Function.comp, enc]
  by_cases ha : 0 ≤ a
  · simp only [ha, if_true]
    apply Bool.eq_iff_iff.mpr
    simp only [beq_iff_eq]
    omega
  · simp only [ha, if_false]
    apply Bool.eq_iff_iff.mpr
    simp only [beq_iff_eq]
    omega

/-- the selection of a predict task, once the regenerated selection is `association == i` -/
theorem selMask_eq (assoc : List Int) (i : Int) :
    selMask ⟨"association", .eq, "i"⟩ assoc i = some (assoc.map (fun a => a == i)) := by
  simp only [selMask, Cmp.eval]
  rw [if_pos (by decide)]
  exact mapM_some' _ _

/-- the plain task list after reading the selection and using that local models are row-wise -/
def plainTask {ρ β} (g : Nat → ρ → β) (X : List ρ) (assoc : List Int) (i : Nat) : Option (List Bool × List β) :=
  let ind := assoc.map (fun a => a == (i : Int))
  if !(ind.any id) then none else some (ind, (maskGet X ind).map (g i))

theorem tasks_plain {ρ β} (P : Nat → List ρ → List β) (g : Nat → ρ → β) (hP : ∀ i xs, P i xs = xs.map (g i))
    (X : List ρ) (assoc : List Int) : ∀ (is : List Nat),
    is.mapM (predictTask ⟨"association", .eq, "i"⟩ P X assoc) = some (is.map (plainTask g X assoc)) := by
  intro is
  induction is with
  | nil => simp
  | cons i is ih =>
    simp only [List.mapM_cons, ih, List.map_cons]
    simp only [predictTask, selMask_eq, plainTask, hP]
    split <;> simp

/-- the gather loop equals two runs of the shared `dispatch`: one for the predictions, one for
the `indall` bookkeeping -/
theorem gatherLoop_dispatch {ρ β} (g : Nat → ρ → β) (X : List ρ) (assoc : List Int) (nEst : Nat)
    (hacc : applyAccum = .or) (hX : X.length = assoc.length) :
    ∀ (is : List Nat) (pred : List β) (indall : List Bool), (∀ i ∈ is, i < nEst) →
      pred.length = assoc.length → indall.length = assoc.length →
      gatherLoop (is.map (plainTask g X assoc)) pred indall =
        some (dispatch g X (assoc.map (enc nEst)) is pred,
              dispatch (fun _ _ => true) X (assoc.map (enc nEst)) is indall) := by
  intro is
  induction is with
  | nil => intro pred indall _ _ _; simp [gatherLoop, dispatch]
  | cons i is ih =>
    intro pred indall hlt hp hi
    have hi' : i < nEst := hlt i (by simp)
    have hm := mask_enc nEst assoc i hi'
    simp only [List.map_cons, dispatch]
    rw [← hm]
    by_cases hany : (assoc.map (fun a => a == (i : Int))).any id = true
    · have : plainTask g X assoc i = some (assoc.map (fun a => a == (i : Int)),
          (maskGet X (assoc.map (fun a => a == (i : Int)))).map (g i)) := by
        simp [plainTask, hany]
      rw [this]
      simp only [gatherLoop, hacc, BOp.eval]
      rw [mapM_some' (fun (ab : Bool × Bool) => (ab.1 || ab.2))]
      simp only []
      rw [or_eq_maskSet indall _ X (by simp [hi]) (by simp [hX])]
      exact ih _ _ (fun j hj => hlt j (by simp [hj])) (by rw [maskSet_length]; exact hp)
        (by rw [maskSet_length]; exact hi)
    · have hf : (assoc.map (fun a => a == (i : Int))).any id = false := Bool.eq_false_iff.mpr hany
      have : plainTask g X assoc i = none := by simp [plainTask, hf]
      rw [this]
      simp only [gatherLoop]
      rw [maskSet_noTrue pred _ _ hf, maskSet_noTrue indall _ _ hf]
      exact ih _ _ (fun j hj => hlt j (by simp [hj])) hp hi

theorem zw3_rows {ρ β γ δ} (f : β → γ → ρ → δ) (a : ρ × Int → β) (b : ρ × Int → γ) : ∀ (rows : List (ρ × Int)),
    zw3 f (rows.map a) (rows.map b) (rows.map Prod.fst) = rows.map (fun r => f (a r) (b r) r.1) := by
  intro rows
  induction rows with
  | nil => simp [zw3]
  | cons r rs ih => simp [zw3, ih]

/-- **closed form of `_apply_predict_method`**: every row gets the prediction of its bucket's
model when its bucket id is one of `0..nEst-1`, the fallback model's otherwise. -/
theorem applyPredict_closed {ρ β} (nEst : Nat) (P : Nat → List ρ → List β) (Pmean : List ρ → List β)
    (g : Nat → ρ → β) (gm : ρ → β) (hP : ∀ i xs, P i xs = xs.map (g i)) (hPm : ∀ xs, Pmean xs = xs.map gm)
    (zero : β) (X : List ρ) (assoc : List Int) (hX : X.length = assoc.length) (hn : nEst ≠ 0)
    (hacc : applyAccum = .or) (hfin : applyFinal = .not) (hguard : fallbackGuard = (.gt, 0)) :
    applyPredict ⟨"association", .eq, "i"⟩ nEst P Pmean zero X assoc =
      some ((X.zip assoc).map (fun r => if 0 ≤ r.2 ∧ r.2 < (nEst : Int) then g r.2.toNat r.1 else gm r.1)) := by
  have hX1 : (X.zip assoc).map Prod.fst = X := List.map_fst_zip (by omega)
  have hA1 : (X.zip assoc).map Prod.snd = assoc := List.map_snd_zip (by omega)
  generalize hrows : X.zip assoc = rows at hX1 hA1
  have hlen : rows.length = assoc.length := by rw [← hA1]; simp
  unfold applyPredict
  rw [if_neg hn, tasks_plain P g hP X assoc]
  dsimp only
  rw [show (X.map fun _ => zero) = rows.map (fun _ => zero) by rw [← hX1]; simp,
      show (X.map fun _ => false) = rows.map (fun _ => false) by rw [← hX1]; simp]
  rw [gatherLoop_dispatch g X assoc nEst hacc hX (List.range nEst) _ _
      (fun i hi => List.mem_range.mp hi) (by simp [hlen]) (by simp [hlen])]
  dsimp only
  rw [dispatch_rows g _ X _ _ (by simp [hX]) (by simp [hlen]),
      dispatch_rows (fun _ _ => true) _ X _ _ (by simp [hX]) (by simp [hlen])]
  have hA2 : assoc.map (enc nEst) = rows.map (fun r => enc nEst r.2) := by rw [← hA1]; simp
  rw [hA2]
  conv => lhs; rw [← hX1]
  rw [zw3_rows, zw3_rows, hfin]
  have hnot : UOp.eval UOp.not = fun b => some (!b) := by funext b; rfl
  rw [hnot, mapM_some' (fun b => !b), List.map_map]
  dsimp only
  simp only [hguard, Cmp.eval]
  -- the fallback write, row by row
  have hfb : maskSet (rows.map (fun r => if enc nEst r.2 ∈ List.range nEst then g (enc nEst r.2) r.1 else zero))
      (rows.map ((fun b => !b) ∘ fun r => if enc nEst r.2 ∈ List.range nEst then true else false))
      (Pmean (maskGet (rows.map Prod.fst)
        (rows.map ((fun b => !b) ∘ fun r => if enc nEst r.2 ∈ List.range nEst then true else false)))) =
      rows.map (fun r => if ((fun b => !b) ∘ fun r => if enc nEst r.2 ∈ List.range nEst then true else false) r
        then gm r.1 else (if enc nEst r.2 ∈ List.range nEst then g (enc nEst r.2) r.1 else zero)) := by
    rw [hPm, maskGet_map, List.map_map]
    exact maskSet_rowwise _ (gm ∘ Prod.fst) _ rows
  have hrow : ∀ r : ρ × Int,
      (if ((fun b => !b) ∘ fun r => if enc nEst r.2 ∈ List.range nEst then true else false) r
        then gm r.1 else (if enc nEst r.2 ∈ List.range nEst then g (enc nEst r.2) r.1 else zero)) =
      (if 0 ≤ r.2 ∧ r.2 < (nEst : Int) then g r.2.toNat r.1 else gm r.1) := by
    intro r
    simp only [Function.comp, enc, List.mem_range]
    by_cases h0 : 0 ≤ r.2
    · by_cases h1 : r.2 < (nEst : Int)
      · have : r.2.toNat < nEst := by omega
        simp [h0, h1, this]
      · have : ¬ r.2.toNat < nEst := by omega
        simp [h0, h1, this]
    · simp [h0]
  by_cases hgt : ((maskGet (rows.map Prod.fst) (rows.map ((fun b => !b) ∘ fun r => if enc nEst r.2 ∈ List.range nEst then true else false))).length : Int) > 0
  · rw [decide_eq_true hgt]
    dsimp only
    rw [hfb]
    congr 1
    exact List.map_congr_left (fun r _ => hrow r)
  · rw [decide_eq_false hgt]
    dsimp only
    -- nothing was missed: the fallback branch is not taken and no row needs it
    have hnil : maskGet (rows.map Prod.fst) (rows.map ((fun b => !b) ∘ fun r => if enc nEst r.2 ∈ List.range nEst then true else false)) = [] :=
      List.eq_nil_of_length_eq_zero (by omega)
    have hno := noTrue_of_maskGet_nil _ _ (by simp) hnil
    have h2 := maskSet_noTrue
      (rows.map (fun r => if enc nEst r.2 ∈ List.range nEst then g (enc nEst r.2) r.1 else zero)) _
      (Pmean (maskGet (rows.map Prod.fst) (rows.map ((fun b => !b) ∘ fun r => if enc nEst r.2 ∈ List.range nEst then true else false)))) hno
    rw [← h2, hfb]
    congr 1
    exact List.map_congr_left (fun r _ => hrow r)

theorem borrowPass_some {τ} [BEq τ] (y : List τ) : ∀ (add : List Nat) (f : List τ) (r : List Nat),
    (∀ k ∈ add, k < y.length) → ∃ p, borrowPass y add f r = some p := by
  intro add
  induction add with
  | nil => intro f r _; exact ⟨_, rfl⟩
  | cons k ks ih =>
    intro f r hk
    have hk0 : k < y.length := hk k (by simp)
    simp only [borrowPass, List.getElem?_eq_getElem hk0]
    split
    · exact ih _ _ (fun j hj => hk j (by simp [hj]))
    · exact ih _ _ (fun j hj => hk j (by simp [hj]))

/-- the classifier task, when the regenerated selection is `association == i`, `nb` is the number of
classes of the training set and the shuffle is a permutation of the row numbers -/
theorem fitBucket_borrow {ρ τ ω} [BEq τ] [LawfulBEq τ] (i : Nat) (X : List ρ) (y : List τ)
    (w : Option (List ω)) (assoc : List Int) (addition : List Nat)
    (hsel : fitSelection = ⟨"association", .eq, "i"⟩)
    (hy : y.length = assoc.length) (hi : (i : Int) ∈ assoc)
    (hrange : ∀ k ∈ addition, k < y.length) (hcover : ∀ k, k < y.length → k ∈ addition) :
    ∃ res : List Nat,
      fitBucket i X y w assoc (some (uniq y).length) addition =
        .fitted (slice X y w (setTrue (assoc.map (fun a => a == (i : Int))) res)) res ∧
      res.Sublist addition ∧
      (res.filterMap (fun k => y[k]?)).Nodup ∧ (res.filterMap (fun k => y[k]?)).length = res.length ∧
      (∀ c ∈ res.filterMap (fun k => y[k]?), ¬ c ∈ maskGet y (assoc.map (fun a => a == (i : Int)))) ∧
      (∀ c ∈ y, c ∈ maskGet y (setTrue (assoc.map (fun a => a == (i : Int))) res)) := by
  generalize hind : assoc.map (fun a => a == (i : Int)) = ind
  have hindlen : ind.length = y.length := by rw [← hind]; simp [hy]
  have hany : ind.any id = true := by
    rw [← hind, List.any_map, List.any_eq_true]; exact ⟨_, hi, by simp⟩
  have hsubY : ∀ c, c ∈ uniq (maskGet y ind) → c ∈ uniq y := by
    intro c hc
    rw [mem_uniq] at hc ⊢
    exact (maskGet_sublist _ _).subset hc
  have hfull : (uniq y).length ≤ (uniq (maskGet y ind)).length → ∀ c ∈ y, c ∈ maskGet y ind := by
    intro hle c hc
    have := subset_of_nodup_length _ _ (uniq_nodup _) hsubY (uniq_nodup y) hle ((mem_uniq y c).mpr hc)
    exact (mem_uniq _ c).mp this
  unfold fitBucket
  rw [hsel, selMask_eq, hind]
  simp only [hany, Bool.not_true, Bool.false_eq_true, if_false, slice]
  by_cases hnb : (uniq (maskGet y ind)).length = (uniq y).length
  · refine ⟨[], ?_⟩
    simp only [bne_iff_ne, ne_eq, hnb, not_true_eq_false, if_false, setTrue, List.foldl_nil]
    exact ⟨trivial, by simp, by simp, by simp, by simp, hfull (by omega)⟩
  · simp only [bne_iff_ne, ne_eq, hnb, not_false_eq_true, if_true]
    by_cases hlt : (uniq (maskGet y ind)).length < (uniq y).length
    · simp only [hlt, if_true]
      obtain ⟨⟨found', res⟩, hb⟩ := borrowPass_some y addition (uniq (maskGet y ind)) [] hrange
      obtain ⟨new, h1, h2, h3, h4, h5, h6⟩ := borrowPass_spec y addition _ [] found' res hb (uniq_nodup _)
      have hres : res = new := by simpa using h1
      subst hres
      have hall : ∀ c ∈ y, c ∈ found' := by
        intro c hc
        obtain ⟨k, hk⟩ := List.mem_iff_getElem?.mp hc
        have hkl : k < y.length := by
          rcases List.getElem?_eq_some_iff.mp hk with ⟨h, _⟩; exact h
        exact h6 k (hcover k hkl) c hk
      have hle : (uniq y).length ≤ found'.length :=
        (uniq_nodup y).length_le_of_subset (fun c hc => hall c ((mem_uniq y c).mp hc))
      refine ⟨res, ?_, h2, ?_, h4, ?_, ?_⟩
      · simp only [hb]
        rw [if_neg (by omega)]
      · rw [h3] at h5; exact (List.nodup_append.mp h5).2.1
      · intro c hc hmem
        rw [h3] at h5
        exact (List.nodup_append.mp h5).2.2 c ((mem_uniq _ c).mpr hmem) c hc rfl
      · intro c hc
        have hcf := hall c hc
        rw [h3] at hcf
        rw [mem_maskGet_iff]
        rcases List.mem_append.mp hcf with hf | hf
        · have := (mem_uniq _ c).mp hf
          obtain ⟨k, hk1, hk2⟩ := (mem_maskGet_iff y ind c).mp this
          refine ⟨k, hk1, ?_⟩
          rw [setTrue_getElem?]
          split <;> simp [hk2]
        · obtain ⟨k, hkr, hk⟩ := List.mem_filterMap.mp hf
          refine ⟨k, hk, ?_⟩
          have hkl : k < ind.length := by
            rcases List.getElem?_eq_some_iff.mp hk with ⟨h, _⟩; omega
          rw [setTrue_getElem?]
          simp [hkr, List.getElem?_eq_getElem hkl]
    · simp only [hlt, if_false]
      refine ⟨[], ?_⟩
      simp only [setTrue, List.foldl_nil]
      exact ⟨trivial, by simp, by simp, by simp, by simp, hfull (by omega)⟩

/-- `transform_bins` (tree branch) with the `mapping_` built at training time: the bucket id of each row's
leaf, -1 for a leaf without model -/
theorem transformBinsTree_zipIdx {κ} [BEq κ] [LawfulBEq κ] (leaves mapped keys : List κ)
    (hsub : ∀ k ∈ mapped, k ∈ leaves) :
    transformBinsTree leaves mapped.zipIdx keys = keys.map (bucketId mapped) := by
  rw [transformBinsTree_closed]
  apply List.map_congr_left
  intro k _
  rw [dictGet_zipIdx]
  by_cases h : k ∈ leaves
  · have hc : leaves.contains k = true := by simpa using h
    simp only [hc, if_true]
  · have hl : leaves.contains k = false := by simpa using h
    have hm : mapped.contains k = false := by simpa using (fun hm => h (hsub k hm))
    simp only [hl, Bool.false_eq_true, if_false, bucketId, hm]

end MlVerif.Piecewise
