/-
C13 — lemmas about the dictionary / permutation model (`Model/Perm.lean`).  Core Lean only.
-/
import MlVerif.Model.Perm

namespace MlVerif.Perm

/-! ### mapE -/

theorem mapE_ok {α β : Type} (f : α → Except Err β) (g : α → β) (l : List α)
    (h : ∀ a ∈ l, f a = .ok (g a)) : mapE f l = .ok (l.map g) := by
  induction l with
  | nil => rfl
  | cons a as ih =>
    have h1 := h a (by simp)
    have h2 := ih (fun b hb => h b (by simp [hb]))
    simp [mapE, h1, h2]

/-! ### Dict -/

namespace Dict
variable {κ β : Type} [DecidableEq κ]

theorem contains_iff (d : Dict κ β) (k : κ) : d.contains k = true ↔ k ∈ d.keys := by
  simp [contains, keys]

theorem insert_new (d : Dict κ β) (k : κ) (v : β) (h : k ∉ d.keys) :
    d.insert k v = d ++ [(k, v)] := by
  have : d.contains k = false := by
    cases hc : d.contains k with
    | false => rfl
    | true => exact absurd ((contains_iff d k).mp hc) h
  simp [insert, this]

theorem get?_none (d : Dict κ β) (k : κ) (h : k ∉ d.keys) : d.get? k = none := by
  induction d with
  | nil => rfl
  | cons p ps ih =>
    simp only [keys, List.map_cons, List.mem_cons, not_or] at h
    have h1 : ¬ p.1 = k := fun e => h.1 e.symm
    have := ih (by simpa [keys] using h.2)
    simp only [get?] at this ⊢
    simp [h1, this]

/-- the entry at position `i` is what `get?` finds for its key, when keys are distinct -/
theorem get?_index (d : Dict κ β) (hnd : d.keys.Nodup) (i : Nat) (hi : i < d.length) :
    d.get? d[i].1 = some d[i].2 := by
  induction d generalizing i with
  | nil => simp at hi
  | cons p ps ih =>
    simp only [keys, List.map_cons, List.nodup_cons] at hnd
    cases i with
    | zero => simp [get?]
    | succ j =>
      have hj : j < ps.length := by simpa using hi
      have hne : ¬ p.1 = ps[j].1 := by
        intro e
        apply hnd.1
        rw [e]
        exact List.mem_map.mpr ⟨ps[j], List.getElem_mem _, rfl⟩
      have := ih hnd.2 j hj
      simp only [get?] at this ⊢
      simp [hne, this]

theorem get?_of_mem (d : Dict κ β) (hnd : d.keys.Nodup) (p : κ × β) (hp : p ∈ d) :
    d.get? p.1 = some p.2 := by
  obtain ⟨i, hi, rfl⟩ := List.mem_iff_getElem.mp hp
  exact get?_index d hnd i hi

theorem mem_of_get? (d : Dict κ β) (k : κ) (v : β) (h : d.get? k = some v) : (k, v) ∈ d := by
  simp only [get?, Option.map_eq_some_iff] at h
  obtain ⟨p, hp, rfl⟩ := h
  have h1 := List.mem_of_find?_eq_some hp
  have h2 : p.1 = k := by simpa using List.find?_some hp
  rw [← h2]; exact h1

theorem get?_isSome_of_mem_keys (d : Dict κ β) (k : κ) (h : k ∈ d.keys) : ∃ v, d.get? k = some v := by
  induction d with
  | nil => simp [keys] at h
  | cons p ps ih =>
    by_cases e : p.1 = k
    · exact ⟨p.2, by simp [get?, e]⟩
    · have : k ∈ keys ps := by
        simp only [keys, List.map_cons, List.mem_cons] at h
        rcases h with h | h
        · exact absurd h.symm e
        · exact h
      obtain ⟨v, hv⟩ := ih this
      refine ⟨v, ?_⟩
      simp only [get?] at hv ⊢
      simp [e, hv]

end Dict

/-! ### fit: the numbering loop and the composition with `lin` -/

section fit
variable {α : Type} [DecidableEq α]

/-- loop invariant of the numbering: values are `0..len-1` in order, keys are distinct -/
def Numbered (perm : Dict α Nat) : Prop :=
  perm.values = List.range perm.length ∧ perm.keys.Nodup

def numberStep (perm : Dict α Nat) (o : Option α) : Dict α Nat :=
  match o with
  | none => perm
  | some u => if perm.contains u then perm else perm.insert u perm.length

theorem number_eq (y : List (Option α)) : number y = y.foldl numberStep [] := rfl

theorem numberStep_inv (perm : Dict α Nat) (o : Option α) (h : Numbered perm) :
    Numbered (numberStep perm o) ∧
    (∀ u, u ∈ (numberStep perm o).keys ↔ (u ∈ perm.keys ∨ o = some u)) := by
  cases o with
  | none => exact ⟨h, by simp [numberStep]⟩
  | some u =>
    by_cases hc : perm.contains u = true
    · have hm := (Dict.contains_iff perm u).mp hc
      refine ⟨by simpa [numberStep, hc] using h, ?_⟩
      intro v
      simp only [numberStep, hc, if_true, Option.some.injEq]
      constructor
      · exact Or.inl
      · rintro (h1 | h1)
        · exact h1
        · rw [← h1]; exact hm
    · have hm : u ∉ perm.keys := fun hm => hc ((Dict.contains_iff perm u).mpr hm)
      have e : numberStep perm (some u) = perm ++ [(u, perm.length)] := by
        simp only [numberStep, hc]
        exact Dict.insert_new perm u perm.length hm
      rw [e]
      refine ⟨⟨?_, ?_⟩, ?_⟩
      · simp only [Dict.values, List.map_append, List.map_cons, List.map_nil, List.length_append,
          List.length_cons, List.length_nil]
        have := h.1
        simp only [Dict.values] at this
        rw [this, List.range_succ]
      · simp only [Dict.keys, List.map_append, List.map_cons, List.map_nil]
        have := h.2
        simp only [Dict.keys] at this hm
        rw [List.nodup_append]
        refine ⟨this, by simp, ?_⟩
        intro a ha b hb
        simp only [List.mem_cons, List.not_mem_nil, or_false] at hb
        rw [hb]
        intro e; exact hm (e ▸ ha)
      · intro v
        simp only [Dict.keys, List.map_append, List.map_cons, List.map_nil, List.mem_append,
          List.mem_cons, List.not_mem_nil, or_false, Option.some.injEq]
        constructor
        · rintro (h1 | h1)
          · exact Or.inl h1
          · exact Or.inr h1.symm
        · rintro (h1 | h1)
          · exact Or.inl h1
          · exact Or.inr h1.symm

theorem number_fold_inv (y : List (Option α)) (perm : Dict α Nat) (h : Numbered perm) :
    Numbered (y.foldl numberStep perm) ∧
    (∀ u, u ∈ (y.foldl numberStep perm).keys ↔ (u ∈ perm.keys ∨ some u ∈ y)) := by
  induction y generalizing perm with
  | nil => exact ⟨h, by simp⟩
  | cons o os ih =>
    obtain ⟨h1, h2⟩ := numberStep_inv perm o h
    obtain ⟨h3, h4⟩ := ih (numberStep perm o) h1
    refine ⟨h3, ?_⟩
    intro u
    simp only [List.foldl_cons, List.mem_cons]
    rw [h4 u, h2 u]
    constructor
    · rintro ((h5 | h5) | h5)
      · exact Or.inl h5
      · exact Or.inr (Or.inl h5.symm)
      · exact Or.inr (Or.inr h5)
    · rintro (h5 | h5 | h5)
      · exact Or.inl (Or.inl h5)
      · exact Or.inl (Or.inr h5.symm)
      · exact Or.inr h5

/-- `number y`: codes `0..k-1` in order, distinct keys, and the keys are exactly the non-NaN labels -/
theorem number_spec (y : List (Option α)) :
    Numbered (number y) ∧ (∀ u, u ∈ (number y).keys ↔ some u ∈ y) := by
  have := number_fold_inv y ([] : Dict α Nat) ⟨rfl, by simp [Dict.keys]⟩
  refine ⟨this.1, ?_⟩
  intro u
  rw [number_eq, this.2 u]
  simp [Dict.keys]

omit [DecidableEq α] in
/-- composing with a `lin` of the right length never fails and replaces code `i` by `lin[i]` -/
theorem compose_spec (perm : Dict α Nat) (lin : List Nat) (h : Numbered perm)
    (hlen : lin.length = perm.length) :
    ∃ fwd, compose perm lin = .ok fwd ∧ fwd.keys = perm.keys ∧ fwd.values = lin := by
  have hv : ∀ i (hi : i < perm.length), perm[i].2 = i := by
    intro i hi
    have h1 := h.1
    simp only [Dict.values] at h1
    have : (perm.map (·.2))[i]'(by simpa using hi) = (List.range perm.length)[i]'(by simpa using hi) := by
      simp only [h1]
    simpa using this
  refine ⟨perm.map (fun p => (p.1, (lin[p.2]?).getD 0)), ?_, ?_, ?_⟩
  · apply mapE_ok
    intro p hp
    obtain ⟨i, hi, rfl⟩ := List.mem_iff_getElem.mp hp
    rw [hv i hi]
    have : i < lin.length := by omega
    simp [List.getElem?_eq_getElem this]
  · simp [Dict.keys, List.map_map, Function.comp_def]
  · apply List.ext_getElem
    · simp [Dict.values, hlen]
    · intro i h1 h2
      have hi : i < perm.length := by simpa [Dict.values] using h1
      simp only [Dict.values, List.map_map, List.getElem_map, Function.comp_def]
      rw [hv i hi]
      simp [List.getElem?_eq_getElem h2]

/-- `fit` for every target list and every drawn permutation of the right length -/
theorem fit_spec (y : List (Option α)) (lin : List Nat)
    (hlen : lin.length = (number y).length) :
    ∃ fwd, fit y lin = .ok fwd ∧ fwd.keys = (number y).keys ∧ fwd.values = lin :=
  compose_spec (number y) lin (number_spec y).1 hlen

end fit

/-! ### get_fct_inv -/

def swap {κ β : Type} (p : κ × β) : β × κ := (p.2, p.1)

theorem foldl_insert_fresh {κ β : Type} [DecidableEq β] (l : Dict κ β) (acc : Dict β κ)
    (h : (acc.keys ++ l.values).Nodup) :
    l.foldl (fun acc p => acc.insert p.2 p.1) acc = acc ++ l.map swap := by
  induction l generalizing acc with
  | nil => simp
  | cons p ps ih =>
    simp only [Dict.values, List.map_cons] at h
    have hfresh : p.2 ∉ acc.keys := by
      intro hm
      rw [List.nodup_append] at h
      exact h.2.2 _ hm _ (by simp) rfl
    simp only [List.foldl_cons]
    rw [Dict.insert_new acc p.2 p.1 hfresh, ih]
    · simp [swap]
    · simp only [Dict.keys, Dict.values, List.map_append, List.map_cons, List.map_nil,
        List.append_assoc, List.cons_append, List.nil_append]
      simpa [Dict.keys] using h

/-- with distinct values the inverse dictionary is the list of swapped pairs, in the same order -/
theorem getFctInv_eq {κ β : Type} [DecidableEq β] (d : Dict κ β) (h : d.values.Nodup) :
    getFctInv d = d.map swap := by
  have := foldl_insert_fresh d [] (by simpa [Dict.keys] using h)
  simpa [getFctInv] using this

theorem swap_keys {κ β : Type} (d : Dict κ β) : Dict.keys (d.map swap) = d.values := by
  simp [Dict.keys, Dict.values, swap, List.map_map, Function.comp_def]

theorem swap_values {κ β : Type} (d : Dict κ β) : Dict.values (d.map swap) = d.keys := by
  simp [Dict.keys, Dict.values, swap, List.map_map, Function.comp_def]

/-- looking a key up and then its code in the swapped dictionary gives the key back -/
theorem get?_swap {κ β : Type} [DecidableEq κ] [DecidableEq β] (d : Dict κ β)
    (hk : d.keys.Nodup) (hv : d.values.Nodup) (u : κ) (hu : u ∈ d.keys) :
    ∃ c, d.get? u = some c ∧ Dict.get? (d.map swap) c = some u ∧ c ∈ d.values := by
  obtain ⟨p, hp, rfl⟩ := List.mem_map.mp hu
  refine ⟨p.2, Dict.get?_of_mem d hk p hp, ?_, List.mem_map.mpr ⟨p, hp, rfl⟩⟩
  have h1 : swap p ∈ d.map swap := List.mem_map.mpr ⟨p, hp, rfl⟩
  have := Dict.get?_of_mem (d.map swap) (by rw [swap_keys]; exact hv) (swap p) h1
  simpa [swap] using this

/-! ### the label branch: round trip -/

section roundtrip
variable {κ β : Type} [DecidableEq κ] [DecidableEq β]

omit [DecidableEq β] in
theorem lookupE_some (d : Dict κ β) (u : κ) (c : β) (h : d.get? u = some c) : lookupE d u = .ok c := by
  simp [lookupE, h]

omit [DecidableEq β] in
theorem lookupE_none (d : Dict κ β) (u : κ) (h : d.get? u = none) :
    lookupE d u = .error .runtimeError := by
  simp [lookupE, h]

/-- float arrays (NaN = none): transform then inverse transform gives the array back, NaN cells
stay NaN, provided every non-NaN label is a key -/
theorem labels_roundtrip (d : Dict κ β) (hk : d.keys.Nodup) (hv : d.values.Nodup)
    (q : List (Option κ)) (hq : ∀ u, some u ∈ q → u ∈ d.keys) :
    ∃ qT, transformLabels d q = .ok qT ∧ transformLabels (d.map swap) qT = .ok q ∧
      qT.map Option.isSome = q.map Option.isSome ∧ (∀ c, some c ∈ qT → c ∈ d.values) := by
  induction q with
  | nil => exact ⟨[], rfl, rfl, rfl, by simp⟩
  | cons o os ih =>
    obtain ⟨t, h1, h2, h3, h4⟩ := ih (fun u hu => hq u (by simp [hu]))
    simp only [transformLabels] at h1 h2 ⊢
    cases o with
    | none =>
      refine ⟨none :: t, by simp [mapE, h1], by simp [mapE, h2], by simp [h3], ?_⟩
      intro c hc
      simp only [List.mem_cons] at hc
      rcases hc with hc | hc
      · exact absurd hc (by simp)
      · exact h4 c hc
    | some u =>
      obtain ⟨c, hc1, hc2, hc3⟩ := get?_swap d hk hv u (hq u (by simp))
      refine ⟨some c :: t, by simp [mapE, lookupE_some d u c hc1, h1], by simp [mapE, lookupE_some _ c u hc2, h2],
        by simp [h3], ?_⟩
      intro c' hc'
      simp only [List.mem_cons, Option.some.injEq] at hc'
      rcases hc' with hc' | hc'
      · rw [hc']; exact hc3
      · exact h4 c' hc'

/-- integer / string arrays: same round trip without the NaN test -/
theorem plain_roundtrip (d : Dict κ β) (hk : d.keys.Nodup) (hv : d.values.Nodup)
    (q : List κ) (hq : ∀ u ∈ q, u ∈ d.keys) :
    ∃ qT, transformPlain d q = .ok qT ∧ transformPlain (d.map swap) qT = .ok q ∧
      qT.length = q.length ∧ (∀ c ∈ qT, c ∈ d.values) := by
  induction q with
  | nil => exact ⟨[], rfl, rfl, rfl, by simp⟩
  | cons u us ih =>
    obtain ⟨t, h1, h2, h3, h4⟩ := ih (fun u hu => hq u (by simp [hu]))
    simp only [transformPlain] at h1 h2 ⊢
    obtain ⟨c, hc1, hc2, hc3⟩ := get?_swap d hk hv u (hq u (by simp))
    refine ⟨c :: t, by simp [mapE, lookupE_some d u c hc1, h1], by simp [mapE, lookupE_some _ c u hc2, h2],
      by simp [h3], ?_⟩
    intro c' hc'
    simp only [List.mem_cons] at hc'
    rcases hc' with hc' | hc'
    · rw [hc']; exact hc3
    · exact h4 c' hc'

omit [DecidableEq β] in
/-- a label outside the fitted set is rejected (`closest=False`): RuntimeError -/
theorem plain_unseen_raises (d : Dict κ β) (q : List κ) (u : κ) (hu : u ∈ q) (hnot : u ∉ d.keys) :
    transformPlain d q = .error .runtimeError := by
  induction q with
  | nil => simp at hu
  | cons a as ih =>
    simp only [transformPlain, mapE] at ih ⊢
    by_cases e : a = u
    · subst e
      simp [lookupE_none d a (Dict.get?_none d a hnot)]
    · have hu' : u ∈ as := by
        simp only [List.mem_cons] at hu
        rcases hu with hu | hu
        · exact absurd hu.symm e
        · exact hu
      cases hg : d.get? a with
      | none => simp [lookupE_none d a hg]
      | some v => simp [lookupE_some d a v hg, ih hu']

end roundtrip

/-! ### the probability-column branch -/

section scatter
variable {γ : Type}

theorem foldl_set_length (ps : List (Nat × γ)) (init : List γ) :
    (ps.foldl (fun acc p => acc.set p.1 p.2) init).length = init.length := by
  induction ps generalizing init with
  | nil => rfl
  | cons p ps ih => simp [ih]

theorem foldl_set_untouched (ps : List (Nat × γ)) (init : List γ) (j : Nat)
    (h : j ∉ ps.map (·.1)) :
    (ps.foldl (fun acc p => acc.set p.1 p.2) init)[j]? = init[j]? := by
  induction ps generalizing init with
  | nil => rfl
  | cons p ps ih =>
    simp only [List.map_cons, List.mem_cons, not_or] at h
    simp only [List.foldl_cons]
    rw [ih _ h.2]
    exact List.getElem?_set_ne (fun e => h.1 e.symm)

/-- a column written once (distinct destinations) holds what was written -/
theorem foldl_set_hit (ps : List (Nat × γ)) (hnd : (ps.map (·.1)).Nodup) (init : List γ)
    (p : Nat × γ) (hp : p ∈ ps) (hlt : p.1 < init.length) :
    (ps.foldl (fun acc p => acc.set p.1 p.2) init)[p.1]? = some p.2 := by
  induction ps generalizing init with
  | nil => simp at hp
  | cons q qs ih =>
    simp only [List.map_cons, List.nodup_cons] at hnd
    simp only [List.foldl_cons]
    simp only [List.mem_cons] at hp
    rcases hp with rfl | hp
    · rw [foldl_set_untouched _ _ _ hnd.1]
      exact List.getElem?_set_self hlt
    · exact ih hnd.2 _ hp (by simpa using hlt)

end scatter

theorem foldl_insert_len {β : Type} (l : List (β × Nat)) (acc : Dict Nat Nat)
    (h : (acc.keys ++ l.map (·.2)).Nodup) :
    l.foldl (fun acc p => acc.insert p.2 acc.length) acc
      = acc ++ (l.zipIdx acc.length).map (fun q => (q.1.2, q.2)) := by
  induction l generalizing acc with
  | nil => simp
  | cons p ps ih =>
    simp only [List.map_cons] at h
    have hfresh : p.2 ∉ acc.keys := by
      intro hm
      rw [List.nodup_append] at h
      exact h.2.2 _ hm _ (by simp) rfl
    simp only [List.foldl_cons]
    rw [Dict.insert_new acc p.2 acc.length hfresh, ih]
    · simp [List.zipIdx_cons]
    · simp only [Dict.keys, List.map_append, List.map_cons, List.map_nil, List.append_assoc,
        List.cons_append, List.nil_append]
      simpa [Dict.keys] using h

/-- a total order on labels, as the Boolean comparison the sort uses -/
structure IsLinearLe {β : Type} (le : β → β → Bool) : Prop where
  total : ∀ a b, (le a b || le b a) = true
  trans : ∀ a b c, le a b = true → le b c = true → le a c = true
  antisymm : ∀ a b, le a b = true → le b a = true → a = b

section lex
variable {β : Type} [DecidableEq β] {le : β → β → Bool}

theorem lexLe_total (h : IsLinearLe le) (a b : β × Nat) : (lexLe le a b || lexLe le b a) = true := by
  unfold lexLe
  by_cases e : a.1 = b.1
  · rw [if_pos e, if_pos e.symm]
    simp only [Bool.or_eq_true, decide_eq_true_eq]
    omega
  · have e' : ¬ b.1 = a.1 := fun x => e x.symm
    rw [if_neg e, if_neg e']
    exact h.total a.1 b.1

theorem lexLe_trans (h : IsLinearLe le) (a b c : β × Nat) :
    lexLe le a b = true → lexLe le b c = true → lexLe le a c = true := by
  intro h1 h2
  unfold lexLe at h1 h2 ⊢
  by_cases e1 : a.1 = b.1 <;> by_cases e2 : b.1 = c.1
  · rw [if_pos e1] at h1; rw [if_pos e2] at h2; rw [if_pos (e1.trans e2)]
    simp only [decide_eq_true_eq] at h1 h2 ⊢
    omega
  · have e3 : ¬ a.1 = c.1 := fun x => e2 (e1 ▸ x)
    rw [if_neg e2] at h2; rw [if_neg e3, e1]; exact h2
  · have e3 : ¬ a.1 = c.1 := fun x => e1 (x.trans e2.symm)
    rw [if_neg e1] at h1; rw [if_neg e3, ← e2]; exact h1
  · rw [if_neg e1] at h1; rw [if_neg e2] at h2
    by_cases e3 : a.1 = c.1
    · exfalso
      apply e1
      apply h.antisymm _ _ h1
      rw [e3]; exact h2
    · rw [if_neg e3]
      exact h.trans _ _ _ h1 h2

theorem lexLe_fst (h : IsLinearLe le) (a b : β × Nat) (hab : lexLe le a b = true) :
    le a.1 b.1 = true := by
  unfold lexLe at hab
  by_cases e : a.1 = b.1
  · rw [e]; simpa using h.total b.1 b.1
  · simpa [e] using hab

end lex

/-- everything the probability branch needs to know about a fitted dictionary -/
structure Fitted {β : Type} (fwd : Dict β Nat) : Prop where
  keys_nodup : fwd.keys.Nodup
  values_perm : fwd.values.Perm (List.range fwd.length)

section proba
variable {β γ : Type} [DecidableEq β] {le : β → β → Bool}

omit [DecidableEq β] in
theorem Fitted.values_nodup {fwd : Dict β Nat} (h : Fitted fwd) : fwd.values.Nodup :=
  (h.values_perm.nodup_iff).mpr List.nodup_range

theorem sortedPairs_swap (fwd : Dict β Nat) :
    sortedPairs le (fwd.map swap) = fwd.mergeSort (lexLe le) := by
  simp [sortedPairs, swap, List.map_map, Function.comp_def]

/-- the pairs `(label, code)` sorted by label -/
def sorted (le : β → β → Bool) (fwd : Dict β Nat) : List (β × Nat) := fwd.mergeSort (lexLe le)

theorem sorted_perm (fwd : Dict β Nat) : (sorted le fwd).Perm fwd := List.mergeSort_perm _ _

theorem sorted_length (fwd : Dict β Nat) : (sorted le fwd).length = fwd.length := by
  simp [sorted]

theorem sorted_values_perm {fwd : Dict β Nat} (h : Fitted fwd) :
    ((sorted le fwd).map (·.2)).Perm (List.range fwd.length) :=
  (List.Perm.map (fun p : β × Nat => p.2) (sorted_perm (le := le) fwd)).trans h.values_perm

theorem sorted_keys_pairwise (hle : IsLinearLe le) (fwd : Dict β Nat) :
    ((sorted le fwd).map (·.1)).Pairwise (fun a b => le a b = true) := by
  rw [List.pairwise_map]
  have := List.pairwise_mergeSort (le := lexLe le) (lexLe_trans hle) (lexLe_total hle) fwd
  exact this.imp (fun {a b} hab => lexLe_fst hle a b hab)

theorem newPerm_eq {fwd : Dict β Nat} (h : Fitted fwd) :
    newPerm le (fwd.map swap) = ((sorted le fwd).zipIdx 0).map (fun q => (q.1.2, q.2)) := by
  unfold newPerm
  rw [sortedPairs_swap]
  have hnd : ((sorted le fwd).map (·.2)).Nodup :=
    ((sorted_values_perm (le := le) h).nodup_iff).mpr List.nodup_range
  have := foldl_insert_len (sorted le fwd) [] (by simpa [Dict.keys] using hnd)
  simpa [sorted] using this

theorem newPerm_getElem {fwd : Dict β Nat} (h : Fitted fwd) (r : Nat) (hr : r < fwd.length) :
    ∃ (h1 : r < (newPerm le (fwd.map swap)).length) (h2 : r < (sorted le fwd).length),
      (newPerm le (fwd.map swap))[r] = ((sorted le fwd)[r].2, r) := by
  rw [newPerm_eq h]
  have h2 : r < (sorted le fwd).length := by rw [sorted_length]; exact hr
  refine ⟨by simpa using h2, h2, ?_⟩
  simp

theorem newPerm_keys {fwd : Dict β Nat} (h : Fitted fwd) :
    (newPerm le (fwd.map swap)).keys = (sorted le fwd).map (·.2) := by
  rw [newPerm_eq h]
  apply List.ext_getElem
  · simp [Dict.keys]
  · intro i h1 h2
    simp [Dict.keys]

/-- every source column `i < k` has a destination `r < k`, and `sorted[r]` carries code `i` -/
theorem newPerm_get? {fwd : Dict β Nat} (h : Fitted fwd) (i : Nat) (hi : i < fwd.length) :
    ∃ r, ∃ (hr : r < (sorted le fwd).length),
      (newPerm le (fwd.map swap)).get? i = some r ∧ (sorted le fwd)[r].2 = i := by
  have hmem : i ∈ (sorted le fwd).map (·.2) :=
    ((sorted_values_perm (le := le) h).mem_iff).mpr (List.mem_range.mpr hi)
  obtain ⟨r, hr, hri⟩ := List.mem_iff_getElem.mp hmem
  have hr' : r < (sorted le fwd).length := by simpa using hr
  have hrk : r < fwd.length := by rw [sorted_length] at hr'; exact hr'
  obtain ⟨h1, h2, e⟩ := newPerm_getElem (le := le) h r hrk
  have hnd : (newPerm le (fwd.map swap)).keys.Nodup := by
    rw [newPerm_keys h]
    exact ((sorted_values_perm (le := le) h).nodup_iff).mpr List.nodup_range
  have := Dict.get?_index (newPerm le (fwd.map swap)) hnd r h1
  rw [e] at this
  have e2 : (sorted le fwd)[r].2 = i := by simpa using hri
  refine ⟨r, hr', ?_, e2⟩
  simpa [e2] using this

/-- destination of source column `i` (total function used to name the result of `dests`) -/
def destOf (le : β → β → Bool) (fwd : Dict β Nat) (i : Nat) : Nat :=
  ((newPerm le (fwd.map swap)).get? i).getD 0

theorem destOf_spec {fwd : Dict β Nat} (h : Fitted fwd) (i : Nat) (hi : i < fwd.length) :
    ∃ (hr : destOf le fwd i < (sorted le fwd).length),
      (newPerm le (fwd.map swap)).get? i = some (destOf le fwd i) ∧
      (sorted le fwd)[destOf le fwd i].2 = i := by
  obtain ⟨r, hr, h1, h2⟩ := newPerm_get? (le := le) h i hi
  have e : destOf le fwd i = r := by simp [destOf, h1]
  rw [e]
  exact ⟨hr, h1, h2⟩

theorem dests_ok {fwd : Dict β Nat} (h : Fitted fwd) :
    dests (newPerm le (fwd.map swap)) fwd.length = .ok ((List.range fwd.length).map (destOf le fwd)) := by
  apply mapE_ok
  intro i hi
  obtain ⟨hr, h1, _⟩ := destOf_spec (le := le) h i (List.mem_range.mp hi)
  rw [sorted_length] at hr
  simp [h1, hr]

/-- one row: output column `r` holds the input column whose code belongs to the `r`-th label in
sorted order -/
theorem scatter_row {fwd : Dict β Nat} (h : Fitted fwd) (row : List γ) (hrow : row.length = fwd.length) :
    (scatter ((List.range fwd.length).map (destOf le fwd)) row).length = row.length ∧
    ∀ r (hr : r < (sorted le fwd).length),
      (scatter ((List.range fwd.length).map (destOf le fwd)) row)[r]? = row[(sorted le fwd)[r].2]? := by
  refine ⟨foldl_set_length _ _, ?_⟩
  intro r hr
  have hrk : r < fwd.length := by rw [sorted_length] at hr; exact hr
  -- the code carried by the r-th sorted pair
  have hi : (sorted le fwd)[r].2 < fwd.length := by
    have : (sorted le fwd)[r].2 ∈ (sorted le fwd).map (·.2) :=
      List.mem_map.mpr ⟨_, List.getElem_mem hr, rfl⟩
    exact List.mem_range.mp (((sorted_values_perm (le := le) h).mem_iff).mp this)
  -- its destination is r (codes of sorted pairs are distinct)
  have hnd : ((sorted le fwd).map (·.2)).Nodup :=
    ((sorted_values_perm (le := le) h).nodup_iff).mpr List.nodup_range
  have hinj : ∀ a b (ha : a < (sorted le fwd).length) (hb : b < (sorted le fwd).length),
      (sorted le fwd)[a].2 = (sorted le fwd)[b].2 → a = b := by
    intro a b ha hb e
    have e' : ((sorted le fwd).map (·.2))[a]'(by simpa using ha)
        = ((sorted le fwd).map (·.2))[b]'(by simpa using hb) := by simpa using e
    exact (List.getElem_inj hnd).mp e'
  obtain ⟨hd, _, hd2⟩ := destOf_spec (le := le) h _ hi
  have hdest : destOf le fwd (sorted le fwd)[r].2 = r := hinj _ _ hd hr hd2
  -- distinct destinations
  have hds : ((List.range fwd.length).map (destOf le fwd)).Nodup := by
    rw [List.Nodup, List.pairwise_map]
    have hp : (List.range fwd.length).Pairwise (· ≠ ·) := List.nodup_range
    apply hp.imp_of_mem
    intro a b ha hb hab e
    apply hab
    obtain ⟨_, _, ea⟩ := destOf_spec (le := le) h a (List.mem_range.mp ha)
    obtain ⟨_, _, eb⟩ := destOf_spec (le := le) h b (List.mem_range.mp hb)
    rw [← ea, ← eb]
    simp only [e]
  have hlen : ((List.range fwd.length).map (destOf le fwd)).length ≤ row.length := by simp [hrow]
  have hfst : (((List.range fwd.length).map (destOf le fwd)).zip row).map (·.1)
      = (List.range fwd.length).map (destOf le fwd) := List.map_fst_zip hlen
  have hi' : (sorted le fwd)[r].2 < row.length := by rw [hrow]; exact hi
  have hmem : (r, row[(sorted le fwd)[r].2]) ∈ ((List.range fwd.length).map (destOf le fwd)).zip row := by
    apply List.mem_iff_getElem.mpr
    refine ⟨(sorted le fwd)[r].2, by simp [hrow, hi], ?_⟩
    simp [List.getElem_zip, hdest]
  have := foldl_set_hit _ (by rw [hfst]; exact hds) row _ hmem (by rw [hrow]; exact hrk)
  simp only [scatter]
  rw [this, List.getElem?_eq_getElem hi']

end proba

/-! ### classes_ and whole matrices -/

section classes
variable {β γ : Type} [DecidableEq β] {le : β → β → Bool}

omit [DecidableEq β] in
theorem transformPlain_spec {κ : Type} [DecidableEq κ] (d : Dict κ β) (q : List κ) (out : List β)
    (h : transformPlain d q = .ok out) : q.map d.get? = out.map some := by
  induction q generalizing out with
  | nil =>
    simp only [transformPlain, mapE] at h
    cases h; rfl
  | cons a as ih =>
    simp only [transformPlain, mapE] at h ih
    cases hg : d.get? a with
    | none => rw [lookupE_none d a hg] at h; simp at h
    | some v =>
      rw [lookupE_some d a v hg] at h
      cases hm : mapE (lookupE d) as with
      | error e => rw [hm] at h; simp at h
      | ok bs =>
        rw [hm] at h
        simp only [Except.ok.injEq] at h
        subst h
        simp [hg, ih bs hm]

omit [DecidableEq β] in
theorem fitted_swap_swap (fwd : Dict β Nat) : (fwd.map swap).map swap = fwd := by
  simp [swap, List.map_map, Function.comp_def]

/-- `classes_` before the repair: labels in the order of the inner classifier's codes `0..k-1` -/
theorem classesUnsorted_spec {fwd : Dict β Nat} (h : Fitted fwd) :
    ∃ labs, classesUnsorted (fwd.map swap) (List.range fwd.length) = .ok labs ∧
      transformPlain fwd labs = .ok (List.range fwd.length) ∧
      labs.Perm fwd.keys := by
  have hk : (Dict.keys (fwd.map swap)).Nodup := by rw [swap_keys]; exact h.values_nodup
  have hv : (Dict.values (fwd.map swap)).Nodup := by rw [swap_values]; exact h.keys_nodup
  obtain ⟨labs, h1, h2, _, _⟩ := plain_roundtrip (fwd.map swap) hk hv (List.range fwd.length)
    (by
      intro c hc
      rw [swap_keys]
      exact (h.values_perm.mem_iff).mpr hc)
  rw [fitted_swap_swap] at h2
  refine ⟨labs, h1, h2, ?_⟩
  -- labs.map some = (range k).map inv.get?  and  keys.map some = values.map inv.get?
  have e1 := transformPlain_spec (fwd.map swap) _ _ h1
  have e2 : fwd.keys.map some = fwd.values.map (Dict.get? (fwd.map swap)) := by
    simp only [Dict.keys, Dict.values, List.map_map]
    apply List.map_congr_left
    intro p hp
    have : swap p ∈ fwd.map swap := List.mem_map.mpr ⟨p, hp, rfl⟩
    have := Dict.get?_of_mem (fwd.map swap) hk (swap p) this
    simpa [swap] using this.symm
  have e3 : (fwd.keys.map some).Perm (labs.map some) := by
    rw [e2, ← e1]
    exact h.values_perm.map _
  have := e3.filterMap id
  simpa [List.filterMap_map, Function.comp_def] using this.symm

/-- repaired `classes_`: the labels in sorted order = first components of the sorted pairs -/
theorem classes_spec (hle : IsLinearLe le) {fwd : Dict β Nat} (h : Fitted fwd) :
    classes le (fwd.map swap) (List.range fwd.length) = .ok ((sorted le fwd).map (·.1)) := by
  obtain ⟨labs, h1, _, h3⟩ := classesUnsorted_spec h
  simp only [classes, h1, Except.map]
  congr 1
  apply List.Perm.eq_of_pairwise (le := fun a b => le a b = true)
  · intro a b _ _ hab hba
    exact hle.antisymm a b hab hba
  · exact List.pairwise_mergeSort hle.trans hle.total labs
  · exact sorted_keys_pairwise hle fwd
  · refine (List.mergeSort_perm labs le).trans (h3.trans ?_)
    exact (List.Perm.map (fun p : β × Nat => p.1) (sorted_perm (le := le) fwd)).symm

/-- the whole probability matrix, closed form: row by row, column `j` is the inner column of the
code of the `j`-th sorted label -/
theorem transformProba_spec {fwd : Dict β Nat} (h : Fitted fwd) (rows : List (List γ))
    (hrows : ∀ row ∈ rows, row.length = fwd.length) :
    ∃ outs, transformProba le (fwd.map swap) rows = .ok outs ∧
      outs.map (fun o => o.map some) =
        rows.map (fun row => (sorted le fwd).map (fun p => row[p.2]?)) := by
  refine ⟨rows.map (scatter ((List.range fwd.length).map (destOf le fwd))), ?_, ?_⟩
  · apply mapE_ok
    intro row hrow
    rw [hrows row hrow, dests_ok h]
  · rw [List.map_map]
    apply List.map_congr_left
    intro row hrow
    obtain ⟨h1, h2⟩ := scatter_row (le := le) h row (hrows row hrow)
    apply List.ext_getElem?
    intro r
    by_cases hr : r < (sorted le fwd).length
    · have hr' : r < (scatter ((List.range fwd.length).map (destOf le fwd)) row).length := by
        rw [h1, hrows row hrow, ← sorted_length (le := le)]; exact hr
      have := h2 r hr
      simp only [Function.comp, List.getElem?_map, List.getElem?_eq_getElem hr,
        List.getElem?_eq_getElem hr', Option.map_some] at this ⊢
      rw [← this]
    · have hr' : ¬ r < (scatter ((List.range fwd.length).map (destOf le fwd)) row).length := by
        rw [h1, hrows row hrow, ← sorted_length (le := le)]; exact hr
      simp only [Function.comp, List.getElem?_map]
      rw [List.getElem?_eq_none (by omega), List.getElem?_eq_none (by omega)]
      rfl

end classes

/-! ### the label branch with `closest=True` -/

section closest
variable {κ β : Type} [DecidableEq κ]

omit [DecidableEq κ] in
theorem foldl_pick_mem (sel : κ → κ → Bool) (ks : List κ) (k : κ) :
    ks.foldl (fun best k' => if sel k' best then k' else best) k ∈ k :: ks := by
  induction ks generalizing k with
  | nil => simp
  | cons a as ih =>
    simp only [List.foldl_cons]
    have := ih (if sel a k then a else k)
    simp only [List.mem_cons] at this ⊢
    rcases this with h | h
    · rw [h]; by_cases c : sel a k = true <;> simp [c]
    · exact Or.inr (Or.inr h)

omit [DecidableEq κ] in
/-- `mapE` is monotone in its cell function: where `f` accepts a cell, `g` returns the same -/
theorem mapE_mono {α γ : Type} (f g : α → Except Err γ) (hfg : ∀ a b, f a = .ok b → g a = .ok b)
    (l : List α) (r : List γ) (h : mapE f l = .ok r) : mapE g l = .ok r := by
  induction l generalizing r with
  | nil => simpa [mapE] using h
  | cons a as ih =>
    simp only [mapE] at h ⊢
    cases ha : f a with
    | error e => simp [ha] at h
    | ok c =>
      simp only [ha] at h
      cases hm : mapE f as with
      | error e => simp [hm] at h
      | ok t =>
        simp only [hm] at h
        rw [hfg a c ha, ih t hm]
        exact h

omit [DecidableEq κ] in
/-- the concrete nearest-key search returns a key of a non-empty dictionary -/
theorem nearest_mem (closer : κ → κ → κ → Bool) (d : Dict κ β) (u : κ) (h : d ≠ []) :
    nearest closer d u ∈ d.keys := by
  unfold nearest
  cases hk : d.keys with
  | nil =>
    cases d with
    | nil => exact absurd rfl h
    | cons p ps => simp [Dict.keys] at hk
  | cons k ks => exact foldl_pick_mem (fun k' best => closer u k' best) ks k

omit [DecidableEq κ] in
theorem foldl_pick_min (m : κ → Nat) (ks : List κ) (k : κ) :
    let r := ks.foldl (fun best k' => if decide (m k' < m best) then k' else best) k
    m r ≤ m k ∧ ∀ k' ∈ ks, m r ≤ m k' := by
  induction ks generalizing k with
  | nil => simp
  | cons a as ih =>
    simp only [List.foldl_cons]
    have h := ih (if decide (m a < m k) then a else k)
    simp only at h ⊢
    obtain ⟨h1, h2⟩ := h
    by_cases c : m a < m k
    · simp only [c, decide_true, if_true] at h1 h2 ⊢
      refine ⟨by omega, ?_⟩
      intro k' hk'
      simp only [List.mem_cons] at hk'
      rcases hk' with e | e
      · rw [e]; exact h1
      · exact h2 k' e
    · simp only [c, decide_false, Bool.false_eq_true, if_false] at h1 h2 ⊢
      refine ⟨h1, ?_⟩
      intro k' hk'
      simp only [List.mem_cons] at hk'
      rcases hk' with e | e
      · rw [e]; omega
      · exact h2 k' e

omit [DecidableEq κ] in
/-- with "strictly closer" given by a distance, the model's search returns a key no other key beats -/
theorem nearest_min (dist : κ → κ → Nat) (d : Dict κ β) (u : κ) :
    ∀ k ∈ d.keys, dist u (nearest (fun u k best => decide (dist u k < dist u best)) d u) ≤ dist u k := by
  intro k hk
  unfold nearest
  cases hd : d.keys with
  | nil => rw [hd] at hk; simp at hk
  | cons k0 ks =>
    rw [hd] at hk
    have := foldl_pick_min (dist u) ks k0
    simp only at this ⊢
    simp only [List.mem_cons] at hk
    rcases hk with e | e
    · rw [e]; exact this.1
    · exact this.2 k e

theorem lookupC_seen (near : Dict κ β → κ → κ) (d : Dict κ β) (u : κ) (c : β)
    (h : d.get? u = some c) : lookupC near d u = .ok c := by
  simp [lookupC, h]

/-- where `closest=False` succeeds, `closest=True` returns the same cell -/
theorem lookupC_of_lookupE (near : Dict κ β → κ → κ) (d : Dict κ β) (u : κ) (c : β)
    (h : lookupE d u = .ok c) : lookupC near d u = .ok c := by
  cases hg : d.get? u with
  | none => simp [lookupE, hg] at h
  | some v =>
    simp only [lookupE, hg] at h
    cases h
    exact lookupC_seen near d u _ hg

/-- a cell is never rejected when the search returns a key; the result is a code of the dictionary,
namely the code of the label itself when it is a key and of `near d u` otherwise -/
theorem lookupC_total (near : Dict κ β → κ → κ) (d : Dict κ β) (u : κ)
    (hn : near d u ∈ d.keys) :
    ∃ c, lookupC near d u = .ok c ∧ c ∈ d.values ∧
      d.get? (if u ∈ d.keys then u else near d u) = some c := by
  by_cases hu : u ∈ d.keys
  · obtain ⟨v, hv⟩ := Dict.get?_isSome_of_mem_keys d u hu
    refine ⟨v, lookupC_seen near d u v hv, ?_, by simp [hu, hv]⟩
    exact List.mem_map.mpr ⟨(u, v), Dict.mem_of_get? d u v hv, rfl⟩
  · obtain ⟨v, hv⟩ := Dict.get?_isSome_of_mem_keys d (near d u) hn
    refine ⟨v, by simp [lookupC, Dict.get?_none d u hu, hv], ?_, by simp [hu, hv]⟩
    exact List.mem_map.mpr ⟨(near d u, v), Dict.mem_of_get? d _ v hv, rfl⟩

/-- `closest=True` agrees with `closest=False` on every array the latter accepts -/
theorem plainC_of_plain (near : Dict κ β → κ → κ) (d : Dict κ β) (q : List κ) (r : List β)
    (h : transformPlain d q = .ok r) : transformPlainC near d q = .ok r :=
  mapE_mono _ _ (fun a b => lookupC_of_lookupE near d a b) q r h

/-- the same for float arrays (NaN cells stay as they are) -/
theorem labelsC_of_labels (near : Dict κ β → κ → κ) (d : Dict κ β) (q : List (Option κ))
    (r : List (Option β)) (h : transformLabels d q = .ok r) : transformLabelsC near d q = .ok r := by
  refine mapE_mono _ _ ?_ q r h
  intro o b hb
  cases o with
  | none => exact hb
  | some u =>
    cases hl : lookupE d u with
    | error e => simp [hl] at hb
    | ok c =>
      simp only [hl] at hb
      simp only [lookupC_of_lookupE near d u c hl]
      exact hb

/-- with a search that returns keys, `closest=True` accepts every array; every output is a code of the
dictionary, cell by cell the code of the label or of its nearest key -/
theorem plainC_total (near : Dict κ β → κ → κ) (d : Dict κ β) (hn : ∀ u, near d u ∈ d.keys)
    (q : List κ) :
    ∃ r, transformPlainC near d q = .ok r ∧ (∀ c ∈ r, c ∈ d.values) ∧
      r.map some = q.map (fun u => d.get? (if u ∈ d.keys then u else near d u)) := by
  induction q with
  | nil => exact ⟨[], by simp [transformPlainC, mapE], by simp, by simp⟩
  | cons a as ih =>
    obtain ⟨t, h1, h2, h3⟩ := ih
    obtain ⟨c, hc1, hc2, hc3⟩ := lookupC_total near d a (hn a)
    simp only [transformPlainC] at h1 ⊢
    refine ⟨c :: t, by simp [mapE, hc1, h1], ?_, by simp [h3, hc3]⟩
    intro c' hc'
    simp only [List.mem_cons] at hc'
    rcases hc' with hc' | hc'
    · rw [hc']; exact hc2
    · exact h2 c' hc'

end closest

/-! ### fit produces a fitted dictionary, for every target list and every drawn permutation -/

theorem fit_fitted {α : Type} [DecidableEq α] (y : List (Option α)) (lin : List Nat)
    (hlin : lin.Perm (List.range (number y).length)) :
    ∃ fwd, fit y lin = .ok fwd ∧ Fitted fwd ∧ fwd.keys = (number y).keys ∧ fwd.values = lin ∧
      (∀ u, u ∈ fwd.keys ↔ some u ∈ y) := by
  have hlen : lin.length = (number y).length := by simpa using hlin.length_eq
  obtain ⟨fwd, h1, h2, h3⟩ := fit_spec y lin hlen
  have hl : fwd.length = (number y).length := by
    have := congrArg List.length h2
    simpa [Dict.keys] using this
  refine ⟨fwd, h1, ⟨?_, ?_⟩, h2, h3, ?_⟩
  · rw [h2]; exact (number_spec y).1.2
  · rw [h3, hl]; exact hlin
  · intro u; rw [h2]; exact (number_spec y).2 u

/-! ### an instance of the order hypothesis (used by the non-vacuity examples) -/

def leInt (a b : Int) : Bool := decide (a ≤ b)

theorem leInt_linear : IsLinearLe leInt where
  total := by intro a b; simp only [leInt, Bool.or_eq_true, decide_eq_true_eq]; omega
  trans := by intro a b c; simp only [leInt, decide_eq_true_eq]; omega
  antisymm := by intro a b; simp only [leInt, decide_eq_true_eq]; omega

end MlVerif.Perm
