/-
C20 — the generic frame theorem: for any branch whose regenerated bounds satisfy `Facts`
(delay1 = 1), `new_X` / `new_y` are, column by column, `pad` NaN cells followed by a window of the
series (core Lean only).
-/
import MlVerif.Lemmas.TimeSeries
namespace MlVerif.TimeSeries

/-- what the regenerated bounds of a branch have to evaluate to (delay1 = 1):
`pad` leading rows are skipped, `nrow` rows are framed, `R = pad + nrow` rows are allocated -/
structure Facts (B : Branch) (n past d2 ncol : Int) (pad R nrow : Nat) : Prop where
  shape : pad + nrow = R
  xrows : B.newXRows n past 1 d2 ncol 0 = R
  xcols : B.newXCols n past 1 d2 ncol 0 = ncol + past
  yrows : B.newYRows n past 1 d2 ncol 0 = R
  ycols : B.newYCols n past 1 d2 ncol 0 = d2 - 1
  xdst : normIdx R (B.xDstRow n past 1 d2 ncol 0) = pad
  xcolhi : B.xDstColHi n past 1 d2 ncol 0 = ncol
  xlo : B.xSrcLo n past 1 d2 ncol 0 = past - 1
  xhi : B.xSrcHi n past 1 d2 ncol 0 = past - 1 + nrow
  lagLo : B.lagLo n past 1 d2 ncol 0 = 0
  lagHi : B.lagHi n past 1 d2 ncol 0 = past
  lag : ∀ i, 0 ≤ i → i < past → normIdx R (B.lagDstRow n past 1 d2 ncol i) = pad ∧
      B.lagDstCol n past 1 d2 ncol i = ncol + i ∧ B.lagSrcLo n past 1 d2 ncol i = i ∧
      B.lagSrcHi n past 1 d2 ncol i = i + nrow
  tgtLo : B.tgtLo n past 1 d2 ncol 0 = 1
  tgtHi : B.tgtHi n past 1 d2 ncol 0 = d2
  tgt : ∀ i, 1 ≤ i → i < d2 → normIdx R (B.tgtDstRow n past 1 d2 ncol i) = pad ∧
      B.tgtDstCol n past 1 d2 ncol i = i - 1 ∧ B.tgtSrcLo n past 1 d2 ncol i = i + past - 1 ∧
      B.tgtSrcHi n past 1 d2 ncol i = i + past - 1 + nrow

theorem alloc_ok (R : Nat) (c : Int) (hc : 0 ≤ c) :
    alloc (R : Int) c = .ok ⟨R, List.replicate c.toNat (List.replicate R none)⟩ := by
  unfold alloc
  have : ¬ ((R : Int) < 0 ∨ c < 0) := by omega
  simp [this]

theorem blank_get (R W j : Nat) (hj : j < W) :
    ((List.replicate W (List.replicate R (none : Cell)))[j]?).getD [] = List.replicate R none := by
  simp [hj]

/-- `new_y`: column `j` is the window of `nrow` values starting at `y[past + j]` -/
theorem buildY_spec (B : Branch) (ncol : Int) (y : List Int) (past d2 : Int)
    (pad R nrow : Nat) (hp : 1 ≤ past) (hd : 2 ≤ d2)
    (hnrow : (nrow : Int) = y.length - d2 - past + 2)
    (F : Facts B y.length past d2 ncol pad R nrow) :
    ∃ TY, buildY B ncol y past 1 d2 = .ok TY ∧ TY.rows = R ∧ TY.cols.length = (d2 - 1).toNat ∧
      ∀ j : Nat, (j : Int) < d2 - 1 →
        TY.cols[j]? = some (List.replicate pad none ++ ((y.drop (past.toNat + j)).take nrow).map some) := by
  unfold buildY
  simp only [F.yrows, F.ycols]
  rw [alloc_ok R (d2 - 1) (by omega)]
  simp only [tgtWrites, F.tgtLo, F.tgtHi]
  have hpadR : pad ≤ R := by have := F.shape; omega
  obtain ⟨T', h1, h2, h3, _, h5, _⟩ := loop_spec
    ⟨R, List.replicate (d2 - 1).toNat (List.replicate R none)⟩ R pad 1 d2
    (fun i => B.tgtDstRow y.length past 1 d2 ncol i)
    (fun i => B.tgtDstCol y.length past 1 d2 ncol i)
    (fun i => (pySlice y (B.tgtSrcLo y.length past 1 d2 ncol i)
      (B.tgtSrcHi y.length past 1 d2 ncol i)).map some)
    rfl (by intro c hc; simp only [List.mem_replicate] at hc; rw [hc.2]; simp) hpadR
    (by
      intro i hi1 hi2
      obtain ⟨f1, f2, f3, f4⟩ := F.tgt i hi1 hi2
      refine ⟨f1, by rw [f2]; omega, by rw [f2]; simp; omega, ?_⟩
      rw [f3, f4, List.length_map, pySlice_inrange_length y _ _ (by omega) (by omega) (by omega)]
      have := F.shape; omega)
    (by
      intro a b ha1 ha2 hb1 hb2 hab
      rw [(F.tgt a ha1 ha2).2.1, (F.tgt b hb1 hb2).2.1] at hab
      omega)
  refine ⟨T', h1, h2, by rw [h3]; simp, ?_⟩
  intro j hj
  have hi1 : (1 : Int) ≤ (j : Int) + 1 := by omega
  have hi2 : (j : Int) + 1 < d2 := by omega
  have := h5 ((j : Int) + 1) hi1 hi2
  obtain ⟨_, f2, f3, f4⟩ := F.tgt ((j : Int) + 1) hi1 hi2
  simp only at this
  rw [f2, f3, f4] at this
  have e1 : ((j : Int) + 1 - 1).toNat = j := by omega
  rw [e1] at this
  rw [this, blank_get R _ j (by omega), pySlice_inrange y _ _ (by omega) (by omega) (by omega)]
  have e2 : ((j : Int) + 1 + past - 1).toNat = past.toNat + j := by omega
  have e3 : ((j : Int) + 1 + past - 1 + nrow - ((j : Int) + 1 + past - 1)).toNat = nrow := by omega
  rw [e2, e3]
  simp [List.take_replicate, hpadR]


/-- the lag loop on a table whose lag columns are still blank -/
theorem lagLoop_spec (B : Branch) (y : List Int) (past d2 ncol : Int) (pad R nrow : Nat) (T1 : Table)
    (hd : 2 ≤ d2) (hnc : 0 ≤ ncol)
    (hnrow : (nrow : Int) = y.length - d2 - past + 2)
    (F : Facts B y.length past d2 ncol pad R nrow)
    (hR : T1.rows = R) (hwf : ∀ c ∈ T1.cols, c.length = R) (hW : T1.cols.length = (ncol + past).toNat)
    (hblank : ∀ i : Nat, (i : Int) < past → T1.cols[ncol.toNat + i]? = some (List.replicate R none)) :
    ∃ T2, writeAll (lagWrites B y y.length past 1 d2 ncol) T1 = .ok T2 ∧ T2.rows = R ∧
      T2.cols.length = (ncol + past).toNat ∧
      (∀ i : Nat, (i : Int) < past →
        T2.cols[ncol.toNat + i]? = some (List.replicate pad none ++ ((y.drop i).take nrow).map some)) ∧
      (∀ j : Nat, (j : Int) < ncol → T2.cols[j]? = T1.cols[j]?) := by
  simp only [lagWrites, F.lagLo, F.lagHi]
  have hpadR : pad ≤ R := by have := F.shape; omega
  obtain ⟨T', h1, h2, h3, _, h5, h6⟩ := loop_spec T1 R pad 0 past
    (fun i => B.lagDstRow y.length past 1 d2 ncol i)
    (fun i => B.lagDstCol y.length past 1 d2 ncol i)
    (fun i => (pySlice y (B.lagSrcLo y.length past 1 d2 ncol i) (B.lagSrcHi y.length past 1 d2 ncol i)).map some)
    hR hwf hpadR
    (by
      intro i hi1 hi2
      obtain ⟨f1, f2, f3, f4⟩ := F.lag i hi1 hi2
      refine ⟨f1, by rw [f2]; omega, by rw [f2, hW]; omega, ?_⟩
      rw [f3, f4, List.length_map, pySlice_inrange_length y _ _ (by omega) (by omega) (by omega)]
      have := F.shape; omega)
    (by
      intro a b ha1 ha2 hb1 hb2 hab
      rw [(F.lag a ha1 ha2).2.1, (F.lag b hb1 hb2).2.1] at hab
      omega)
  refine ⟨T', h1, h2, by rw [h3, hW], ?_, ?_⟩
  · intro i hi
    have hi1 : (0 : Int) ≤ (i : Int) := by omega
    have := h5 (i : Int) hi1 hi
    obtain ⟨_, f2, f3, f4⟩ := F.lag (i : Int) hi1 hi
    rw [f2, f3, f4] at this
    have e1 : (ncol + (i : Int)).toNat = ncol.toNat + i := by omega
    rw [e1] at this
    rw [this, hblank i hi, pySlice_inrange y _ _ (by omega) (by omega) (by omega)]
    have e3 : ((i : Int) + nrow - (i : Int)).toNat = nrow := by omega
    rw [e3]
    simp [List.take_replicate, hpadR]
  · intro j hj
    apply h6
    intro i hi1 hi2
    rw [(F.lag i hi1 hi2).2.1]
    omega


theorem blank_wf (R W : Nat) : ∀ c ∈ (List.replicate W (List.replicate R (none : Cell))), c.length = R := by
  intro c hc; simp only [List.mem_replicate] at hc; rw [hc.2]; simp

/-- `new_X`: column `ncol + i` is the window of `nrow` values starting at `y[i]`; exogenous column `c`
is column `c` of the rows `X[past-1 ..]`; all after `pad` NaN cells -/
theorem buildX_spec (B : Branch) (X : Option (List (List Int))) (ncolX : Nat) (y : List Int) (past d2 : Int)
    (pad R nrow : Nat) (hp : 1 ≤ past) (hd : 2 ≤ d2)
    (hnrow : (nrow : Int) = y.length - d2 - past + 2)
    (hX : ∀ Xr, X = some Xr → Xr.length = y.length)
    (F : Facts B y.length past d2 (ncolOf X ncolX) pad R nrow) :
    ∃ TX, buildX B X ncolX y past 1 d2 = .ok TX ∧ TX.rows = R ∧
      TX.cols.length = (ncolOf X ncolX + past).toNat ∧
      (∀ i : Nat, (i : Int) < past →
        TX.cols[(ncolOf X ncolX).toNat + i]? =
          some (List.replicate pad none ++ ((y.drop i).take nrow).map some)) ∧
      (∀ Xr, X = some Xr → ∀ c : Nat, c < ncolX →
        TX.cols[c]? = some (List.replicate pad none ++
          ((Xr.drop (past.toNat - 1)).take nrow).map (fun row => row[c]?))) := by
  have hpadR : pad ≤ R := by have := F.shape; omega
  cases X with
  | none =>
    unfold buildX
    simp only [ncolOf] at F ⊢
    simp only [F.xrows, F.xcols, xStep]
    rw [alloc_ok R (0 + past) (by omega)]
    obtain ⟨T2, h1, h2, h3, h4, _⟩ := lagLoop_spec B y past d2 0 pad R nrow
      ⟨R, List.replicate (0 + past).toNat (List.replicate R none)⟩ hd (by omega) hnrow F rfl
      (blank_wf R _) (by simp)
      (by intro i hi; simp only [List.getElem?_replicate]; rw [if_pos (by omega)])
    exact ⟨T2, h1, h2, h3, h4, by intro Xr h; cases h⟩
  | some Xr =>
    have hXl := hX Xr rfl
    unfold buildX
    simp only [ncolOf] at F ⊢
    simp only [F.xrows, F.xcols, xStep]
    rw [alloc_ok R ((ncolX : Int) + past) (by omega)]
    simp only [writeBlock, F.xcolhi, F.xdst, F.xlo, F.xhi]
    have hchi : normIdx (List.replicate ((ncolX : Int) + past).toNat (List.replicate R (none : Cell))).length
        (ncolX : Int) = ncolX := by
      rw [normIdx_inrange _ _ (by omega) (by simp; omega)]; omega
    have hrl : (pySlice Xr (past - 1) (past - 1 + (nrow : Int))).length = R - pad := by
      rw [pySlice_inrange_length Xr _ _ (by omega) (by omega) (by omega)]
      have := F.shape; omega
    rw [hchi]
    have hcond : ¬ (ncolX ≠ ncolX ∨ ¬ ((pySlice Xr (past - 1) (past - 1 + (nrow : Int))).length = R - pad ∨
        (pySlice Xr (past - 1) (past - 1 + (nrow : Int))).length = 1)) := by
      simp [hrl]
    rw [if_neg hcond]
    obtain ⟨T1, g1, g2, g3, g4, g5, g6⟩ := loop_spec
      ⟨R, List.replicate ((ncolX : Int) + past).toNat (List.replicate R none)⟩ R pad 0 (ncolX : Int)
      (fun _ => B.xDstRow y.length past 1 d2 (ncolX : Int) 0)
      (fun i => i)
      (fun i => (pySlice Xr (past - 1) (past - 1 + (nrow : Int))).map (fun row => row[i.toNat]?))
      rfl (blank_wf R _) hpadR
      (by
        intro i hi1 hi2
        refine ⟨F.xdst, hi1, by simp; omega, ?_⟩
        rw [List.length_map, hrl])
      (by intro a b _ _ _ _ h; exact h)
    rw [g1]
    obtain ⟨T2, h1, h2, h3, h4, h5⟩ := lagLoop_spec B y past d2 (ncolX : Int) pad R nrow T1 hd (by omega) hnrow F g2
      g4 (by rw [g3]; simp)
      (by
        intro i hi
        rw [g6 _ (by intro a ha1 ha2; omega)]
        simp only [List.getElem?_replicate]; rw [if_pos (by omega)])
    refine ⟨T2, h1, h2, h3, h4, ?_⟩
    intro Xr' hXr' c hc
    cases hXr'
    rw [h5 c (by omega)]
    have := g5 (c : Int) (by omega) (by omega)
    simp only [Int.toNat_natCast] at this
    rw [this, blank_get R _ c (by omega), pySlice_inrange Xr _ _ (by omega) (by omega) (by omega)]
    have e2 : (past - 1).toNat = past.toNat - 1 := by omega
    have e3 : (past - 1 + (nrow : Int) - (past - 1)).toNat = nrow := by omega
    rw [e2, e3]
    simp [List.take_replicate, hpadR]


/-- entry `pad + r` of `pad` NaN cells followed by a mapped window -/
theorem window_get {α} (l : List α) (f : α → Cell) (pad a k r : Nat) (hr : r < k) :
    (List.replicate pad (none : Cell) ++ ((l.drop a).take k).map f)[pad + r]? = (l[a + r]?).map f := by
  rw [List.getElem?_append_right (by simp)]
  simp [List.getElem?_take, hr]

theorem window_pad {α} (l : List α) (f : α → Cell) (pad a k r : Nat) (hr : r < pad) :
    (List.replicate pad (none : Cell) ++ ((l.drop a).take k).map f)[r]? = some none := by
  rw [List.getElem?_append_left (by simp [hr])]
  simp [hr]

/-- The frame, cell by cell, for any branch satisfying `Facts`: rows `0..pad-1` are NaN, row `pad + r`
holds lags `y[r..r+past-1]`, targets `y[r+past..r+past+d2-2]` and exogenous row `X[r+past-1]`. -/
theorem frame_cells (B : Branch) (X : Option (List (List Int))) (ncolX : Nat) (y : List Int)
    (w : Option (List Int)) (past d2 : Int) (pad R nrow : Nat) (hp : 1 ≤ past) (hd : 2 ≤ d2)
    (hnrow : (nrow : Int) = y.length - d2 - past + 2)
    (hX : ∀ Xr, X = some Xr → Xr.length = y.length)
    (F : Facts B y.length past d2 (ncolOf X ncolX) pad R nrow) :
    ∃ TX TY, buildTsXy B X ncolX y w past 1 d2 =
        .ok (TX, TY, newWeights B w y.length past 1 d2 (ncolOf X ncolX)) ∧
      TX.rows = R ∧ TY.rows = R ∧
      TX.cols.length = (ncolOf X ncolX + past).toNat ∧ TY.cols.length = (d2 - 1).toNat ∧
      -- lags
      (∀ r i : Nat, r < nrow → (i : Int) < past →
        TX.cell (pad + r) ((ncolOf X ncolX).toNat + i) = some (y[r + i]?) ∧ r + i < y.length) ∧
      -- targets
      (∀ r j : Nat, r < nrow → (j : Int) < d2 - 1 →
        TY.cell (pad + r) j = some (y[r + past.toNat + j]?) ∧ r + past.toNat + j < y.length) ∧
      -- exogenous features
      (∀ Xr, X = some Xr → ∀ r c : Nat, r < nrow → c < ncolX →
        TX.cell (pad + r) c = some ((Xr[r + past.toNat - 1]?).bind (fun row => row[c]?)) ∧
        r + past.toNat - 1 < Xr.length) ∧
      -- padding
      (∀ r c : Nat, r < pad → c < TX.cols.length → TX.cell r c = some none) ∧
      (∀ r c : Nat, r < pad → c < TY.cols.length → TY.cell r c = some none) := by
  obtain ⟨TX, hx1, hx2, hx3, hx4, hx5⟩ := buildX_spec B X ncolX y past d2 pad R nrow hp hd hnrow hX F
  obtain ⟨TY, hy1, hy2, hy3, hy4⟩ := buildY_spec B (ncolOf X ncolX) y past d2 pad R nrow hp hd hnrow F
  have hnc : 0 ≤ ncolOf X ncolX := by cases X <;> simp [ncolOf]
  refine ⟨TX, TY, ?_, hx2, hy2, hx3, hy3, ?_, ?_, ?_, ?_, ?_⟩
  · unfold buildTsXy
    rw [hx1, hy1]
  · intro r i hr hi
    have hlt : r + i < y.length := by omega
    refine ⟨?_, hlt⟩
    unfold Table.cell
    rw [hx4 i hi]
    simp only [Option.bind_some]
    rw [window_get y some pad i nrow r hr]
    have : i + r = r + i := by omega
    rw [this, List.getElem?_eq_getElem hlt]; rfl
  · intro r j hr hj
    have hlt : r + past.toNat + j < y.length := by omega
    refine ⟨?_, hlt⟩
    unfold Table.cell
    rw [hy4 j hj]
    simp only [Option.bind_some]
    rw [window_get y some pad (past.toNat + j) nrow r hr]
    have : past.toNat + j + r = r + past.toNat + j := by omega
    rw [this, List.getElem?_eq_getElem hlt]; rfl
  · intro Xr hXr r c hr hc
    have hl := hX Xr hXr
    have hlt : r + past.toNat - 1 < Xr.length := by omega
    refine ⟨?_, hlt⟩
    unfold Table.cell
    rw [hx5 Xr hXr c hc]
    simp only [Option.bind_some]
    rw [window_get Xr (fun row => row[c]?) pad (past.toNat - 1) nrow r hr]
    have : past.toNat - 1 + r = r + past.toNat - 1 := by omega
    rw [this, List.getElem?_eq_getElem hlt]; rfl
  · intro r c hr hc
    unfold Table.cell
    rw [hx3] at hc
    by_cases hcn : (c : Int) < ncolOf X ncolX
    · cases X with
      | none => simp [ncolOf] at hcn; omega
      | some Xr =>
        simp only [ncolOf] at hcn
        rw [hx5 Xr rfl c (by omega)]
        simp only [Option.bind_some]
        exact window_pad Xr _ pad _ nrow r hr
    · have hc' : c = (ncolOf X ncolX).toNat + (c - (ncolOf X ncolX).toNat) := by omega
      rw [hc', hx4 (c - (ncolOf X ncolX).toNat) (by omega)]
      simp only [Option.bind_some]
      exact window_pad y _ pad _ nrow r hr
  · intro r c hr hc
    unfold Table.cell
    rw [hy3] at hc
    rw [hy4 c (by omega)]
    simp only [Option.bind_some]
    exact window_pad y _ pad _ nrow r hr


/-! ### a series too short to be framed (`same_rows`): every write addresses zero rows -/

theorem writeCol_noop (T : Table) (rowLo c : Int) (rhs : List Cell) (hwf : ∀ col ∈ T.cols, col.length = T.rows)
    (hfull : normIdx T.rows rowLo = T.rows) : ∀ T', writeCol T rowLo c rhs = .ok T' → T' = T := by
  intro T' h
  unfold writeCol at h
  simp only [hfull, Nat.sub_self] at h
  generalize (if c < 0 then c + (T.cols.length : Int) else c) = c' at h
  by_cases hcond : c' < 0 ∨ (T.cols.length : Int) ≤ c'
  · rw [if_pos hcond] at h; cases h
  · rw [if_neg hcond] at h
    have hc' : c'.toNat < T.cols.length := by omega
    have hold : ((T.cols[c'.toNat]?).getD []) = T.cols[c'.toNat] := by
      rw [List.getElem?_eq_getElem hc']; rfl
    have hl := hwf _ (List.getElem_mem hc')
    by_cases h0 : rhs.length = 0
    · rw [if_pos h0] at h
      cases h
      have : rhs = [] := List.eq_nil_of_length_eq_zero h0
      rw [this, hold, List.append_nil, List.take_of_length_le (by omega), List.set_getElem_self]
    · rw [if_neg h0] at h
      by_cases h1 : rhs.length = 1
      · rw [if_pos h1] at h
        cases h
        rw [hold, List.replicate_zero, List.append_nil, List.take_of_length_le (by omega), List.set_getElem_self]
      · rw [if_neg h1] at h; cases h

theorem writeAll_noop (its : List (Int × Int × List Cell)) :
    ∀ (T : Table), (∀ col ∈ T.cols, col.length = T.rows) → (∀ it ∈ its, normIdx T.rows it.1 = T.rows) →
      ∀ T', writeAll its T = .ok T' → T' = T := by
  induction its with
  | nil => intro T _ _ T' h; cases h; rfl
  | cons it rest ih =>
    intro T hwf hits T' h
    obtain ⟨rowLo, c, rhs⟩ := it
    simp only [writeAll] at h
    split at h
    · rename_i T1 h1
      have := writeCol_noop T rowLo c rhs hwf (hits (rowLo, c, rhs) (by simp)) T1 h1
      subst this
      exact ih T1 hwf (fun it hit => hits it (by simp [hit])) T' h
    · cases h

theorem alloc_eq_ok (r c : Int) (T : Table) (h : alloc r c = .ok T) :
    T = ⟨r.toNat, List.replicate c.toNat (List.replicate r.toNat none)⟩ := by
  unfold alloc at h
  split at h
  · cases h
  · cases h; rfl

theorem blankTable_wf (R W : Nat) :
    ∀ col ∈ (⟨R, List.replicate W (List.replicate R none)⟩ : Table).cols,
      col.length = (⟨R, List.replicate W (List.replicate R none)⟩ : Table).rows := by
  intro col hcol
  simp only [List.mem_replicate] at hcol
  rw [hcol.2]; simp

/-- if every write of a branch addresses zero rows, a successful call returns the blank tables -/
theorem build_noop (B : Branch) (X : Option (List (List Int))) (ncolX : Nat) (y : List Int)
    (w : Option (List Int)) (past d1 d2 : Int) (R : Nat)
    (hxr : B.newXRows y.length past d1 d2 (ncolOf X ncolX) 0 = R)
    (hyr : B.newYRows y.length past d1 d2 (ncolOf X ncolX) 0 = R)
    (hrow : ∀ i, normIdx R (B.xDstRow y.length past d1 d2 (ncolOf X ncolX) 0) = R ∧
      normIdx R (B.lagDstRow y.length past d1 d2 (ncolOf X ncolX) i) = R ∧
      normIdx R (B.tgtDstRow y.length past d1 d2 (ncolOf X ncolX) i) = R) :
    ∀ TX TY W, buildTsXy B X ncolX y w past d1 d2 = .ok (TX, TY, W) →
      TX.rows = R ∧ TY.rows = R ∧ (∀ col ∈ TX.cols, col = List.replicate R none) ∧
      (∀ col ∈ TY.cols, col = List.replicate R none) := by
  intro TX TY W h
  unfold buildTsXy at h
  split at h
  · cases h
  · rename_i TX' hx
    split at h
    · cases h
    · rename_i TY' hy
      cases h
      -- new_y
      have hY : TY.rows = R ∧ ∀ col ∈ TY.cols, col = List.replicate R none := by
        unfold buildY at hy
        simp only [hyr] at hy
        split at hy
        · cases hy
        · rename_i T0 h0
          have hT0 := alloc_eq_ok _ _ _ h0
          simp only [Int.toNat_natCast] at hT0
          subst hT0
          have := writeAll_noop _ _ (blankTable_wf R _) (by
            intro it hit
            simp only [tgtWrites, List.mem_map] at hit
            obtain ⟨i, _, rfl⟩ := hit
            exact (hrow i).2.2) TY hy
          subst this
          exact ⟨rfl, by intro col hcol; exact (List.mem_replicate.mp hcol).2⟩
      -- new_X
      have hXs : TX.rows = R ∧ ∀ col ∈ TX.cols, col = List.replicate R none := by
        unfold buildX at hx
        simp only [hxr] at hx
        split at hx
        · cases hx
        · rename_i T0 h0
          have hT0 := alloc_eq_ok _ _ _ h0
          simp only [Int.toNat_natCast] at hT0
          subst hT0
          split at hx
          · cases hx
          · rename_i T1 h1
            have hT1 : T1 = ⟨R, List.replicate (B.newXCols y.length past d1 d2 (ncolOf X ncolX) 0).toNat
                (List.replicate R none)⟩ := by
              unfold xStep at h1
              cases X with
              | none => cases h1; rfl
              | some Xr =>
                simp only [writeBlock] at h1
                split at h1
                · cases h1
                · exact writeAll_noop _ _ (blankTable_wf R _) (by
                    intro it hit
                    simp only [List.mem_map] at hit
                    obtain ⟨i, _, rfl⟩ := hit
                    exact (hrow 0).1) T1 h1
            subst hT1
            have := writeAll_noop _ _ (blankTable_wf R _) (by
              intro it hit
              simp only [lagWrites, List.mem_map] at hit
              obtain ⟨i, _, rfl⟩ := hit
              exact (hrow i).2.1) TX hx
            subst this
            exact ⟨rfl, by intro col hcol; exact (List.mem_replicate.mp hcol).2⟩
      exact ⟨hXs.1, hY.1, hXs.2, hY.2⟩

end MlVerif.TimeSeries
