/-
C16 — helper lemmas about the pipeline model (core Lean only, no Mathlib needed).
-/
import MlVerif.Gen.C16
import MlVerif.Model.Pipeline

namespace MlVerif.Pipeline
open MlVerif.Gen.C16

/-! ## positions of a tree -/

theorem pathsCols_eq (items : List (Pipe × Cols)) (i : Nat) :
    pathsCols items i = pathsList (items.map (·.1)) i := by
  induction items generalizing i with
  | nil => simp [pathsCols, pathsList]
  | cons a rest ih => obtain ⟨p, c⟩ := a; simp [pathsCols, pathsList, ih]

/-- uniform description: the root, then the positions below each child in order -/
theorem paths_eq (p : Pipe) : paths p = [] :: pathsList p.children 0 := by
  cases p <;> simp [paths, Pipe.children, pathsList, pathsCols_eq]

theorem mem_pathsList (ps : List Pipe) (i : Nat) (q : List Nat) :
    q ∈ pathsList ps i ↔ ∃ j r c, q = (i + j) :: r ∧ ps[j]? = some c ∧ r ∈ paths c := by
  induction ps generalizing i with
  | nil => simp [pathsList]
  | cons p ps ih =>
    simp only [pathsList, List.mem_append, List.mem_map, ih]
    constructor
    · rintro (⟨r, hr, rfl⟩ | ⟨j, r, c, rfl, hc, hr⟩)
      · exact ⟨0, r, p, by simp, by simp, hr⟩
      · exact ⟨j + 1, r, c, by simp; omega, by simpa using hc, hr⟩
    · rintro ⟨j, r, c, rfl, hc, hr⟩
      cases j with
      | zero => left; simp at hc; subst hc; exact ⟨r, hr, by simp⟩
      | succ j => right; exact ⟨j, r, c, by simp; omega, by simpa using hc, hr⟩

theorem mem_paths_iff (p : Pipe) (q : List Nat) : q ∈ paths p ↔ (p.at? q).isSome := by
  induction q generalizing p with
  | nil => rw [paths_eq]; simp [Pipe.at?]
  | cons i r ih =>
    rw [paths_eq]
    simp only [List.mem_cons, mem_pathsList, Pipe.at?]
    constructor
    · rintro (h | ⟨j, r', c, h, hc, hr⟩)
      · cases h
      · simp at h; obtain ⟨rfl, rfl⟩ := h
        simp [hc, ← ih, hr]
    · intro h
      right
      cases hc : p.children[i]? with
      | none => simp [hc] at h
      | some c =>
        simp [hc] at h
        exact ⟨i, r, c, by simp, hc, (ih c).2 h⟩

theorem at?_append (p : Pipe) (q r : List Nat) : p.at? (q ++ r) = (p.at? q).bind (·.at? r) := by
  induction q generalizing p with
  | nil => simp [Pipe.at?]
  | cons i q ih =>
    simp only [List.cons_append, Pipe.at?]
    cases p.children[i]? with
    | none => simp
    | some c => simp [ih]

/-- the positions are closed under taking the parent -/
theorem paths_prefix_closed (p : Pipe) (q : List Nat) (i : Nat) (h : q ++ [i] ∈ paths p) : q ∈ paths p := by
  rw [mem_paths_iff] at *
  rw [at?_append] at h
  cases hq : p.at? q with
  | none => simp [hq] at h
  | some c => simp

/-- `b` is not a prefix of `a` -/
def NotAncestor (a b : List Nat) : Prop := ¬ b <+: a

theorem pathsList_heads (ps : List Pipe) (i : Nat) : ∀ q ∈ pathsList ps i, ∃ j r, q = j :: r ∧ i ≤ j := by
  intro q hq
  rw [mem_pathsList] at hq
  obtain ⟨j, r, c, rfl, _, _⟩ := hq
  exact ⟨i + j, r, rfl, by omega⟩

mutual
/-- pre-order: nothing is listed before one of its ancestors, nothing is listed twice -/
theorem paths_pairwise : ∀ p : Pipe, (paths p).Pairwise NotAncestor
  | .est _ _ => by simp [paths]
  | .passthrough => by simp [paths]
  | .drop => by simp [paths]
  | .pipeline steps => by
    simp only [paths, List.pairwise_cons]
    refine ⟨?_, pathsList_pairwise steps 0⟩
    intro q hq
    obtain ⟨j, r, rfl, _⟩ := pathsList_heads steps 0 q hq
    simp [NotAncestor]
  | .union items => by
    simp only [paths, List.pairwise_cons]
    refine ⟨?_, pathsList_pairwise items 0⟩
    intro q hq
    obtain ⟨j, r, rfl, _⟩ := pathsList_heads items 0 q hq
    simp [NotAncestor]
  | .columns items _ => by
    simp only [paths, List.pairwise_cons]
    refine ⟨?_, pathsCols_pairwise items 0⟩
    intro q hq
    rw [pathsCols_eq] at hq
    obtain ⟨j, r, rfl, _⟩ := pathsList_heads _ 0 q hq
    simp [NotAncestor]
theorem pathsList_pairwise : ∀ (ps : List Pipe) (i : Nat), (pathsList ps i).Pairwise NotAncestor
  | [], _ => by simp [pathsList]
  | p :: ps, i => by
    simp only [pathsList, List.pairwise_append, List.pairwise_map]
    refine ⟨?_, pathsList_pairwise ps (i + 1), ?_⟩
    · exact (paths_pairwise p).imp (by intro a b h; simpa [NotAncestor, List.cons_prefix_cons] using h)
    · intro a ha b hb
      simp only [List.mem_map] at ha
      obtain ⟨a', _, rfl⟩ := ha
      obtain ⟨j, r, rfl, hj⟩ := pathsList_heads ps (i + 1) b hb
      simp only [NotAncestor, List.cons_prefix_cons, not_and]
      omega
theorem pathsCols_pairwise : ∀ (ps : List (Pipe × Cols)) (i : Nat), (pathsCols ps i).Pairwise NotAncestor
  | [], _ => by simp [pathsCols]
  | (p, _) :: ps, i => by
    simp only [pathsCols, List.pairwise_append, List.pairwise_map]
    refine ⟨?_, pathsCols_pairwise ps (i + 1), ?_⟩
    · exact (paths_pairwise p).imp (by intro a b h; simpa [NotAncestor, List.cons_prefix_cons] using h)
    · intro a ha b hb
      simp only [List.mem_map] at ha
      obtain ⟨a', _, rfl⟩ := ha
      rw [pathsCols_eq] at hb
      obtain ⟨j, r, rfl, hj⟩ := pathsList_heads _ (i + 1) b hb
      simp only [NotAncestor, List.cons_prefix_cons, not_and]
      omega
end

theorem paths_nodup (p : Pipe) : (paths p).Nodup :=
  (paths_pairwise p).imp (by intro a b h e; subst e; exact h (List.prefix_refl _))

/-! ## enumerate = positions, shifted by the coordinate of the root -/

mutual
theorem enumerate_coords : ∀ (p : Pipe) (coor : List Nat) (vs : Option Cols),
    (enumerate p coor vs).map (·.coord) = (paths p).map (coor ++ ·)
  | .est _ _, _, _ => by simp [enumerate, paths]
  | .passthrough, _, _ => by simp [enumerate, paths]
  | .drop, _, _ => by simp [enumerate, paths]
  | .pipeline steps, coor, _ => by
    simp [enumerate, paths, enumList_coords childCoordPipeline (by intro c i; simp [childCoordPipeline]) steps coor 0]
  | .union items, coor, _ => by
    simp [enumerate, paths, enumList_coords childCoordUnion (by intro c i; simp [childCoordUnion]) items coor 0]
  | .columns items _, coor, _ => by
    simp [enumerate, paths, enumCols_coords items coor 0]
theorem enumList_coords (cc : List Nat → Nat → List Nat) (hcc : ∀ c i, cc c i = c ++ [i]) :
    ∀ (ps : List Pipe) (coor : List Nat) (i : Nat),
    (enumList cc ps coor i).map (·.coord) = (pathsList ps i).map (coor ++ ·)
  | [], _, _ => by simp [enumList, pathsList]
  | p :: ps, coor, i => by
    simp [enumList, pathsList, enumerate_coords p, enumList_coords cc hcc ps coor (i + 1), hcc]
theorem enumCols_coords : ∀ (ps : List (Pipe × Cols)) (coor : List Nat) (i : Nat),
    (enumCols ps coor i).map (·.coord) = (pathsCols ps i).map (coor ++ ·)
  | [], _, _ => by simp [enumCols, pathsCols]
  | (p, c) :: ps, coor, i => by
    simp [enumCols, pathsCols, enumerate_coords p, enumCols_coords ps coor (i + 1), childCoordColumns]
end

/-! ## the instrumented interpreter -/

section interp
variable {α : Type} (S : Sem α)

mutual
theorem runI_fst : ∀ (p : Pipe) (coor : List Nat) (x : α), (runI S p coor x).1 = run S p x
  | .est _ _, _, _ => by simp [runI, run]
  | .passthrough, _, _ => by simp [runI, run]
  | .drop, _, _ => by simp [runI, run]
  | .pipeline steps, coor, x => by simp [runI, run, runStepsI_fst steps coor 0 x]
  | .union items, coor, x => by simp [runI, run, runAllI_fst items coor 0 x]
  | .columns items rem, coor, x => by simp [runI, run, runColsI_fst items coor 0 x]
theorem runStepsI_fst : ∀ (ps : List Pipe) (coor : List Nat) (i : Nat) (x : α),
    (runStepsI S ps coor i x).1 = runSteps S ps x
  | [], _, _, _ => by simp [runStepsI, runSteps]
  | p :: ps, coor, i, x => by simp [runStepsI, runSteps, runI_fst p, runStepsI_fst ps]
theorem runAllI_fst : ∀ (ps : List Pipe) (coor : List Nat) (i : Nat) (x : α),
    (runAllI S ps coor i x).1 = runAll S ps x
  | [], _, _, _ => by simp [runAllI, runAll]
  | p :: ps, coor, i, x => by simp [runAllI, runAll, runI_fst p, runAllI_fst ps]
theorem runColsI_fst : ∀ (ps : List (Pipe × Cols)) (coor : List Nat) (i : Nat) (x : α),
    (runColsI S ps coor i x).1 = runCols S ps x
  | [], _, _, _ => by simp [runColsI, runCols]
  | (p, c) :: ps, coor, i, x => by simp [runColsI, runCols, runI_fst p, runColsI_fst ps]
end

theorem unionPassRec_len (p : Pipe) (c : List Nat) (x : α) :
    ∀ q ∈ unionPassRec p c x, q.coord.length = c.length := by
  intro q hq
  cases p <;> simp [unionPassRec] at hq
  subst hq; rfl

mutual
/-- every record written below coordinate `coor` carries a coordinate at least as long -/
theorem runI_len : ∀ (p : Pipe) (coor : List Nat) (x : α), ∀ q ∈ (runI S p coor x).2, coor.length ≤ q.coord.length
  | .est _ _, _, _ => by simp [runI]
  | .passthrough, _, _ => by simp [runI]
  | .drop, _, _ => by simp [runI]
  | .pipeline steps, coor, x => by
    intro q hq
    simp only [runI, List.mem_cons] at hq
    rcases hq with rfl | hq
    · simp
    · have := runStepsI_len steps coor 0 x q hq; omega
  | .union items, coor, x => by
    intro q hq
    simp only [runI, List.mem_cons] at hq
    rcases hq with rfl | hq
    · simp
    · have := runAllI_len items coor 0 x q hq; omega
  | .columns items rem, coor, x => by
    intro q hq
    simp only [runI, List.mem_cons] at hq
    rcases hq with rfl | hq
    · simp
    · have := runColsI_len items coor 0 x q hq; omega
theorem runStepsI_len : ∀ (ps : List Pipe) (coor : List Nat) (i : Nat) (x : α),
    ∀ q ∈ (runStepsI S ps coor i x).2, coor.length + 1 ≤ q.coord.length
  | [], _, _, _ => by simp [runStepsI]
  | p :: ps, coor, i, x => by
    intro q hq
    simp only [runStepsI, List.mem_append] at hq
    rcases hq with hq | hq
    · have := runI_len p _ _ q hq
      simp [childCoordPipeline] at this; omega
    · exact runStepsI_len ps coor (i + 1) _ q hq
theorem runAllI_len : ∀ (ps : List Pipe) (coor : List Nat) (i : Nat) (x : α),
    ∀ q ∈ (runAllI S ps coor i x).2, coor.length + 1 ≤ q.coord.length
  | [], _, _, _ => by simp [runAllI]
  | p :: ps, coor, i, x => by
    intro q hq
    simp only [runAllI, List.mem_append] at hq
    rcases hq with (hq | hq) | hq
    · have := unionPassRec_len p _ x q hq
      simp [childCoordUnion] at this; omega
    · have := runI_len p _ _ q hq
      simp [childCoordUnion] at this; omega
    · exact runAllI_len ps coor (i + 1) _ q hq
theorem runColsI_len : ∀ (ps : List (Pipe × Cols)) (coor : List Nat) (i : Nat) (x : α),
    ∀ q ∈ (runColsI S ps coor i x).2, coor.length + 1 ≤ q.coord.length
  | [], _, _, _ => by simp [runColsI]
  | (p, c) :: ps, coor, i, x => by
    intro q hq
    simp only [runColsI, List.mem_append] at hq
    rcases hq with hq | hq
    · have := runI_len p _ _ q hq
      simp [childCoordColumns] at this; omega
    · exact runColsI_len ps coor (i + 1) _ q hq
end

/-- what one model writes: nothing (the strings 'passthrough' / 'drop', which leave the value unchanged) or
first its own record `(coor, input, output)` and then only records of nested models -/
theorem runI_shape (p : Pipe) (coor : List Nat) (x : α) :
    ((runI S p coor x).2 = [] ∧ (runI S p coor x).1 = x) ∨
    ∃ rest, (runI S p coor x).2 = ⟨coor, x, (runI S p coor x).1⟩ :: rest ∧
      ∀ q ∈ rest, coor.length + 1 ≤ q.coord.length := by
  cases p with
  | est k cls => right; exact ⟨[], by simp [runI], by simp⟩
  | passthrough => left; simp [runI]
  | drop => left; simp [runI]
  | pipeline steps => right; exact ⟨_, by simp [runI], runStepsI_len S steps coor 0 x⟩
  | union items => right; exact ⟨_, by simp [runI], runAllI_len S items coor 0 x⟩
  | columns items rem => right; exact ⟨_, by simp [runI], runColsI_len S items coor 0 x⟩

/-- a list of records chains from `x` to `y`: the first input is `x`, every next input is the previous
output, the last output is `y` -/
def ChainIO (x y : α) : List (Rec α) → Prop
  | [] => x = y
  | r :: rest => r.inp = x ∧ ChainIO r.out y rest

/-- the records of the steps themselves (one level below the pipeline) -/
def stepRecords (coor : List Nat) (rs : List (Rec α)) : List (Rec α) :=
  rs.filter (fun r => r.coord.length = coor.length + 1)

theorem steps_chain (ps : List Pipe) (coor : List Nat) (i : Nat) (x : α) :
    ChainIO x (runStepsI S ps coor i x).1 (stepRecords coor (runStepsI S ps coor i x).2) := by
  induction ps generalizing i x with
  | nil => simp [runStepsI, stepRecords, ChainIO]
  | cons p ps ih =>
    simp only [runStepsI, stepRecords, List.filter_append]
    have hlen : (childCoordPipeline coor i).length = coor.length + 1 := by simp [childCoordPipeline]
    rcases runI_shape S p (childCoordPipeline coor i) x with ⟨h1, h2⟩ | ⟨rest, h1, h2⟩
    · rw [h1, h2]; simpa [stepRecords] using ih (i + 1) x
    · rw [h1]
      have hrest : rest.filter (fun r => r.coord.length = coor.length + 1) = [] := by
        simp only [List.filter_eq_nil_iff, decide_eq_true_eq]
        intro q hq; have := h2 q hq; omega
      simp only [List.filter_cons, hlen, decide_true, if_true, hrest, List.nil_append, List.cons_append, ChainIO,
        true_and]
      simpa [stepRecords] using ih (i + 1) (runI S p (childCoordPipeline coor i) x).1

end interp

/-! ## the DOT graph: structure of `toDot` -/

theorem foldl_cons_eq {α β} (f : α → β) (l : List α) (init : List β) :
    l.foldl (fun acc x => f x :: acc) init = (l.map f).reverse ++ init := by
  induction l generalizing init with
  | nil => simp
  | cons a l ih => simp [ih]

theorem registerOuts_eq (cols : ColMap) (i : Nat) (outs : List String) :
    registerOuts cols i outs =
      (((List.range outs.length).zip outs).map (fun (p : Nat × String) => (p.2, (i, p.1)))).reverse ++ cols := by
  unfold registerOuts
  exact foldl_cons_eq (fun (p : Nat × String) => (p.2, (i, p.1))) _ cols

theorem mem_registerOuts {cols : ColMap} {i : Nat} {outs : List String} {e : String × (Nat × Nat)} :
    e ∈ registerOuts cols i outs ↔
      e ∈ cols ∨ ∃ c o, (c, o) ∈ (List.range outs.length).zip outs ∧ e = (o, (i, c)) := by
  rw [registerOuts_eq]
  simp only [List.mem_append, List.mem_reverse, List.mem_map, Prod.exists]
  constructor
  · rintro (⟨c, o, h, rfl⟩ | h)
    · exact Or.inr ⟨c, o, h, rfl⟩
    · exact Or.inl h
  · rintro (h | ⟨c, o, h, rfl⟩)
    · exact Or.inr h
    · exact Or.inl ⟨c, o, h, rfl⟩

theorem zip_range_lt {outs : List String} {c : Nat} {o : String}
    (h : (c, o) ∈ (List.range outs.length).zip outs) : c < outs.length ∧ o ∈ outs := by
  have := List.of_mem_zip h
  simpa using this

theorem keys_registerOuts (cols : ColMap) (i : Nat) (outs : List String) (s : String) :
    s ∈ (registerOuts cols i outs).map (·.1) ↔ s ∈ outs ∨ s ∈ cols.map (·.1) := by
  simp only [List.mem_map, mem_registerOuts]
  constructor
  · rintro ⟨e, (h | ⟨c, o, h, rfl⟩), rfl⟩
    · exact Or.inr ⟨e, h, rfl⟩
    · exact Or.inl (zip_range_lt h).2
  · rintro (h | ⟨e, h, rfl⟩)
    · obtain ⟨c, hc, rfl⟩ := List.getElem_of_mem h
      refine ⟨(outs[c], (i, c)), Or.inr ⟨c, outs[c], ?_, rfl⟩, rfl⟩
      rw [List.mem_iff_getElem]
      refine ⟨c, by simpa using hc, by simp⟩
    · exact ⟨e, Or.inl h, rfl⟩

theorem lookup_mem {β} {l : List (String × β)} {k : String} {v : β} (h : l.lookup k = some v) : (k, v) ∈ l := by
  induction l with
  | nil => simp at h
  | cons a l ih =>
    obtain ⟨k', v'⟩ := a
    simp only [List.lookup_cons] at h
    split at h
    · rename_i heq; simp at heq; cases h; simp [heq]
    · exact List.mem_cons_of_mem _ (ih h)

theorem lookup_isSome_of_mem_keys {β} {l : List (String × β)} {k : String} (h : k ∈ l.map (·.1)) :
    ∃ v, l.lookup k = some v := by
  induction l with
  | nil => simp at h
  | cons a l ih =>
    obtain ⟨k', v'⟩ := a
    simp only [List.lookup_cons]
    by_cases hk : k = k'
    · subst hk; simp
    · have : (k == k') = false := by simpa using hk
      simp only [this]
      simp only [List.map_cons, List.mem_cons] at h
      rcases h with h | h
      · exact absurd h hk
      · exact ih h

theorem mem_dedupKeep (l : List Nat) (x : Nat) : x ∈ dedupKeep l ↔ x ∈ l := by
  induction l with
  | nil => simp [dedupKeep]
  | cons a l ih =>
    simp only [dedupKeep, List.mem_cons, List.mem_filter, ih]
    by_cases h : x = a <;> simp [h]


/-- the inputs of every drawn step are known when the step is drawn: `known` holds of the names
registered so far, and the outputs of a step are known to the steps after it -/
def ClosedFrom : (String → Prop) → List Info → Prop
  | _, [] => True
  | known, info :: rest =>
    (∀ k ∈ info.inputs.keys, known k) ∧ ClosedFrom (fun s => known s ∨ s ∈ info.outputs.keys) rest

theorem ClosedFrom.mono {K K' : String → Prop} (h : ∀ s, K s → K' s) :
    ∀ {l : List Info}, ClosedFrom K l → ClosedFrom K' l
  | [], _ => trivial
  | _ :: _, hc => ⟨fun k hk => h k (hc.1 k hk),
      ClosedFrom.mono (fun s hs => hs.elim (fun a => Or.inl (h s a)) Or.inr) hc.2⟩

/-- what `sch0` offers: the text of one of its ports -/
def IsInputPort (nsch : Nat) (s : String) : Prop := ∃ k, k < nsch ∧ portText 0 k = s

theorem resolve_known {cols : ColMap} {nsch : Nat} {inp : String}
    (h : inp ∈ cols.map (·.1) ∨ IsInputPort nsch inp) :
    (∃ j c, resolve cols nsch inp = .port j c ∧ (inp, (j, c)) ∈ cols) ∨
    (∃ k, resolve cols nsch inp = .port 0 k ∧ k < nsch) := by
  unfold resolve
  cases hl : cols.lookup inp with
  | some v => left; exact ⟨v.1, v.2, rfl, lookup_mem hl⟩
  | none =>
    right
    rcases h with h | ⟨k, hk, rfl⟩
    · obtain ⟨v, hv⟩ := lookup_isSome_of_mem_keys h; rw [hv] at hl; cases hl
    · cases hf : (List.range nsch).find? (fun k' => portText 0 k' == portText 0 k) with
      | none =>
        rw [List.find?_eq_none] at hf
        have := hf k (by simpa using hk)
        simp at this
      | some k' =>
        have := List.mem_of_find?_eq_some hf
        exact ⟨k', rfl, by simpa using this⟩

theorem resolve_port_lt {cols : ColMap} {nsch i : Nat} {inp : String} {j c : Nat}
    (hi : 1 ≤ i) (hcols : ∀ e ∈ cols, e.2.1 < i) (h : resolve cols nsch inp = .port j c) : j < i := by
  unfold resolve at h
  cases hl : cols.lookup inp with
  | some v =>
    rw [hl] at h; simp at h
    have := hcols _ (lookup_mem hl)
    obtain ⟨rfl, rfl⟩ := h; exact this
  | none =>
    rw [hl] at h
    simp only at h
    split at h
    · cases h; omega
    · cases h

theorem toDotAux_labels (nsch : Nat) : ∀ (infos : List Info) (i : Nat) (cols : ColMap),
    (toDotAux nsch infos i cols).map (·.label) = infos.map (·.name) ∧
    (toDotAux nsch infos i cols).map (·.idx) = List.range' i infos.length ∧
    (toDotAux nsch infos i cols).map (·.ports) = infos.map (·.outputs.keys)
  | [], _, _ => by simp [toDotAux]
  | info :: rest, i, cols => by
    have := toDotAux_labels nsch rest (i + 1) (registerOuts cols i info.outputs.keys)
    simp [toDotAux, stepOf, this, List.range'_succ]

/-- edges into a node come from strictly earlier records -/
theorem toDotAux_ins_lt (nsch : Nat) : ∀ (infos : List Info) (i : Nat) (cols : ColMap),
    1 ≤ i → (∀ e ∈ cols, e.2.1 < i) →
    ∀ s ∈ toDotAux nsch infos i cols, i ≤ s.idx ∧ ∀ j c, Src.port j c ∈ s.ins → j < s.idx
  | [], _, _, _, _ => by simp [toDotAux]
  | info :: rest, i, cols, hi, hcols => by
    intro s hs
    simp only [toDotAux, List.mem_cons] at hs
    rcases hs with rfl | hs
    · refine ⟨by simp [stepOf], ?_⟩
      intro j c hj
      simp only [stepOf, List.mem_map] at hj
      obtain ⟨inp, _, hr⟩ := hj
      exact resolve_port_lt hi hcols hr
    · have hcols' : ∀ e ∈ registerOuts cols i info.outputs.keys, e.2.1 < i + 1 := by
        intro e he
        rcases mem_registerOuts.1 he with h | ⟨c, o, _, rfl⟩
        · have := hcols e h; omega
        · simp
      have := toDotAux_ins_lt nsch rest (i + 1) _ (by omega) hcols' s hs
      exact ⟨by omega, this.2⟩

/-- the out-edges of a node go to ports of its own record -/
theorem stepOf_outs_lt (cols : ColMap) (nsch i : Nat) (info : Info) :
    ∀ c ∈ (stepOf cols nsch i info).outs, c < (stepOf cols nsch i info).ports.length := by
  intro c hc
  simp only [stepOf, mem_dedupKeep, List.mem_filterMap, Option.map_eq_some_iff] at hc
  obtain ⟨o, ho, v, hv, rfl⟩ := hc
  simp only [stepOf]
  rw [registerOuts_eq, List.lookup_append] at hv
  obtain ⟨k, hk, rfl⟩ := List.getElem_of_mem ho
  have hkey : info.outputs.keys[k] ∈
      ((((List.range info.outputs.keys.length).zip info.outputs.keys).map
        (fun (p : Nat × String) => (p.2, (i, p.1)))).reverse).map (·.1) := by
    simp only [List.map_reverse, List.mem_reverse, List.map_map, List.mem_map]
    refine ⟨(k, info.outputs.keys[k]), ?_, rfl⟩
    rw [List.mem_iff_getElem]
    exact ⟨k, by simpa using hk, by simp⟩
  obtain ⟨w, hw⟩ := lookup_isSome_of_mem_keys hkey
  rw [hw] at hv
  simp at hv
  subst hv
  have := lookup_mem hw
  simp only [List.mem_reverse, List.mem_map] at this
  obtain ⟨⟨c', o'⟩, hmem, heq⟩ := this
  simp at heq
  obtain ⟨_, rfl⟩ := heq
  exact (zip_range_lt hmem).1

theorem toDotAux_outs_lt (nsch : Nat) : ∀ (infos : List Info) (i : Nat) (cols : ColMap),
    ∀ s ∈ toDotAux nsch infos i cols, ∀ c ∈ s.outs, c < s.ports.length
  | [], _, _ => by simp [toDotAux]
  | info :: rest, i, cols => by
    intro s hs
    simp only [toDotAux, List.mem_cons] at hs
    rcases hs with rfl | hs
    · exact stepOf_outs_lt cols nsch i info
    · exact toDotAux_outs_lt nsch rest (i + 1) _ s hs

/-- under closedness every edge into a node starts at a declared port: one that was already declared
(`D`) or a port of a record drawn by this very list -/
theorem toDotAux_declared (nsch : Nat) : ∀ (infos : List Info) (i : Nat) (cols : ColMap) (D : Nat → Nat → Prop),
    (∀ e ∈ cols, D e.2.1 e.2.2) → (∀ k, k < nsch → D 0 k) →
    ClosedFrom (fun s => s ∈ cols.map (·.1) ∨ IsInputPort nsch s) infos →
    ∀ s ∈ toDotAux nsch infos i cols, ∀ src ∈ s.ins, ∃ j c, src = .port j c ∧
      (D j c ∨ ∃ s' ∈ toDotAux nsch infos i cols, s'.idx = j ∧ c < s'.ports.length)
  | [], _, _, _, _, _, _ => by simp [toDotAux]
  | info :: rest, i, cols, D, hcols, hD0, hclosed => by
    intro s hs src hsrc
    simp only [toDotAux, List.mem_cons] at hs
    rcases hs with rfl | hs
    · simp only [stepOf, List.mem_map] at hsrc
      obtain ⟨inp, hinp, rfl⟩ := hsrc
      rcases resolve_known (hclosed.1 inp hinp) with ⟨j, c, hr, hm⟩ | ⟨k, hr, hk⟩
      · exact ⟨j, c, hr, Or.inl (hcols _ hm)⟩
      · exact ⟨0, k, hr, Or.inl (hD0 k hk)⟩
    · let D' : Nat → Nat → Prop := fun j c => D j c ∨ (j = i ∧ c < info.outputs.keys.length)
      have hcols' : ∀ e ∈ registerOuts cols i info.outputs.keys, D' e.2.1 e.2.2 := by
        intro e he
        rcases mem_registerOuts.1 he with h | ⟨c, o, hz, rfl⟩
        · exact Or.inl (hcols e h)
        · exact Or.inr ⟨rfl, (zip_range_lt hz).1⟩
      have hclosed' : ClosedFrom (fun s => s ∈ (registerOuts cols i info.outputs.keys).map (·.1) ∨ IsInputPort nsch s) rest := by
        refine ClosedFrom.mono ?_ hclosed.2
        intro s hs
        rw [keys_registerOuts]
        rcases hs with (h | h) | h
        · exact Or.inl (Or.inr h)
        · exact Or.inr h
        · exact Or.inl (Or.inl h)
      obtain ⟨j, c, rfl, h⟩ := toDotAux_declared nsch rest (i + 1) _ D' hcols' (fun k hk => Or.inl (hD0 k hk)) hclosed' s hs src hsrc
      refine ⟨j, c, rfl, ?_⟩
      rcases h with (h | ⟨rfl, hc⟩) | ⟨s', hs', h1, h2⟩
      · exact Or.inl h
      · exact Or.inr ⟨stepOf cols nsch j info, by simp [toDotAux], by simp [stepOf], by simpa [stepOf] using hc⟩
      · exact Or.inr ⟨s', by simp [toDotAux, hs'], h1, h2⟩

/-! ### acyclicity certificate -/

def Vertex.rank : Vertex → Nat
  | .rawv _ => 0
  | .sch j => 2 * j + 1
  | .node i => 2 * i

/-- a non-empty path in a list of edges -/
inductive Path (E : List (Vertex × Vertex)) : Vertex → Vertex → Prop
  | single {u v} : (u, v) ∈ E → Path E u v
  | cons {u w v} : (u, w) ∈ E → Path E w v → Path E u v

theorem Path.rank_lt {E : List (Vertex × Vertex)} (h : ∀ e ∈ E, e.1.rank < e.2.rank) {u v : Vertex}
    (p : Path E u v) : u.rank < v.rank := by
  induction p with
  | single he => exact h _ he
  | cons he _ ih => exact Nat.lt_trans (h _ he) ih

theorem toDot_edges_increase (schema : List String) (infos : List Info) :
    ∀ e ∈ (toDot schema infos).edges, e.1.rank < e.2.rank := by
  intro e he
  simp only [Dot.edges, toDot, List.mem_flatMap] at he
  obtain ⟨s, hs, he⟩ := he
  have hcols : ∀ e ∈ initCols schema, e.2.1 < 1 := by
    intro e he
    rcases mem_registerOuts.1 he with h | ⟨c, o, _, rfl⟩
    · simp at h
    · simp
  have h := toDotAux_ins_lt schema.length infos 1 (initCols schema) (by omega) hcols s hs
  simp only [Step.edges, List.mem_append, List.mem_map] at he
  rcases he with ⟨src, hsrc, rfl⟩ | ⟨c, _, rfl⟩
  · cases src with
    | port j c => have := h.2 j c hsrc; simp [Src.vertex, Vertex.rank]; omega
    | raw t => simp [Src.vertex, Vertex.rank]; omega
  · simp [Vertex.rank]

/-! ## every step of the pipeline is drawn -/

theorem setLastOutputs_names (l : List Info) (d : Data) : (setLastOutputs l d).map (·.name) = l.map (·.name) := by
  induction l with
  | nil => simp [setLastOutputs]
  | cons a l ih =>
    cases l with
    | nil => simp [setLastOutputs]
    | cons b l => simp [setLastOutputs] at ih ⊢; exact ih

theorem leafInfo_labels {k cls data c infos c'} (h : leafInfo k cls data c = .ok (infos, c')) :
    [cls].Sublist (infos.map (·.name)) := by
  unfold leafInfo at h
  cases k <;> simp only at h
  all_goals (first | (cases h; done) | skip)
  all_goals
    split at h
    · cases h; simp
    · repeat (split at h <;> try (cases h; done))
      cases h; simp [unionInfo]

theorem passthroughInfo_labels {data c infos c'} (h : passthroughInfo data c = .ok (infos, c')) :
    infos.map (·.name) = ["Identity"] := by
  unfold passthroughInfo at h
  simp only at h
  split at h
  · cases h
  · cases h; simp

theorem closeUnion_eq {infos outputs c r c'} (h : closeUnion infos outputs c = .ok (r, c')) :
    ∃ o, r = infos ++ [unionInfo (.list outputs) o] := by
  unfold closeUnion at h
  split at h
  · cases h
  · cases h; exact ⟨_, rfl⟩

mutual
theorem pipelineInfo_labels : ∀ (p : Pipe) (data : Data) (c : NameCtx) (infos : List Info) (c' : NameCtx),
    pipelineInfo p data c = .ok (infos, c') → (leafLabels p).Sublist (infos.map (·.name))
  | .est k cls, data, c, infos, c', h => by
    simp only [pipelineInfo] at h; simpa [leafLabels] using leafInfo_labels h
  | .passthrough, data, c, infos, c', h => by
    simp only [pipelineInfo] at h; simp [leafLabels, passthroughInfo_labels h]
  | .drop, _, _, _, _, h => by simp [pipelineInfo] at h
  | .pipeline steps, data, c, infos, c', h => by
    simp only [pipelineInfo] at h; simpa [leafLabels] using infoSteps_labels steps data c infos c' h
  | .union items, data, c, infos, c', h => by
    simp only [pipelineInfo] at h
    split at h
    · cases h
    · rename_i infos1 outs c1 heq
      have ih := infoUnion_labels items data c infos1 outs c1 heq
      simp only [leafLabels]
      split at h
      · obtain ⟨o, rfl⟩ := closeUnion_eq h
        simpa using ih.trans (List.sublist_append_left _ _)
      · cases h; exact ih
  | .columns items rem, data, c, infos, c', h => by
    simp only [pipelineInfo] at h
    split at h
    · cases h
    · rename_i infos1 outs c1 heq
      have ih := infoCols_labels items data c infos1 outs c1 heq
      simp only [leafLabels]
      split at h
      · split at h
        · obtain ⟨o, rfl⟩ := closeUnion_eq h
          simpa using ih.trans (List.sublist_append_left _ _)
        · cases h; exact ih
      · repeat (split at h <;> try (cases h; done))
        obtain ⟨o, rfl⟩ := closeUnion_eq h
        simp only [List.map_append, List.append_assoc]
        exact ih.trans (List.sublist_append_left _ _)
theorem infoSteps_labels : ∀ (ps : List Pipe) (data : Data) (c : NameCtx) (infos : List Info) (c' : NameCtx),
    infoSteps ps data c = .ok (infos, c') → (leafLabelsList ps).Sublist (infos.map (·.name))
  | [], _, _, _, _, h => by simp [infoSteps] at h; simp [leafLabelsList]
  | p :: ps, data, c, infos, c', h => by
    simp only [infoSteps] at h
    split at h
    · cases h
    · rename_i info c1 heq
      split at h
      · cases h
      · rename_i last hlast
        split at h
        · cases h
        · rename_i infos2 c2 heq2
          cases h
          simp only [leafLabelsList, List.map_append]
          exact List.Sublist.append (pipelineInfo_labels p data c info c1 heq)
            (infoSteps_labels ps last.outputs c1 infos2 _ heq2)
theorem infoUnion_labels : ∀ (ps : List Pipe) (data : Data) (c : NameCtx) (infos : List Info) (outs : List String)
    (c' : NameCtx), infoUnion ps data c = .ok (infos, outs, c') → (leafLabelsList ps).Sublist (infos.map (·.name))
  | [], _, _, _, _, _, h => by simp [infoUnion] at h; simp [leafLabelsList]
  | p :: ps, data, c, infos, outs, c', h => by
    simp only [infoUnion] at h
    split at h
    · cases h
    · rename_i info c1 heq
      split at h
      · cases h
      · rename_i last hlast
        split at h
        · cases h
        · rename_i newOuts c2 hn
          split at h
          · cases h
          · rename_i infos2 outs2 c3 heq2
            cases h
            simp only [leafLabelsList, List.map_append, setLastOutputs_names]
            exact List.Sublist.append (pipelineInfo_labels p data c info c1 heq)
              (infoUnion_labels ps data c2 infos2 outs2 _ heq2)
theorem infoCols_labels : ∀ (ps : List (Pipe × Cols)) (data : Data) (c : NameCtx) (infos : List Info)
    (outs : List String) (c' : NameCtx), infoCols ps data c = .ok (infos, outs, c') →
    (leafLabelsCols ps).Sublist (infos.map (·.name))
  | [], _, _, _, _, _, h => by simp [infoCols] at h; simp [leafLabelsCols]
  | (p, cols) :: ps, data, c, infos, outs, c', h => by
    simp only [infoCols] at h
    split at h
    · cases h
    · rename_i newData hsel
      split at h
      · cases h
      · rename_i info c1 heq
        split at h
        · cases h
        · rename_i last hlast
          split at h
          · cases h
          · rename_i infos2 outs2 c2 heq2
            cases h
            simp only [leafLabelsCols, List.map_append]
            exact List.Sublist.append (pipelineInfo_labels p newData c info c1 heq)
              (infoCols_labels ps data c1 infos2 outs2 _ heq2)
end


/-! ## closedness of the drawn steps: every input is an input column or an earlier output -/

/-- the names made available by a list of drawn steps -/
def outsOf (infos : List Info) : List String := infos.flatMap (·.outputs.keys)

/-- `K` extended by the outputs of `infos` -/
def Kx (K : String → Prop) (infos : List Info) : String → Prop := fun s => K s ∨ s ∈ outsOf infos

theorem Kx_nil (K : String → Prop) (s : String) : Kx K [] s ↔ K s := by simp [Kx, outsOf]

theorem Kx_mono {K K' : String → Prop} (h : ∀ s, K s → K' s) (infos : List Info) : ∀ s, Kx K infos s → Kx K' infos s :=
  fun s hs => hs.elim (fun a => Or.inl (h s a)) Or.inr

theorem Kx_base {K : String → Prop} (infos : List Info) : ∀ s, K s → Kx K infos s := fun _ h => Or.inl h

theorem Kx_append (K : String → Prop) (a b : List Info) (s : String) : Kx K (a ++ b) s ↔ Kx (Kx K a) b s := by
  simp [Kx, outsOf, or_assoc]

theorem ClosedFrom.append {K : String → Prop} : ∀ {a b : List Info},
    ClosedFrom K a → ClosedFrom (Kx K a) b → ClosedFrom K (a ++ b)
  | [], b, _, hb => by
    simpa using ClosedFrom.mono (fun s hs => (Kx_nil K s).1 hs) hb
  | info :: rest, b, ha, hb => by
    refine ⟨ha.1, ?_⟩
    refine ClosedFrom.append ha.2 (ClosedFrom.mono ?_ hb)
    intro s hs
    simp only [Kx, outsOf, List.flatMap_cons, List.mem_append] at hs ⊢
    rcases hs with h | h | h
    · exact Or.inl (Or.inl h)
    · exact Or.inl (Or.inr h)
    · exact Or.inr h

theorem ClosedFrom.setLast {K : String → Prop} (d : Data) : ∀ {l : List Info}, ClosedFrom K l →
    ClosedFrom K (setLastOutputs l d)
  | [], _ => trivial
  | [_], h => ⟨h.1, trivial⟩
  | _ :: _ :: _, h => ⟨h.1, ClosedFrom.setLast d h.2⟩

/-- both the names and the values of `data` are known -/
def DataIn (K : String → Prop) (d : Data) : Prop := (∀ k ∈ d.keys, K k) ∧ (∀ v ∈ d.vals, K v)

theorem DataIn.mono {K K' : String → Prop} (h : ∀ s, K s → K' s) {d : Data} (hd : DataIn K d) : DataIn K' d :=
  ⟨fun k hk => h k (hd.1 k hk), fun v hv => h v (hd.2 v hv)⟩

theorem DataIn.list {K : String → Prop} {l : List String} (h : ∀ s ∈ l, K s) : DataIn K (.list l) :=
  ⟨by simpa [Data.keys] using h, by simpa [Data.vals] using h⟩

/-- the outputs of the last drawn step are known afterwards -/
def LastIn (K : String → Prop) (infos : List Info) : Prop :=
  ∀ last, infos.getLast? = some last → DataIn (Kx K infos) last.outputs

theorem mem_outsOf_last {infos : List Info} {last : Info} (h : infos.getLast? = some last) :
    ∀ s ∈ last.outputs.keys, s ∈ outsOf infos := by
  intro s hs
  simp only [outsOf, List.mem_flatMap]
  exact ⟨last, List.mem_of_getLast? h, hs⟩

theorem LastIn.append {K : String → Prop} {a b : List Info} (ha : LastIn K a) (hb : LastIn (Kx K a) b) :
    LastIn K (a ++ b) := by
  intro last hl
  cases b with
  | nil =>
    simp only [List.append_nil] at hl ⊢
    exact ha last hl
  | cons x xs =>
    rw [List.getLast?_append] at hl
    have hb' : (x :: xs).getLast? = some last := by
      cases hx : (x :: xs).getLast? with
      | none => simp at hx
      | some y => rw [hx] at hl; simpa using hl
    exact (hb last hb').mono (fun s hs => (Kx_append K a _ s).2 hs)

theorem dictSet_keys_vals {K : String → Prop} : ∀ (kv : List (String × String)) (k v : String),
    (∀ e ∈ kv, K e.1 ∧ K e.2) → K k → K v → ∀ e ∈ dictSet kv k v, K e.1 ∧ K e.2
  | [], k, v, _, hk, hv => by simp [dictSet, hk, hv]
  | (k', v') :: rest, k, v, h, hk, hv => by
    simp only [dictSet]
    split
    · intro e he
      simp only [List.mem_cons] at he
      rcases he with rfl | he
      · exact ⟨(h (k', v') (by simp)).1, hv⟩
      · exact h e (by simp [he])
    · intro e he
      simp only [List.mem_cons] at he
      rcases he with rfl | he
      · exact h _ (by simp)
      · exact dictSet_keys_vals rest k v (fun e he => h e (by simp [he])) hk hv e he

theorem foldl_dictSet_in {K : String → Prop} {α} (f : α → String × String) :
    ∀ (l : List α) (acc : List (String × String)),
    (∀ e ∈ acc, K e.1 ∧ K e.2) → (∀ a ∈ l, K (f a).1 ∧ K (f a).2) →
    ∀ e ∈ l.foldl (fun acc a => dictSet acc (f a).1 (f a).2) acc, K e.1 ∧ K e.2
  | [], acc, hacc, _ => by simpa using hacc
  | a :: l, acc, hacc, hl => by
    simp only [List.foldl_cons]
    exact foldl_dictSet_in f l _ (dictSet_keys_vals acc _ _ hacc (hl a (by simp)).1 (hl a (by simp)).2)
      (fun a' ha' => hl a' (by simp [ha']))

theorem DataIn.dict {K : String → Prop} {kv : List (String × String)} (h : ∀ e ∈ kv, K e.1 ∧ K e.2) :
    DataIn K (.dict kv) := by
  constructor
  · intro k hk; simp only [Data.keys, List.mem_map] at hk; obtain ⟨e, he, rfl⟩ := hk; exact (h e he).1
  · intro v hv; simp only [Data.vals, List.mem_map] at hv; obtain ⟨e, he, rfl⟩ := hv; exact (h e he).2

theorem DataIn.dict_entries {K : String → Prop} {kv : List (String × String)} (h : DataIn K (.dict kv)) :
    ∀ e ∈ kv, K e.1 ∧ K e.2 := by
  intro e he
  exact ⟨h.1 e.1 (by simp only [Data.keys, List.mem_map]; exact ⟨e, he, rfl⟩),
         h.2 e.2 (by simp only [Data.vals, List.mem_map]; exact ⟨e, he, rfl⟩)⟩

theorem padLoop_in {K : String → Prop} (d : List String) (mx : Nat) (hd : ∀ s ∈ d, K s) :
    ∀ (fuel : Nat) (acc r : List String), (∀ s ∈ acc, K s) → padLoop d mx fuel acc = .ok r → ∀ s ∈ r, K s
  | 0, _, _, _, h => by simp [padLoop] at h
  | fuel + 1, acc, r, hacc, h => by
    simp only [padLoop] at h
    split at h
    · split at h
      · rename_i x hx
        refine padLoop_in d mx hd fuel _ r ?_ h
        intro s hs
        simp only [List.mem_append, List.mem_singleton] at hs
        rcases hs with hs | rfl
        · exact hacc s hs
        · exact hd _ (List.mem_of_getElem? hx)
      · split at h
        · rename_i x hx
          refine padLoop_in d mx hd fuel _ r ?_ h
          intro s hs
          simp only [List.mem_append, List.mem_singleton] at hs
          rcases hs with hs | rfl
          · exact hacc s hs
          · exact hd _ (List.mem_of_getLast? hx)
        · cases h
    · cases h; exact hacc

theorem selectData_in {K : String → Prop} {cols : Cols} {data newData : Data}
    (hcols : ∀ l, cols = .names l → ∀ s ∈ l, K s) (hd : DataIn K data)
    (h : selectData cols data = .ok newData) : DataIn K newData := by
  unfold selectData at h
  split at h
  · split at h
    · rename_i kv
      cases h
      exact DataIn.list (by intro s hs; exact hd.2 s (by simpa [Data.vals] using hs))
    · rename_i d
      split at h
      · cases h
      · rename_i mx _
        cases hp : padLoop d mx (mx + 2) [] with
        | error e => rw [hp] at h; cases h
        | ok r =>
          rw [hp] at h; cases h
          exact DataIn.list (padLoop_in d mx (by intro s hs; exact hd.1 s (by simpa [Data.keys] using hs)) _ _ _
            (by simp) hp)
  · cases data with
    | list d => cases cols <;> simp at h
    | dict kv =>
      cases cols with
      | ints l => simp at h
      | names l =>
      simp only [Except.ok.injEq] at h
      subst h
      apply DataIn.dict
      have hkv := hd.dict_entries
      refine foldl_dictSet_in (K := K) (fun v => (v, (kv.lookup v).getD v)) l [] (by simp) ?_
      intro v hv
      have hKv : K v := hcols l rfl v hv
      refine ⟨hKv, ?_⟩
      cases hl : kv.lookup v with
      | none => simpa using hKv
      | some w => simpa using (hkv _ (lookup_mem hl)).2

theorem remainderData_in {K : String → Prop} {data newData : Data} {cols : List Cols} (hd : DataIn K data)
    (h : remainderData data cols = .ok newData) : DataIn K newData := by
  unfold remainderData at h
  split at h
  · rename_i kv
    split at h
    · cases h
    · cases h
      apply DataIn.dict
      intro e he
      exact hd.dict_entries e (List.mem_filter.1 he).1
  · rename_i l
    cases h
    apply DataIn.dict
    refine foldl_dictSet_in (K := K) (fun k => (k, k)) l [] (by simp) ?_
    intro k hk
    have := hd.1 k (by simpa [Data.keys] using hk)
    exact ⟨this, this⟩

/-! ### the leaves -/


theorem leafInfo_closed {K : String → Prop} {k cls data c infos c'} (hd : DataIn K data)
    (h : leafInfo k cls data c = .ok (infos, c')) : ClosedFrom K infos ∧ LastIn K infos := by
  unfold leafInfo at h
  cases k <;> simp only at h
  all_goals (first | (cases h; done) | skip)
  all_goals
    split at h
    · cases h
      refine ⟨⟨hd.1, trivial⟩, ?_⟩
      intro last hl
      simp at hl; subst hl
      first
        | exact hd.mono (Kx_base _)
        | exact DataIn.list (by intro s hs; exact Or.inr (by simpa [outsOf, Data.keys] using hs))
    · repeat (split at h <;> try (cases h; done))
      cases h
      refine ⟨⟨hd.1, ⟨by simp [unionInfo, Data.keys], trivial⟩⟩, ?_⟩
      intro last hl
      simp at hl; subst hl
      exact DataIn.list (by intro s hs; exact Or.inr (by simp [outsOf, Data.keys, unionInfo] at hs ⊢; simp [hs]))

theorem passthroughInfo_closed {K : String → Prop} {data c infos c'} (hd : DataIn K data)
    (h : passthroughInfo data c = .ok (infos, c')) : ClosedFrom K infos ∧ LastIn K infos := by
  unfold passthroughInfo at h
  simp only at h
  split at h
  · cases h
  · cases h
    refine ⟨⟨by simpa [Data.keys] using hd.1, trivial⟩, ?_⟩
    intro last hl
    simp at hl; subst hl
    exact DataIn.list (by intro s hs; exact Or.inr (by simpa [outsOf, Data.keys] using hs))

theorem closeUnion_closed {K : String → Prop} {infos outputs c r c'} (hc : ClosedFrom K infos)
    (hout : ∀ s ∈ outputs, Kx K infos s) (h : closeUnion infos outputs c = .ok (r, c')) :
    ClosedFrom K r ∧ LastIn K r := by
  obtain ⟨o, rfl⟩ := closeUnion_eq h
  refine ⟨ClosedFrom.append hc ⟨by simpa [unionInfo, Data.keys] using hout, trivial⟩, ?_⟩
  intro last hl
  simp at hl; subst hl
  exact DataIn.list (by intro s hs; exact Or.inr (by simp [outsOf, Data.keys, unionInfo] at hs ⊢; simp [hs]))


theorem setLast_getLast {l : List Info} {last : Info} (d : Data) (h : l.getLast? = some last) :
    (setLastOutputs l d).getLast? = some { last with outputs := d } := by
  induction l with
  | nil => simp at h
  | cons a l ih =>
    cases l with
    | nil => simp at h; subst h; simp [setLastOutputs]
    | cons b l =>
      have e1 : setLastOutputs (a :: b :: l) d = a :: setLastOutputs (b :: l) d := rfl
      obtain ⟨x, xs, hx⟩ : ∃ x xs, setLastOutputs (b :: l) d = x :: xs := by
        cases l <;> simp [setLastOutputs]
      rw [List.getLast?_cons_cons] at h
      rw [e1, hx, List.getLast?_cons_cons, ← hx]
      exact ih h

theorem outsOf_append (a b : List Info) (s : String) : s ∈ outsOf (a ++ b) ↔ s ∈ outsOf a ∨ s ∈ outsOf b := by
  simp [outsOf]

theorem namedCols_known {K : String → Prop} {S : List String} (hS : ∀ s ∈ S, K s) {cols : Cols}
    (h : (match cols with | .names l => l.all (S.contains ·) | .ints _ => true) = true) :
    ∀ l, cols = .names l → ∀ s ∈ l, K s := by
  intro l hl s hs
  subst hl
  simp only [List.all_eq_true] at h
  have := h s hs
  exact hS s (by simpa using this)

mutual
theorem pipelineInfo_closed (S : List String) : ∀ (p : Pipe) (data : Data) (c : NameCtx) (infos : List Info)
    (c' : NameCtx) (K : String → Prop), (∀ s ∈ S, K s) → namedIn S p = true → DataIn K data →
    pipelineInfo p data c = .ok (infos, c') → ClosedFrom K infos ∧ LastIn K infos
  | .est k cls, data, c, infos, c', K, _, _, hd, h => by
    simp only [pipelineInfo] at h; exact leafInfo_closed hd h
  | .passthrough, data, c, infos, c', K, _, _, hd, h => by
    simp only [pipelineInfo] at h; exact passthroughInfo_closed hd h
  | .drop, _, _, _, _, _, _, _, _, h => by simp [pipelineInfo] at h
  | .pipeline steps, data, c, infos, c', K, hS, hn, hd, h => by
    simp only [pipelineInfo] at h
    exact infoSteps_closed S steps data c infos c' K hS (by simpa [namedIn] using hn) hd h
  | .union items, data, c, infos, c', K, hS, hn, hd, h => by
    simp only [pipelineInfo] at h
    split at h
    · cases h
    · rename_i infos1 outs c1 heq
      have ih := infoUnion_closed S items data c infos1 outs c1 K hS (by simpa [namedIn] using hn) hd heq
      split at h
      · exact closeUnion_closed ih.1 (fun s hs => Or.inr (ih.2.2 s hs)) h
      · cases h; exact ⟨ih.1, ih.2.1⟩
  | .columns items rem, data, c, infos, c', K, hS, hn, hd, h => by
    simp only [pipelineInfo] at h
    split at h
    · cases h
    · rename_i infos1 outs c1 heq
      have ih := infoCols_closed S items data c infos1 outs c1 K hS (by simpa [namedIn] using hn) hd heq
      split at h
      · split at h
        · exact closeUnion_closed ih.1 (fun s hs => Or.inr (ih.2.2 s hs)) h
        · cases h; exact ⟨ih.1, ih.2.1⟩
      · split at h
        · cases h
        · rename_i newData hrem
          split at h
          · cases h
          · rename_i info c2 hpass
            split at h
            · cases h
            · rename_i last hlast
              have hnd : DataIn (Kx K infos1) newData := (remainderData_in hd hrem).mono (Kx_base _)
              have hp := passthroughInfo_closed hnd hpass
              refine closeUnion_closed (ClosedFrom.append ih.1 hp.1) ?_ h
              intro s hs
              simp only [List.mem_append] at hs
              refine Or.inr ((outsOf_append _ _ s).2 ?_)
              rcases hs with hs | hs
              · exact Or.inl (ih.2.2 s hs)
              · exact Or.inr (mem_outsOf_last hlast s hs)
theorem infoSteps_closed (S : List String) : ∀ (ps : List Pipe) (data : Data) (c : NameCtx) (infos : List Info)
    (c' : NameCtx) (K : String → Prop), (∀ s ∈ S, K s) → namedInList S ps = true → DataIn K data →
    infoSteps ps data c = .ok (infos, c') → ClosedFrom K infos ∧ LastIn K infos
  | [], _, _, _, _, _, _, _, _, h => by
    simp [infoSteps] at h; obtain ⟨rfl, _⟩ := h
    exact ⟨trivial, by intro last hl; simp at hl⟩
  | p :: ps, data, c, infos, c', K, hS, hn, hd, h => by
    simp only [infoSteps] at h
    simp only [namedInList, Bool.and_eq_true] at hn
    split at h
    · cases h
    · rename_i info c1 heq
      split at h
      · cases h
      · rename_i last hlast
        split at h
        · cases h
        · rename_i infos2 c2 heq2
          cases h
          have ih1 := pipelineInfo_closed S p data c info c1 K hS hn.1 hd heq
          have ih2 := infoSteps_closed S ps last.outputs c1 infos2 _ (Kx K info)
            (fun s hs => Or.inl (hS s hs)) hn.2 (ih1.2 last hlast) heq2
          exact ⟨ClosedFrom.append ih1.1 ih2.1, LastIn.append ih1.2 ih2.2⟩
theorem infoUnion_closed (S : List String) : ∀ (ps : List Pipe) (data : Data) (c : NameCtx) (infos : List Info)
    (outs : List String) (c' : NameCtx) (K : String → Prop), (∀ s ∈ S, K s) → namedInList S ps = true →
    DataIn K data → infoUnion ps data c = .ok (infos, outs, c') →
    ClosedFrom K infos ∧ LastIn K infos ∧ ∀ s ∈ outs, s ∈ outsOf infos
  | [], _, _, _, _, _, _, _, _, _, h => by
    simp [infoUnion] at h; obtain ⟨rfl, rfl, _⟩ := h
    exact ⟨trivial, by intro last hl; simp at hl, by simp⟩
  | p :: ps, data, c, infos, outs, c', K, hS, hn, hd, h => by
    simp only [infoUnion] at h
    simp only [namedInList, Bool.and_eq_true] at hn
    split at h
    · cases h
    · rename_i info c1 heq
      split at h
      · cases h
      · rename_i last hlast
        split at h
        · cases h
        · rename_i newOuts c2 hnames
          split at h
          · cases h
          · rename_i infos2 outs2 c3 heq2
            cases h
            have ih1 := pipelineInfo_closed S p data c info c1 K hS hn.1 hd heq
            have hA : ClosedFrom K (setLastOutputs info (.list newOuts)) := ClosedFrom.setLast _ ih1.1
            have hlastA := setLast_getLast (.list newOuts) hlast
            have hnew : ∀ s ∈ newOuts, s ∈ outsOf (setLastOutputs info (.list newOuts)) := by
              intro s hs
              exact mem_outsOf_last hlastA s (by simpa [Data.keys] using hs)
            have hLA : LastIn K (setLastOutputs info (.list newOuts)) := by
              intro l hl
              rw [hlastA] at hl; cases hl
              exact DataIn.list (fun s hs => Or.inr (hnew s hs))
            have ih2 := infoUnion_closed S ps data c2 infos2 outs2 _ (Kx K (setLastOutputs info (.list newOuts)))
              (fun s hs => Or.inl (hS s hs)) hn.2 (hd.mono (Kx_base _)) heq2
            refine ⟨ClosedFrom.append hA ih2.1, LastIn.append hLA ih2.2.1, ?_⟩
            intro s hs
            simp only [List.mem_append] at hs
            rw [outsOf_append]
            rcases hs with hs | hs
            · exact Or.inl (hnew s hs)
            · exact Or.inr (ih2.2.2 s hs)
theorem infoCols_closed (S : List String) : ∀ (ps : List (Pipe × Cols)) (data : Data) (c : NameCtx)
    (infos : List Info) (outs : List String) (c' : NameCtx) (K : String → Prop), (∀ s ∈ S, K s) →
    namedInCols S ps = true → DataIn K data → infoCols ps data c = .ok (infos, outs, c') →
    ClosedFrom K infos ∧ LastIn K infos ∧ ∀ s ∈ outs, s ∈ outsOf infos
  | [], _, _, _, _, _, _, _, _, _, h => by
    simp [infoCols] at h; obtain ⟨rfl, rfl, _⟩ := h
    exact ⟨trivial, by intro last hl; simp at hl, by simp⟩
  | (p, cols) :: ps, data, c, infos, outs, c', K, hS, hn, hd, h => by
    simp only [infoCols] at h
    simp only [namedInCols, Bool.and_eq_true] at hn
    split at h
    · cases h
    · rename_i newData hsel
      split at h
      · cases h
      · rename_i info c1 heq
        split at h
        · cases h
        · rename_i last hlast
          split at h
          · cases h
          · rename_i infos2 outs2 c2 heq2
            cases h
            have hnd : DataIn K newData := selectData_in (namedCols_known hS hn.1.1) hd hsel
            have ih1 := pipelineInfo_closed S p newData c info c1 K hS hn.1.2 hnd heq
            have ih2 := infoCols_closed S ps data c1 infos2 outs2 _ (Kx K info)
              (fun s hs => Or.inl (hS s hs)) hn.2 (hd.mono (Kx_base _)) heq2
            refine ⟨ClosedFrom.append ih1.1 ih2.1, LastIn.append ih1.2 ih2.2.1, ?_⟩
            intro s hs
            simp only [List.mem_append] at hs
            rw [outsOf_append]
            rcases hs with hs | hs
            · exact Or.inl (mem_outsOf_last hlast s hs)
            · exact Or.inr (ih2.2.2 s hs)
end


/-! ## reachability of the drawn ports -/

theorem zip_range_getElem {outs : List String} {c : Nat} {o : String}
    (h : (c, o) ∈ (List.range outs.length).zip outs) : ∃ hc : c < outs.length, outs[c] = o := by
  rw [List.mem_iff_getElem] at h
  obtain ⟨k, hk, he⟩ := h
  simp only [List.getElem_zip, List.getElem_range, Prod.mk.injEq] at he
  obtain ⟨rfl, rfl⟩ := he
  simp at hk
  exact ⟨hk, rfl⟩

/-- with distinct output names every port of the record receives its edge -/
theorem stepOf_outs_all (cols : ColMap) (nsch i : Nat) (info : Info) (hnd : info.outputs.keys.Nodup) :
    ∀ c, c < info.outputs.keys.length → c ∈ (stepOf cols nsch i info).outs := by
  intro c hc
  simp only [stepOf, mem_dedupKeep, List.mem_filterMap, Option.map_eq_some_iff]
  refine ⟨info.outputs.keys[c], List.getElem_mem hc, ?_⟩
  rw [registerOuts_eq, List.lookup_append]
  have hkey : info.outputs.keys[c] ∈
      ((((List.range info.outputs.keys.length).zip info.outputs.keys).map
        (fun (p : Nat × String) => (p.2, (i, p.1)))).reverse).map (·.1) := by
    simp only [List.map_reverse, List.mem_reverse, List.map_map, List.mem_map]
    refine ⟨(c, info.outputs.keys[c]), ?_, rfl⟩
    rw [List.mem_iff_getElem]
    exact ⟨c, by simpa using hc, by simp⟩
  obtain ⟨w, hw⟩ := lookup_isSome_of_mem_keys hkey
  rw [hw]
  have := lookup_mem hw
  simp only [List.mem_reverse, List.mem_map] at this
  obtain ⟨⟨c', o'⟩, hmem, heq⟩ := this
  simp only [Prod.mk.injEq] at heq
  obtain ⟨ho, rfl⟩ := heq
  obtain ⟨hc', hget⟩ := zip_range_getElem hmem
  have : c' = c := by
    have h2 : info.outputs.keys[c'] = info.outputs.keys[c] := by rw [hget, ho]
    exact (List.getElem_inj hnd).1 h2
  subst this
  exact ⟨(i, c'), by simp, rfl⟩

/-- if every drawn step has an input, inputs are closed and output names of a step are distinct, then every
port of every record drawn by the list satisfies any predicate `R` that contains the registered ports and is
closed under the edges of the drawn steps -/
theorem toDotAux_reach (nsch : Nat) (R : PV → Prop) : ∀ (infos : List Info) (i : Nat) (cols : ColMap),
    (∀ e ∈ cols, R (.port e.2.1 e.2.2)) → (∀ k, k < nsch → R (.port 0 k)) →
    ClosedFrom (fun s => s ∈ cols.map (·.1) ∨ IsInputPort nsch s) infos →
    (∀ info ∈ infos, info.inputs.keys ≠ [] ∧ info.outputs.keys.Nodup) →
    (∀ s ∈ toDotAux nsch infos i cols, ∀ e ∈ s.pedges, R e.1 → R e.2) →
    ∀ s ∈ toDotAux nsch infos i cols, R (.box s.idx) ∧ ∀ c, c < s.ports.length → R (.port s.idx c)
  | [], _, _, _, _, _, _, _ => by simp [toDotAux]
  | info :: rest, i, cols, hcols, h0, hclosed, hgood, hedges => by
    have hhead : R (.box i) ∧ ∀ c, c < info.outputs.keys.length → R (.port i c) := by
      have hs : stepOf cols nsch i info ∈ toDotAux nsch (info :: rest) i cols := by simp [toDotAux]
      have hbox : R (.box i) := by
        obtain ⟨hne, _⟩ := hgood info (by simp)
        obtain ⟨inp, hinp⟩ := List.exists_mem_of_ne_nil _ hne
        have hin : resolve cols nsch inp ∈ (stepOf cols nsch i info).ins := by
          simp only [stepOf, List.mem_map]; exact ⟨inp, hinp, rfl⟩
        rcases resolve_known (hclosed.1 inp hinp) with ⟨j, c, hr, hm⟩ | ⟨k, hr, hk⟩
        · have he : (PV.port j c, PV.box i) ∈ (stepOf cols nsch i info).pedges := by
            simp only [Step.pedges, List.mem_append, List.mem_filterMap]
            left; exact ⟨.port j c, hr ▸ hin, by simp [stepOf]⟩
          exact hedges _ hs _ he (hcols _ hm)
        · have he : (PV.port 0 k, PV.box i) ∈ (stepOf cols nsch i info).pedges := by
            simp only [Step.pedges, List.mem_append, List.mem_filterMap]
            left; exact ⟨.port 0 k, hr ▸ hin, by simp [stepOf]⟩
          exact hedges _ hs _ he (h0 k hk)
      refine ⟨hbox, ?_⟩
      intro c hc
      have hc' := stepOf_outs_all cols nsch i info (hgood info (by simp)).2 c hc
      have he : (PV.box i, PV.port i c) ∈ (stepOf cols nsch i info).pedges := by
        simp only [Step.pedges, List.mem_append, List.mem_map]
        right; exact ⟨c, hc', by simp [stepOf]⟩
      exact hedges _ hs _ he hbox
    intro s hs
    simp only [toDotAux, List.mem_cons] at hs
    rcases hs with rfl | hs
    · simpa [stepOf] using hhead
    · have hcols' : ∀ e ∈ registerOuts cols i info.outputs.keys, R (.port e.2.1 e.2.2) := by
        intro e he
        rcases mem_registerOuts.1 he with h | ⟨c, o, hz, rfl⟩
        · exact hcols e h
        · exact hhead.2 c (zip_range_lt hz).1
      have hclosed' : ClosedFrom (fun s => s ∈ (registerOuts cols i info.outputs.keys).map (·.1) ∨ IsInputPort nsch s) rest := by
        refine ClosedFrom.mono ?_ hclosed.2
        intro s hs
        rw [keys_registerOuts]
        rcases hs with (h | h) | h
        · exact Or.inl (Or.inr h)
        · exact Or.inr h
        · exact Or.inl (Or.inl h)
      exact toDotAux_reach nsch R rest (i + 1) _ hcols' h0 hclosed'
        (fun info' h' => hgood info' (by simp [h']))
        (fun s' hs' => hedges s' (by simp [toDotAux, hs'])) s hs


theorem toDotAux_ins_length (nsch : Nat) : ∀ (infos : List Info) (i : Nat) (cols : ColMap),
    (toDotAux nsch infos i cols).map (·.ins.length) = infos.map (·.inputs.keys.length)
  | [], _, _ => by simp [toDotAux]
  | info :: rest, i, cols => by
    simp [toDotAux, stepOf, toDotAux_ins_length nsch rest (i + 1)]

/-! ## the initial data of pipeline2dot -/

theorem initData_eq (schema : List String) : initData schema = .dict (((List.range schema.length).zip schema).map (fun (p : Nat × String) => (p.2, portText 0 p.1))) := rfl

theorem initData_known (schema : List String) :
    DataIn (fun s => s ∈ schema ∨ IsInputPort schema.length s) (initData schema) := by
  rw [initData_eq]
  apply DataIn.dict
  intro e he
  simp only [List.mem_map] at he
  obtain ⟨⟨k, s⟩, hz, rfl⟩ := he
  have := List.of_mem_zip hz
  exact ⟨Or.inl this.2, Or.inr ⟨k, by simpa using this.1, rfl⟩⟩

/-- the steps drawn for a pipeline whose named columns are columns of the schema are closed: every input of a
step is an input column, a port of `sch0`, or an output of an earlier step -/
theorem info_closed (p : Pipe) (schema : List String) (infos : List Info) (c : NameCtx)
    (hn : namedIn schema p = true) (h : pipelineInfo p (initData schema) (initCtx schema) = .ok (infos, c)) :
    ClosedFrom (fun s => s ∈ (initCols schema).map (·.1) ∨ IsInputPort schema.length s) infos := by
  have := (pipelineInfo_closed schema p _ _ infos c (fun s => s ∈ schema ∨ IsInputPort schema.length s)
    (fun s hs => Or.inl hs) hn (initData_known schema) h).1
  refine ClosedFrom.mono ?_ this
  intro s hs
  rcases hs with hs | hs
  · left; unfold initCols; rw [keys_registerOuts]; exact Or.inl hs
  · exact Or.inr hs

theorem initCols_entries (schema : List String) :
    ∀ e ∈ initCols schema, e.2.1 = 0 ∧ e.2.2 < schema.length := by
  intro e he
  rcases mem_registerOuts.1 he with h | ⟨c, o, hz, rfl⟩
  · simp at h
  · exact ⟨rfl, (zip_range_lt hz).1⟩


theorem toDotAux_outs_all (nsch : Nat) : ∀ (infos : List Info) (i : Nat) (cols : ColMap),
    ∀ s ∈ toDotAux nsch infos i cols, s.ports.Nodup → ∀ c, c < s.ports.length → c ∈ s.outs
  | [], _, _ => by simp [toDotAux]
  | info :: rest, i, cols => by
    intro s hs
    simp only [toDotAux, List.mem_cons] at hs
    rcases hs with rfl | hs
    · intro hnd c hc
      exact stepOf_outs_all cols nsch i info (by simpa [stepOf] using hnd) c (by simpa [stepOf] using hc)
    · exact toDotAux_outs_all nsch rest (i + 1) _ s hs

/-- graph-level argument: in an ordered graph whose records receive all their edges, `wellFed` makes every
step that has inputs, and every port of its record, reachable from `sch0` -/
theorem reach_of_wellFed (g : Dot)
    (hord : ∀ s ∈ g.steps, ∀ j c, Src.port j c ∈ s.ins → j < s.idx)
    (houts : ∀ s ∈ g.steps, s.ports.Nodup → ∀ c, c < s.ports.length → c ∈ s.outs)
    (hw : g.wellFed = true) :
    ∀ n, ∀ s ∈ g.steps, s.idx = n → s.ins ≠ [] →
      Reach g (.box s.idx) ∧ ∀ c, c < s.ports.length → Reach g (.port s.idx c) := by
  simp only [Dot.wellFed, Bool.and_eq_true, List.all_eq_true, Bool.or_eq_true, List.any_eq_true,
    decide_eq_true_eq] at hw
  intro n
  induction n using Nat.strongRecOn with
  | _ n ih =>
    intro s hs hn hne
    have hbox : Reach g (.box s.idx) := by
      rcases hw.1 s hs with h | ⟨src, hsrc, h⟩
      · simp at h; exact absurd h hne
      · cases src with
        | raw t => simp at h
        | port j c =>
          have he : (PV.port j c, PV.box s.idx) ∈ g.pedges := by
            simp only [Dot.pedges, List.mem_flatMap]
            refine ⟨s, hs, ?_⟩
            simp only [Step.pedges, List.mem_append, List.mem_filterMap]
            left; exact ⟨.port j c, hsrc, rfl⟩
          refine Reach.edge he ?_
          simp only [Bool.and_eq_true, beq_iff_eq, decide_eq_true_eq, Bool.not_eq_true', Bool.or_eq_true,
            List.any_eq_true] at h
          rcases h with ⟨rfl, hc⟩ | ⟨s', hs', ⟨hj, hne'⟩, hc⟩
          · exact Reach.input hc
          · have hlt : s'.idx < n := by rw [hj, ← hn]; exact hord s hs j c hsrc
            have := ih s'.idx hlt s' hs' rfl (by
              intro he'; rw [he'] at hne'; simp at hne')
            rw [← hj]; exact this.2 c hc
    refine ⟨hbox, ?_⟩
    intro c hc
    have hc' := houts s hs (hw.2 s hs) c hc
    have he : (PV.box s.idx, PV.port s.idx c) ∈ g.pedges := by
      simp only [Dot.pedges, List.mem_flatMap]
      refine ⟨s, hs, ?_⟩
      simp only [Step.pedges, List.mem_append, List.mem_map]
      right; exact ⟨c, hc', rfl⟩
    exact Reach.edge he hbox


/-! ## the class name yielded at a coordinate -/

/-- label of the estimator at position `q` below the `k`-th of a list of siblings numbered from `i` -/
def labelAtList (ps : List Pipe) (i : Nat) (q : List Nat) : String :=
  match q with
  | [] => ""
  | j :: r => ((ps[j - i]?).bind (·.at? r) |>.map Pipe.label).getD ""

def labelAt (p : Pipe) (q : List Nat) : String := ((p.at? q).map Pipe.label).getD ""

theorem labelAt_cons (p : Pipe) (j : Nat) (r : List Nat) : labelAt p (j :: r) = labelAtList p.children 0 (j :: r) := by
  simp only [labelAt, labelAtList, Pipe.at?]
  cases p.children[j]? <;> simp

theorem labelAtList_head (p : Pipe) (ps : List Pipe) (i : Nat) (r : List Nat) :
    labelAtList (p :: ps) i (i :: r) = labelAt p r := by
  simp [labelAtList, labelAt]

theorem labelAtList_tail (p : Pipe) (ps : List Pipe) (i j : Nat) (r : List Nat) (h : i + 1 ≤ j) :
    labelAtList (p :: ps) i (j :: r) = labelAtList ps (i + 1) (j :: r) := by
  simp only [labelAtList]
  have : j - i = (j - (i + 1)) + 1 := by omega
  rw [this, List.getElem?_cons_succ]

def CL (e : Entry) : List Nat × String := (e.coord, e.label)

mutual
theorem enumerate_labels : ∀ (p : Pipe) (coor : List Nat) (vs : Option Cols),
    (enumerate p coor vs).map CL = (paths p).map (fun q => (coor ++ q, labelAt p q))
  | .est _ _, _, _ => by simp [enumerate, paths, CL, labelAt, Pipe.at?, Pipe.label]
  | .passthrough, _, _ => by simp [enumerate, paths, CL, labelAt, Pipe.at?, Pipe.label]
  | .drop, _, _ => by simp [enumerate, paths, CL, labelAt, Pipe.at?, Pipe.label]
  | .pipeline steps, coor, _ => by
    simp only [enumerate, paths, List.map_cons, CL, List.append_nil]
    congr 1
    have := enumList_labels childCoordPipeline (by intro c i; simp [childCoordPipeline]) steps coor 0
    rw [this]
    apply List.map_congr_left
    intro q hq
    obtain ⟨j, r, rfl, _⟩ := pathsList_heads steps 0 q hq
    rw [labelAt_cons]; rfl
  | .union items, coor, _ => by
    simp only [enumerate, paths, List.map_cons, CL, List.append_nil]
    congr 1
    have := enumList_labels childCoordUnion (by intro c i; simp [childCoordUnion]) items coor 0
    rw [this]
    apply List.map_congr_left
    intro q hq
    obtain ⟨j, r, rfl, _⟩ := pathsList_heads items 0 q hq
    rw [labelAt_cons]; rfl
  | .columns items rem, coor, _ => by
    simp only [enumerate, paths, List.map_cons, CL, List.append_nil]
    congr 1
    have := enumCols_labels items coor 0
    rw [this]
    apply List.map_congr_left
    intro q hq
    rw [pathsCols_eq] at hq
    obtain ⟨j, r, rfl, _⟩ := pathsList_heads _ 0 q hq
    rw [labelAt_cons]; rfl
theorem enumList_labels (cc : List Nat → Nat → List Nat) (hcc : ∀ c i, cc c i = c ++ [i]) :
    ∀ (ps : List Pipe) (coor : List Nat) (i : Nat),
    (enumList cc ps coor i).map CL = (pathsList ps i).map (fun q => (coor ++ q, labelAtList ps i q))
  | [], _, _ => by simp [enumList, pathsList]
  | p :: ps, coor, i => by
    simp only [enumList, pathsList, List.map_append, List.map_map, enumerate_labels p,
      enumList_labels cc hcc ps coor (i + 1), hcc]
    congr 1
    · apply List.map_congr_left
      intro q _
      simp [labelAtList_head]
    · apply List.map_congr_left
      intro q hq
      obtain ⟨j, r, rfl, hj⟩ := pathsList_heads ps (i + 1) q hq
      rw [labelAtList_tail p ps i j r hj]
theorem enumCols_labels : ∀ (ps : List (Pipe × Cols)) (coor : List Nat) (i : Nat),
    (enumCols ps coor i).map CL = (pathsCols ps i).map (fun q => (coor ++ q, labelAtList (ps.map (·.1)) i q))
  | [], _, _ => by simp [enumCols, pathsCols]
  | (p, c) :: ps, coor, i => by
    simp only [enumCols, pathsCols, List.map_append, List.map_map, enumerate_labels p,
      enumCols_labels ps coor (i + 1), childCoordColumns, List.map_cons]
    congr 1
    · apply List.map_congr_left
      intro q _
      simp [labelAtList_head]
    · apply List.map_congr_left
      intro q hq
      rw [pathsCols_eq] at hq
      obtain ⟨j, r, rfl, hj⟩ := pathsList_heads _ (i + 1) q hq
      rw [labelAtList_tail p _ i j r hj]
end


/-! ## what the members of a union / of a ColumnTransformer record -/

section
variable {α : Type} (S : Sem α)

theorem union_members_input (ps : List Pipe) (coor : List Nat) (i : Nat) (x : α) :
    ∀ r ∈ stepRecords coor (runAllI S ps coor i x).2, r.inp = x := by
  induction ps generalizing i with
  | nil => simp [runAllI, stepRecords]
  | cons p ps ih =>
    intro r hr
    simp only [runAllI, stepRecords, List.filter_append, List.mem_append] at hr
    have hlen : (childCoordUnion coor i).length = coor.length + 1 := by simp [childCoordUnion]
    rcases hr with (hr | hr) | hr
    · have := (List.mem_filter.1 hr).1
      cases p <;> simp [unionPassRec] at this
      subst this; rfl
    · rcases runI_shape S p (childCoordUnion coor i) x with ⟨h1, _⟩ | ⟨rest, h1, h2⟩
      · rw [h1] at hr; simp at hr
      · rw [h1] at hr
        simp only [List.filter_cons, hlen, decide_true, if_true, List.mem_cons, List.mem_filter,
          decide_eq_true_eq] at hr
        rcases hr with rfl | ⟨hm, hl⟩
        · rfl
        · have := h2 r hm; omega
    · exact ih (i + 1) r (by simpa [stepRecords] using hr)

theorem columns_members_input (ps : List (Pipe × Cols)) (coor : List Nat) (i : Nat) (x : α) :
    ∀ r ∈ stepRecords coor (runColsI S ps coor i x).2, ∃ pc ∈ ps, r.inp = S.select pc.2 x := by
  induction ps generalizing i with
  | nil => simp [runColsI, stepRecords]
  | cons pc ps ih =>
    obtain ⟨p, c⟩ := pc
    intro r hr
    simp only [runColsI, stepRecords, List.filter_append, List.mem_append] at hr
    have hlen : (childCoordColumns coor i).length = coor.length + 1 := by simp [childCoordColumns]
    rcases hr with hr | hr
    · rcases runI_shape S p (childCoordColumns coor i) (S.select c x) with ⟨h1, _⟩ | ⟨rest, h1, h2⟩
      · rw [h1] at hr; simp at hr
      · rw [h1] at hr
        simp only [List.filter_cons, hlen, decide_true, if_true, List.mem_cons, List.mem_filter,
          decide_eq_true_eq] at hr
        rcases hr with rfl | ⟨hm, hl⟩
        · exact ⟨(p, c), by simp, rfl⟩
        · have := h2 r hm; omega
    · obtain ⟨pc, hpc, h⟩ := ih (i + 1) r (by simpa [stepRecords] using hr)
      exact ⟨pc, by simp [hpc], h⟩
end

end MlVerif.Pipeline
