/-
C11 — helper lemmas about `process_name` (run-length encoding of the sorted tokens) and about the
shape of the specification's monomials.  Core Lean only.
-/
import MlVerif.Model.Poly

namespace MlVerif.Poly

/-- write the `(token, exponent)` pairs back as a token list -/
def expand (r : List (String × Nat)) : List String := r.flatMap (fun p => List.replicate p.2 p.1)

theorem expand_append (r s : List (String × Nat)) : expand (r ++ s) = expand r ++ expand s := by
  simp [expand]

theorem rleStep_expand (res : List (String × Nat)) (c : String) :
    expand (rleStep res c) = expand res ++ [c] := by
  unfold rleStep
  cases hl : res.getLast? with
  | none => simp [expand]
  | some p =>
    obtain ⟨c', k⟩ := p
    obtain ⟨ys, rfl⟩ := List.getLast?_eq_some_iff.1 hl
    by_cases hc : c' ≠ c
    · simp [hc, expand]
    · have hc' : c' = c := by simpa using hc
      subst hc'
      simp [expand, List.replicate_succ']

theorem rle_expand_aux (l : List String) : ∀ acc, expand (l.foldl rleStep acc) = expand acc ++ l := by
  induction l with
  | nil => intro acc; simp
  | cons c l ih => intro acc; simp [List.foldl_cons, ih, rleStep_expand]

/-- the run-length encoding loses nothing: the pairs expand to the tokens it was given -/
theorem rle_expand (l : List String) : expand (rle l) = l := by
  rw [rle, rle_expand_aux]; simp [expand]

/-- tokens of the raw name of monomial `m`, in the order `_get_feature_names_poly` concatenates them -/
def monoTokens (feat : Nat → String) (m : Mono) : List String :=
  if m = [] then ["1"] else m.reverse.map feat

theorem interp_name (feat : Nat → String) (m : Mono) : interp (nameOps feat) m = monoTokens feat m := by
  induction m with
  | nil => rfl
  | cons i m ih =>
    cases m with
    | nil => rfl
    | cons j m =>
      show interp (nameOps feat) (j :: m) ++ [feat i] = _
      rw [ih]
      simp [monoTokens]

/-- every monomial of the specification has `d` variables, all in `[lo, n)`, in non-decreasing order
(strictly increasing for `interaction_only`) -/
theorem combs_wf (io : Bool) (n : Nat) : ∀ d lo m, m ∈ combs io n d lo →
    m.length = d ∧ (∀ v ∈ m, lo ≤ v ∧ v < n) ∧
    m.Pairwise (fun a b => if io then a < b else a ≤ b) := by
  intro d
  induction d with
  | zero => intro lo m h; simp [combs] at h; subst h; simp
  | succ d ih =>
    intro lo m h
    simp only [combs, List.mem_flatMap, List.mem_map, List.mem_range'] at h
    obtain ⟨i, ⟨k, hk, rfl⟩, m', hm', rfl⟩ := h
    obtain ⟨h1, h2, h3⟩ := ih _ _ hm'
    refine ⟨by simp [h1], ?_, ?_⟩
    · intro v hv
      simp only [List.mem_cons] at hv
      cases hv with
      | inl e => subst e; omega
      | inr hv =>
        have := h2 v hv
        unfold nxt at this
        split at this <;> omega
    · rw [List.pairwise_cons]
      refine ⟨?_, h3⟩
      intro v hv
      have := h2 v hv
      unfold nxt at this
      cases io <;> simp at this ⊢ <;> omega

end MlVerif.Poly
