/-
C01 — `get_params(deep=True)` of a valid configuration is a dictionary (pairwise distinct keys), so that
"the value reported under key k" is a well-defined lookup.  Core Lean only.
-/
import MlVerif.Lemmas.ParamsTransfer

namespace MlVerif.Params
open MlVerif.Gen.C01

theorem nodup_prefixed_keys (pfx : Key) (ps : KW) (h : (keys ps).Nodup) : (keys (prefixed pfx ps)).Nodup := by
  rw [keys_prefixed]
  unfold List.Nodup at h ⊢
  rw [List.pairwise_map]
  exact List.Pairwise.imp (fun hab e => hab (List.append_cancel_left e)) h

theorem clean_ne_nested (a k s : Key) (ha : cleanName a = true) (hk : cleanName k = true) : a ≠ k ++ sep2 ++ s := by
  intro e
  have h1 := splitFirst_clean_none a ha
  have h2 := splitFirst_clean k s hk
  rw [e, h2] at h1
  exact absurd (congrArg Prod.snd h1) (by simp)

theorem mem_keys_blockEntries (kv : Key × PVal) (x : Key) (h : x ∈ (blockEntries kv).map (·.1)) :
    ∃ s, x = kv.1 ++ sep2 ++ s := by
  unfold blockEntries at h
  cases hd : deepOf kv.2 with
  | one ps =>
    simp only [hd] at h
    have h' : x ∈ keys (prefixed (kv.1 ++ sep2) ps) := h
    rw [keys_prefixed, List.mem_map] at h'
    obtain ⟨s, _, rfl⟩ := h'
    exact ⟨s, rfl⟩
  | none => simp [hd] at h
  | many _ => simp [hd] at h

theorem nested_inj (k1 k2 s1 s2 : Key) (h1 : cleanName k1 = true) (h2 : cleanName k2 = true)
    (e : k1 ++ sep2 ++ s1 = k2 ++ sep2 ++ s2) : k1 = k2 ∧ s1 = s2 := by
  have a := splitFirst_clean k1 s1 h1
  have b := splitFirst_clean k2 s2 h2
  rw [e, b] at a
  cases a
  exact ⟨rfl, rfl⟩

theorem sPrefix_inj (i j : Nat) (s1 s2 : Key) (e : sPrefix i ++ s1 = sPrefix j ++ s2) : i = j ∧ s1 = s2 := by
  have hsep : stackingGetSep = sep2 := rfl
  have e' : showNat i ++ sep2 ++ s1 = showNat j ++ sep2 ++ s2 := by
    have : stackingGetPrefix ++ (showNat i ++ sep2 ++ s1) = stackingGetPrefix ++ (showNat j ++ sep2 ++ s2) := by
      simpa [sPrefix, hsep, List.append_assoc] using e
    exact List.append_cancel_left this
  obtain ⟨h1, h2⟩ := nested_inj _ _ _ _ (showNat_clean i) (showNat_clean j) e'
  have := parseNat_showNat i
  rw [h1, parseNat_showNat] at this
  exact ⟨by simpa using this.symm, h2⟩

theorem getParams_nonest (v : PVal) (h : isEst v = false) : getParams v true = [] := by
  cases v <;> simp [isEst] at h <;> rfl

/-- `get_params(deep=True)` of a valid configuration has pairwise distinct keys: it *is* a dictionary -/
theorem getParams_keys_nodup : ∀ (N : Nat) (e : PVal), sizeOf e < N → wf e = true → (keys (getParams e true)).Nodup := by
  intro N
  induction N with
  | zero => intro e h; omega
  | succ N ih =>
    intro e hsz hw
    cases e with
    | atom _ _ => simp [getParams, keys]
    | ests _ => simp [getParams, keys]
    | est i c p f kw =>
      rw [wf_est, Bool.and_eq_true] at hw
      have hnd := nodup_of_shape p kw hw.1
      have hszkw := sizeOf_est_kw i c p f kw
      have child : ∀ (slot : Key) (ch : PVal), kw.lookup slot = some ch → (keys (getParams ch true)).Nodup := by
        intro slot ch hl
        have := sizeOf_lookup_lt kw slot ch hl
        exact ih ch (by omega) (wfKw_lookup kw slot ch hw.2 hl)
      rw [getParams_est]
      simp only [keys, List.map_append]
      rw [List.nodup_append]
      refine ⟨by simpa [keys] using hnd, ?_, ?_⟩
      · -- the nested part
        cases p with
        | unknownProto => simp [nestedOf]
        | anmf => simp [nestedOf]
        | skbase => simp [nestedOf]
        | base =>
          have hc : (keys kw).all cleanName = true := by
            simp only [shapeOk, Bool.and_eq_true] at hw; exact hw.1.2
          rw [nestedOf_base_eq, List.map_flatMap]
          unfold List.Nodup
          rw [List.pairwise_flatMap]
          constructor
          · intro kv hkv
            unfold blockEntries
            cases hd : deepOf kv.2 with
            | one ps =>
              have hest : isEst kv.2 = true := by
                cases hv : kv.2 <;> simp [hv, deepOf] at hd ⊢
                all_goals rfl
              have : ps = getParams kv.2 true := by rw [deepOf_est _ hest] at hd; simpa using hd.symm
              subst this
              exact nodup_prefixed_keys _ _ (child kv.1 kv.2 (mem_lookup_of_mem kw kv.1 kv.2 hnd hkv))
            | none => simp
            | many _ => simp
          · have hpw : kw.Pairwise (fun a b => a.1 ≠ b.1) := by
              have := hnd; unfold List.Nodup keys at this
              rwa [List.pairwise_map] at this
            refine List.Pairwise.imp_of_mem ?_ hpw
            intro a b ha hb hab x hx y hy e
            simp only [List.all_eq_true] at hc
            have hca := hc a.1 (List.mem_map.mpr ⟨a, ha, rfl⟩)
            have hcb := hc b.1 (List.mem_map.mpr ⟨b, hb, rfl⟩)
            obtain ⟨s1, rfl⟩ := mem_keys_blockEntries a x hx
            obtain ⟨s2, rfl⟩ := mem_keys_blockEntries b y hy
            exact hab (nested_inj _ _ _ _ hca hcb e).1
        | learner =>
          obtain ⟨⟨mo, hmo, hmoe⟩, _, _, _⟩ := learner_shape kw hw.1
          simp only [nestedOf, lookup_map_snd, hmo, Option.map_some, deepOf_est mo hmoe]
          exact nodup_prefixed_keys _ _ (child kModel mo hmo)
        | cak =>
          obtain ⟨⟨es, hes, hese⟩, ⟨cl, hcl, hcle⟩, _⟩ := cak_shape kw hw.1
          simp only [nestedOf, lookup_map_snd, hcl, hes, Option.map_some, deepOf_est cl hcle, deepOf_est es hese,
            List.map_append]
          rw [List.nodup_append]
          refine ⟨nodup_prefixed_keys _ _ (child kClus cl hcl), nodup_prefixed_keys _ _ (child kEstimator es hes), ?_⟩
          intro a ha b hb e
          have ha' : a ∈ keys (prefixed cakGetClusPrefix (getParams cl true)) := ha
          have hb' : b ∈ keys (prefixed cakGetEstPrefix (getParams es true)) := hb
          rw [keys_prefixed, List.mem_map] at ha' hb'
          obtain ⟨s1, _, rfl⟩ := ha'
          obtain ⟨s2, _, rfl⟩ := hb'
          simp [cakGetClusPrefix, cakGetEstPrefix] at e
        | stacking =>
          obtain ⟨⟨l, hl, hall⟩, _, _⟩ := stacking_shape kw hw.1
          have hgs : nestedOf .stacking (kw.map (fun kv => (kv.1, deepOf kv.2))) = nestedS l := by
            simp only [nestedOf, lookup_map_snd, hl, Option.map_some]
            simp only [deepOf]
            rfl
          rw [hgs]
          unfold nestedS
          rw [List.map_flatMap]
          unfold List.Nodup
          rw [List.pairwise_flatMap]
          constructor
          · intro pi hpi
            obtain ⟨ps, j⟩ := pi
            rw [List.mem_zipIdx_iff_getElem?] at hpi
            simp only [List.getElem?_map, Option.map_eq_some_iff] at hpi
            obtain ⟨mem, hmem, rfl⟩ := hpi
            have hs1 := sizeOf_lookup_lt kw kModels _ hl
            have hs2 := sizeOf_get_lt l j mem hmem
            have hs3 := sizeOf_ests l
            have hwl : wf (.ests l) = true := wfKw_lookup kw kModels _ hw.2 hl
            exact nodup_prefixed_keys _ _ (ih mem (by omega) (wfL_get l j mem (by simpa [wf] using hwl) hmem))
          · have hpw : ((l.map (fun m => getParams m true)).zipIdx).Pairwise (fun a b => a.2 ≠ b.2) := by
              have := List.pairwise_lt_range (n := (l.map (fun m => getParams m true)).length)
              rw [List.zipIdx_eq_zip_range', List.pairwise_iff_getElem]
              intro i j hi hj hij
              simp
              omega
            refine List.Pairwise.imp ?_ hpw
            intro a b hab x hx y hy e
            have hx' : x ∈ keys (blockS a) := hx
            have hy' : y ∈ keys (blockS b) := hy
            unfold blockS at hx' hy'
            rw [keys_prefixed, List.mem_map] at hx' hy'
            obtain ⟨s1, _, rfl⟩ := hx'
            obtain ⟨s2, _, rfl⟩ := hy'
            exact hab (sPrefix_inj _ _ _ _ e).1
      · -- stored names never collide with advertised nested names
        intro a ha b hb e
        subst e
        have hac : (keys kw).contains a = true := by simpa [keys] using ha
        cases p with
        | unknownProto => simp [nestedOf] at hb
        | anmf => simp [nestedOf] at hb
        | skbase => simp [nestedOf] at hb
        | base =>
          have hc : (keys kw).all cleanName = true := by
            simp only [shapeOk, Bool.and_eq_true] at hw; exact hw.1.2
          rw [nestedOf_base_eq, List.map_flatMap, List.mem_flatMap] at hb
          obtain ⟨kv, hkv, hb⟩ := hb
          simp only [List.all_eq_true] at hc
          have hca := hc a (by simpa [keys] using ha)
          have hck := hc kv.1 (List.mem_map.mpr ⟨kv, hkv, rfl⟩)
          obtain ⟨s1, hs1⟩ := mem_keys_blockEntries kv a hb
          exact clean_ne_nested a kv.1 s1 hca hck hs1
        | learner =>
          obtain ⟨⟨mo, hmo, hmoe⟩, _, _, hown⟩ := learner_shape kw hw.1
          simp only [nestedOf, lookup_map_snd, hmo, Option.map_some, deepOf_est mo hmoe] at hb
          have hb' : a ∈ keys (prefixed learnerGetPrefix (getParams mo true)) := hb
          rw [keys_prefixed, List.mem_map] at hb'
          obtain ⟨s, _, rfl⟩ := hb'
          obtain ⟨h1, h2, h3, _⟩ := learner_prefix_facts s
          have := hown _ hac h1 h2
          rw [h3] at this; cases this
        | cak =>
          obtain ⟨⟨es, hes, hese⟩, ⟨cl, hcl, hcle⟩, hkeys⟩ := cak_shape kw hw.1
          simp only [nestedOf, lookup_map_snd, hcl, hes, Option.map_some, deepOf_est cl hcle, deepOf_est es hese,
            List.map_append, List.mem_append] at hb
          rcases hb with hb | hb
          · have hb' : a ∈ keys (prefixed cakGetClusPrefix (getParams cl true)) := hb
            rw [keys_prefixed, List.mem_map] at hb'
            obtain ⟨s, _, rfl⟩ := hb'
            rcases hkeys _ hac with e | e <;> simp [cakGetClusPrefix, kEstimator, kClus] at e
          · have hb' : a ∈ keys (prefixed cakGetEstPrefix (getParams es true)) := hb
            rw [keys_prefixed, List.mem_map] at hb'
            obtain ⟨s, _, rfl⟩ := hb'
            rcases hkeys _ hac with e | e <;> simp [cakGetEstPrefix, kEstimator, kClus] at e
        | stacking =>
          obtain ⟨⟨l, hl, hall⟩, _, hown⟩ := stacking_shape kw hw.1
          have hgs : nestedOf .stacking (kw.map (fun kv => (kv.1, deepOf kv.2))) = nestedS l := by
            simp only [nestedOf, lookup_map_snd, hl, Option.map_some]
            simp only [deepOf]
            rfl
          rw [hgs] at hb
          obtain ⟨kv, hkv, rfl⟩ := List.mem_map.mp hb
          obtain ⟨i', s, hks⟩ := mem_nestedS l kv hkv
          obtain ⟨h1, h2, h3⟩ := stacking_prefix_facts (showNat i' ++ stackingGetSep ++ s)
          rw [← hks] at h1 h2 h3
          have := hown _ hac h1 h2
          rw [h3] at this; cases this

/-- after the update of a valid configuration by a valid value, the dictionary lookup of `k` is `v` -/
theorem upd_lookup_value {e k v e'} (h : Upd e k v e') (hw : wf e = true) (hv : wf v = true) :
    (getParams e' true).lookup k = some v := by
  have hw' := upd_wf h hw hv
  exact mem_lookup_of_mem _ k v (getParams_keys_nodup (sizeOf e' + 1) e' (by omega) hw') (upd_reports_value h)

end MlVerif.Params
