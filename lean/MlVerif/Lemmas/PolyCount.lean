/-
C11 — counting the monomials of the specification (core Lean only).
-/
import MlVerif.Lemmas.Poly
namespace MlVerif.Poly

/-- binomial coefficient (Pascal's rule) -/
def choose : Nat → Nat → Nat
  | _, 0 => 1
  | 0, _+1 => 0
  | n+1, k+1 => choose n k + choose n (k+1)

/-- number of multisets of size `d` over `m` symbols -/
def multichoose : Nat → Nat → Nat
  | _, 0 => 1
  | 0, _+1 => 0
  | m+1, d+1 => multichoose (m+1) d + multichoose m (d+1)

/-- number of monomials of degree `d` over `m` variables -/
def countMono (io : Bool) (m d : Nat) : Nat := if io then choose m d else multichoose m d

theorem combs_head (io : Bool) (n d lo : Nat) (h : lo < n) :
    combs io n (d+1) lo = (combs io n d (nxt io lo)).map (lo :: ·) ++ combs io n (d+1) (lo+1) := by
  have e : n - lo = (n - (lo + 1)) + 1 := by omega
  simp only [combs]
  rw [e, List.range'_succ, List.flatMap_cons]

theorem combs_count (io : Bool) (n : Nat) : ∀ d m lo, m + lo = n → (combs io n d lo).length = countMono io m d := by
  intro d
  induction d with
  | zero => intro m lo _; cases io <;> simp [combs, countMono, choose, multichoose]
  | succ d ihd =>
    intro m
    induction m with
    | zero =>
      intro lo h
      rw [combs_ge_n io n d lo (by omega)]
      cases io <;> simp [countMono, choose, multichoose]
    | succ m ihm =>
      intro lo h
      rw [combs_head io n d lo (by omega), List.length_append, List.length_map, ihm (lo+1) (by omega)]
      cases io
      · rw [show nxt false lo = lo from rfl, ihd (m+1) lo h]
        simp [countMono, multichoose]
      · rw [show nxt true lo = lo + 1 from rfl, ihd m (lo+1) (by omega)]
        simp [countMono, choose]

theorem sum_flatMap_length {α β} (f : α → List β) (l : List α) :
    (l.flatMap f).length = (l.map (fun a => (f a).length)).sum := by
  induction l with
  | nil => rfl
  | cons a l ih => simp [List.flatMap_cons, ih]

theorem polySpec_count (n degree : Nat) (io bias : Bool) :
    (polySpec n degree io bias).length =
      (if bias then 1 else 0) + ((List.range' 1 degree).map (countMono io n)).sum := by
  unfold polySpec
  rw [List.length_append, sum_flatMap_length]
  congr 1
  · cases bias <;> rfl
  · congr 1
    apply List.map_congr_left
    intro d _
    exact combs_count io n d n 0 (by omega)
theorem choose_lt : ∀ n k, n < k → choose n k = 0 := by
  intro n
  induction n with
  | zero => intro k h; cases k with
    | zero => omega
    | succ k => rfl
  | succ n ih =>
    intro k h
    cases k with
    | zero => omega
    | succ k => simp [choose, ih k (by omega), ih (k+1) (by omega)]

/-- multisets of size `d` over `m+1` symbols: `C(m + d, d)` -/
theorem multichoose_eq_choose : ∀ d m, multichoose (m+1) d = choose (m+d) d := by
  intro d
  induction d with
  | zero => intro m; simp [multichoose, choose]
  | succ d ihd =>
    intro m
    induction m with
    | zero =>
      have h := ihd 0
      simp only [Nat.zero_add] at h ⊢
      simp [multichoose, choose, h, choose_lt d (d+1) (by omega)]
    | succ m ihm =>
      have e1 : m + 1 + (d + 1) = (m + 1 + d) + 1 := by omega
      have e2 : m + (d + 1) = m + 1 + d := by omega
      rw [e1]
      have hl : multichoose (m+1+1) (d+1) = multichoose (m+1+1) d + multichoose (m+1) (d+1) := by rw [multichoose]
      have hr : choose (m+1+d+1) (d+1) = choose (m+1+d) d + choose (m+1+d) (d+1) := rfl
      rw [hl, hr, ihd (m+1), ihm, e2]
end MlVerif.Poly
