/-
Further generic scatter lemmas (C08 / C04), on top of the shared `Lemmas/Scatter.lean`
(`maskSet_map_maskGet`, `dispatch_rows` are re-used, not re-proved).

The idea used throughout: a loop that repeatedly does `buf[mask_j] = v_j` with masks computed
from one fixed key column is, row by row, a fold of a *scalar* update; so the list-level
statement is reduced once (here) to a statement about one row, and every property-specific
argument is then about scalars.
-/
import MlVerif.Model.Scatter
import MlVerif.Model.RowWise
import MlVerif.Lemmas.Scatter
namespace MlVerif.Scatter
open MlVerif.RowWise (maskFill)

/-! ### masks without a true bit are no-ops -/

theorem maskSet_noTrue {β} : ∀ (old : List β) (ms : List Bool) (ps : List β),
    ms.any id = false → maskSet old ms ps = old := by
  intro old
  induction old with
  | nil => intro ms ps _; cases ms <;> cases ps <;> simp [maskSet]
  | cons o os ih =>
    intro ms ps h
    cases ms with
    | nil => cases ps <;> simp [maskSet]
    | cons m ms =>
      cases m with
      | true => simp at h
      | false =>
        have h' : ms.any id = false := by simpa using h
        cases ps <;> simp [maskSet, ih ms _ h']

theorem maskSet_nil {β} : ∀ (old : List β) (ms : List Bool), maskSet old ms [] = old := by
  intro old
  induction old with
  | nil => intro ms; cases ms <;> simp [maskSet]
  | cons o os ih =>
    intro ms
    cases ms with
    | nil => simp [maskSet]
    | cons m ms => cases m <;> simp [maskSet, ih ms]

theorem maskGet_noTrue {α} : ∀ (xs : List α) (ms : List Bool), ms.any id = false → maskGet xs ms = [] := by
  intro xs
  induction xs with
  | nil => intro ms _; cases ms with
    | nil => simp [maskGet]
    | cons m ms => cases m <;> simp [maskGet]
  | cons x xs ih =>
    intro ms h
    cases ms with
    | nil => simp [maskGet]
    | cons m ms =>
      cases m with
      | true => simp at h
      | false => simp [maskGet]; exact ih ms (by simpa using h)

/-- if nothing is selected (and the lengths agree) the mask has no true bit -/
theorem noTrue_of_maskGet_nil {α} : ∀ (xs : List α) (ms : List Bool), xs.length = ms.length →
    maskGet xs ms = [] → ms.any id = false := by
  intro xs
  induction xs with
  | nil => intro ms h _; cases ms <;> simp_all
  | cons x xs ih =>
    intro ms h hg
    cases ms with
    | nil => simp at h
    | cons m ms =>
      cases m with
      | true => simp [maskGet] at hg
      | false => simp [maskGet] at hg; simpa using ih ms (by simpa using h) hg

theorem maskGet_length_le {α} : ∀ (xs : List α) (ms : List Bool), (maskGet xs ms).length ≤ xs.length := by
  intro xs
  induction xs with
  | nil => intro ms; cases ms with
    | nil => simp [maskGet]
    | cons m ms => cases m <;> simp [maskGet]
  | cons x xs ih =>
    intro ms
    cases ms with
    | nil => simp [maskGet]
    | cons m ms => cases m <;> simp [maskGet] <;> have := ih ms <;> omega

/-- `X[ind]` is a sub-list of `X`: same rows, same order -/
theorem maskGet_sublist {α} : ∀ (xs : List α) (ms : List Bool), (maskGet xs ms).Sublist xs := by
  intro xs
  induction xs with
  | nil => intro ms; cases ms with
    | nil => simp [maskGet]
    | cons m ms => cases m <;> simp [maskGet]
  | cons x xs ih =>
    intro ms
    cases ms with
    | nil => simp [maskGet]
    | cons m ms =>
      cases m with
      | true => simp [maskGet]; exact ih ms
      | false => simp only [maskGet]; exact (ih ms).cons x

/-- slicing several arrays with the same mask keeps rows together -/
theorem maskGet_zip {α β} : ∀ (xs : List α) (ys : List β) (ms : List Bool),
    maskGet (xs.zip ys) ms = (maskGet xs ms).zip (maskGet ys ms) := by
  intro xs
  induction xs with
  | nil => intro ys ms; cases ms with
    | nil => simp [maskGet]
    | cons m ms => cases m <;> simp [maskGet]
  | cons x xs ih =>
    intro ys ms
    cases ys with
    | nil => cases ms with
      | nil => simp [maskGet]
      | cons m ms => cases m <;> simp [maskGet]
    | cons y ys =>
      cases ms with
      | nil => simp [maskGet]
      | cons m ms => cases m <;> simp [maskGet, ih ys ms]

theorem maskGet_map {α β} (f : α → β) : ∀ (xs : List α) (ms : List Bool),
    maskGet (xs.map f) ms = (maskGet xs ms).map f := by
  intro xs
  induction xs with
  | nil => intro ms; cases ms with
    | nil => simp [maskGet]
    | cons m ms => cases m <;> simp [maskGet]
  | cons x xs ih =>
    intro ms
    cases ms with
    | nil => simp [maskGet]
    | cons m ms => cases m <;> simp [maskGet, ih ms]

/-- a mask computed row by row selects exactly the rows satisfying the predicate -/
theorem maskGet_map_eq_filter {α} (p : α → Bool) : ∀ (xs : List α),
    maskGet xs (xs.map p) = xs.filter p := by
  intro xs
  induction xs with
  | nil => simp [maskGet]
  | cons x xs ih => cases h : p x <;> simp [maskGet, h, ih]

/-! ### zw3 over mapped columns -/

theorem zw3_maps {α β γ δ} (f : β → γ → α → δ) (a : α → β) (b : α → γ) : ∀ (xs : List α),
    zw3 f (xs.map a) (xs.map b) xs = xs.map (fun x => f (a x) (b x) x) := by
  intro xs
  induction xs with
  | nil => simp [zw3]
  | cons x xs ih => simp [zw3, ih]

/-- The numpy idiom `old[mask] = r(X[mask])` when `old`, `mask` are themselves row-wise in `X`:
the result is row-wise, `x ↦ if m x then r x else h x`. -/
theorem maskSet_rowwise {α β} (h r : α → β) (m : α → Bool) (xs : List α) :
    maskSet (xs.map h) (xs.map m) ((maskGet xs (xs.map m)).map r) =
      xs.map (fun x => if m x then r x else h x) := by
  rw [maskSet_map_maskGet r xs (xs.map m) (xs.map h) (by simp) (by simp)]
  exact zw3_maps (fun o m x => if m then r x else o) h m xs

theorem map_congr_mem {α β} (f g : α → β) (xs : List α) (h : ∀ x ∈ xs, f x = g x) :
    xs.map f = xs.map g := List.map_congr_left h

/-- the same with the `if numpy.any(mask)` guard the code puts around it -/
theorem maskSet_rowwise_guarded {α β} (h r : α → β) (m : α → Bool) (xs : List α) (guard : Bool) :
    (if guard && (xs.map m).any id then
        maskSet (xs.map h) (xs.map m) ((maskGet xs (xs.map m)).map r) else xs.map h) =
      xs.map (fun x => if guard && m x then r x else h x) := by
  cases guard with
  | false => simp
  | true =>
    by_cases hany : (xs.map m).any id = true
    · simp only [Bool.true_and, hany, if_true]
      exact maskSet_rowwise h r m xs
    · have hf : (xs.map m).any id = false := by simpa using hany
      simp only [Bool.true_and, hf]
      apply map_congr_mem
      intro x hx
      have : m x = false := by
        simp only [List.any_map, List.any_eq_false] at hf
        simpa using hf x hx
      simp [this]

/-! ### `buf[keys == j] = v` as a scalar update per row -/

theorem maskFill_keys {β κ} (p : κ → Bool) (v : β) : ∀ (buf : List β) (keys : List κ),
    maskFill buf (keys.map p) v = List.zipWith (fun o k => if p k then v else o) buf keys
      ++ buf.drop keys.length := by
  intro buf
  induction buf with
  | nil => intro keys; cases keys <;> simp [maskFill]
  | cons o os ih =>
    intro keys
    cases keys with
    | nil => simp [maskFill]
    | cons k ks =>
      cases hp : p k <;> simp [maskFill, hp, ih ks]

theorem maskFill_keys_eq {β κ} (p : κ → Bool) (v : β) (buf : List β) (keys : List κ)
    (h : buf.length = keys.length) :
    maskFill buf (keys.map p) v = List.zipWith (fun o k => if p k then v else o) buf keys := by
  rw [maskFill_keys, List.drop_of_length_le (by omega)]; simp

theorem zipWith_zipWith_same {β κ} (f g : β → κ → β) : ∀ (buf : List β) (keys : List κ),
    List.zipWith f (List.zipWith g buf keys) keys = List.zipWith (fun o k => f (g o k) k) buf keys := by
  intro buf
  induction buf with
  | nil => intro keys; simp
  | cons o os ih => intro keys; cases keys <;> simp [ih]

theorem zipWith_congr_right {β κ γ} (f g : β → κ → γ) : ∀ (buf : List β) (keys : List κ),
    (∀ o, ∀ k ∈ keys, f o k = g o k) → List.zipWith f buf keys = List.zipWith g buf keys := by
  intro buf
  induction buf with
  | nil => intro keys _; simp
  | cons o os ih =>
    intro keys h
    cases keys with
    | nil => simp
    | cons k ks =>
      simp only [List.zipWith_cons_cons]
      rw [h o k (by simp), ih ks (fun o k hk => h o k (by simp [hk]))]

theorem zipWith_const_left {β κ γ} (f : β → κ → γ) (c : β) : ∀ (keys : List κ),
    List.zipWith f (keys.map fun _ => c) keys = keys.map (f c) := by
  intro keys
  induction keys with
  | nil => simp
  | cons k ks ih => simp [ih]

theorem zw3_eq_zipWith_of_const {α β γ δ} (f : β → γ → α → δ) :
    ∀ (os : List β) (ms : List γ) (xs : List α),
      zw3 f os ms xs = List.zipWith (fun (p : β × γ) x => f p.1 p.2 x) (os.zip ms) xs := by
  intro os
  induction os with
  | nil => intro ms xs; simp [zw3]
  | cons o os ih =>
    intro ms xs
    cases ms with
    | nil => simp [zw3]
    | cons m ms =>
      cases xs with
      | nil => simp [zw3]
      | cons x xs => simp [zw3, ih ms xs]

/-! ### loops that write one row at a time: `for i in range(n): pred[i] = h i` -/

theorem foldl_set_getElem? {β} (h : Nat → β) : ∀ (is : List Nat) (init : List β) (k : Nat),
    (is.foldl (fun p i => p.set i (h i)) init)[k]? =
      if k ∈ is then init[k]?.map (fun _ => h k) else init[k]? := by
  intro is
  induction is with
  | nil => intro init k; simp
  | cons i is ih =>
    intro init k
    simp only [List.foldl_cons, ih, List.mem_cons]
    by_cases hki : k = i
    · subst hki
      by_cases hk : k ∈ is
      · simp only [hk, or_true, if_true, List.getElem?_set]
        by_cases hl : k < init.length
        · simp [hl]
        · have : init.length ≤ k := by omega
          simp [List.getElem?_eq_none this]; exact this
      · simp only [hk, or_false, if_true, if_false, List.getElem?_set]
        by_cases hl : k < init.length
        · simp [hl]
        · have : init.length ≤ k := by omega
          simp [List.getElem?_eq_none this]; exact this
    · have : ¬ i = k := fun e => hki e.symm
      by_cases hk : k ∈ is <;> simp [hk, hki, this]

/-- writing `h i` at every position `i < n` of a buffer of length `n`, one position at a time and
in any order that visits every position, gives the row-wise result -/
theorem foldl_set_all {β} (h : Nat → β) (is : List Nat) (init : List β)
    (hall : ∀ k, k < init.length → k ∈ is) :
    is.foldl (fun p i => p.set i (h i)) init = (List.range init.length).map h := by
  apply List.ext_getElem?
  intro k
  rw [foldl_set_getElem?]
  by_cases hk : k < init.length
  · simp [hall k hk, hk]
  · have : init.length ≤ k := by omega
    simp [hk]

end MlVerif.Scatter
