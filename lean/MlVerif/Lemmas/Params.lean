/-
Helper lemmas for C01 (core Lean only): Python string operations on character lists, association lists,
decimal rendering / parsing of indices.
-/
import MlVerif.Model.Params

namespace MlVerif.Params
open MlVerif.Gen.C01

/-! ### string operations -/

theorem startsWith_append (p s : Key) : startsWith (p ++ s) p = true := by
  simp [startsWith]

theorem sliceFrom_append (p s : Key) : sliceFrom (p ++ s) (p.length : Int) = s := by
  simp [sliceFrom]

theorem sliceFrom_nat (k : Key) (n : Nat) : sliceFrom k (n : Int) = k.drop n := by
  simp [sliceFrom]

theorem sep2_prefix_cons2 (c d : Char) (r : Key) : sep2.isPrefixOf (c :: d :: r) = (c == '_' && d == '_') := by
  simp only [sep2, List.isPrefixOf]
  rw [show (('_' : Char) == c) = (c == '_') from Bool.beq_comm, show (('_' : Char) == d) = (d == '_') from Bool.beq_comm]
  simp
theorem sep2_prefix_single (c : Char) : sep2.isPrefixOf [c] = false := by
  simp [sep2, List.isPrefixOf]
theorem splitFirst_cons_of_not_prefix (c : Char) (cs : Key) (h : sep2.isPrefixOf (c :: cs) = false) :
    splitFirst sep2 (c :: cs) = (c :: (splitFirst sep2 cs).1, (splitFirst sep2 cs).2) := by
  rw [splitFirst]; simp [h]
theorem splitFirst_sep (s : Key) : splitFirst sep2 (sep2 ++ s) = ([], some s) := by
  simp [splitFirst, sep2]

theorem splitFirst_clean (a s : Key) (h : cleanName a = true) :
    splitFirst sep2 (a ++ sep2 ++ s) = (a, some s) := by
  induction a with
  | nil => simpa using splitFirst_sep s
  | cons c cs ih =>
    match cs, h, ih with
    | [], h, _ =>
      have hc : (c == '_') = false := by simpa [cleanName] using h
      have : sep2.isPrefixOf (c :: '_' :: '_' :: s) = false := by rw [sep2_prefix_cons2]; simp [hc]
      show splitFirst sep2 (c :: (sep2 ++ s)) = _
      rw [splitFirst_cons_of_not_prefix _ _ (by simpa [sep2] using this), splitFirst_sep]
    | d :: r, h, ih =>
      simp only [cleanName, Bool.and_eq_true, Bool.not_eq_true', Bool.and_eq_false_iff] at h
      have ih' := ih h.2
      have hne : sep2.isPrefixOf (c :: d :: (r ++ sep2 ++ s)) = false := by
        rw [sep2_prefix_cons2]
        rcases h.1 with h1 | h1 <;> simp [h1]
      show splitFirst sep2 (c :: d :: (r ++ sep2 ++ s)) = _
      rw [splitFirst_cons_of_not_prefix _ _ hne]
      have e : d :: (r ++ sep2 ++ s) = (d :: r) ++ sep2 ++ s := by simp
      rw [e, ih']

theorem splitFirst_clean_none (a : Key) (h : cleanName a = true) : splitFirst sep2 a = (a, none) := by
  induction a with
  | nil => simp [splitFirst]
  | cons c cs ih =>
    match cs, h, ih with
    | [], h, _ =>
      rw [splitFirst_cons_of_not_prefix _ _ (sep2_prefix_single c)]; simp [splitFirst]
    | d :: r, h, ih =>
      simp only [cleanName, Bool.and_eq_true, Bool.not_eq_true', Bool.and_eq_false_iff] at h
      have ih' := ih h.2
      have hne : sep2.isPrefixOf (c :: d :: r) = false := by
        rw [sep2_prefix_cons2]
        rcases h.1 with h1 | h1 <;> simp [h1]
      rw [splitFirst_cons_of_not_prefix _ _ hne, ih']

theorem cleanName_of_no_underscore (a : Key) (h : ∀ c ∈ a, c ≠ '_') : cleanName a = true := by
  induction a with
  | nil => rfl
  | cons c cs ih =>
    match cs, h, ih with
    | [], h, _ => simpa [cleanName] using h c (by simp)
    | d :: r, h, ih =>
      have hc : c ≠ '_' := h c (by simp)
      simp [cleanName, hc, ih (fun x hx => h x (by simp [hx]))]

/-! ### decimal indices -/

theorem showNat_no_underscore (i : Nat) : ∀ c ∈ showNat i, c ≠ '_' := by
  intro c hc h
  subst h
  exact Nat.underscore_not_in_toDigits hc

theorem showNat_clean (i : Nat) : cleanName (showNat i) = true :=
  cleanName_of_no_underscore _ (showNat_no_underscore i)

theorem showNat_all_digits (i : Nat) : (showNat i).all Char.isDigit = true := by
  simp only [List.all_eq_true]
  intro c hc
  exact Nat.isDigit_of_mem_toDigits (by decide) (by decide) hc

theorem showNat_ne_nil (i : Nat) : showNat i ≠ [] := Nat.toDigits_ne_nil

theorem digit_value (d : Nat) (h : d < 10) : (Nat.digitChar d).toNat - 48 = d :=
  Nat.toNat_digitChar_sub_48_of_lt_ten h

theorem foldl_showNat (i : Nat) : (showNat i).foldl (fun a c => a * 10 + (c.toNat - 48)) 0 = i := by
  induction i using Nat.strongRecOn with
  | _ i ih =>
    unfold showNat
    rw [Nat.toDigits_eq_if (by decide)]
    split
    · rename_i h
      simp [digit_value i h]
    · rename_i h
      have hlt : i / 10 < i := Nat.div_lt_self (by omega) (by decide)
      have := ih (i / 10) hlt
      unfold showNat at this
      rw [List.foldl_append, this]
      simp [digit_value (i % 10) (Nat.mod_lt _ (by decide))]
      omega

theorem parseNat_showNat (i : Nat) : parseNat (showNat i) = some i := by
  unfold parseNat
  have h1 : (showNat i).isEmpty = false := by
    cases h : showNat i with
    | nil => exact absurd h (showNat_ne_nil i)
    | cons _ _ => rfl
  simp [h1, showNat_all_digits, foldl_showNat]

/-! ### association lists -/

theorem keys_replaceKey (k : Key) (v : PVal) (kw : KW) : keys (replaceKey k v kw) = keys kw := by
  induction kw with
  | nil => rfl
  | cons hd tl ih =>
    obtain ⟨k', v'⟩ := hd
    unfold replaceKey
    by_cases h : (k' == k) = true
    · have : k' = k := by simpa using h
      simp [h, keys, this]
    · simp only [h]
      simp only [keys, List.map_cons] at ih ⊢
      simp [ih]

theorem lookup_replaceKey_self (k : Key) (v : PVal) (kw : KW) (h : (keys kw).contains k = true) :
    (replaceKey k v kw).lookup k = some v := by
  induction kw with
  | nil => simp [keys] at h
  | cons hd tl ih =>
    obtain ⟨k', v'⟩ := hd
    unfold replaceKey
    by_cases hk : (k' == k) = true
    · simp [hk, List.lookup]
    · have hk' : (k == k') = false := by
        have : k' ≠ k := by simpa using hk
        simp [Ne.symm this]
      simp only [hk, Bool.false_eq_true, ↓reduceIte, List.lookup, hk']
      apply ih
      have : k' ≠ k := by simpa using hk
      simpa [keys, Ne.symm this] using h

theorem lookup_replaceKey_ne (k k2 : Key) (v : PVal) (kw : KW) (h : k2 ≠ k) :
    (replaceKey k v kw).lookup k2 = kw.lookup k2 := by
  induction kw with
  | nil => rfl
  | cons hd tl ih =>
    obtain ⟨k', v'⟩ := hd
    unfold replaceKey
    by_cases hk : (k' == k) = true
    · have e : k' = k := by simpa using hk
      have h2 : (k2 == k) = false := by simp [h]
      simp [hk, List.lookup, e, h2]
    · simp only [hk, Bool.false_eq_true, ↓reduceIte, List.lookup]
      cases (k2 == k') <;> simp [ih]

/-- re-assigning a slot its own value changes nothing -/
theorem replaceKey_same (k : Key) (v : PVal) (kw : KW) (h : kw.lookup k = some v) : replaceKey k v kw = kw := by
  induction kw with
  | nil => rfl
  | cons hd tl ih =>
    obtain ⟨k', v'⟩ := hd
    unfold replaceKey
    by_cases hk : (k' == k) = true
    · have e : k' = k := by simpa using hk
      subst e
      simp [List.lookup] at h
      simp [h]
    · have hk' : (k == k') = false := by
        have : k' ≠ k := by simpa using hk
        simp [Ne.symm this]
      simp only [hk, Bool.false_eq_true, ↓reduceIte]
      simp only [List.lookup, hk'] at h
      rw [ih h]

theorem contains_keys_of_lookup (k : Key) (v : PVal) (kw : KW) (h : kw.lookup k = some v) :
    (keys kw).contains k = true := by
  induction kw with
  | nil => simp [List.lookup] at h
  | cons hd tl ih =>
    obtain ⟨k', v'⟩ := hd
    by_cases hk : (k == k') = true
    · have : k = k' := by simpa using hk
      simp [keys, this]
    · simp only [List.lookup] at h
      have hk2 : (k == k') = false := by simpa using hk
      rw [hk2] at h
      have := ih h
      simp only [keys, List.map_cons, List.contains_cons]
      simp [keys] at this
      simp [this]

end MlVerif.Params
