/-
C09 — the accessors of CommonRegressorCriterion (`node_value`, `node_impurity`,
`children_impurity`, `proxy_impurity_improvement`, `impurity_improvement`) on a state whose
virtual methods behave as the per-class lemmas establish.
-/
import MlVerif.Lemmas.CriterionLinear
namespace MlVerif.Criterion
open MlVerif.Gen MlVerif.Gen.C09

/-- the `Criterion` fields are right and `_mean` returns the weighted mean and the total weight
of any sub-range (leaving `weight` untouched on an empty one) -/
structure Acc {σ : Type} (o : Ops σ) (s : σ) (d : Data) (start pos stop : Int) : Prop where
  core : CoreGood (o.core s) d start pos stop
  mean : ∀ a b wp, start ≤ a → a ≤ b → b ≤ stop →
    o.mean s a b wp = if a = b then (0, wp) else (d.wmean a b, d.W a b)

/-- … and `_mse` returns the weighted mean squared residual of the constant fit -/
structure AccConst {σ : Type} (o : Ops σ) (s : σ) (d : Data) (start pos stop : Int) : Prop
    extends Acc o s d start pos stop where
  mse : ∀ a b, start ≤ a → a ≤ b → b ≤ stop → o.mse s a b (d.wmean a b) (d.W a b) = d.wmse a b
  mse_empty : ∀ a m w, o.mse s a a m w = 0

theorem wmse_empty (d : Data) (a : Int) : d.wmse a a = 0 := by
  simp [Data.wmse, Data.W, rsum_empty]

section
variable {σ : Type} {o : Ops σ} {s : σ} {d : Data} {start pos stop : Int}

theorem Acc.nodeValue (h : Acc o s d start pos stop) (hlt : start < stop) (junk : Rat) :
    nodeValue o s junk = d.wmean start stop := by
  simp only [Criterion.nodeValue, nodeValMean, h.core.hstart, h.core.hstop]
  rw [h.mean start stop junk (by omega) (by omega) (by omega), if_neg (by omega)]

theorem AccConst.nodeImpurity (h : AccConst o s d start pos stop) (hlt : start < stop) (junk : Rat) :
    nodeImpurity o s junk = d.wmse start stop := by
  simp only [Criterion.nodeImpurity, nodeImpMean, nodeImpMse, h.core.hstart, h.core.hstop]
  rw [h.mean start stop junk (by omega) (by omega) (by omega), if_neg (by omega)]
  exact h.mse start stop (by omega) (by omega) (by omega)

theorem AccConst.childrenWeights (h : AccConst o s d start pos stop) (h1 : start ≤ pos)
    (h2 : pos ≤ stop) (wl wr : Rat) :
    childrenImpurityWeights o s wl wr =
      (d.wmse start pos, d.wmse pos stop,
       if start = pos then wl else d.W start pos, if pos = stop then wr else d.W pos stop) := by
  simp only [childrenImpurityWeights, chMeanL, chMeanR, chMseL, chMseR, h.core.hstart, h.core.hstop,
    h.core.hpos]
  rw [h.mean start pos wl (by omega) h1 h2, h.mean pos stop wr h1 h2 (by omega)]
  by_cases e1 : start = pos <;> by_cases e2 : pos = stop
  · subst e1; subst e2; simp [h.mse_empty, wmse_empty]
  · subst e1; simp [h.mse_empty, wmse_empty, e2, h.mse start stop (by omega) (by omega) (by omega)]
  · subst e2; simp [h.mse_empty, wmse_empty, e1, h.mse start pos (by omega) (by omega) (by omega)]
  · simp [e1, e2, h.mse start pos (by omega) h1 h2, h.mse pos stop h1 h2 (by omega)]

theorem AccConst.children (h : AccConst o s d start pos stop) (h1 : start ≤ pos)
    (h2 : pos ≤ stop) (j1 j2 : Rat) :
    childrenImpurity o s j1 j2 = (d.wmse start pos, d.wmse pos stop) := by
  simp only [childrenImpurity, h.childrenWeights h1 h2]

theorem Acc.improvement (h : Acc o s d start pos stop) (ip il ir : Rat) :
    impurityImprovement o s ip il ir =
      (d.W start stop / d.wN) *
        (ip - (d.W pos stop / d.W start stop) * ir - (d.W start pos / d.W start stop) * il) := by
  simp only [impurityImprovement, Gen.C09.improvement, h.core.hwN, h.core.hwNode, h.core.hwL,
    h.core.hwR]

theorem W_empty (d : Data) (a : Int) : d.W a a = 0 := rsum_empty _ _ _ (by omega)

/-- `proxy_impurity_improvement`: NAN at the two ends, otherwise −W_R·imp_R − W_L·imp_L with the
true child weights; the weights it stores are again the true ones -/
theorem AccConst.proxy (h : AccConst o s d start pos stop) (h1 : start ≤ pos) (h2 : pos ≤ stop) :
    (proxyImpurityImprovement o s).1 =
      (if pos = start ∨ pos = stop then none
       else some (- d.W pos stop * d.wmse pos stop - d.W start pos * d.wmse start pos)) ∧
    ((proxyImpurityImprovement o s).2 =
      o.withCore s { o.core s with wL := d.W start pos, wR := d.W pos stop }) := by
  simp only [proxyImpurityImprovement, h.childrenWeights h1 h2, proxyNan, Gen.C09.proxy,
    h.core.hstart, h.core.hstop, h.core.hpos, h.core.hwL, h.core.hwR]
  have eL : (if start = pos then d.W start pos else d.W start pos) = d.W start pos := by split <;> rfl
  have eR : (if pos = stop then d.W pos stop else d.W pos stop) = d.W pos stop := by split <;> rfl
  rw [eL, eR]
  constructor
  · by_cases e : pos = start ∨ pos = stop
    · rw [if_pos e]
      have : (decide (pos = start) || decide (pos = stop)) = true := by simpa using e
      simp [this]
    · rw [if_neg e]
      have : (decide (pos = start) || decide (pos = stop)) = false := by simpa using e
      simp [this]
  · split <;> rfl

end
end MlVerif.Criterion
