/-
C14 — canonical forms of the REGENERATED definitions (`MlVerif.Gen.C14`): where the stop-word
filter sits, what it tests and emits, and the index expressions of the n-gram loops.
Proved by `unfold …; omega`/`rfl`, so harmless re-orderings still check.
-/
import MlVerif.Gen.C14

namespace MlVerif.Gen.C14

theorem wrapStd_true : wrapStd = true := by unfold wrapStd; rfl
theorem spaceJoinStd_true : spaceJoinStd = true := by unfold spaceJoinStd; rfl
/-- the stop-word filter runs on the raw `str` tokens, before they are wrapped -/
theorem filterBeforeWrap_true : filterBeforeWrap = true := by unfold filterBeforeWrap; rfl
/-- it keeps exactly the tokens that are not stop words -/
theorem filterKeep_str (isStop : Tok → Bool) (s : Tok) : filterKeep isStop (.str s) = !isStop s := by
  unfold filterKeep; simp [inStop]
/-- and emits them unchanged (no extra tuple level) -/
theorem filterElt_id (w : Key) : filterElt w = w := by unfold filterElt; rfl

theorem needNgrams_iff (v : Env) : needNgrams v = true ↔ v.maxN ≠ 1 := by
  unfold needNgrams
  exact ⟨fun h => by have := of_decide_eq_true h; omega, fun h => decide_eq_true (by omega)⟩
theorem copyUnigrams_iff (v : Env) : copyUnigrams v = true ↔ v.minN = 1 := by
  unfold copyUnigrams
  exact ⟨fun h => by have := of_decide_eq_true h; omega, fun h => decide_eq_true (by omega)⟩
theorem minInc_eq (v : Env) : minInc v = 1 := by unfold minInc; omega
theorem nLo_eq (v : Env) : nLo v = v.minN := by unfold nLo; omega
theorem nHi_eq (v : Env) : nHi v = min (v.maxN + 1) (v.nTok + 1) := by unfold nHi; omega
theorem iLo_eq (v : Env) : iLo v = 0 := by unfold iLo; omega
theorem iHi_eq (v : Env) : iHi v = v.nTok - v.n + 1 := by unfold iHi; omega
theorem sliceLo_eq (v : Env) : sliceLo v = v.i := by unfold sliceLo; omega
theorem sliceHi_eq (v : Env) : sliceHi v = v.i + v.n := by unfold sliceHi; omega

end MlVerif.Gen.C14
