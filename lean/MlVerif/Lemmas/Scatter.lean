/-
Scatter lemmas (used by C04 / C08 / C10): grouping a batch by a key, applying a row-wise
function per group and writing the results back through boolean masks equals the row-by-row
description, for ANY order of the buckets and any batch.
-/
import MlVerif.Model.Scatter
namespace MlVerif.Scatter

theorem zw3_length {α β γ δ} (f : β → γ → α → δ) : ∀ (os : List β) (ms : List γ) (xs : List α),
    xs.length = ms.length → os.length = ms.length → (zw3 f os ms xs).length = ms.length := by
  intro os
  induction os with
  | nil => intro ms xs h1 h2; cases ms <;> simp_all [zw3]
  | cons o os ih =>
    intro ms xs h1 h2
    cases ms with
    | nil => simp at h2
    | cons m ms =>
      cases xs with
      | nil => simp at h1
      | cons x xs => simp [zw3]; exact ih ms xs (by simpa using h1) (by simpa using h2)

theorem maskSet_map_maskGet {α β} (g : α → β) :
    ∀ (xs : List α) (ms : List Bool) (old : List β), xs.length = ms.length → old.length = ms.length →
      maskSet old ms ((maskGet xs ms).map g) =
        zw3 (fun o m x => if m then g x else o) old ms xs := by
  intro xs
  induction xs with
  | nil => intro ms old h1 h2; cases ms <;> cases old <;> simp_all [maskSet, maskGet, zw3]
  | cons x xs ih =>
    intro ms old h1 h2
    cases ms with
    | nil => simp at h1
    | cons m ms =>
      cases old with
      | nil => simp at h2
      | cons o os =>
        have := ih ms os (by simpa using h1) (by simpa using h2)
        cases m <;> simp [maskSet, maskGet, zw3, this]

theorem dispatch_rows {α β} (g : Nat → α → β) :
    ∀ (order : List Nat) (xs : List α) (assoc : List Nat) (pred : List β),
      xs.length = assoc.length → pred.length = assoc.length →
      dispatch g xs assoc order pred =
        zw3 (fun o b x => if b ∈ order then g b x else o) pred assoc xs := by
  intro order
  induction order with
  | nil =>
    intro xs assoc pred h1 h2
    simp only [dispatch, List.not_mem_nil, if_false]
    induction pred generalizing assoc xs with
    | nil => cases assoc <;> cases xs <;> simp [zw3]
    | cons o os ih =>
      cases assoc with
      | nil => simp at h2
      | cons b bs =>
        cases xs with
        | nil => simp at h1
        | cons x xs => simp [zw3]; exact ih xs bs (by simpa using h1) (by simpa using h2)
  | cons i rest ih =>
    intro xs assoc pred h1 h2
    simp only [dispatch]
    rw [maskSet_map_maskGet (g i) xs (assoc.map (· == i)) pred (by simpa using h1) (by simpa using h2)]
    rw [ih xs assoc _ h1 (by rw [zw3_length _ _ _ _ (by simpa using h1) (by simpa using h2)]; simp)]
    -- pointwise equality of the two zipWith3
    induction pred generalizing assoc xs with
    | nil => cases assoc <;> cases xs <;> simp [zw3]
    | cons o os ih2 =>
      cases assoc with
      | nil => simp at h2
      | cons b bs =>
        cases xs with
        | nil => simp at h1
        | cons x xs =>
          simp only [List.map_cons, zw3]
          have := ih2 xs bs (by simpa using h1) (by simpa using h2)
          rw [this]
          by_cases hb : b = i
          · subst hb; simp
          · have : (b == i) = false := by simpa using hb
            simp [this, hb]

end MlVerif.Scatter
