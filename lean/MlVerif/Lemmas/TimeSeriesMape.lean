/-
C20 — helper lemmas for `ts_mape` (core Lean only): the regenerated slices are `[1:]` / `[:-1]`,
every term of both sums is non-negative, no step raises.
-/
import MlVerif.Lemmas.TimeSeries
namespace MlVerif.TimeSeries
open MlVerif.Gen.C20

theorem sl_tail {α} (l : List α) : pySliceO l (some 1, none) = l.drop 1 := by
  cases l with
  | nil => simp [pySliceO, pySlice, normIdx]
  | cons x xs =>
    have : ¬ ((xs.length : Int) + 1 < 0) := by omega
    simp [pySliceO, pySlice, normIdx, this]

theorem sl_init {α} (l : List α) : pySliceO l (none, some (-1)) = l.take (l.length - 1) := by
  simp [pySliceO, pySlice, normIdx]
  congr 1
  omega

theorem rabs_nonneg (x : Rat) : 0 ≤ rabs x := by
  unfold rabs; split <;> grind

theorem rat_div_nonneg (a b : Rat) (ha : 0 ≤ a) (hb : 0 < b) : 0 ≤ a / b := by
  have hb0 : b ≠ 0 := by grind
  have h : (a / b) * b = a := Rat.div_mul_cancel hb0
  apply Rat.le_of_mul_le_mul_right (c := b) _ hb
  rw [h]; simpa using ha

/-- every unmasked entry is non-negative -/
def NN (l : List MV) : Prop := ∀ x ∈ l, ∀ v, x = some v → 0 ≤ v

theorem absDiff_spec (a b d : List MV) (h : absDiff a b = .ok d) : NN d ∧ d.length = a.length := by
  unfold absDiff at h
  split at h
  · rename_i hl
    cases h
    refine ⟨?_, by simp [hl]⟩
    clear hl
    induction a generalizing b with
    | nil => intro x hx; simp at hx
    | cons u us ih =>
      cases b with
      | nil => intro x hx; simp at hx
      | cons v vs =>
        intro x hx
        simp only [List.zipWith_cons_cons, List.mem_cons] at hx
        rcases hx with rfl | hx
        · intro q hq
          cases u <;> cases v <;> simp at hq
          rw [← hq]; exact rabs_nonneg _
        · exact ih vs x hx
  · cases h

theorem mulW_spec (a : List MV) (w : List Rat) (d : List MV) (ha : NN a) (hw : ∀ v ∈ w, 0 ≤ v)
    (h : mulW a w = .ok d) : NN d := by
  unfold mulW at h
  split at h
  · rename_i hl
    cases h
    clear hl
    induction a generalizing w with
    | nil => intro x hx; simp at hx
    | cons u us ih =>
      cases w with
      | nil => intro x hx; simp at hx
      | cons v vs =>
        intro x hx
        simp only [List.zipWith_cons_cons, List.mem_cons] at hx
        rcases hx with rfl | hx
        · intro q hq
          cases u with
          | none => simp at hq
          | some u =>
            simp at hq
            rw [← hq]
            exact Rat.mul_nonneg (ha (some u) (by simp) u rfl) (hw v (by simp))
        · exact ih vs (fun y hy => ha y (by simp [hy])) (fun y hy => hw y (by simp [hy])) x hx
  · cases h

theorem sum_getD_nonneg (l : List MV) (h : NN l) : 0 ≤ (l.map (fun x => x.getD 0)).sum := by
  induction l with
  | nil => simp
  | cons x xs ih =>
    have h1 := ih (fun y hy => h y (by simp [hy]))
    have h2 : (0 : Rat) ≤ x.getD 0 := by
      cases x with
      | none => simp
      | some v => simpa using h (some v) (by simp) v rfl
    simp only [List.map_cons, List.sum_cons]
    grind

theorem msum_nonneg (l : List MV) (h : NN l) : ∀ s, msum l = some s → 0 ≤ s := by
  intro s hs
  unfold msum at hs
  split at hs
  · cases hs
  · cases hs; exact sum_getD_nonneg l h


/-! ### the regenerated slices and constants -/

/-- the slices of `ts_mape` are the ones the statement needs: `[1:]` against `[:-1]` for the naive
forecast, `[1:]` against `[1:]` for the forecast, weights `[1:]`, `mask2[1:] |= isnan(pred[:-1])` -/
def MapeSlicesOK : Prop :=
  Mape.maskDst = (some 1, none) ∧ Mape.maskSrc = (none, some (-1)) ∧
  Mape.den1 = (none, some (-1)) ∧ Mape.den2 = (some 1, none) ∧
  Mape.num1 = (some 1, none) ∧ Mape.num2 = (some 1, none) ∧
  Mape.wden1 = (none, some (-1)) ∧ Mape.wden2 = (some 1, none) ∧ Mape.wdenW = (some 1, none) ∧
  Mape.wnum1 = (some 1, none) ∧ Mape.wnum2 = (some 1, none) ∧ Mape.wnumW = (some 1, none)

/-- the two constant results exist and are `0` and `+inf` -/
def MapeConstsOK : Prop :=
  constOf Mape.zeroOverZero = .num 0 ∧ constOf Mape.nonzeroOverZero = .inf

/-- `mask2` -/
def mask2Of (mask : List Bool) : List Bool :=
  mask.take 1 ++ List.zipWith (· || ·) (mask.drop 1) (mask.take (mask.length - 1))

theorem mask2Of_length (mask : List Bool) : (mask2Of mask).length = mask.length := by
  unfold mask2Of
  cases mask with
  | nil => simp
  | cons m ms => simp <;> omega

theorem mapeArrays_ok (hS : MapeSlicesOK) (e : List Rat) (p : List (Option Rat)) :
    mapeArrays e p = .ok (mkMasked e (p.map Option.isNone),
      mkMasked (p.map (fun v => v.getD 0)) (mask2Of (p.map Option.isNone))) := by
  unfold mapeArrays
  dsimp only
  rw [hS.1, hS.2.1, sl_init]
  generalize p.map Option.isNone = mask
  unfold orInto mask2Of
  cases mask with
  | nil => simp [normIdx]
  | cons m ms =>
    have : ¬ ((1 : Int) < 0) := by omega
    simp [normIdx, this]

theorem mkMasked_length (v : List Rat) (m : List Bool) (h : v.length = m.length) :
    (mkMasked v m).length = v.length := by
  simp [mkMasked, h]

theorem mem_pySliceO {α} (l : List α) (s : Option Int × Option Int) (x : α) (h : x ∈ pySliceO l s) : x ∈ l := by
  unfold pySliceO pySlice at h
  exact List.mem_of_mem_drop (List.mem_of_mem_take h)

/-- a sum `numpy.sum(numpy.abs(a[s1] - b[s2]) [* w[s3]])` over slices of equal length with non-negative
weights does not raise and is masked or non-negative -/
theorem term_nn (a b : List MV) (s1 s2 : Option Int × Option Int)
    (wopt : Option (List Rat × (Option Int × Option Int)))
    (hl : (pySliceO a s1).length = (pySliceO b s2).length)
    (hw : ∀ w s3, wopt = some (w, s3) → (pySliceO w s3).length = (pySliceO a s1).length ∧ ∀ v ∈ w, 0 ≤ v) :
    ∃ r, term a b s1 s2 wopt = .ok r ∧ ∀ s, r = some s → 0 ≤ s := by
  unfold term
  have hd : ∃ d, absDiff (pySliceO a s1) (pySliceO b s2) = .ok d := by
    unfold absDiff; rw [if_pos hl]; exact ⟨_, rfl⟩
  obtain ⟨d, hd⟩ := hd
  obtain ⟨hnn, hdl⟩ := absDiff_spec _ _ d hd
  rw [hd]
  cases wopt with
  | none => exact ⟨msum d, rfl, msum_nonneg d hnn⟩
  | some ws =>
    obtain ⟨w, s3⟩ := ws
    obtain ⟨hwl, hwn⟩ := hw w s3 rfl
    have hm : ∃ dw, mulW d (pySliceO w s3) = .ok dw := by
      unfold mulW; rw [if_pos (by rw [hdl, hwl])]; exact ⟨_, rfl⟩
    obtain ⟨dw, hm⟩ := hm
    simp only [hm]
    exact ⟨msum dw, rfl, msum_nonneg dw (mulW_spec d _ dw hnn (fun v hv => hwn v (mem_pySliceO w s3 v hv)) hm)⟩

theorem len_tail {α} (l : List α) : (pySliceO l (some 1, none)).length = l.length - 1 := by
  rw [sl_tail]; simp
theorem len_init {α} (l : List α) : (pySliceO l (none, some (-1))).length = l.length - 1 := by
  rw [sl_init]; simp <;> omega

/-- both sums of `ts_mape` are defined (no exception) and masked or non-negative -/
theorem mape_sums_nn (hS : MapeSlicesOK) (e : List Rat) (p : List (Option Rat)) (w : Option (List Rat))
    (hlen : e.length = p.length)
    (hw : ∀ wv, w = some wv → wv.length = e.length ∧ ∀ v ∈ wv, 0 ≤ v) :
    (∃ r, mapeDen e p w = .ok r ∧ ∀ s, r = some s → 0 ≤ s) ∧
    (∃ r, mapeNum e p w = .ok r ∧ ∀ s, r = some s → 0 ≤ s) := by
  obtain ⟨_, _, h3, h4, h5, h6, h7, h8, h9, h10, h11, h12⟩ := hS
  have hE : (mkMasked e (p.map Option.isNone)).length = e.length := mkMasked_length _ _ (by simp [hlen])
  have hP : (mkMasked (p.map (fun v => v.getD 0)) (mask2Of (p.map Option.isNone))).length = e.length := by
    rw [mkMasked_length _ _ (by rw [mask2Of_length]; simp)]; simp [hlen]
  unfold mapeDen mapeNum
  rw [mapeArrays_ok ⟨‹_›, ‹_›, h3, h4, h5, h6, h7, h8, h9, h10, h11, h12⟩ e p]
  simp only
  cases w with
  | none =>
    simp only [h3, h4, h5, h6]
    exact ⟨term_nn _ _ _ _ none (by rw [len_init, len_tail]) (by intro w s3 h; cases h),
      term_nn _ _ _ _ none (by rw [len_tail, len_tail, hE, hP]) (by intro w s3 h; cases h)⟩
  | some wv =>
    obtain ⟨hwl, hwn⟩ := hw wv rfl
    simp only [h7, h8, h9, h10, h11, h12]
    refine ⟨term_nn _ _ _ _ _ (by rw [len_init, len_tail]) ?_, term_nn _ _ _ _ _ (by rw [len_tail, len_tail, hE, hP]) ?_⟩
    · intro w' s3 h; cases h
      exact ⟨by rw [len_tail, len_init, hE, hwl], hwn⟩
    · intro w' s3 h; cases h
      exact ⟨by rw [len_tail, len_tail, hP, hwl], hwn⟩

/-- `ts_mape` on two series of equal length `≠ 1` with non-negative weights: masked, `+inf` or a
non-negative number — never an exception -/
theorem tsMape_cases (hS : MapeSlicesOK) (hC : MapeConstsOK) (e : List Rat) (p : List (Option Rat))
    (w : Option (List Rat)) (hlen : e.length = p.length) (hn1 : e.length ≠ 1)
    (hw : ∀ wv, w = some wv → wv.length = e.length ∧ ∀ v ∈ wv, 0 ≤ v) :
    tsMape e p w = .masked ∨ tsMape e p w = .inf ∨ ∃ q, 0 ≤ q ∧ tsMape e p w = .num q := by
  obtain ⟨⟨d1, hd1, hd1n⟩, ⟨d2, hd2, hd2n⟩⟩ := mape_sums_nn hS e p w hlen hw
  unfold tsMape
  rw [if_neg (by simpa using hlen), if_neg hn1, hd1, hd2]
  simp only
  unfold mapeFinal
  cases d1 with
  | none => exact Or.inl rfl
  | some a =>
    have ha := hd1n a rfl
    by_cases ha0 : a = 0
    · simp only [ha0, if_true]
      cases d2 with
      | none => right; left; exact hC.2
      | some b =>
        by_cases hb0 : b = 0
        · right; right; exact ⟨0, by simp, by simp [hb0, hC.1]⟩
        · right; left; simp [hb0, hC.2]
    · simp only [ha0, if_false]
      cases d2 with
      | none => exact Or.inl rfl
      | some b =>
        right; right
        exact ⟨b / a, rat_div_nonneg b a (hd2n b rfl) (by grind), rfl⟩

/-! ### the naive previous-value forecast -/

theorem mkMasked_false (l : List Rat) : ∀ k, l.length ≤ k → mkMasked l (List.replicate k false) = l.map some := by
  induction l with
  | nil => intro k _; simp [mkMasked]
  | cons x xs ih =>
    intro k hk
    cases k with
    | zero => simp at hk
    | succ k =>
      have := ih k (by simpa using hk)
      simp only [mkMasked] at this ⊢
      simp [List.replicate_succ, this]

theorem dropLast_cons_replicate {α} (b : α) (m : Nat) : (b :: List.replicate m b).dropLast = List.replicate m b := by
  induction m with
  | zero => simp
  | succ m ih => simp [List.replicate_succ] at ih ⊢

theorem take_cons_replicate {α} (b : α) (m : Nat) : (b :: List.replicate m b).take m = List.replicate m b := by
  have := dropLast_cons_replicate b m
  rw [List.dropLast_eq_take] at this
  simpa using this

theorem zipor_false (k : Nat) :
    List.zipWith (fun x1 x2 => x1 || x2) (List.replicate k false) (List.replicate k false) = List.replicate k false := by
  induction k with
  | zero => simp
  | succ k ih => simp [List.replicate_succ]

theorem map_isNone_some (es : List Rat) : List.map (Option.isNone ∘ some) es = List.replicate es.length false := by
  induction es with
  | nil => simp
  | cons x xs ih => simp [List.replicate_succ, ih]

theorem map_getD_some (es : List Rat) : List.map ((fun v => v.getD 0) ∘ some) es = es := by
  induction es with
  | nil => simp
  | cons x xs ih => simp [ih]

/-- for the naive forecast, the forecast rows `[1:]` are the expected rows `[:-1]` (values and masks) -/
theorem naive_shift (e : List Rat) :
    (mkMasked ((naive e).map (fun v => v.getD 0)) (mask2Of ((naive e).map Option.isNone))).drop 1 =
    (mkMasked e ((naive e).map Option.isNone)).take ((mkMasked e ((naive e).map Option.isNone)).length - 1) := by
  cases e with
  | nil => simp [naive, mkMasked, mask2Of]
  | cons e0 es =>
    have hmask : (naive (e0 :: es)).map Option.isNone = true :: List.replicate es.length false := by
      simp [naive, map_isNone_some]
    have hvals : (naive (e0 :: es)).map (fun v => v.getD 0) = 0 :: (e0 :: es).dropLast := by
      simp [naive, map_getD_some]
    rw [hmask, hvals]
    cases es with
    | nil => simp [mkMasked, mask2Of]
    | cons e1 es' =>
      have h1 := mkMasked_false (e1 :: es') (es'.length + 1) (by simp)
      have h2 := mkMasked_false ((e1 :: es').dropLast) es'.length (by simp)
      simp only [mkMasked] at h1 h2
      simp [mkMasked, mask2Of, List.replicate_succ, List.dropLast_eq_take] at h1 h2 ⊢
      rw [take_cons_replicate, zipor_false, h1]
      exact h2


/-- numerator and denominator of `ts_mape` coincide on the naive forecast, with or without weights -/
theorem naive_num_eq_den (hS : MapeSlicesOK) (e : List Rat) (w : Option (List Rat)) :
    mapeNum e (naive e) w = mapeDen e (naive e) w := by
  have hsh := naive_shift e
  rw [← sl_tail, ← sl_init] at hsh
  obtain ⟨h1, h2, h3, h4, h5, h6, h7, h8, h9, h10, h11, h12⟩ := hS
  unfold mapeNum mapeDen
  rw [mapeArrays_ok ⟨h1, h2, h3, h4, h5, h6, h7, h8, h9, h10, h11, h12⟩ e (naive e)]
  simp only
  cases w with
  | none =>
    simp only [h3, h4, h5, h6]
    unfold term
    rw [hsh]
  | some wv =>
    simp only [h7, h8, h9, h10, h11, h12]
    unfold term
    rw [hsh]

theorem naive_length (e : List Rat) : (naive e).length = e.length := by
  cases e with
  | nil => rfl
  | cons x xs => simp [naive]

end MlVerif.TimeSeries
