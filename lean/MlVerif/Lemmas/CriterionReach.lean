/-
C09 — every state the splitter can reach after `init` (any sequence of `update`, `reset` and
`proxy_impurity_improvement`, which writes the child weights) keeps the `Criterion` fields right.
-/
import MlVerif.Lemmas.CriterionAccess
namespace MlVerif.Criterion
open MlVerif.Gen MlVerif.Gen.C09

/-- states reachable from `s0` by moving `pos` inside `[start, stop]` and evaluating the proxy -/
inductive Reach {σ : Type} (o : Ops σ) (start stop : Int) (s0 : σ) : σ → Prop where
  | init : Reach o start stop s0 s0
  | update {s : σ} (q : Int) : Reach o start stop s0 s → start ≤ q → q ≤ stop →
      Reach o start stop s0 (Criterion.update o s q)
  | reset {s : σ} : Reach o start stop s0 s → Reach o start stop s0 (Criterion.reset o s)
  | proxy {s : σ} : Reach o start stop s0 s →
      Reach o start stop s0 (proxyImpurityImprovement o s).2

/-- what a criterion class must provide for the invariant: `P` is "the accumulators are filled" -/
structure GoodOps {σ : Type} (o : Ops σ) (d : Data) (start stop : Int) (P : σ → Prop) : Prop where
  core_withCore : ∀ s c, o.core (o.withCore s c) = c
  keep : ∀ s c, P s → P (o.withCore s c)
  upd : ∀ s, P s → ∀ p q, start ≤ q → q ≤ stop →
    o.updateWeights s start stop p q = { o.core s with wL := d.W start q, wR := d.W q stop }
  mean : ∀ s, P s → ∀ a b wp, start ≤ a → a ≤ b → b ≤ stop →
    o.mean s a b wp = if a = b then (0, wp) else (d.wmean a b, d.W a b)

theorem Acc.childrenWeights_w {σ : Type} {o : Ops σ} {s : σ} {d : Data} {start pos stop : Int}
    (h : Acc o s d start pos stop) (h1 : start ≤ pos) (h2 : pos ≤ stop) (wl wr : Rat) :
    (childrenImpurityWeights o s wl wr).2.2 =
      (if start = pos then wl else d.W start pos, if pos = stop then wr else d.W pos stop) := by
  simp only [childrenImpurityWeights, chMeanL, chMeanR, h.core.hstart, h.core.hstop, h.core.hpos]
  rw [h.mean start pos wl (by omega) h1 h2, h.mean pos stop wr h1 h2 (by omega)]
  by_cases e1 : start = pos <;> by_cases e2 : pos = stop
  · subst e1; subst e2; simp
  · subst e1; simp [e2]
  · subst e2; simp [e1]
  · simp [e1, e2]

/-- the invariant: filled accumulators, `pos` inside the node, right `Criterion` fields -/
theorem Reach.good {σ : Type} {o : Ops σ} {d : Data} {start stop : Int} {P : σ → Prop}
    (g : GoodOps o d start stop P) (hle : start ≤ stop) {s0 s : σ}
    (h0 : P s0) (c0 : CoreGood (o.core s0) d start start stop) (r : Reach o start stop s0 s) :
    P s ∧ ∃ pos, start ≤ pos ∧ pos ≤ stop ∧ CoreGood (o.core s) d start pos stop := by
  induction r with
  | init => exact ⟨h0, start, by omega, hle, c0⟩
  | update q _ hq1 hq2 ih =>
    obtain ⟨hp, pos, _, _, hc⟩ := ih
    refine ⟨g.keep _ _ hp, q, hq1, hq2, ?_⟩
    simp only [Criterion.update, updateArgs, updatePos, hc.hstart, hc.hstop, g.core_withCore]
    rw [g.upd _ hp _ q hq1 hq2]
    exact ⟨hc.hstart, rfl, hc.hstop, hc.hwN, hc.hwNode, rfl, rfl⟩
  | reset _ ih =>
    obtain ⟨hp, pos, _, _, hc⟩ := ih
    refine ⟨g.keep _ _ hp, start, by omega, hle, ?_⟩
    simp only [Criterion.reset, resetArgs, resetPos, hc.hstart, hc.hstop, g.core_withCore]
    rw [g.upd _ hp _ start (by omega) hle]
    exact ⟨hc.hstart, rfl, hc.hstop, hc.hwN, hc.hwNode, rfl, rfl⟩
  | @proxy s' _ ih =>
    obtain ⟨hp, pos, hp1, hp2, hc⟩ := ih
    have acc : Acc o s' d start pos stop := ⟨hc, g.mean _ hp⟩
    refine ⟨?_, pos, hp1, hp2, ?_⟩
    · simp only [proxyImpurityImprovement]; split <;> exact g.keep _ _ hp
    · have hw := acc.childrenWeights_w hp1 hp2 (o.core s').wL (o.core s').wR
      have e : (proxyImpurityImprovement o s').2 = o.withCore s'
          { o.core s' with
            wL := (childrenImpurityWeights o s' (o.core s').wL (o.core s').wR).2.2.1,
            wR := (childrenImpurityWeights o s' (o.core s').wL (o.core s').wR).2.2.2 } := by
        simp only [proxyImpurityImprovement]; split <;> rfl
      rw [e, g.core_withCore]
      have h1 := congrArg Prod.fst hw
      have h2 := congrArg Prod.snd hw
      simp only at h1 h2
      rw [h1, h2, hc.hwL, hc.hwR]
      refine ⟨hc.hstart, hc.hpos, hc.hstop, hc.hwN, hc.hwNode, ?_, ?_⟩
      · simp only; split <;> rfl
      · simp only; split <;> rfl

theorem Simple.goodOps (d : Data) (start stop : Int) :
    GoodOps Simple.ops d start stop (fun s => Simple.Filled s d start stop) where
  core_withCore := fun _ _ => rfl
  keep := fun _ c h => Simple.filled_withCore c h
  upd := fun s h p q h1 h2 => Simple.upd_good s.sample_w h.w s.core p q h1 h2
  mean := fun _ h a b wp h1 h2 h3 => Simple.mean_filled h a b wp h1 h2 h3

theorem Fast.goodOps (d : Data) (start stop : Int) (h0 : 0 ≤ start) (hlt : start < stop) :
    GoodOps Fast.ops d start stop (fun s => Fast.Filled s d start stop) where
  core_withCore := fun _ _ => rfl
  keep := fun _ _ h => ⟨h.w, h.wy, h.wyy, h.zw, h.zwy, h.zwyy⟩
  upd := fun s h p q h1 h2 => Fast.upd_good s.w_left h.w h.zw s.core p q h0 h1 h2 hlt
  mean := fun _ h a b wp h1 h2 h3 => Fast.mean_filled h a b wp h0 h1 h2 h3

theorem Linear.goodOps (solve : Solver) (d : Data) (start stop : Int) :
    GoodOps (Linear.ops solve) d start stop (fun s => Linear.Filled s d start stop) where
  core_withCore := fun _ _ => rfl
  keep := fun _ c h => Linear.filled_withCore c h
  upd := fun s h p q h1 h2 => Linear.upd_good s.sample_w h.w s.core p q h1 h2
  mean := fun _ h a b wp h1 _ h3 => Linear.mean_filled h a b wp h1 h3

end MlVerif.Criterion
