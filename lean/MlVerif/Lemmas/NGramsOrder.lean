/-
C14 — `" ".join` on tuples of non-empty tokens whose characters are all greater than `' '` is
injective and strictly monotone from tuple order (lexicographic over `str` order) to `str` order.
Core Lean only.  `<` on `Tok = List Char` is Python's `str` order (code points, lexicographic);
`<` on `List Tok` is Python's tuple order.
-/
import MlVerif.Model.NGrams

namespace MlVerif.NGrams
open MlVerif.Gen.C14

/-- what the default `token_pattern` `(?u)\b\w\w+\b` guarantees: non-empty, no character ≤ `' '` -/
def goodTok (t : Tok) : Prop := t ≠ [] ∧ ∀ c ∈ t, ' ' < c
def goodTup (g : List Tok) : Prop := ∀ t ∈ g, goodTok t

/-- what follows the first token in `join (t :: r)` -/
def sfx (r : List Tok) : Tok :=
  match r with
  | [] => []
  | _ :: _ => ' ' :: join r

theorem join_nil : join [] = [] := rfl

theorem join_cons (t : Tok) (r : List Tok) : join (t :: r) = t ++ sfx r := by
  cases r with
  | nil => simp [join, List.intercalate, sfx]
  | cons t' r => simp [join, List.intercalate, sfx, List.intersperse]

theorem sfx_shape (r : List Tok) : sfx r = [] ∨ ∃ u, sfx r = ' ' :: u := by
  cases r with
  | nil => exact Or.inl rfl
  | cons t r => exact Or.inr ⟨_, rfl⟩

theorem lt_append_of_lt : ∀ (t1 t2 s1 s2 : Tok), t1 < t2 → (∀ c ∈ t2, ' ' < c) →
    (s1 = [] ∨ ∃ u, s1 = ' ' :: u) → t1 ++ s1 < t2 ++ s2 := by
  intro t1
  induction t1 with
  | nil =>
    intro t2 s1 s2 h h2 hs
    cases t2 with
    | nil => exact absurd h (List.lt_irrefl _)
    | cons b u =>
      cases hs with
      | inl e => subst e; exact List.nil_lt_cons _ _
      | inr e =>
        obtain ⟨u', rfl⟩ := e
        exact List.cons_lt_cons_iff.2 (Or.inl (h2 b (by simp)))
  | cons a t1 ih =>
    intro t2 s1 s2 h h2 hs
    cases t2 with
    | nil => exact absurd h (by simp)
    | cons b t2 =>
      rcases List.cons_lt_cons_iff.1 h with hab | ⟨rfl, ht⟩
      · exact List.cons_lt_cons_iff.2 (Or.inl hab)
      · exact List.cons_lt_cons_iff.2 (Or.inr ⟨rfl, ih t2 s1 s2 ht (fun c hc => h2 c (by simp [hc])) hs⟩)

theorem append_lt_append_left (l a b : Tok) (h : a < b) : l ++ a < l ++ b := by
  induction l with
  | nil => exact h
  | cons c l ih => exact List.cons_lt_cons_iff.2 (Or.inr ⟨rfl, ih⟩)

/-- strictly monotone: tuple order ⇒ order of the joined strings -/
theorem join_strictMono : ∀ g1 g2 : List Tok, goodTup g1 → goodTup g2 → g1 < g2 → join g1 < join g2 := by
  intro g1
  induction g1 with
  | nil =>
    intro g2 _ h2 h
    cases g2 with
    | nil => exact absurd h (List.lt_irrefl _)
    | cons t r =>
      rw [join_nil, join_cons]
      have : t ≠ [] := (h2 t (by simp)).1
      cases t with
      | nil => exact absurd rfl this
      | cons c t => exact List.nil_lt_cons _ _
  | cons t1 r1 ih =>
    intro g2 h1 h2 h
    cases g2 with
    | nil => exact absurd h (by simp)
    | cons t2 r2 =>
      rw [join_cons, join_cons]
      rcases List.cons_lt_cons_iff.1 h with hlt | ⟨rfl, hr⟩
      · exact lt_append_of_lt t1 t2 _ _ hlt (h2 t2 (by simp)).2 (sfx_shape r1)
      · apply append_lt_append_left
        cases r1 with
        | nil =>
          cases r2 with
          | nil => exact absurd hr (List.lt_irrefl _)
          | cons b r2 => exact List.nil_lt_cons _ _
        | cons a r1 =>
          cases r2 with
          | nil => exact absurd hr (by simp)
          | cons b r2 =>
            show ' ' :: join (a :: r1) < ' ' :: join (b :: r2)
            exact List.cons_lt_cons_iff.2 (Or.inr ⟨rfl,
              ih (b :: r2) (fun t ht => h1 t (by simp [ht])) (fun t ht => h2 t (by simp [ht])) hr⟩)

theorem join_lt_iff (g1 g2 : List Tok) (h1 : goodTup g1) (h2 : goodTup g2) :
    g1 < g2 ↔ join g1 < join g2 := by
  refine ⟨join_strictMono g1 g2 h1 h2, fun h => ?_⟩
  rcases Std.lt_trichotomy g1 g2 with hlt | heq | hgt
  · exact hlt
  · subst heq; exact absurd h (List.lt_irrefl _)
  · exact absurd (join_strictMono g2 g1 h2 h1 hgt) (List.lt_asymm h)

theorem join_injective (g1 g2 : List Tok) (h1 : goodTup g1) (h2 : goodTup g2) (h : join g1 = join g2) :
    g1 = g2 := by
  rcases Std.lt_trichotomy g1 g2 with hlt | heq | hgt
  · have := join_strictMono g1 g2 h1 h2 hlt
    rw [h] at this; exact absurd this (List.lt_irrefl _)
  · exact heq
  · have := join_strictMono g2 g1 h2 h1 hgt
    rw [h] at this; exact absurd this (List.lt_irrefl _)

end MlVerif.NGrams
