/-
C13 — real-valued interpretation of the `available_fcts` chains and soundness of the
syntactic inverse check (`FctTable.checkEntry`).

Trusted identifications (recorded in the property's trusted base):
`numpy.log`/`numpy.exp` are `Real.log`/`Real.exp` on their domains, `numpy.log1p x` is
`Real.log (1 + x)`, `numpy.expm1 x` is `Real.exp x - 1`; floats are read as reals.
`Real.log` is total in Mathlib (`log 0 = 0`, `log (-x) = log x`), so the domain of every
function is an explicit predicate: `log` on `0 < y`, `log1p` / `log(1+x)` on `-1 < y`.
-/
import Mathlib.Analysis.SpecialFunctions.Log.Basic
import MlVerif.Model.FctTable

namespace MlVerif.FctTable

/-- the real function denoted by a primitive -/
noncomputable def evalPrim : Prim → ℝ → ℝ
  | .log, y => Real.log y
  | .exp, y => Real.exp y
  | .log1p, y => Real.log (1 + y)
  | .expm1, y => Real.exp y - 1
  | .addC c, y => y + (c : ℝ)
  | .unknown _, y => y

/-- where the primitive is defined (numpy returns nan or -inf outside) -/
def domPrim : Prim → ℝ → Prop
  | .log, y => 0 < y
  | .log1p, y => 0 < 1 + y
  | .unknown _, _ => False
  | .exp, _ => True
  | .expm1, _ => True
  | .addC _, _ => True

/-- the real function denoted by a chain (innermost primitive first) -/
noncomputable def eval : List Prim → ℝ → ℝ
  | [], y => y
  | p :: ps, y => eval ps (evalPrim p y)

/-- the domain of a chain: every primitive is applied inside its own domain -/
def dom : List Prim → ℝ → Prop
  | [], _ => True
  | p :: ps, y => domPrim p y ∧ dom ps (evalPrim p y)

theorem eval_append (a b : List Prim) (y : ℝ) : eval (a ++ b) y = eval b (eval a y) := by
  induction a generalizing y with
  | nil => rfl
  | cons p ps ih => simp [eval, ih]

theorem dom_append (a b : List Prim) (y : ℝ) : dom (a ++ b) y ↔ dom a y ∧ dom b (eval a y) := by
  induction a generalizing y with
  | nil => simp [dom, eval]
  | cons p ps ih => simp [dom, eval, ih, and_assoc]

/-- every primitive maps its domain into the domain of its inverse, which undoes it -/
theorem prim_inverse (p : Prim) (y : ℝ) (h : domPrim p y) :
    domPrim (invPrim p) (evalPrim p y) ∧ evalPrim (invPrim p) (evalPrim p y) = y := by
  cases p with
  | log => exact ⟨trivial, Real.exp_log h⟩
  | exp => exact ⟨Real.exp_pos y, Real.log_exp y⟩
  | log1p =>
    refine ⟨trivial, ?_⟩
    show Real.exp (Real.log (1 + y)) - 1 = y
    rw [Real.exp_log h]; ring
  | expm1 =>
    have e : 1 + (Real.exp y - 1) = Real.exp y := by ring
    refine ⟨?_, ?_⟩
    · show 0 < 1 + (Real.exp y - 1)
      rw [e]; exact Real.exp_pos y
    · show Real.log (1 + (Real.exp y - 1)) = y
      rw [e]; exact Real.log_exp y
  | addC c =>
    refine ⟨trivial, ?_⟩
    show y + (c : ℝ) + ((-c : Int) : ℝ) = y
    push_cast; ring
  | unknown s => exact absurd h (by simp [domPrim])

/-- the syntactic inverse of a chain undoes the chain on its whole domain -/
theorem chain_inverse (c : List Prim) (y : ℝ) (h : dom c y) :
    dom (invChain c) (eval c y) ∧ eval (invChain c) (eval c y) = y := by
  induction c generalizing y with
  | nil => exact ⟨trivial, rfl⟩
  | cons p ps ih =>
    obtain ⟨hp, hps⟩ := h
    obtain ⟨ih1, ih2⟩ := ih (evalPrim p y) hps
    obtain ⟨q1, q2⟩ := prim_inverse p y hp
    have e : invChain (p :: ps) = invChain ps ++ [invPrim p] := by
      simp [invChain]
    rw [e]
    refine ⟨?_, ?_⟩
    · rw [dom_append]
      refine ⟨ih1, ?_⟩
      show domPrim (invPrim p) (eval (invChain ps) (eval ps (evalPrim p y))) ∧ True
      rw [ih2]; exact ⟨q1, trivial⟩
    · rw [eval_append]
      show evalPrim (invPrim p) (eval (invChain ps) (eval ps (evalPrim p y))) = y
      rw [ih2]; exact q2

theorem evalPrim_expand (p : Prim) (y : ℝ) : eval (expandPrim p) y = evalPrim p y := by
  cases p with
  | log1p => show Real.log (y + ((1 : Int) : ℝ)) = Real.log (1 + y); push_cast; rw [add_comm]
  | expm1 => show Real.exp y + ((-1 : Int) : ℝ) = Real.exp y - 1; push_cast; ring
  | log => rfl
  | exp => rfl
  | addC c => rfl
  | unknown s => rfl

theorem domPrim_expand (p : Prim) (y : ℝ) : dom (expandPrim p) y ↔ domPrim p y := by
  cases p with
  | log1p =>
    show (True ∧ 0 < y + ((1 : Int) : ℝ) ∧ True) ↔ 0 < 1 + y
    push_cast; rw [add_comm]; simp
  | expm1 => simp [expandPrim, dom, domPrim]
  | log => simp [expandPrim, dom]
  | exp => simp [expandPrim, dom]
  | addC c => simp [expandPrim, dom]
  | unknown s => simp [expandPrim, dom]

theorem eval_expand (c : List Prim) (y : ℝ) : eval (expand c) y = eval c y := by
  induction c generalizing y with
  | nil => rfl
  | cons p ps ih =>
    have e : expand (p :: ps) = expandPrim p ++ expand ps := by simp [expand]
    rw [e, eval_append, evalPrim_expand, ih]
    rfl

theorem dom_expand (c : List Prim) (y : ℝ) : dom (expand c) y ↔ dom c y := by
  induction c generalizing y with
  | nil => simp [expand, dom]
  | cons p ps ih =>
    have e : expand (p :: ps) = expandPrim p ++ expand ps := by simp [expand]
    rw [e, dom_append, domPrim_expand, evalPrim_expand, ih]
    rfl

/-- soundness of the decidable table check: an accepted entry names an entry whose real
function undoes its own on the whole domain (and the image lies in the inverse's domain) -/
theorem checkEntry_sound (t : Table) (e : Entry) (h : checkEntry t e = true) :
    ∃ g, lookup t e.inv = some g ∧
      ∀ y : ℝ, dom e.fct y → dom g.fct (eval e.fct y) ∧ eval g.fct (eval e.fct y) = y := by
  unfold checkEntry at h
  cases hl : lookup t e.inv with
  | none => rw [hl] at h; exact absurd h (by simp)
  | some g =>
    rw [hl] at h
    simp only [Bool.and_eq_true, decide_eq_true_eq] at h
    refine ⟨g, rfl, ?_⟩
    intro y hy
    have hy' := (dom_expand e.fct y).mpr hy
    obtain ⟨c1, c2⟩ := chain_inverse (expand e.fct) y hy'
    rw [← h.1, eval_expand, dom_expand] at c1
    rw [← h.1, eval_expand, eval_expand] at c2
    exact ⟨c1, c2⟩

theorem invPrim_invPrim (p : Prim) : invPrim (invPrim p) = p := by
  cases p <;> simp [invPrim]

theorem invChain_invChain (c : List Prim) : invChain (invChain c) = c := by
  simp [invChain, List.map_reverse, List.map_map, Function.comp_def, invPrim_invPrim]

/-- the same check read backwards: the entry's own function undoes the named inverse on the whole
domain of that inverse (so `predict = g ∘ inner` satisfies `f (predict) = inner`) -/
theorem checkEntry_sound_back (t : Table) (e : Entry) (h : checkEntry t e = true) :
    ∃ g, lookup t e.inv = some g ∧
      ∀ p : ℝ, dom g.fct p → dom e.fct (eval g.fct p) ∧ eval e.fct (eval g.fct p) = p := by
  unfold checkEntry at h
  cases hl : lookup t e.inv with
  | none => rw [hl] at h; exact absurd h (by simp)
  | some g =>
    rw [hl] at h
    simp only [Bool.and_eq_true, decide_eq_true_eq] at h
    have hb : expand e.fct = invChain (expand g.fct) := by rw [h.1, invChain_invChain]
    refine ⟨g, rfl, ?_⟩
    intro p hp
    have hp' := (dom_expand g.fct p).mpr hp
    obtain ⟨c1, c2⟩ := chain_inverse (expand g.fct) p hp'
    rw [← hb, eval_expand, dom_expand] at c1
    rw [← hb, eval_expand, eval_expand] at c2
    exact ⟨c1, c2⟩

theorem lookup_name (t : Table) (n : String) (e : Entry) (h : lookup t n = some e) :
    e ∈ t ∧ e.name = n := by
  unfold lookup at h
  exact ⟨List.mem_of_find?_eq_some h, by simpa using List.find?_some h⟩

end MlVerif.FctTable
