/-
C09 — lemmas about SimpleRegressorCriterion and SimpleRegressorCriterionFast: what the
accumulators hold after `init_with_X`, what `_mean`/`_mse`/`_update_weights` return on them.
-/
import MlVerif.Lemmas.Criterion
namespace MlVerif.Criterion
open MlVerif.Gen MlVerif.Gen.C09

/-- the accumulators of the node range hold what `init_with_X` must have put there -/
structure Simple.Filled (s : Simple) (d : Data) (start stop : Int) : Prop where
  y : s.y = d.y
  w : ∀ k, start ≤ k → k < stop → s.sample_w k = d.wk k
  wy : ∀ k, start ≤ k → k < stop → s.sample_wy k = d.wk k * d.yk k
  i : ∀ k, start ≤ k → k < stop → s.sample_i k = d.samples k

/-- what every accessor relies on: filled accumulators and the `Criterion` fields -/
structure CoreGood (c : Core) (d : Data) (start pos stop : Int) : Prop where
  hstart : c.start = start
  hpos : c.pos = pos
  hstop : c.stop = stop
  hwN : c.wN = d.wN
  hwNode : c.wNode = d.W start stop
  hwL : c.wL = d.W start pos
  hwR : c.wR = d.W pos stop

theorem Simple.mean_filled {s : Simple} {d : Data} {start stop : Int} (h : Simple.Filled s d start stop)
    (a b : Int) (wp : Rat) (h1 : start ≤ a) (_h2 : a ≤ b) (h3 : b ≤ stop) :
    Simple.mean s a b wp = if a = b then (0, wp) else (d.wmean a b, d.W a b) := by
  unfold Simple.mean
  split
  · rfl
  · simp only [simpleMeanRange, loop_acc2]
    have e1 : rsum (fun k => s.sample_wy k) a b = d.WY a b := by
      unfold Data.WY; apply rsum_congr; intro k hk1 hk2; exact h.wy k (by omega) (by omega)
    have e2 : rsum (fun k => s.sample_w k) a b = d.W a b := by
      unfold Data.W; apply rsum_congr; intro k hk1 hk2; exact h.w k (by omega) (by omega)
    rw [e1, e2]
    unfold Data.wmean
    ext <;> simp <;> grind

theorem Simple.mse_filled {s : Simple} {d : Data} {start stop : Int} (h : Simple.Filled s d start stop)
    (a b : Int) (h1 : start ≤ a) (h2 : a ≤ b) (h3 : b ≤ stop) :
    Simple.mse s a b (d.wmean a b) (d.W a b) = d.wmse a b := by
  unfold Simple.mse Data.wmse
  split
  · next hab => subst hab; simp [Data.W, rsum_empty]
  · simp only [simpleMseRange, loop_acc]
    have e : rsum (fun k => (s.y (s.sample_i k) - d.wmean a b) ^ 2 * s.sample_w k) a b
        = rsum (fun k => d.wk k * (d.yk k - d.wmean a b) ^ 2) a b := by
      apply rsum_congr; intro k hk1 hk2
      rw [h.i k (by omega) (by omega), h.w k (by omega) (by omega), h.y]
      simp only [Data.yk]; grind
    rw [e]; grind

theorem applyUpd_loops (u : UpdSpec) (hk : u.kind = UpdKind.loops) (wbuf : Buf) (c : Core)
    (a b p q : Int) :
    applyUpd u wbuf c a b p q =
      { c with wL := rsum wbuf (u.leftLo a b p q) (u.leftHi a b p q),
               wR := rsum wbuf (u.rightLo a b p q) (u.rightHi a b p q) } := by
  have hL : ∀ (lo hi : Int) (c : Core),
      loop (lo, hi) (fun k (c : Core) => { c with wL := c.wL + wbuf k }) c
        = { c with wL := c.wL + rsum wbuf lo hi } := by
    intro lo hi c
    simp only [loop, rsum]
    generalize (hi - lo).toNat = n
    induction n generalizing c with
    | zero => simp only [loopN, rsumN]; cases c; simp; grind
    | succ n ih => rw [loopN_last, ih]; simp only [rsumN]; cases c; simp; grind
  have hR : ∀ (lo hi : Int) (c : Core),
      loop (lo, hi) (fun k (c : Core) => { c with wR := c.wR + wbuf k }) c
        = { c with wR := c.wR + rsum wbuf lo hi } := by
    intro lo hi c
    simp only [loop, rsum]
    generalize (hi - lo).toNat = n
    induction n generalizing c with
    | zero => simp only [loopN, rsumN]; cases c; simp; grind
    | succ n ih => rw [loopN_last, ih]; simp only [rsumN]; cases c; simp; grind
  unfold applyUpd
  rw [hk]
  simp only [hL, hR]
  cases c; simp; constructor <;> grind

theorem Simple.initLoop (d : Data) (s0 : Simple) (start : Int) (n : Nat) :
    (loopN n start (Simple.initBody d) s0).core = s0.core ∧
    (loopN n start (Simple.initBody d) s0).y = s0.y ∧
    (∀ k, (loopN n start (Simple.initBody d) s0).sample_w k =
      if start ≤ k ∧ k < start + n then d.wk k else s0.sample_w k) ∧
    (∀ k, (loopN n start (Simple.initBody d) s0).sample_wy k =
      if start ≤ k ∧ k < start + n then d.wk k * d.yk k else s0.sample_wy k) ∧
    (∀ k, (loopN n start (Simple.initBody d) s0).sample_i k =
      if start ≤ k ∧ k < start + n then d.samples k else s0.sample_i k) ∧
    (loopN n start (Simple.initBody d) s0).sum_w = s0.sum_w + rsumN d.wk start n ∧
    (loopN n start (Simple.initBody d) s0).sum_wy
      = s0.sum_wy + rsumN (fun k => d.wk k * d.yk k) start n := by
  induction n with
  | zero =>
    simp only [loopN, rsumN]
    refine ⟨trivial, trivial, ?_, ?_, ?_, by grind, by grind⟩ <;> intro k <;> simp <;> omega
  | succ n ih =>
    rw [loopN_last]
    obtain ⟨h1, h2, h3, h4, h5, h6, h7⟩ := ih
    generalize loopN n start (Simple.initBody d) s0 = s at *
    simp only [Simple.initBody, rsumN, bset, Data.wk, Data.yk] at *
    refine ⟨h1, h2, ?_, ?_, ?_, ?_, ?_⟩
    · intro k; rw [h3 k]; push_cast; grind
    · intro k; rw [h4 k]; push_cast; grind
    · intro k; rw [h5 k]; push_cast; grind
    · rw [h6]; simp; grind
    · rw [h7]; simp; grind

theorem Simple.filled_withCore {s : Simple} {d : Data} {start stop : Int} (c : Core)
    (h : Simple.Filled s d start stop) : Simple.Filled { s with core := c } d start stop :=
  ⟨h.y, h.w, h.wy, h.i⟩

/-- `_update_weights` of the simple criterion computes the true child weights -/
theorem Simple.upd_good {d : Data} {start stop : Int} (wbuf : Buf)
    (hw : ∀ k, start ≤ k → k < stop → wbuf k = d.wk k)
    (c : Core) (p q : Int) (h1 : start ≤ q) (h2 : q ≤ stop) :
    applyUpd simpleUpd wbuf c start stop p q
      = { c with wL := d.W start q, wR := d.W q stop } := by
  rw [applyUpd_loops simpleUpd (by rfl)]
  have eL : rsum wbuf (simpleUpd.leftLo start stop p q) (simpleUpd.leftHi start stop p q)
      = d.W start q := by
    simp only [simpleUpd, Data.W]
    apply rsum_congr; intro k hk1 hk2; exact hw k (by omega) (by omega)
  have eR : rsum wbuf (simpleUpd.rightLo start stop p q) (simpleUpd.rightHi start stop p q)
      = d.W q stop := by
    simp only [simpleUpd, Data.W]
    apply rsum_congr; intro k hk1 hk2; exact hw k (by omega) (by omega)
  rw [eL, eR]

theorem Simple.init_good (prev : Simple) (d : Data) (start stop : Int) (h : start ≤ stop) :
    Simple.Filled (Simple.initWithX prev d start stop) d start stop ∧
    CoreGood (Simple.initWithX prev d start stop).core d start start stop := by
  unfold Simple.initWithX
  simp only [simpleInitRange, loop]
  generalize hs0 : ({ prev with
    core := { prev.core with start := start, pos := start, stop := stop, wN := d.wN },
    y := d.y, sum_wy := 0, sum_w := 0 } : Simple) = s0
  obtain ⟨h1, h2, h3, h4, h5, h6, _⟩ := Simple.initLoop d s0 start (stop - start).toNat
  generalize loopN (stop - start).toNat start (Simple.initBody d) s0 = s1 at *
  have hn : start + ((stop - start).toNat : Int) = stop := by omega
  have hf : Simple.Filled s1 d start stop := by
    refine ⟨by rw [h2, ← hs0], ?_, ?_, ?_⟩
    · intro k hk1 hk2; rw [h3 k, if_pos ⟨hk1, by omega⟩]
    · intro k hk1 hk2; rw [h4 k, if_pos ⟨hk1, by omega⟩]
    · intro k hk1 hk2; rw [h5 k, if_pos ⟨hk1, by omega⟩]
  have hsum : s1.sum_w = d.W start stop := by
    rw [h6, ← hs0]; simp only [Data.W, rsum]; grind
  have hc : s1.core = { prev.core with start := start, pos := start, stop := stop, wN := d.wN } := by
    rw [h1, ← hs0]
  simp only [reset, Simple.ops, resetArgs, resetPos, hc]
  rw [Simple.upd_good _ hf.w _ _ _ (by omega) h]
  refine ⟨⟨hf.y, hf.w, hf.wy, hf.i⟩, ⟨rfl, rfl, rfl, rfl, hsum, rfl, rfl⟩⟩

theorem Simple.update_good {s : Simple} {d : Data} {start pos stop : Int} (q : Int)
    (hf : Simple.Filled s d start stop) (hc : CoreGood s.core d start pos stop)
    (h1 : start ≤ q) (h2 : q ≤ stop) :
    Simple.Filled (update Simple.ops s q) d start stop ∧
    CoreGood (update Simple.ops s q).core d start q stop := by
  simp only [update, Simple.ops, updateArgs, updatePos, hc.hstart, hc.hstop]
  rw [Simple.upd_good _ hf.w _ _ _ h1 h2]
  exact ⟨⟨hf.y, hf.w, hf.wy, hf.i⟩, ⟨hc.hstart, rfl, hc.hstop, hc.hwN, hc.hwNode, rfl, rfl⟩⟩

theorem Fast.zeroLoop (s0 : Fast) (lo : Int) (n : Nat) :
    (loopN n lo Fast.zeroBody s0).core = s0.core ∧
    (loopN n lo Fast.zeroBody s0).y = s0.y ∧
    (loopN n lo Fast.zeroBody s0).nSamples = s0.nSamples ∧
    (∀ k, (loopN n lo Fast.zeroBody s0).w_left k = if lo ≤ k ∧ k < lo + n then 0 else s0.w_left k) ∧
    (∀ k, (loopN n lo Fast.zeroBody s0).wy_left k = if lo ≤ k ∧ k < lo + n then 0 else s0.wy_left k) ∧
    (∀ k, (loopN n lo Fast.zeroBody s0).wy2_left k = if lo ≤ k ∧ k < lo + n then 0 else s0.wy2_left k) := by
  induction n with
  | zero =>
    simp only [loopN]
    refine ⟨trivial, trivial, trivial, ?_, ?_, ?_⟩ <;> intro k <;> simp <;> omega
  | succ n ih =>
    rw [loopN_last]
    obtain ⟨h1, h2, h3, h4, h5, h6⟩ := ih
    generalize loopN n lo Fast.zeroBody s0 = s at *
    simp only [Fast.zeroBody, bset] at *
    refine ⟨h1, h2, h3, ?_, ?_, ?_⟩
    · intro k; rw [h4 k]; push_cast; grind
    · intro k; rw [h5 k]; push_cast; grind
    · intro k; rw [h6 k]; push_cast; grind

/-- Σ w y² over samples[lo:hi] -/
def Data.WYY (d : Data) (lo hi : Int) : Rat := rsum (fun k => d.wk k * d.yk k * d.yk k) lo hi

theorem Fast.restLoop (d : Data) (s2 : Fast) (start : Int) (n : Nat)
    (hw : s2.w_left start = d.W start (start + 1))
    (hwy : s2.wy_left start = d.WY start (start + 1))
    (hwyy : s2.wy2_left start = d.WYY start (start + 1)) :
    (loopN n (start + 1) (Fast.restBody d) s2).core = s2.core ∧
    (loopN n (start + 1) (Fast.restBody d) s2).y = s2.y ∧
    (loopN n (start + 1) (Fast.restBody d) s2).nSamples = s2.nSamples ∧
    (∀ k, (loopN n (start + 1) (Fast.restBody d) s2).w_left k =
      if start + 1 ≤ k ∧ k < start + 1 + n then d.W start (k + 1) else s2.w_left k) ∧
    (∀ k, (loopN n (start + 1) (Fast.restBody d) s2).wy_left k =
      if start + 1 ≤ k ∧ k < start + 1 + n then d.WY start (k + 1) else s2.wy_left k) ∧
    (∀ k, (loopN n (start + 1) (Fast.restBody d) s2).wy2_left k =
      if start + 1 ≤ k ∧ k < start + 1 + n then d.WYY start (k + 1) else s2.wy2_left k) := by
  induction n with
  | zero =>
    simp only [loopN]
    refine ⟨trivial, trivial, trivial, ?_, ?_, ?_⟩ <;> intro k <;> simp <;> omega
  | succ n ih =>
    rw [loopN_last]
    obtain ⟨h1, h2, h3, h4, h5, h6⟩ := ih
    generalize loopN n (start + 1) (Fast.restBody d) s2 = s at *
    have key : ∀ (b b2 : Buf) (F : Int → Int → Rat) (f : Int → Rat),
        (∀ lo hi, lo ≤ hi → F lo (hi + 1) = F lo hi + f hi) →
        b2 start = F start (start + 1) →
        (∀ k, b k = if start + 1 ≤ k ∧ k < start + 1 + n then F start (k + 1) else b2 k) →
        ∀ k, bset b (start + 1 + n) (b (start + 1 + n - 1) + f (start + 1 + n)) k =
          if start + 1 ≤ k ∧ k < start + 1 + (n + 1 : Nat) then F start (k + 1) else b2 k := by
      intro b b2 F f hF h0 hb k
      simp only [bset]
      by_cases hk : k = start + 1 + n
      · subst hk
        rw [if_pos rfl, if_pos ⟨by omega, by push_cast; omega⟩, hF start (start + 1 + n) (by omega)]
        congr 1
        rw [hb]
        by_cases hn : n = 0
        · subst hn; simp [h0]
        · rw [if_pos ⟨by omega, by omega⟩]; congr 1; omega
      · rw [if_neg hk, hb k]; push_cast; grind
    simp only [Fast.restBody, fastPrevW, fastPrevWY, fastPrevWY2]
    refine ⟨h1, h2, h3, ?_, ?_, ?_⟩
    · exact key s.w_left s2.w_left d.W d.wk (fun lo hi h => rsum_succ _ lo hi h) hw h4
    · exact key s.wy_left s2.wy_left d.WY (fun k => d.wk k * d.yk k)
        (fun lo hi h => rsum_succ _ lo hi h) hwy h5
    · have := key s.wy2_left s2.wy2_left d.WYY (fun k => d.wk k * d.yk k * d.yk k)
        (fun lo hi h => rsum_succ _ lo hi h) hwyy h6
      exact this


/-- the cumulated buffers of the node range hold prefix sums from `start`, and the cell just
before `start` (read by `_mean`/`_update_weights` when `start > 0`) is zero -/
structure Fast.Filled (s : Fast) (d : Data) (start stop : Int) : Prop where
  w : ∀ k, start ≤ k → k < stop → s.w_left k = d.W start (k + 1)
  wy : ∀ k, start ≤ k → k < stop → s.wy_left k = d.WY start (k + 1)
  wyy : ∀ k, start ≤ k → k < stop → s.wy2_left k = d.WYY start (k + 1)
  zw : 0 < start → s.w_left (start - 1) = 0
  zwy : 0 < start → s.wy_left (start - 1) = 0
  zwyy : 0 < start → s.wy2_left (start - 1) = 0

/-- a prefix-sum read gives the sum over `[a, b)` -/
theorem Fast.pread_good (p : PrefixRead) (buf : Buf) (f : Int → Rat) (start stop a b : Int)
    (hhi : p.hi a b = b - 1) (hg : p.guard a b = decide (a > 0)) (hlo : p.lo a b = a - 1)
    (hb : ∀ k, start ≤ k → k < stop → buf k = rsum f start (k + 1))
    (hz : 0 < start → buf (start - 1) = 0)
    (h0 : 0 ≤ start) (h1 : start ≤ a) (h2 : a < b) (h3 : b ≤ stop) :
    Fast.pread p buf a b = rsum f a b := by
  unfold Fast.pread
  rw [hhi, hg, hlo, hb (b - 1) (by omega) (by omega)]
  have e : b - 1 + 1 = b := by omega
  rw [e]
  by_cases ha : a = start
  · subst ha
    by_cases hs : 0 < a
    · simp [hs, hz hs]; grind
    · have : ¬ (a > 0) := by omega
      simp [this]; grind
  · have hs : a > 0 := by omega
    simp only [hs, decide_true, if_true]
    rw [hb (a - 1) (by omega) (by omega)]
    have e2 : a - 1 + 1 = a := by omega
    rw [e2, rsum_split f start a b (by omega) (by omega)]; grind

theorem Fast.mean_filled {s : Fast} {d : Data} {start stop : Int} (h : Fast.Filled s d start stop)
    (a b : Int) (wp : Rat) (h0 : 0 ≤ start) (h1 : start ≤ a) (h2 : a ≤ b) (h3 : b ≤ stop) :
    Fast.mean s a b wp = if a = b then (0, wp) else (d.wmean a b, d.W a b) := by
  unfold Fast.mean
  split
  · rfl
  · next hab =>
    have hlt : a < b := by omega
    have e1 : Fast.pread fastMeanM s.wy_left a b = d.WY a b :=
      Fast.pread_good fastMeanM s.wy_left _ start stop a b (by simp only [fastMeanM])
        (by simp only [fastMeanM]) (by simp only [fastMeanM]) h.wy h.zwy h0 h1 hlt h3
    have e2 : Fast.pread fastMeanW s.w_left a b = d.W a b :=
      Fast.pread_good fastMeanW s.w_left _ start stop a b (by simp only [fastMeanW])
        (by simp only [fastMeanW]) (by simp only [fastMeanW]) h.w h.zw h0 h1 hlt h3
    rw [e1, e2]
    unfold Data.wmean
    rfl

/-- Σ w y² / W − m² = Σ w (y − m)² / W for the weighted mean m -/
theorem fast_formula (d : Data) (a b : Int) (hW : d.W a b ≠ 0) :
    d.WYY a b / d.W a b - d.wmean a b ^ 2 = d.wmse a b := by
  unfold Data.wmse
  rw [if_neg hW]
  have hm : d.wmean a b = d.WY a b / d.W a b := by unfold Data.wmean; rw [if_neg hW]
  have ex : rsum (fun k => d.wk k * (d.yk k - d.wmean a b) ^ 2) a b
      = d.WYY a b - 2 * d.wmean a b * d.WY a b + d.wmean a b ^ 2 * d.W a b := by
    unfold Data.WYY Data.WY Data.W rsum
    exact rsumN_sq_expand d.wk d.yk (d.wmean a b) a (b - a).toNat
  rw [ex, hm]
  generalize d.WYY a b = S2
  generalize d.WY a b = S1
  generalize d.W a b = W at hW
  grind

theorem Fast.mse_filled {s : Fast} {d : Data} {start stop : Int} (h : Fast.Filled s d start stop)
    (a b : Int) (h0 : 0 ≤ start) (h1 : start ≤ a) (h2 : a ≤ b) (h3 : b ≤ stop) :
    Fast.mse s a b (d.wmean a b) (d.W a b) = d.wmse a b := by
  unfold Fast.mse
  split
  · next hab => subst hab; simp [Data.wmse, Data.W, rsum_empty]
  · next hab =>
    have hlt : a < b := by omega
    have e1 : Fast.pread fastMseS s.wy2_left a b = d.WYY a b :=
      Fast.pread_good fastMseS s.wy2_left _ start stop a b (by simp only [fastMseS])
        (by simp only [fastMseS]) (by simp only [fastMseS]) h.wyy h.zwyy h0 h1 hlt h3
    rw [e1]
    split
    · next hW => simp [Data.wmse, hW]
    · next hW => exact fast_formula d a b hW


theorem Fast.upd_good {d : Data} {start stop : Int} (wbuf : Buf)
    (hb : ∀ k, start ≤ k → k < stop → wbuf k = d.W start (k + 1))
    (hz : 0 < start → wbuf (start - 1) = 0)
    (c : Core) (p q : Int) (h0 : 0 ≤ start) (h1 : start ≤ q) (h2 : q ≤ stop) (h3 : start < stop) :
    applyUpd fastUpd wbuf c start stop p q
      = { c with wL := d.W start q, wR := d.W q stop } := by
  have hk : fastUpd.kind = UpdKind.prefix := by rfl
  unfold applyUpd
  rw [hk]
  have hc : fastUpd.cond start stop p q = decide (q = 0) := by simp only [fastUpd]
  have e1 : fastUpd.thenRight start stop p q = stop - 1 := by simp only [fastUpd]
  have e2 : fastUpd.elseLeft start stop p q = q - 1 := by simp only [fastUpd]
  have e3 : fastUpd.elseRightHi start stop p q = stop - 1 := by simp only [fastUpd]
  have e4 : fastUpd.elseRightLo start stop p q = q - 1 := by simp only [fastUpd]
  simp only [hc, e1, e2, e3, e4]
  have hstop : wbuf (stop - 1) = d.W start stop := by
    rw [hb (stop - 1) (by omega) (by omega)]; congr 1; omega
  by_cases hq : q = 0
  · have hs : start = 0 := by omega
    subst hq; subst hs
    simp only [decide_true, if_true, hstop]
    have : d.W 0 0 = 0 := rsum_empty _ _ _ (by omega)
    rw [this]
  · simp only [hq, decide_false, Bool.false_eq_true, if_false, hstop]
    have hleft : wbuf (q - 1) = d.W start q := by
      by_cases hqs : q = start
      · subst hqs
        rw [hz (by omega)]
        exact (rsum_empty _ _ _ (by omega)).symm
      · rw [hb (q - 1) (by omega) (by omega)]; congr 1; omega
    rw [hleft]
    have : d.W start stop = d.W start q + d.W q stop := rsum_split _ _ _ _ h1 h2
    cases c; simp; grind

theorem Fast.init_good (prev : Fast) (d : Data) (start stop : Int)
    (h0 : 0 ≤ start) (h1 : start < stop) (h2 : stop ≤ prev.nSamples) :
    Fast.Filled (Fast.initWithX prev d start stop) d start stop ∧
    CoreGood (Fast.initWithX prev d start stop).core d start start stop := by
  unfold Fast.initWithX
  simp only [fastZeroRange, fastFirstRange, fastRestRange, fastNodeIdx, loop]
  generalize hs0 : ({ prev with
    core := { prev.core with start := start, pos := start, stop := stop, wN := d.wN },
    y := d.y } : Fast) = s0
  have hn0 : s0.nSamples = prev.nSamples := by rw [← hs0]
  obtain ⟨a1, a2, a3, a4, a5, a6⟩ := Fast.zeroLoop s0 0 (prev.nSamples - 0).toNat
  generalize loopN (prev.nSamples - 0).toNat 0 Fast.zeroBody s0 = s1 at *
  have e1 : (start + 1 - start).toNat = 1 := by omega
  rw [e1]
  simp only [loopN]
  generalize hs2 : Fast.firstBody d start s1 = s2
  have b1 : s2.core = s1.core := by rw [← hs2]; rfl
  have b3 : s2.nSamples = s1.nSamples := by rw [← hs2]; rfl
  have b4 : ∀ k, s2.w_left k = if k = start then d.W start (start + 1) else s1.w_left k := by
    intro k; rw [← hs2]; simp only [Fast.firstBody, bset, Data.W, rsum_one, Data.wk]
  have b5 : ∀ k, s2.wy_left k = if k = start then d.WY start (start + 1) else s1.wy_left k := by
    intro k; rw [← hs2]; simp only [Fast.firstBody, bset, Data.WY, rsum_one, Data.wk, Data.yk]
  have b6 : ∀ k, s2.wy2_left k = if k = start then d.WYY start (start + 1) else s1.wy2_left k := by
    intro k; rw [← hs2]; simp only [Fast.firstBody, bset, Data.WYY, rsum_one, Data.wk, Data.yk]
  obtain ⟨c1, c2, c3, c4, c5, c6⟩ := Fast.restLoop d s2 start (stop - (start + 1)).toNat
    (by rw [b4, if_pos rfl]) (by rw [b5, if_pos rfl]) (by rw [b6, if_pos rfl])
  generalize loopN (stop - (start + 1)).toNat (start + 1) (Fast.restBody d) s2 = s3 at *
  have hn : start + 1 + ((stop - (start + 1)).toNat : Int) = stop := by omega
  have hnS : (0 : Int) + ((prev.nSamples - 0).toNat : Int) = prev.nSamples := by omega
  have hf : Fast.Filled s3 d start stop := by
    refine ⟨?_, ?_, ?_, ?_, ?_, ?_⟩
    · intro k hk1 hk2; rw [c4 k, hn]
      by_cases hk : k = start
      · subst hk; rw [if_neg (by omega), b4, if_pos rfl]
      · rw [if_pos ⟨by omega, hk2⟩]
    · intro k hk1 hk2; rw [c5 k, hn]
      by_cases hk : k = start
      · subst hk; rw [if_neg (by omega), b5, if_pos rfl]
      · rw [if_pos ⟨by omega, hk2⟩]
    · intro k hk1 hk2; rw [c6 k, hn]
      by_cases hk : k = start
      · subst hk; rw [if_neg (by omega), b6, if_pos rfl]
      · rw [if_pos ⟨by omega, hk2⟩]
    · intro hs; rw [c4, if_neg (by omega), b4, if_neg (by omega), a4, hnS, if_pos ⟨by omega, by omega⟩]
    · intro hs; rw [c5, if_neg (by omega), b5, if_neg (by omega), a5, hnS, if_pos ⟨by omega, by omega⟩]
    · intro hs; rw [c6, if_neg (by omega), b6, if_neg (by omega), a6, hnS, if_pos ⟨by omega, by omega⟩]
  have hnode : s3.w_left (stop - 1) = d.W start stop := by
    rw [hf.w (stop - 1) (by omega) (by omega)]; congr 1; omega
  have hc : s3.core = { prev.core with start := start, pos := start, stop := stop, wN := d.wN } := by
    rw [c1, b1, a1, ← hs0]
  simp only [reset, Fast.ops, resetArgs, resetPos, hc]
  rw [Fast.upd_good _ hf.w hf.zw _ _ _ h0 (by omega) (by omega) h1]
  exact ⟨⟨hf.w, hf.wy, hf.wyy, hf.zw, hf.zwy, hf.zwyy⟩, ⟨rfl, rfl, rfl, rfl, hnode, rfl, rfl⟩⟩

theorem Fast.update_good {s : Fast} {d : Data} {start pos stop : Int} (q : Int)
    (hf : Fast.Filled s d start stop) (hc : CoreGood s.core d start pos stop)
    (h0 : 0 ≤ start) (h1 : start ≤ q) (h2 : q ≤ stop) (h3 : start < stop) :
    Fast.Filled (update Fast.ops s q) d start stop ∧
    CoreGood (update Fast.ops s q).core d start q stop := by
  simp only [update, Fast.ops, updateArgs, updatePos, hc.hstart, hc.hstop]
  rw [Fast.upd_good _ hf.w hf.zw _ _ _ h0 h1 h2 h3]
  exact ⟨⟨hf.w, hf.wy, hf.wyy, hf.zw, hf.zwy, hf.zwyy⟩,
    ⟨hc.hstart, rfl, hc.hstop, hc.hwN, hc.hwNode, rfl, rfl⟩⟩

end MlVerif.Criterion
