/-
Helper lemmas for C06 (model `Model/KMedians.lean`).  Core Lean only.

Contents, in order: sums over `Rat` lists (termwise ≤, equality case, exchange of two sums, indicator
sum); the median of a sorted list minimises the sum of absolute deviations (peeling the smallest and
largest element: `medS_opt`, `median_opt`, `median_in_range`); first-minimum argmin (`argminFrom_spec`,
`nearest_spec`); cost of a labelling, E-step specification (`estep_consistent`, `estep_le_cost`,
`nearest_of_cost_le`); regrouping the cost by cluster and optimality of the coordinate-wise median row
(`cost_regroup`, `medianRow_opt`); the M-step (`relocate_spec`, `centersDense_in_box`, `centersDense_ok`,
`centersDense_cost`); the Lloyd loop invariant — the inertia never increases, so a tracked best that is
not replaced is consistent (`LoopInv`, `lloydIter_step`, `lloydLoop_post`, `lloyd_consistent`); the
n_init loop / `_fit_l1` (`fitL1_mem`); success of the repaired code (`lloyd_ok`, `nInitLoop_ok`);
validity of the driver's default argsort (`farStable_valid`).
-/
import MlVerif.Model.KMedians
namespace MlVerif.KMedians

/-! ### absolute value and sums over `Rat` -/

theorem absR_nonneg (a : Rat) : 0 ≤ absR a := by unfold absR; split <;> grind
theorem absR_self (a : Rat) : absR (a - a) = 0 := by unfold absR; split <;> grind
theorem absR_eq_zero {a : Rat} (h : absR a = 0) : a = 0 := by unfold absR at h; split at h <;> grind
theorem absR_pair (a b m c : Rat) (h1 : a ≤ m) (h2 : m ≤ b) :
    absR (a - m) + absR (b - m) ≤ absR (a - c) + absR (b - c) := by
  unfold absR; grind

theorem sum_perm {l₁ l₂ : List Rat} (h : l₁.Perm l₂) : l₁.sum = l₂.sum := by
  induction h with
  | nil => rfl
  | cons x _ ih => simp [ih]
  | swap x y l => simp only [List.sum_cons]; grind
  | trans _ _ ih1 ih2 => exact ih1.trans ih2

theorem sum_map_le {α} (l : List α) (f g : α → Rat) (h : ∀ a ∈ l, f a ≤ g a) :
    (l.map f).sum ≤ (l.map g).sum := by
  induction l with
  | nil => simp
  | cons a l ih =>
    have h1 := h a (by simp)
    have h2 := ih (fun b hb => h b (by simp [hb]))
    simp only [List.map_cons, List.sum_cons]; grind

theorem sum_map_nonneg {α} (l : List α) (f : α → Rat) (h : ∀ a ∈ l, 0 ≤ f a) : 0 ≤ (l.map f).sum := by
  induction l with
  | nil => simp
  | cons a l ih =>
    have h1 := h a (by simp)
    have h2 := ih (fun b hb => h b (by simp [hb]))
    simp only [List.map_cons, List.sum_cons]; grind

/-- equal sums and termwise `≤` force termwise equality -/
theorem sum_map_eq_of_le {α} (l : List α) (f g : α → Rat) (h : ∀ a ∈ l, f a ≤ g a)
    (hs : (l.map g).sum ≤ (l.map f).sum) : ∀ a ∈ l, f a = g a := by
  induction l with
  | nil => simp
  | cons a l ih =>
    have h1 := h a (by simp)
    have h2 := sum_map_le l f g (fun b hb => h b (by simp [hb]))
    simp only [List.map_cons, List.sum_cons] at hs
    intro b hb
    rcases List.mem_cons.mp hb with rfl | hb
    · grind
    · exact ih (fun b hb => h b (by simp [hb])) (by grind) b hb

theorem sum_map_add {α} (l : List α) (f g : α → Rat) :
    (l.map (fun a => f a + g a)).sum = (l.map f).sum + (l.map g).sum := by
  induction l with
  | nil => simp only [List.map_nil, List.sum_nil]; grind
  | cons a l ih => simp only [List.map_cons, List.sum_cons, ih]; grind

theorem sum_map_zero {α} (l : List α) : (l.map (fun _ => (0 : Rat))).sum = 0 := by
  induction l with
  | nil => simp
  | cons a l ih => simp only [List.map_cons, List.sum_cons, ih]; grind

/-- exchanging two finite sums -/
theorem sum_swap {α β} (l : List α) (m : List β) (F : α → β → Rat) :
    (l.map (fun a => (m.map (fun b => F a b)).sum)).sum
      = (m.map (fun b => (l.map (fun a => F a b)).sum)).sum := by
  induction l with
  | nil => simp [sum_map_zero]
  | cons a l ih =>
    simp only [List.map_cons, List.sum_cons, ih]
    rw [← sum_map_add]

/-- `Σ_{j<k} [l = j] · v j = v l` for `l < k` -/
theorem sum_indicator (k l : Nat) (v : Nat → Rat) (h : l < k) :
    ((List.range k).map (fun j => if l = j then v j else 0)).sum = v l := by
  induction k with
  | zero => omega
  | succ k ih =>
    rw [List.range_succ, List.map_append, List.sum_append]
    by_cases hl : l = k
    · subst hl
      have : ((List.range l).map (fun j => if l = j then v j else 0)).sum = 0 := by
        have e : (List.range l).map (fun j => if l = j then v j else 0)
            = (List.range l).map (fun _ => (0 : Rat)) := by
          apply List.map_congr_left
          intro j hj
          have hj' := List.mem_range.mp hj
          have hne : l ≠ j := by omega
          simp [hne]
        rw [e, sum_map_zero]
      simp only [this, List.map_cons, List.map_nil, List.sum_cons, List.sum_nil, if_true]
      grind
    · have := ih (by omega)
      simp only [this, List.map_cons, List.map_nil, List.sum_cons, List.sum_nil, hl, if_false]
      grind

/-! ### the median of a sorted list minimises the sum of absolute deviations -/

def sumAbs (l : List Rat) (c : Rat) : Rat := (l.map (fun v => absR (v - c))).sum

theorem sumAbs_perm {l₁ l₂ : List Rat} (h : l₁.Perm l₂) (c : Rat) : sumAbs l₁ c = sumAbs l₂ c :=
  sum_perm (h.map _)

theorem getD_mem {l : List Rat} {i : Nat} (h : i < l.length) : l.getD i 0 ∈ l := by
  rw [List.getD_eq_getElem?_getD, List.getElem?_eq_getElem h]
  exact List.getElem_mem h

theorem medS_in_range (s : List Rat) (lo hi : Rat) (hne : s ≠ [])
    (h : ∀ v ∈ s, lo ≤ v ∧ v ≤ hi) : lo ≤ medS s ∧ medS s ≤ hi := by
  have hl : 0 < s.length := List.length_pos_iff.mpr hne
  have h1 := h _ (getD_mem (l := s) (i := (s.length - 1) / 2) (by omega))
  have h2 := h _ (getD_mem (l := s) (i := s.length / 2) (by omega))
  unfold medS
  grind

theorem medS_peel (a b : Rat) (mid : List Rat) (hne : mid ≠ []) :
    medS (a :: (mid ++ [b])) = medS mid := by
  have hl : 0 < mid.length := List.length_pos_iff.mpr hne
  unfold medS
  have e1 : ((a :: (mid ++ [b])).length - 1) / 2 = (mid.length - 1) / 2 + 1 := by
    simp; omega
  have e2 : (a :: (mid ++ [b])).length / 2 = mid.length / 2 + 1 := by
    simp; omega
  rw [e1, e2, List.getD_cons_succ, List.getD_cons_succ]
  simp only [List.getD_eq_getElem?_getD]
  rw [List.getElem?_append_left (by omega), List.getElem?_append_left (by omega)]

theorem sumAbs_peel (a b : Rat) (mid : List Rat) (c : Rat) :
    sumAbs (a :: (mid ++ [b])) c = absR (a - c) + sumAbs mid c + absR (b - c) := by
  simp only [sumAbs, List.map_cons, List.map_append, List.sum_cons, List.sum_append, List.map_nil,
    List.sum_nil]
  grind

theorem medS_opt : ∀ (n : Nat) (s : List Rat), s.length = n → s.Pairwise (· ≤ ·) →
    ∀ c, sumAbs s (medS s) ≤ sumAbs s c := by
  intro n
  induction n using Nat.strongRecOn with
  | _ n ih =>
    intro s hlen hs c
    match s, hlen with
    | [], _ => simp [sumAbs]
    | [a], _ =>
      have : medS [a] = a := by simp [medS]; grind
      simp only [sumAbs, this, List.map_cons, List.map_nil, List.sum_cons, List.sum_nil]
      have := absR_nonneg (a - c); have := absR_self a; grind
    | a :: b' :: t, hlen =>
      have hne : (b' :: t) ≠ [] := by simp
      obtain ⟨mid, b, hmb⟩ : ∃ mid b, b' :: t = mid ++ [b] :=
        ⟨(b' :: t).dropLast, (b' :: t).getLast hne, (List.dropLast_concat_getLast hne).symm⟩
      rw [hmb] at hs hlen ⊢
      rw [List.pairwise_cons, List.pairwise_append] at hs
      obtain ⟨ha, hmid, _, hb⟩ := hs
      have hab : a ≤ b := ha b (by simp)
      rw [sumAbs_peel, sumAbs_peel]
      by_cases hm : mid = []
      · subst hm
        have hmed : medS (a :: ([] ++ [b])) = (a + b) / 2 := by simp [medS]
        rw [hmed]
        have := absR_pair a b ((a + b) / 2) c (by grind) (by grind)
        simp only [sumAbs, List.map_nil, List.sum_nil]
        grind
      · rw [medS_peel a b mid hm]
        have hr := medS_in_range mid a b hm (fun v hv => ⟨ha v (by simp [hv]), hb v hv b (by simp)⟩)
        have h1 := ih mid.length (by simp at hlen; omega) mid rfl hmid c
        have h2 := absR_pair a b (medS mid) c hr.1 hr.2
        grind

theorem insertR_perm (a : Rat) : ∀ l : List Rat, (insertR a l).Perm (a :: l) := by
  intro l
  induction l with
  | nil => exact List.Perm.refl _
  | cons b l ih =>
    unfold insertR
    split
    · exact List.Perm.refl _
    · exact (List.Perm.cons b ih).trans (List.Perm.swap a b l)

theorem sortR_perm : ∀ l : List Rat, (sortR l).Perm l := by
  intro l
  induction l with
  | nil => exact List.Perm.refl _
  | cons a l ih => exact (insertR_perm a (sortR l)).trans (List.Perm.cons a ih)

theorem insertR_sorted (a : Rat) : ∀ l : List Rat, l.Pairwise (· ≤ ·) → (insertR a l).Pairwise (· ≤ ·) := by
  intro l
  induction l with
  | nil => intro _; simp [insertR]
  | cons b l ih =>
    intro h
    rw [List.pairwise_cons] at h
    unfold insertR
    split
    · rename_i hab
      rw [List.pairwise_cons]
      refine ⟨fun c hc => ?_, List.pairwise_cons.mpr h⟩
      rcases List.mem_cons.mp hc with rfl | hc
      · exact hab
      · exact Rat.le_trans hab (h.1 c hc)
    · rename_i hab
      rw [List.pairwise_cons]
      refine ⟨fun c hc => ?_, ih h.2⟩
      rcases List.mem_cons.mp ((insertR_perm a l).mem_iff.mp hc) with rfl | hc
      · have := @Rat.le_total c b; grind
      · exact h.1 c hc

theorem sortR_sorted : ∀ l : List Rat, (sortR l).Pairwise (· ≤ ·) := by
  intro l
  induction l with
  | nil => simp [sortR]
  | cons a l ih => exact insertR_sorted a _ ih

/-- numpy's median minimises `c ↦ Σ |v − c|` -/
theorem median_opt (l : List Rat) (c : Rat) : sumAbs l (median l) ≤ sumAbs l c := by
  have hp := sortR_perm l
  rw [← sumAbs_perm hp, ← sumAbs_perm hp]
  exact medS_opt _ _ rfl (sortR_sorted l) c

/-- the median of a non-empty list lies between any bounds of its elements -/
theorem median_in_range (l : List Rat) (lo hi : Rat) (hne : l ≠ [])
    (h : ∀ v ∈ l, lo ≤ v ∧ v ≤ hi) : lo ≤ median l ∧ median l ≤ hi := by
  have hp := sortR_perm l
  apply medS_in_range
  · intro h0; rw [h0] at hp; exact hne (List.Perm.nil_eq hp).symm
  · intro v hv; exact h v (hp.mem_iff.mp hv)

/-! ### first-minimum argmin -/

theorem argminFrom_spec (vs : List Rat) : ∀ (pre : List Rat) (bv : Rat) (bi : Nat),
    pre[bi]? = some bv → (∀ v ∈ pre, bv ≤ v) → (∀ j, j < bi → ∀ v, pre[j]? = some v → bv < v) →
    (pre ++ vs)[(argminFrom bv bi pre.length vs).1]? = some (argminFrom bv bi pre.length vs).2 ∧
    (∀ v ∈ pre ++ vs, (argminFrom bv bi pre.length vs).2 ≤ v) ∧
    (∀ j, j < (argminFrom bv bi pre.length vs).1 → ∀ v, (pre ++ vs)[j]? = some v →
      (argminFrom bv bi pre.length vs).2 < v) := by
  induction vs with
  | nil =>
    intro pre bv bi h1 h2 h3
    simpa [argminFrom] using ⟨h1, h2, h3⟩
  | cons v vs ih =>
    intro pre bv bi h1 h2 h3
    have hbi : bi < pre.length := by
      rcases Nat.lt_or_ge bi pre.length with h | h
      · exact h
      · rw [List.getElem?_eq_none h] at h1; cases h1
    have happ : pre ++ v :: vs = (pre ++ [v]) ++ vs := by simp
    have hlen : (pre ++ [v]).length = pre.length + 1 := by simp
    unfold argminFrom
    split
    · rename_i hlt
      have := ih (pre ++ [v]) v pre.length (by simp)
        (by
          intro u hu
          rcases List.mem_append.mp hu with hu | hu
          · have := h2 u hu; grind
          · simp at hu; subst hu; exact Rat.le_refl)
        (by
          intro j hj u hu
          rw [List.getElem?_append_left hj] at hu
          have := h2 u (List.mem_of_getElem? hu); grind)
      rw [hlen] at this
      rw [happ]; exact this
    · rename_i hge
      have := ih (pre ++ [v]) bv bi (by rw [List.getElem?_append_left hbi]; exact h1)
        (by
          intro u hu
          rcases List.mem_append.mp hu with hu | hu
          · exact h2 u hu
          · simp at hu; subst hu; grind)
        (by
          intro j hj u hu
          rw [List.getElem?_append_left (by omega)] at hu
          exact h3 j hj u hu)
      rw [hlen] at this
      rw [happ]; exact this

/-- `nearest` returns an index into `c :: cs`, the distance to that centre, which is minimal, and
every earlier centre is strictly farther (first minimum). -/
theorem nearest_spec (d : Nat) (c : Point) (cs : List Point) (x : Point) :
    (∃ cj, (c :: cs)[(nearest d c cs x).1]? = some cj ∧ (nearest d c cs x).2 = manhattan d x cj) ∧
    (∀ c' ∈ c :: cs, (nearest d c cs x).2 ≤ manhattan d x c') ∧
    (∀ j, j < (nearest d c cs x).1 → ∀ c', (c :: cs)[j]? = some c' →
      (nearest d c cs x).2 < manhattan d x c') := by
  have h := argminFrom_spec (cs.map (manhattan d x)) [manhattan d x c] (manhattan d x c) 0
    (by simp) (by simp) (by omega)
  simp only [List.length_singleton, List.singleton_append] at h
  have e : manhattan d x c :: cs.map (manhattan d x) = (c :: cs).map (manhattan d x) := by simp
  rw [e] at h
  obtain ⟨h1, h2, h3⟩ := h
  unfold nearest
  refine ⟨?_, ?_, ?_⟩
  · rw [List.getElem?_map] at h1
    cases hc : (c :: cs)[(argminFrom (manhattan d x c) 0 1 (cs.map (manhattan d x))).1]? with
    | none => rw [hc] at h1; cases h1
    | some cj => rw [hc] at h1; simp at h1; exact ⟨cj, rfl, h1.symm⟩
  · intro c' hc'
    exact h2 _ (List.mem_map.mpr ⟨c', hc', rfl⟩)
  · intro j hj c' hc'
    exact h3 j hj _ (by rw [List.getElem?_map, hc']; rfl)


/-! ### cost of an assignment, nearest-centre assignments -/

/-- distance from `x` to centre number `j` of the centre list `cs` -/
def distTo (d : Nat) (cs : List Point) (x : Point) (j : Nat) : Rat := manhattan d x (cs.getD j [])

/-- sum of the distances of labelled points `(x, label)` to the centre they are labelled with -/
def costLP (d : Nat) (cs : List Point) (lp : List (Point × Nat)) : Rat :=
  (lp.map (fun p => distTo d cs p.1 p.2)).sum

/-- every labelled point carries the label of a centre nearest to it -/
def NearestAll (d : Nat) (cs : List Point) (lp : List (Point × Nat)) : Prop :=
  ∀ p ∈ lp, p.2 < cs.length ∧ ∀ c ∈ cs, distTo d cs p.1 p.2 ≤ manhattan d p.1 c

/-- the consistency the property asks of a fitted L1 model -/
def Consistent (d : Nat) (X : List Point) (labels : List Nat) (cs : List Point) (inertia : Rat) : Prop :=
  labels.length = X.length ∧ NearestAll d cs (X.zip labels) ∧ inertia = costLP d cs (X.zip labels)

def nearestL (d : Nat) : List Point → Point → Nat × Rat
  | [], _ => (0, 0)
  | c :: cs, x => nearest d c cs x

theorem zip_map_self {α β} (l : List α) (f : α → β) : l.zip (l.map f) = l.map (fun a => (a, f a)) := by
  induction l with
  | nil => rfl
  | cons a l ih => simp [ih]

theorem getD_of_getElem? {α} {l : List α} {j : Nat} {a dflt : α} (h : l[j]? = some a) :
    l.getD j dflt = a := by
  rw [List.getD_eq_getElem?_getD, h]; rfl

theorem lt_of_getElem? {α} {l : List α} {j : Nat} {a : α} (h : l[j]? = some a) : j < l.length := by
  rcases Nat.lt_or_ge j l.length with h' | h'
  · exact h'
  · rw [List.getElem?_eq_none h'] at h; cases h

theorem getD_mem_of_lt {l : List Point} {j : Nat} (h : j < l.length) : l.getD j [] ∈ l := by
  rw [List.getD_eq_getElem?_getD, List.getElem?_eq_getElem h]
  exact List.getElem_mem h

theorem nearestL_spec (d : Nat) (C : List Point) (hC : C ≠ []) (x : Point) :
    (nearestL d C x).1 < C.length ∧ (nearestL d C x).2 = distTo d C x (nearestL d C x).1 ∧
    (∀ c ∈ C, (nearestL d C x).2 ≤ manhattan d x c) ∧
    (∀ j, j < (nearestL d C x).1 → (nearestL d C x).2 < distTo d C x j) := by
  match C, hC with
  | c :: cs, _ =>
    obtain ⟨⟨cj, h1, h2⟩, h3, h4⟩ := nearest_spec d c cs x
    refine ⟨lt_of_getElem? h1, ?_, h3, ?_⟩
    · simp only [nearestL, distTo]; rw [getD_of_getElem? h1]; exact h2
    · intro j hj
      have hjl : j < (c :: cs).length := Nat.lt_trans hj (lt_of_getElem? h1)
      have := h4 j hj (c :: cs)[j] (List.getElem?_eq_getElem hjl)
      simp only [nearestL, distTo]
      rw [getD_of_getElem? (List.getElem?_eq_getElem hjl)]; exact this

/-- what a successful E-step returns -/
theorem labelsInertia_ok {d : Nat} {X : List Point} {cs : List (Option Point)} {es : EStep}
    (h : labelsInertia d X cs = .ok es) :
    ∃ C, allSome cs = some C ∧ C ≠ [] ∧ X ≠ [] ∧
      es.labels = X.map (fun x => (nearestL d C x).1) ∧
      es.dists = X.map (fun x => (nearestL d C x).2) ∧
      es.inertia = (X.map (fun x => (nearestL d C x).2)).sum := by
  unfold labelsInertia at h
  split at h
  · cases h
  · cases h
  · rename_i c cs' hall
    split at h
    · cases h
    · rename_i hX
      refine ⟨c :: cs', hall, by simp, by simpa using hX, ?_⟩
      cases h
      exact ⟨rfl, rfl, rfl⟩

theorem estep_consistent (d : Nat) (X : List Point) (C : List Point) (hC : C ≠ []) :
    Consistent d X (X.map (fun x => (nearestL d C x).1)) C (X.map (fun x => (nearestL d C x).2)).sum := by
  refine ⟨by simp, ?_, ?_⟩
  · rw [zip_map_self]
    intro p hp
    obtain ⟨x, _, rfl⟩ := List.mem_map.mp hp
    obtain ⟨h1, h2, h3, _⟩ := nearestL_spec d C hC x
    exact ⟨h1, fun c hc => by rw [← h2]; exact h3 c hc⟩
  · rw [zip_map_self, costLP, List.map_map]
    congr 1
    apply List.map_congr_left
    intro x _
    exact (nearestL_spec d C hC x).2.1

/-- the inertia of an E-step is at most the cost of ANY in-range labelling of the same points -/
theorem estep_le_cost (d : Nat) (C : List Point) (hC : C ≠ []) (lp : List (Point × Nat))
    (hlt : ∀ p ∈ lp, p.2 < C.length) :
    ((lp.map (·.1)).map (fun x => (nearestL d C x).2)).sum ≤ costLP d C lp := by
  rw [List.map_map, costLP]
  apply sum_map_le
  intro p hp
  exact (nearestL_spec d C hC p.1).2.2.1 _ (getD_mem_of_lt (hlt p hp))

/-- ... and if that labelling costs no more, it is itself a nearest-centre labelling -/
theorem nearest_of_cost_le (d : Nat) (C : List Point) (hC : C ≠ []) (lp : List (Point × Nat))
    (hlt : ∀ p ∈ lp, p.2 < C.length)
    (hle : costLP d C lp ≤ ((lp.map (·.1)).map (fun x => (nearestL d C x).2)).sum) :
    NearestAll d C lp := by
  rw [List.map_map] at hle
  have := sum_map_eq_of_le lp (fun p => (nearestL d C p.1).2) (fun p => distTo d C p.1 p.2)
    (fun p hp => (nearestL_spec d C hC p.1).2.2.1 _ (getD_mem_of_lt (hlt p hp))) hle
  intro p hp
  refine ⟨hlt p hp, fun c hc => ?_⟩
  rw [← this p hp]
  exact (nearestL_spec d C hC p.1).2.2.1 c hc


/-! ### regrouping the cost by cluster; the median row minimises the cost of its cluster -/

/-- cost of cluster `j`: distances of its members to centre `j` -/
def clusterCost (d : Nat) (cs : List Point) (lp : List (Point × Nat)) (j : Nat) : Rat :=
  (((lp.filter (fun p => p.2 == j)).map (·.1)).map (fun x => manhattan d x (cs.getD j []))).sum

theorem cost_regroup (d : Nat) (cs : List Point) (k : Nat) (lp : List (Point × Nat))
    (hlt : ∀ p ∈ lp, p.2 < k) :
    costLP d cs lp = ((List.range k).map (clusterCost d cs lp)).sum := by
  induction lp with
  | nil =>
    simp only [costLP, List.map_nil, List.sum_nil]
    exact (sum_map_zero _).symm
  | cons p lp ih =>
    have ih' := ih (fun q hq => hlt q (by simp [hq]))
    have hp : p.2 < k := hlt p (by simp)
    have e : ∀ j, clusterCost d cs (p :: lp) j
        = (if p.2 = j then manhattan d p.1 (cs.getD j []) else 0) + clusterCost d cs lp j := by
      intro j
      simp only [clusterCost, List.filter_cons]
      by_cases h : p.2 = j
      · simp [h]
      · have : (p.2 == j) = false := by simpa using h
        simp only [this, h, if_false]; grind
    have e' : (List.range k).map (clusterCost d cs (p :: lp))
        = (List.range k).map (fun j => (if p.2 = j then manhattan d p.1 (cs.getD j []) else 0)
            + clusterCost d cs lp j) := List.map_congr_left (fun j _ => e j)
    rw [e', sum_map_add, sum_indicator k p.2 _ hp, ← ih']
    simp [costLP, distTo]

theorem coord_map_range (d : Nat) (f : Nat → Rat) (j : Nat) (h : j < d) :
    coord ((List.range d).map f) j = f j := by
  simp [coord, List.getD_eq_getElem?_getD, List.getElem?_map, List.getElem?_range h]

theorem sum_manhattan_eq (d : Nat) (sub : List Point) (c : Point) :
    (sub.map (fun x => manhattan d x c)).sum
      = ((List.range d).map (fun j => sumAbs (sub.map (fun x => coord x j)) (coord c j))).sum := by
  unfold manhattan
  rw [sum_swap]
  congr 1
  apply List.map_congr_left
  intro j _
  simp [sumAbs, List.map_map, Function.comp_def]

/-- the coordinate-wise median of the members minimises their total Manhattan distance -/
theorem medianRow_opt (d : Nat) (sub : List Point) (m : Point) (h : medianRow d sub = some m) (c : Point) :
    (sub.map (fun x => manhattan d x m)).sum ≤ (sub.map (fun x => manhattan d x c)).sum := by
  unfold medianRow at h
  split at h
  · cases h
  · cases h
    rw [sum_manhattan_eq, sum_manhattan_eq]
    apply sum_map_le
    intro j hj
    rw [coord_map_range d _ j (List.mem_range.mp hj)]
    exact median_opt _ _

theorem allSome_spec {α} : ∀ (l : List (Option α)) (L : List α), allSome l = some L →
    L.length = l.length ∧ ∀ j : Nat, l[j]? = L[j]?.map some := by
  intro l
  induction l with
  | nil => intro L h; simp [allSome] at h; subst h; simp
  | cons a l ih =>
    intro L h
    cases a with
    | none => simp [allSome] at h
    | some a =>
      simp only [allSome] at h
      cases hr : allSome l with
      | none => rw [hr] at h; cases h
      | some L' =>
        rw [hr] at h; simp at h; subst h
        obtain ⟨h1, h2⟩ := ih L' hr
        refine ⟨by simp [h1], fun j => ?_⟩
        cases j with
        | zero => simp
        | succ j => simpa using h2 j

theorem allSome_map_some {α} (l : List α) : allSome (l.map some) = some l := by
  induction l with
  | nil => rfl
  | cons a l ih => simp [allSome, ih]

theorem allSome_isSome {α} (l : List (Option α)) (h : ∀ o ∈ l, o ≠ none) : ∃ L, allSome l = some L := by
  induction l with
  | nil => exact ⟨[], rfl⟩
  | cons a l ih =>
    obtain ⟨L, hL⟩ := ih (fun o ho => h o (by simp [ho]))
    cases a with
    | none => exact absurd rfl (h none (by simp))
    | some a => exact ⟨a :: L, by simp [allSome, hL]⟩


/-! ### the M-step `_centers_dense` -/

/-- what is assumed of `distances.argsort()[::-1]`: a list of `n` indices below `n` -/
def FarValid (farOf : List Rat → List Nat) : Prop :=
  ∀ ds, (farOf ds).length = ds.length ∧ ∀ i ∈ farOf ds, i < ds.length

/-- coordinate-wise box `lo ≤ x ≤ hi` in dimension `d` -/
def InBox (d : Nat) (lo hi x : Point) : Prop :=
  ∀ j, j < d → coord lo j ≤ coord x j ∧ coord x j ≤ coord hi j

theorem relocate_spec (X : List Point) (far : List Nat) : ∀ (rest : List Nat) (i : Nat) (cs cs' : List Point),
    relocate X far i rest cs = .ok cs' →
    cs'.length = cs.length ∧
    ∀ j : Nat, ((j ∈ rest ∧ j < cs.length) → ∃ x ∈ X, cs'[j]? = some x) ∧
      ((∃ x ∈ X, cs[j]? = some x) → ∃ x ∈ X, cs'[j]? = some x) := by
  intro rest
  induction rest with
  | nil => intro i cs cs' h; simp [relocate] at h; subst h; simp
  | cons cid rest ih =>
    intro i cs cs' h
    unfold relocate at h
    split at h
    · cases h
    · rename_i fi hfi
      split at h
      · cases h
      · rename_i x hx
        have hxX : x ∈ X := List.mem_of_getElem? hx
        obtain ⟨hl, hj⟩ := ih (i + 1) (cs.set cid x) cs' h
        refine ⟨by simpa using hl, fun j => ⟨?_, ?_⟩⟩
        · rintro ⟨hmem, hlt⟩
          rcases List.mem_cons.mp hmem with rfl | hmem
          · exact (hj j).2 ⟨x, hxX, by simp [hlt]⟩
          · exact (hj j).1 ⟨hmem, by simpa using hlt⟩
        · rintro ⟨y, hy, hcy⟩
          by_cases hjc : cid = j
          · subst hjc
            exact (hj cid).2 ⟨x, hxX, by simp [lt_of_getElem? hcy]⟩
          · exact (hj j).2 ⟨y, hy, by simp [hjc, hcy]⟩

theorem relocate_ok (X : List Point) (far : List Nat) (bound : Nat)
    (hfar : ∀ i, i < bound → ∃ fi, far[i]? = some fi ∧ fi < X.length) :
    ∀ (rest : List Nat) (i : Nat) (cs : List Point), i + rest.length ≤ bound →
      ∃ cs', relocate X far i rest cs = .ok cs' := by
  intro rest
  induction rest with
  | nil => intro i cs _; exact ⟨cs, rfl⟩
  | cons cid rest ih =>
    intro i cs hb
    obtain ⟨fi, h1, h2⟩ := hfar i (by simp at hb; omega)
    unfold relocate
    simp only [h1, List.getElem?_eq_getElem h2]
    exact ih (i + 1) _ (by simp at hb; omega)

theorem members_nil {j : Nat} : ∀ (X : List Point) (labels : List Nat), labels.length = X.length →
    members X labels j = [] → ∀ l ∈ labels, l ≠ j := by
  intro X
  induction X with
  | nil => intro labels h _ l hl; cases labels with
    | nil => cases hl
    | cons _ _ => simp at h
  | cons x X ih =>
    intro labels h hm l hl
    cases labels with
    | nil => cases hl
    | cons l0 ls =>
      simp only [members, List.zip_cons_cons, List.filter_cons] at hm
      by_cases h0 : l0 = j
      · simp [h0] at hm
      · have hb : (l0 == j) = false := by simpa using h0
        simp only [hb] at hm
        rcases List.mem_cons.mp hl with rfl | hl
        · exact h0
        · exact ih ls (by simpa using h) (by simpa [members] using hm) l hl

theorem members_sub (X : List Point) (labels : List Nat) (j : Nat) : ∀ x ∈ members X labels j, x ∈ X := by
  intro x hx
  simp only [members, List.mem_map, List.mem_filter] at hx
  obtain ⟨p, ⟨hp, _⟩, rfl⟩ := hx
  exact (List.of_mem_zip hp).1

theorem centersDense_length {cfg : Cfg} {X : List Point} {labels : List Nat} {dists : List Rat}
    {cs' : List (Option Point)} (h : centersDense cfg X labels dists = .ok cs') : cs'.length = cfg.k := by
  unfold centersDense at h; dsimp only at h
  split at h
  · cases h
  · cases h; simp

/-- entry `j` of the M-step for a cluster WITH members is the coordinate-wise median of its members -/
theorem centersDense_member {cfg : Cfg} {X : List Point} {labels : List Nat} {dists : List Rat}
    {cs' : List (Option Point)} (h : centersDense cfg X labels dists = .ok cs') (j : Nat) (hj : j < cfg.k)
    (hne : members X labels j ≠ []) : cs'[j]? = some (medianRow cfg.d (members X labels j)) := by
  unfold centersDense at h; dsimp only at h
  split at h
  · cases h
  · cases h
    simp only [List.getElem?_map, List.getElem?_range hj, Option.map_some]
    have : (cfg.skipEmpty && (members X labels j).isEmpty) = false := by
      have : (members X labels j).isEmpty = false := by simpa using hne
      simp [this]
    simp [this]

/-- every defined centre the M-step returns lies in any box containing the data (both variants of the
median loop: "nonempty clusters" for the code as written, all clusters when memberless ones are skipped) -/
theorem centersDense_in_box {cfg : Cfg} {X : List Point} {labels : List Nat} {dists : List Rat}
    {cs' : List (Option Point)} (h : centersDense cfg X labels dists = .ok cs')
    (hlen : labels.length = X.length) (lo hi : Point) (hbox : ∀ x ∈ X, InBox cfg.d lo hi x) :
    ∀ c, some c ∈ cs' → InBox cfg.d lo hi c := by
  unfold centersDense at h; dsimp only at h
  split at h
  · cases h
  · rename_i cs1 hrel
    cases h
    intro c hc
    simp only [List.mem_map, List.mem_range] at hc
    obtain ⟨j, hj, hcj⟩ := hc
    split at hcj
    · -- memberless cluster kept: its centre is the data point it was relocated to
      rename_i hskip
      simp only [Bool.and_eq_true, List.isEmpty_iff] at hskip
      have hnl := members_nil X labels hlen hskip.2
      have hje : j ∈ emptyClusters cfg.k labels := by
        simp only [emptyClusters, List.mem_filter, List.mem_range, List.all_eq_true]
        exact ⟨hj, fun l hl => by simpa using hnl l hl⟩
      have hne : (emptyClusters cfg.k labels).isEmpty = false := by
        cases he : emptyClusters cfg.k labels with
        | nil => rw [he] at hje; cases hje
        | cons _ _ => rfl
      rw [hne] at hrel
      simp only [Bool.false_eq_true, if_false] at hrel
      obtain ⟨hl, hspec⟩ := relocate_spec X _ _ _ _ _ hrel
      obtain ⟨x, hxX, hx⟩ := (hspec j).1 ⟨hje, by simpa using hj⟩
      rw [hx] at hcj
      have : x = c := by simpa using hcj
      subst this
      exact hbox x hxX
    · -- median of the members
      unfold medianRow at hcj
      split at hcj
      · cases hcj
      · rename_i hne
        cases hcj
        intro j' hj'
        rw [coord_map_range cfg.d _ j' hj']
        have hne' : (members X labels j).map (fun x => coord x j') ≠ [] := by
          simpa using hne
        apply median_in_range _ _ _ hne'
        intro v hv
        obtain ⟨x, hx, rfl⟩ := List.mem_map.mp hv
        exact hbox x (members_sub X labels j x hx) j' hj'

/-- with the guard, the M-step succeeds and returns no NaN row (given at least `k` samples) -/
theorem centersDense_ok {cfg : Cfg} (hskip : cfg.skipEmpty = true) (hfar : FarValid cfg.farOf)
    (X : List Point) (labels : List Nat) (dists : List Rat)
    (hd : dists.length = X.length) (hk : cfg.k ≤ X.length) :
    ∃ cs', centersDense cfg X labels dists = .ok cs' ∧ ∀ o ∈ cs', o ≠ none := by
  have hrel : ∃ cs1, (if (emptyClusters cfg.k labels).isEmpty then
        (Except.ok (List.replicate cfg.k (List.replicate cfg.d 0)) : Except Err (List Point))
      else relocate X (cfg.farOf dists) 0 (emptyClusters cfg.k labels)
        (List.replicate cfg.k (List.replicate cfg.d 0))) = .ok cs1 ∧ cs1.length = cfg.k := by
    split
    · exact ⟨_, rfl, by simp⟩
    · obtain ⟨h1, h2⟩ := hfar dists
      have hle : (emptyClusters cfg.k labels).length ≤ cfg.k := by
        have := List.length_filter_le (fun j => labels.all (fun l => l != j)) (List.range cfg.k)
        simpa [emptyClusters] using this
      obtain ⟨cs1, hcs1⟩ := relocate_ok X (cfg.farOf dists) X.length
        (fun i hi => by
          have hi' : i < (cfg.farOf dists).length := by omega
          exact ⟨_, List.getElem?_eq_getElem hi', by
            have := h2 _ (List.getElem_mem hi'); omega⟩)
        (emptyClusters cfg.k labels) 0 (List.replicate cfg.k (List.replicate cfg.d 0)) (by omega)
      exact ⟨cs1, hcs1, by have := (relocate_spec X _ _ _ _ _ hcs1).1; simpa using this⟩
  obtain ⟨cs1, hcs1, hl1⟩ := hrel
  unfold centersDense; dsimp only
  simp only [hcs1]
  refine ⟨_, rfl, ?_⟩
  intro o ho
  simp only [List.mem_map, List.mem_range] at ho
  obtain ⟨j, hj, rfl⟩ := ho
  split
  · rw [List.getElem?_eq_getElem (by omega)]; simp
  · rename_i hcond
    simp only [hskip, Bool.true_and] at hcond
    simp [medianRow, hcond]


/-! ### one M-step does not increase the cost of the current labelling -/

theorem centersDense_cost {cfg : Cfg} {X : List Point} {labels : List Nat} {dists : List Rat}
    {cs' : List (Option Point)} (h : centersDense cfg X labels dists = .ok cs')
    (C' : List Point) (hC' : allSome cs' = some C')
    (hlt : ∀ p ∈ X.zip labels, p.2 < cfg.k) (C : List Point) :
    costLP cfg.d C' (X.zip labels) ≤ costLP cfg.d C (X.zip labels) := by
  rw [cost_regroup _ _ cfg.k _ hlt, cost_regroup _ _ cfg.k _ hlt]
  apply sum_map_le
  intro j hj
  have hj' := List.mem_range.mp hj
  show (((members X labels j)).map (fun x => manhattan cfg.d x (C'.getD j []))).sum
    ≤ (((members X labels j)).map (fun x => manhattan cfg.d x (C.getD j []))).sum
  by_cases hne : members X labels j = []
  · rw [hne]; exact Rat.le_refl
  · have h1 := centersDense_member h j hj' hne
    have h2 := (allSome_spec cs' C' hC').2 j
    rw [h1] at h2
    cases hc : C'[j]? with
    | none => rw [hc] at h2; cases h2
    | some m =>
      rw [hc] at h2
      have hm : medianRow cfg.d (members X labels j) = some m := by simpa using h2
      rw [getD_of_getElem? hc]
      exact medianRow_opt cfg.d _ m hm _

/-! ### centres at Manhattan distance 0 are interchangeable -/

theorem sum_map_eq_zero {α} (l : List α) (f : α → Rat) (h : ∀ a ∈ l, 0 ≤ f a)
    (hs : (l.map f).sum = 0) : ∀ a ∈ l, f a = 0 := by
  have := sum_map_eq_of_le l (fun _ => 0) f h (by rw [sum_map_zero, hs]; exact Rat.le_refl)
  intro a ha; exact (this a ha).symm

theorem manhattan_nonneg (d : Nat) (x c : Point) : 0 ≤ manhattan d x c :=
  sum_map_nonneg _ _ (fun _ _ => absR_nonneg _)

theorem manhattan_congr_of_zero (d : Nat) (o n : Point) (h : manhattan d o n = 0) (x : Point) :
    manhattan d x o = manhattan d x n := by
  have hz := sum_map_eq_zero _ _ (fun j _ => absR_nonneg (coord o j - coord n j)) h
  unfold manhattan
  congr 1
  apply List.map_congr_left
  intro j hj
  have := absR_eq_zero (hz j hj)
  have e : coord o j = coord n j := by grind
  rw [e]

theorem zipWith_sum_zero (f : Point → Point → Rat) (hf : ∀ a b, 0 ≤ f a b) :
    ∀ (l₁ l₂ : List Point), (List.zipWith f l₁ l₂).sum = 0 →
      ∀ (j : Nat) (a b : Point), l₁[j]? = some a → l₂[j]? = some b → f a b = 0 := by
  intro l₁
  induction l₁ with
  | nil => intro l₂ _ j a b h; simp at h
  | cons a₁ l₁ ih =>
    intro l₂ hs j a b ha hb
    cases l₂ with
    | nil => simp at hb
    | cons b₁ l₂ =>
      simp only [List.zipWith_cons_cons, List.sum_cons] at hs
      have h0 := hf a₁ b₁
      have h1 : 0 ≤ (List.zipWith f l₁ l₂).sum := by
        rw [← List.map_uncurry_zip_eq_zipWith]
        exact sum_map_nonneg _ _ (fun p _ => hf p.1 p.2)
      cases j with
      | zero => simp at ha hb; subst ha; subst hb; grind
      | succ j => exact ih l₂ (by grind) j a b (by simpa using ha) (by simpa using hb)

/-- `Consistent` only depends on the distances to the centres -/
theorem consistent_transfer (d : Nat) (X : List Point) (L : List Nat) (C C' : List Point) (I : Rat)
    (hlen : C'.length = C.length)
    (hd : ∀ x j, j < C.length → distTo d C' x j = distTo d C x j)
    (h : Consistent d X L C I) : Consistent d X L C' I := by
  obtain ⟨h1, h2, h3⟩ := h
  refine ⟨h1, ?_, ?_⟩
  · intro p hp
    obtain ⟨hp1, hp2⟩ := h2 p hp
    refine ⟨by omega, fun c hc => ?_⟩
    obtain ⟨j, hj⟩ := List.mem_iff_getElem?.mp hc
    have hjl : j < C.length := by have := lt_of_getElem? hj; omega
    have e1 : manhattan d p.1 c = distTo d C' p.1 j := by
      simp only [distTo]; rw [getD_of_getElem? hj]
    rw [e1, hd _ _ hjl, hd _ _ hp1]
    exact hp2 _ (getD_mem_of_lt hjl)
  · rw [h3, costLP, costLP]
    congr 1
    apply List.map_congr_left
    intro p hp
    exact (hd _ _ (h2 p hp).1).symm


/-! ### the Lloyd loop: inertia is non-increasing, so the tracked best is consistent -/

/-- labels are nearest-centre labels for the (all defined) centres, inertia is their distance sum -/
def ConsistentOpt (d : Nat) (X : List Point) (labels : List Nat) (centers : List (Option Point))
    (inertia : Rat) : Prop :=
  ∃ C, allSome centers = some C ∧ Consistent d X labels C inertia

/-- invariant at the head of an iteration: `centers` are about to be used by the E-step, `best` is the
best-so-far.  Some labelling `Lp` (the previous E-step's) costs at most `best.inertia` under `centers`,
and either `best` is exactly (`Lp`, `centers`) or `best` is already consistent. -/
def LoopInv (cfg : Cfg) (X : List Point) (centers : List (Option Point)) (best : Option Best) : Prop :=
  centers.length = cfg.k ∧
  ∀ b, best = some b → ∀ C, allSome centers = some C →
    ∃ Lp : List Nat, Lp.length = X.length ∧ (∀ l ∈ Lp, l < cfg.k) ∧
      costLP cfg.d C (X.zip Lp) ≤ b.inertia ∧
      ((b.labels = Lp ∧ b.centers = centers) ∨ ConsistentOpt cfg.d X b.labels b.centers b.inertia)

theorem zip_labels_lt {X : List Point} {L : List Nat} {k : Nat} (h : ∀ l ∈ L, l < k) :
    ∀ p ∈ X.zip L, p.2 < k := fun _ hp => h _ (List.of_mem_zip hp).2

theorem lloydIter_step {cfg : Cfg} {X : List Point} {centers : List (Option Point)} {best : Option Best}
    {cs' : List (Option Point)} {b' : Best} {sh : Option Rat}
    (hinv : LoopInv cfg X centers best) (h : lloydIter cfg X centers best = .ok (cs', b', sh)) :
    LoopInv cfg X cs' (some b') ∧ (sh = some 0 → ConsistentOpt cfg.d X b'.labels b'.centers b'.inertia) := by
  obtain ⟨hk, hbest⟩ := hinv
  unfold lloydIter at h
  split at h
  · cases h
  · rename_i es hes
    split at h
    · cases h
    · rename_i csn hcd
      obtain ⟨C, hC, hCne, hXne, hlab, hdist, hin⟩ := labelsInertia_ok hes
      have hCk : C.length = cfg.k := by rw [(allSome_spec _ _ hC).1, hk]
      have hLlen : es.labels.length = X.length := by rw [hlab]; simp
      have hLlt : ∀ l ∈ es.labels, l < cfg.k := by
        intro l hl; rw [hlab] at hl
        obtain ⟨x, _, rfl⟩ := List.mem_map.mp hl
        rw [← hCk]; exact (nearestL_spec cfg.d C hCne x).1
      have hcons : Consistent cfg.d X es.labels C es.inertia := by
        rw [hlab, hin]; exact estep_consistent cfg.d X C hCne
      have hlen' : csn.length = cfg.k := centersDense_length hcd
      -- the M-step does not increase the cost of the labelling just computed
      have keyA : ∀ C'', allSome csn = some C'' → costLP cfg.d C'' (X.zip es.labels) ≤ es.inertia := by
        intro C'' hC''
        have := centersDense_cost hcd C'' hC'' (zip_labels_lt hLlt) C
        rw [hcons.2.2]; exact this
      simp only [Except.ok.injEq, Prod.mk.injEq] at h
      obtain ⟨hcs, hb, hsh⟩ := h
      subst hcs
      -- what the new best looks like
      have hb' : (b'.labels = es.labels ∧ b'.centers = csn ∧ b'.inertia = es.inertia) ∨
          (b'.inertia = es.inertia ∧ ConsistentOpt cfg.d X b'.labels b'.centers b'.inertia) := by
        cases hbo : best with
        | none => rw [hbo] at hb; left; subst hb; exact ⟨rfl, rfl, rfl⟩
        | some b =>
          rw [hbo] at hb
          obtain ⟨Lp, hLp1, hLp2, hLp3, hLp4⟩ := hbest b hbo C hC
          have hfst : (X.zip Lp).map (·.1) = X := List.map_fst_zip (by omega)
          have hle := estep_le_cost cfg.d C hCne (X.zip Lp) (by rw [hCk]; exact zip_labels_lt hLp2)
          rw [hfst, ← hin] at hle
          by_cases hup : Gen.C06.bestUpdate es.inertia b.inertia = true
          · simp only [hup, if_true] at hb
            left; subst hb; exact ⟨rfl, rfl, rfl⟩
          · have hup' : Gen.C06.bestUpdate es.inertia b.inertia = false := by simpa using hup
            simp only [hup', Bool.false_eq_true, if_false] at hb
            subst hb
            have hnlt : ¬ es.inertia < b.inertia := by
              unfold Gen.C06.bestUpdate at hup; simpa using hup
            have heq : b.inertia = es.inertia := by grind
            right
            refine ⟨heq, ?_⟩
            rcases hLp4 with ⟨hl, hc⟩ | hcons'
            · refine ⟨C, by rw [hc]; exact hC, ?_⟩
              rw [hl]
              refine ⟨hLp1, ?_, by grind⟩
              apply nearest_of_cost_le cfg.d C hCne (X.zip Lp) (by rw [hCk]; exact zip_labels_lt hLp2)
              rw [hfst, ← hin]; grind
            · exact hcons'
      have hbi : b'.inertia = es.inertia := by
        rcases hb' with ⟨_, _, h⟩ | ⟨h, _⟩ <;> exact h
      refine ⟨⟨hlen', ?_⟩, ?_⟩
      · intro b hbeq C'' hC''
        cases hbeq
        refine ⟨es.labels, hLlen, hLlt, by rw [hbi]; exact keyA C'' hC'', ?_⟩
        rcases hb' with ⟨h1, h2, _⟩ | ⟨_, h⟩
        · exact Or.inl ⟨h1, h2⟩
        · exact Or.inr h
      · intro hsh0
        rcases hb' with ⟨h1, h2, h3⟩ | ⟨_, h⟩
        · -- best = (labels of this E-step, new centres); shift 0: new centres = old centres
          rw [hsh0] at hsh
          unfold shiftTotal at hsh
          rw [hC] at hsh
          cases hn : allSome csn with
          | none => rw [hn] at hsh; cases hsh
          | some C'' =>
            rw [hn] at hsh
            simp only [Option.some.injEq] at hsh
            have hC''len : C''.length = C.length := by rw [(allSome_spec _ _ hn).1, hlen', hCk]
            refine ⟨C'', by rw [h2]; exact hn, ?_⟩
            rw [h1, h3]
            apply consistent_transfer cfg.d X es.labels C C'' es.inertia hC''len _ hcons
            intro x j hj
            have hz := zipWith_sum_zero (manhattan cfg.d) (manhattan_nonneg cfg.d) C C'' hsh j
              C[j] C''[j] (List.getElem?_eq_getElem hj) (List.getElem?_eq_getElem (by omega))
            simp only [distTo]
            rw [getD_of_getElem? (List.getElem?_eq_getElem hj),
              getD_of_getElem? (List.getElem?_eq_getElem (show j < C''.length by omega))]
            exact (manhattan_congr_of_zero cfg.d _ _ hz x).symm
        · exact h

/-- the result of the whole loop satisfies whatever every iteration establishes -/
theorem lloydLoop_post {cfg : Cfg} {X : List Point} (R : Best → Option Rat → Prop)
    (P : List (Option Point) → Option Best → Prop)
    (step : ∀ centers best cs' b' sh, P centers best → lloydIter cfg X centers best = .ok (cs', b', sh) →
      P cs' (some b') ∧ R b' sh) :
    ∀ (fuel i : Nat) (centers : List (Option Point)) (best : Option Best) (b : Best) (sh : Option Rat) (it : Int),
      P centers best → lloydLoop cfg X fuel i centers best = .ok (b, sh, it) → R b sh := by
  intro fuel
  induction fuel with
  | zero => intro i centers best b sh it _ h; simp [lloydLoop] at h
  | succ fuel ih =>
    intro i centers best b sh it hP h
    unfold lloydLoop at h
    split at h
    · cases h
    · rename_i cs' b' sh' hit
      obtain ⟨hP', hR⟩ := step _ _ _ _ _ hP hit
      split at h
      · simp only [Except.ok.injEq, Prod.mk.injEq] at h
        obtain ⟨rfl, rfl, _⟩ := h
        exact hR
      · exact ih _ _ _ _ _ _ hP' h


/-! ### from the loop to `_kmeans_single_lloyd`, the `n_init` loop and `_fit_l1` -/

theorem labelsInertia_consistent {d : Nat} {X : List Point} {cs : List (Option Point)} {es : EStep}
    (h : labelsInertia d X cs = .ok es) : ConsistentOpt d X es.labels cs es.inertia := by
  obtain ⟨C, hC, hCne, _, hlab, _, hin⟩ := labelsInertia_ok h
  exact ⟨C, hC, by rw [hlab, hin]; exact estep_consistent d X C hCne⟩

theorem shiftTotal_nonneg (d : Nat) (o n : List (Option Point)) (s : Rat) (h : shiftTotal d o n = some s) :
    0 ≤ s := by
  unfold shiftTotal at h
  split at h
  · simp only [Option.some.injEq] at h
    subst h
    rw [← List.map_uncurry_zip_eq_zipWith]
    exact sum_map_nonneg _ _ (fun p _ => manhattan_nonneg d p.1 p.2)
  · cases h

theorem lloydIter_shift {cfg : Cfg} {X : List Point} {centers : List (Option Point)} {best : Option Best}
    {cs' : List (Option Point)} {b' : Best} {sh : Option Rat}
    (h : lloydIter cfg X centers best = .ok (cs', b', sh)) : sh = shiftTotal cfg.d centers cs' := by
  unfold lloydIter at h
  split at h
  · cases h
  · split at h
    · cases h
    · simp only [Except.ok.injEq, Prod.mk.injEq] at h
      obtain ⟨h1, _, h3⟩ := h
      rw [← h1]; exact h3.symm

/-- a run whose last centre shift is not NaN returns consistent labels, centres and inertia -/
theorem lloyd_consistent {cfg : Cfg} {X : List Point} {init : List Point} {r : Run}
    (h : kmeansSingleLloyd cfg X init = .ok r) (hk : init.length = cfg.k)
    (hcase : reruns r.shift cfg.tol = true ∨ r.shift = some 0) :
    ConsistentOpt cfg.d X r.labels r.centers r.inertia := by
  unfold kmeansSingleLloyd at h
  split at h
  · cases h
  · rename_i b sh it hloop
    split at h
    · split at h
      · cases h
      · rename_i es hes
        cases h
        exact labelsInertia_consistent hes
    · rename_i hre
      cases h
      simp only at hcase
      rcases hcase with hc | hc
      · exact absurd hc hre
      · exact lloydLoop_post (fun b sh => sh = some 0 → ConsistentOpt cfg.d X b.labels b.centers b.inertia)
          (LoopInv cfg X) (fun _ _ _ _ _ hP hit => lloydIter_step hP hit) _ _ _ _ _ _ _
          ⟨by simpa using hk, fun b hb => by cases hb⟩ hloop hc

theorem lloyd_shift_nonneg {cfg : Cfg} {X : List Point} {init : List Point} {r : Run}
    (h : kmeansSingleLloyd cfg X init = .ok r) (s : Rat) (hs : r.shift = some s) : 0 ≤ s := by
  unfold kmeansSingleLloyd at h
  split at h
  · cases h
  · rename_i b sh it hloop
    have hR := lloydLoop_post (cfg := cfg) (X := X) (fun _ sh => ∀ s, sh = some s → 0 ≤ s) (fun _ _ => True)
      (fun centers _ cs' _ sh _ hit => ⟨trivial, fun s hs => by
        rw [lloydIter_shift hit] at hs; exact shiftTotal_nonneg _ _ _ _ hs⟩) _ _ _ _ _ _ _ trivial hloop
    split at h
    · split at h
      · cases h
      · cases h; exact hR s hs
    · cases h; exact hR s hs

/-- the best of the `n_init` runs is one of the runs -/
theorem nInitLoop_mem {cfg : Cfg} {X : List Point} : ∀ (inits : List (List Point)) (best : Option Run) (r : Run),
    nInitLoop cfg X inits best = .ok (some r) →
    best = some r ∨ ∃ init ∈ inits, kmeansSingleLloyd cfg X init = .ok r := by
  intro inits
  induction inits with
  | nil => intro best r h; simp [nInitLoop] at h; exact Or.inl h
  | cons init rest ih =>
    intro best r h
    unfold nInitLoop at h
    split at h
    · cases h
    · rename_i r0 hr0
      rcases ih _ r h with hb | ⟨i', hi', hrun⟩
      · cases best with
        | none =>
          simp only [Option.some.injEq] at hb; subst hb; exact Or.inr ⟨init, by simp, hr0⟩
        | some b0 =>
          simp only [Option.some.injEq] at hb
          split at hb
          · subst hb; exact Or.inr ⟨init, by simp, hr0⟩
          · subst hb; exact Or.inl rfl
      · exact Or.inr ⟨i', by simp [hi'], hrun⟩

theorem fitL1_mem {cfg : Cfg} {X : List Point} {inits : List (List Point)} {r : Run}
    (h : fitL1 cfg X inits = .ok r) :
    cfg.k ≤ X.length ∧ 0 < cfg.maxIter ∧
    ∃ init ∈ inits, init.length = cfg.k ∧ kmeansSingleLloyd cfg X init = .ok r := by
  unfold fitL1 at h
  split at h
  · cases h
  · rename_i hguard
    simp only [Bool.or_eq_true, decide_eq_true_eq, not_or, List.any_eq_true, bne_iff_ne, ne_eq,
      not_exists, not_and, Decidable.not_not, beq_iff_eq] at hguard
    obtain ⟨⟨⟨_, hmi⟩, hn⟩, hlen⟩ := hguard
    split at h
    · cases h
    · cases h
    · rename_i r' hloop
      cases h
      rcases nInitLoop_mem inits none r hloop with hb | ⟨init, hi, hrun⟩
      · cases hb
      · exact ⟨by omega, by omega, init, hi, hlen init hi, hrun⟩


/-! ### centres stay in the data range -/

theorem lloyd_in_box {cfg : Cfg} {X : List Point} {init : List Point} {r : Run}
    (h : kmeansSingleLloyd cfg X init = .ok r) (lo hi : Point) (hbox : ∀ x ∈ X, InBox cfg.d lo hi x) :
    ∀ c, some c ∈ r.centers → InBox cfg.d lo hi c := by
  unfold kmeansSingleLloyd at h
  split at h
  · cases h
  · rename_i b sh it hloop
    have hR := lloydLoop_post (cfg := cfg) (X := X)
      (fun b _ => ∀ c, some c ∈ b.centers → InBox cfg.d lo hi c)
      (fun _ best => ∀ b, best = some b → ∀ c, some c ∈ b.centers → InBox cfg.d lo hi c)
      (by
        intro centers best cs' b' sh hP hit
        unfold lloydIter at hit
        split at hit
        · cases hit
        · rename_i es hes
          split at hit
          · cases hit
          · rename_i csn hcd
            obtain ⟨C, _, _, _, hlab, _, _⟩ := labelsInertia_ok hes
            have hin := centersDense_in_box hcd (by rw [hlab]; simp) lo hi hbox
            simp only [Except.ok.injEq, Prod.mk.injEq] at hit
            obtain ⟨_, hb, _⟩ := hit
            have hb' : ∀ c, some c ∈ b'.centers → InBox cfg.d lo hi c := by
              cases hbo : best with
              | none => rw [hbo] at hb; subst hb; exact hin
              | some b0 =>
                rw [hbo] at hb
                simp only at hb
                split at hb
                · subst hb; exact hin
                · subst hb; exact hP b0 hbo
            exact ⟨fun b hb => by cases hb; exact hb', hb'⟩)
      _ _ _ _ _ _ _ (fun b hb => by cases hb) hloop
    split at h
    · split at h
      · cases h
      · cases h; exact hR
    · cases h; exact hR

/-! ### with the guard in the median loop, a run never fails and never yields a NaN centre -/

theorem labelsInertia_succeeds (d : Nat) (X : List Point) (cs : List (Option Point))
    (hX : X ≠ []) (hne : cs ≠ []) (hall : ∀ o ∈ cs, o ≠ none) :
    ∃ es, labelsInertia d X cs = .ok es := by
  obtain ⟨C, hC⟩ := allSome_isSome cs hall
  have hlen := (allSome_spec cs C hC).1
  unfold labelsInertia
  rw [hC]
  cases C with
  | nil => simp at hlen; exact absurd (List.eq_nil_of_length_eq_zero hlen.symm) hne
  | cons c C' =>
    have : X.isEmpty = false := by simpa using hX
    simp only [this]
    exact ⟨_, rfl⟩

/-- invariant for success: `k` centres, none NaN, and the best so far has no NaN centre either -/
def OkInv (cfg : Cfg) (centers : List (Option Point)) (best : Option Best) : Prop :=
  centers.length = cfg.k ∧ (∀ o ∈ centers, o ≠ none) ∧
  ∀ b, best = some b → b.centers.length = cfg.k ∧ ∀ o ∈ b.centers, o ≠ none

theorem shiftTotal_isSome (d : Nat) (o n : List (Option Point)) (ho : ∀ c ∈ o, c ≠ none)
    (hn : ∀ c ∈ n, c ≠ none) : ∃ s, shiftTotal d o n = some s := by
  obtain ⟨O, hO⟩ := allSome_isSome o ho
  obtain ⟨N, hN⟩ := allSome_isSome n hn
  exact ⟨(List.zipWith (manhattan d) O N).sum, by simp [shiftTotal, hO, hN]⟩

theorem lloydIter_ok {cfg : Cfg} (hskip : cfg.skipEmpty = true) (hfar : FarValid cfg.farOf)
    (X : List Point) (hk1 : 0 < cfg.k) (hkn : cfg.k ≤ X.length)
    (centers : List (Option Point)) (best : Option Best) (hinv : OkInv cfg centers best) :
    ∃ cs' b' s, lloydIter cfg X centers best = .ok (cs', b', some s) ∧ OkInv cfg cs' (some b') := by
  obtain ⟨hlen, hall, hbest⟩ := hinv
  have hX : X ≠ [] := by intro h; rw [h] at hkn; simp at hkn; omega
  have hcne : centers ≠ [] := by intro h; rw [h] at hlen; simp at hlen; omega
  obtain ⟨es, hes⟩ := labelsInertia_succeeds cfg.d X centers hX hcne hall
  obtain ⟨C, _, _, _, hlab, hdist, _⟩ := labelsInertia_ok hes
  obtain ⟨csn, hcd, hcsn⟩ := centersDense_ok hskip hfar X es.labels es.dists (by rw [hdist]; simp) hkn
  have hcl := centersDense_length hcd
  obtain ⟨s, hs⟩ := shiftTotal_isSome cfg.d centers csn hall hcsn
  unfold lloydIter
  simp only [hes, hcd, hs]
  refine ⟨_, _, _, rfl, hcl, hcsn, ?_⟩
  intro b hb
  simp only [Option.some.injEq] at hb
  subst hb
  cases best with
  | none => exact ⟨hcl, hcsn⟩
  | some b0 =>
    simp only
    split
    · exact ⟨hcl, hcsn⟩
    · exact hbest b0 rfl

theorem lloydLoop_ok {cfg : Cfg} (hskip : cfg.skipEmpty = true) (hfar : FarValid cfg.farOf)
    (X : List Point) (hk1 : 0 < cfg.k) (hkn : cfg.k ≤ X.length) :
    ∀ (fuel i : Nat) (centers : List (Option Point)) (best : Option Best), 0 < fuel →
      OkInv cfg centers best →
      ∃ b s it, lloydLoop cfg X fuel i centers best = .ok (b, some s, it) ∧
        b.centers.length = cfg.k ∧ ∀ o ∈ b.centers, o ≠ none := by
  intro fuel
  induction fuel with
  | zero => intro _ _ _ h; omega
  | succ fuel ih =>
    intro i centers best _ hinv
    obtain ⟨cs', b', s, hit, hinv'⟩ := lloydIter_ok hskip hfar X hk1 hkn centers best hinv
    unfold lloydLoop
    simp only [hit]
    split
    · exact ⟨b', s, _, rfl, hinv'.2.2 b' rfl⟩
    · rename_i hcond
      have hf : 0 < fuel := by
        rcases Nat.eq_zero_or_pos fuel with h0 | h0
        · subst h0; simp at hcond
        · exact h0
      exact ih (i + 1) cs' (some b') hf hinv'

theorem lloyd_ok {cfg : Cfg} (hskip : cfg.skipEmpty = true) (hfar : FarValid cfg.farOf)
    (X : List Point) (hk1 : 0 < cfg.k) (hkn : cfg.k ≤ X.length)
    (hmi : 0 < (Gen.C06.loopCount (cfg.maxIter : Int)).toNat)
    (init : List Point) (hinit : init.length = cfg.k) :
    ∃ r, kmeansSingleLloyd cfg X init = .ok r ∧ r.centers.length = cfg.k ∧
      (∀ o ∈ r.centers, o ≠ none) ∧ r.shift ≠ none := by
  obtain ⟨b, s, it, hloop, hbl, hball⟩ := lloydLoop_ok hskip hfar X hk1 hkn _ 0 (init.map some) none hmi
    ⟨by simpa using hinit, by simp, fun b hb => by cases hb⟩
  have hX : X ≠ [] := by intro h; rw [h] at hkn; simp at hkn; omega
  unfold kmeansSingleLloyd
  simp only [hloop]
  split
  · obtain ⟨es, hes⟩ := labelsInertia_succeeds cfg.d X b.centers hX
      (by intro h; rw [h] at hbl; simp at hbl; omega) hball
    simp only [hes]
    exact ⟨_, rfl, hbl, hball, by simp⟩
  · exact ⟨_, rfl, hbl, hball, by simp⟩

theorem nInitLoop_ok {cfg : Cfg} {X : List Point}
    (hrun : ∀ init, init.length = cfg.k → ∃ r, kmeansSingleLloyd cfg X init = .ok r) :
    ∀ (inits : List (List Point)) (best : Option Run), (∀ c ∈ inits, c.length = cfg.k) →
      (inits ≠ [] ∨ best ≠ none) → ∃ r, nInitLoop cfg X inits best = .ok (some r) := by
  intro inits
  induction inits with
  | nil =>
    intro best _ h
    rcases h with h | h
    · exact absurd rfl h
    · cases best with
      | none => exact absurd rfl h
      | some r => exact ⟨r, rfl⟩
  | cons init rest ih =>
    intro best hlen _
    obtain ⟨r0, hr0⟩ := hrun init (hlen init (by simp))
    unfold nInitLoop
    simp only [hr0]
    exact ih _ (fun c hc => hlen c (by simp [hc])) (Or.inr (by simp))


/-! ### the driver's default `farOf` (stable argsort, reversed) is a valid one -/

theorem insertIdx_spec (ds : List Rat) (i : Nat) : ∀ acc : List Nat,
    (insertIdx ds i acc).length = acc.length + 1 ∧ ∀ x ∈ insertIdx ds i acc, x = i ∨ x ∈ acc := by
  intro acc
  induction acc with
  | nil => simp [insertIdx]
  | cons j js ih =>
    unfold insertIdx
    split
    · refine ⟨by simp, fun x hx => ?_⟩
      rcases List.mem_cons.mp hx with h | h
      · exact Or.inl h
      · exact Or.inr h
    · refine ⟨by simp [ih.1], fun x hx => ?_⟩
      rcases List.mem_cons.mp hx with h | h
      · exact Or.inr (by simp [h])
      · rcases ih.2 x h with h | h
        · exact Or.inl h
        · exact Or.inr (by simp [h])

theorem foldl_insertIdx_spec (ds : List Rat) : ∀ (l acc : List Nat),
    (l.foldl (fun acc i => insertIdx ds i acc) acc).length = acc.length + l.length ∧
    ∀ x ∈ l.foldl (fun acc i => insertIdx ds i acc) acc, x ∈ acc ∨ x ∈ l := by
  intro l
  induction l with
  | nil => intro acc; simp
  | cons i l ih =>
    intro acc
    obtain ⟨h1, h2⟩ := ih (insertIdx ds i acc)
    obtain ⟨h3, h4⟩ := insertIdx_spec ds i acc
    simp only [List.foldl_cons]
    refine ⟨by rw [h1, h3]; simp; omega, fun x hx => ?_⟩
    rcases h2 x hx with h | h
    · rcases h4 x h with h | h
      · exact Or.inr (by simp [h])
      · exact Or.inl h
    · exact Or.inr (by simp [h])

theorem farStable_valid : FarValid farStable := by
  intro ds
  obtain ⟨h1, h2⟩ := foldl_insertIdx_spec ds (List.range ds.length) []
  refine ⟨by simp [farStable, argsortStable, h1], fun i hi => ?_⟩
  simp only [farStable, List.mem_reverse, argsortStable] at hi
  rcases h2 i hi with h | h
  · cases h
  · exact List.mem_range.mp h

end MlVerif.KMedians
