-- Root of the MlVerif library: executable models (import-free), regenerated definitions,
-- helper lemmas and one property file per property.  (written by harness/register.py)
import MlVerif.Model.Proto
import MlVerif.Properties.C01
import MlVerif.Properties.C02
import MlVerif.Properties.C03
import MlVerif.Properties.C04
import MlVerif.Properties.C05
import MlVerif.Properties.C06
import MlVerif.Properties.C07
import MlVerif.Properties.C08
import MlVerif.Properties.C09
import MlVerif.Properties.C10
import MlVerif.Properties.C11
import MlVerif.Properties.C12
import MlVerif.Properties.C13
import MlVerif.Properties.C14
import MlVerif.Properties.C15
import MlVerif.Properties.C16
import MlVerif.Properties.C17
import MlVerif.Properties.C18
import MlVerif.Properties.C19
import MlVerif.Properties.C20
