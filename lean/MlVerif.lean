-- Root of the MlVerif library: executable models (import-free), regenerated definitions,
-- helper lemmas and one property file per property.
import MlVerif.Model.Proto
import MlVerif.Properties.C17
