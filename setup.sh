#!/bin/bash
# MANIFEST.setup_cmd: build the framework offline from files on disk.
set -e
cd "$(dirname "$0")"
export PATH="/opt/veriftools/lean/bin:$PATH"
export PYTHONDONTWRITEBYTECODE=1
# 1. regenerate every Gen/*.lean from /repo's working tree
/venv/bin/python harness/regen.py
# 2. build all models, lemmas and property proofs
(cd lean && lake build 2>&1 | tail -15)
# 3. warm the Cython cache of the shadow build
/venv/bin/python harness/shadow.py
echo "setup done"
