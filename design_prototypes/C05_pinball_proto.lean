-- DESIGN-PHASE FEASIBILITY PROTOTYPE (not part of the check machinery; see DESIGN.md section 9).
-- C05: pinball-loss algebra over core Rat with grind: fit objective = pinball_q, the score as currently
-- written = pinball_(1-q), subgradient inequality (the per-row step of irls_fixed_point_optimal),
-- and a concrete counterexample witness closed with `decide +kernel` (plain `decide` gets stuck on Rat).
-- Checked with: lean C05_pinball_proto.lean   (core Lean only; axioms: propext, Classical.choice, Quot.sound)

-- C05 prototype: pinball loss (as the code weights it: over-prediction r>0 costs (1-q), under-prediction costs q)
def rho (q r : Rat) : Rat := if 0 ≤ r then (1 - q) * r else q * (-r)
def grad (q r : Rat) : Rat := if 0 < r then (1 - q) else -q      -- a subgradient when r ≠ 0

theorem rho_subgrad (q r r' : Rat) (hr : r ≠ 0) :
    rho q r + grad q r * (r' - r) ≤ rho q r' := by
  unfold rho grad
  split <;> split <;> split <;> grind

-- the code's formulation:  epsilon = |r|, mult = q if r>0, (1-q) if r<0, 1 if r=0;  fit uses |r| * (1 - mult)
def absR (r : Rat) : Rat := if 0 ≤ r then r else -r
def mult (q r : Rat) : Rat := if 0 < r then q else if r < 0 then 1 - q else 1
theorem fit_objective_is_pinball (q r : Rat) : absR r * (1 - mult q r) = rho q r := by
  by_cases h0 : r = 0
  · subst h0; simp [absR, mult, rho]
  · unfold absR mult rho; split <;> split <;> (try split) <;> grind
-- and the score as currently written uses `mult`, which is the pinball loss of 1-q:
theorem score_is_pinball_of_one_minus_q (q r : Rat) (hr : r ≠ 0) : absR r * mult q r = rho (1 - q) r := by
  unfold absR mult rho; split <;> split <;> (try split) <;> grind
-- counterexample to "score = pinball_q" on a concrete witness
#print axioms rho_subgrad

theorem score_counterexample : absR 1 * mult (1/4) 1 ≠ rho (1/4) 1 := by decide +kernel
#print axioms fit_objective_is_pinball
#print axioms score_is_pinball_of_one_minus_q
#print axioms score_counterexample
