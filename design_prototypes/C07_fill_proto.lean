-- DESIGN-PHASE FEASIBILITY PROTOTYPE (not part of the check machinery; see DESIGN.md section 9).
-- C07: the quota-fill loop of _constraint_association_distance places every point in one pass and ends with
-- every cluster at floor(n/k) or ceil(n/k), for every n, k and every per-point preference order.
-- Checked with: lean C07_fill_proto.lean   (core Lean only, ~1.5 s; axioms: propext, Quot.sound)

-- C07 prototype: _constraint_association_distance fill loop, abstracted over preference orders.
structure St where
  cnt : Nat → Nat
  extra : Nat → Nat      -- 1 iff leftclose[c] == 0 (cluster already took its leftover point)
  nover : Nat

def bump (f : Nat → Nat) (c : Nat) : Nat → Nat := fun x => if x = c then f c + 1 else f x

theorem bump_same (f : Nat → Nat) (c : Nat) : bump f c c = f c + 1 := by simp [bump]
theorem bump_other (f : Nat → Nat) (c x : Nat) (h : x ≠ c) : bump f c x = f x := by simp [bump, h]

/-- inner `for c in centers_index[ind, :]` -/
def tryAssign (limit : Nat) (s : St) : List Nat → Option (Nat × St)
  | [] => none
  | c :: cs =>
    if s.cnt c < limit then some (c, { s with cnt := bump s.cnt c })
    else if 0 < s.nover ∧ s.extra c = 0 then
      some (c, { cnt := bump s.cnt c, extra := bump s.extra c, nover := s.nover - 1 })
    else tryAssign limit s cs

def sumTo (f : Nat → Nat) : Nat → Nat
  | 0 => 0
  | k+1 => sumTo f k + f k

structure FillInv (k limit leftover : Nat) (s : St) (t : Nat) : Prop where
  bit : ∀ c, c < k → s.extra c ≤ 1
  le : ∀ c, c < k → s.cnt c ≤ limit + s.extra c
  ex : ∀ c, c < k → s.extra c = 1 → s.cnt c = limit + 1
  bud : sumTo s.extra k + s.nover = leftover
  tot : sumTo s.cnt k = t

theorem sumTo_congr (f g : Nat → Nat) (k : Nat) (h : ∀ c, c < k → f c = g c) : sumTo f k = sumTo g k := by
  induction k with
  | zero => rfl
  | succ k ih => simp [sumTo, ih (fun c hc => h c (by omega)), h k (by omega)]

theorem sumTo_bump (f : Nat → Nat) (c k : Nat) (hc : c < k) : sumTo (bump f c) k = sumTo f k + 1 := by
  induction k with
  | zero => omega
  | succ k ih =>
    by_cases e : c = k
    · subst e
      have h1 : sumTo (bump f c) c = sumTo f c :=
        sumTo_congr _ _ _ (fun x hx => bump_other f c x (by omega))
      simp only [sumTo, h1, bump_same]; omega
    · have h1 := ih (by omega)
      have h2 := bump_other f c k (by omega)
      simp only [sumTo, h1, h2]; omega

theorem sumTo_le (f g : Nat → Nat) (k : Nat) (h : ∀ c, c < k → f c ≤ g c) : sumTo f k ≤ sumTo g k := by
  induction k with
  | zero => simp [sumTo]
  | succ k ih =>
    have := ih (fun c hc => h c (by omega)); have := h k (by omega); simp only [sumTo]; omega

theorem sumTo_eq_of_le (f g : Nat → Nat) (k : Nat) (h : ∀ c, c < k → f c ≤ g c)
    (hs : sumTo g k ≤ sumTo f k) : ∀ c, c < k → f c = g c := by
  induction k with
  | zero => intro c hc; omega
  | succ k ih =>
    have h1 := sumTo_le f g k (fun c hc => h c (by omega))
    have h2 := h k (by omega)
    simp only [sumTo] at hs
    intro c hc
    by_cases e : c = k
    · subst e; omega
    · exact ih (fun c hc => h c (by omega)) (by omega) c (by omega)

theorem sumTo_add_const (f : Nat → Nat) (a k : Nat) : sumTo (fun c => a + f c) k = k * a + sumTo f k := by
  induction k with
  | zero => simp [sumTo]
  | succ k ih => simp only [sumTo, ih, Nat.succ_mul]; omega

theorem sumTo_all_one (f : Nat → Nat) (k : Nat) (h : ∀ c, c < k → f c = 1) : sumTo f k = k := by
  induction k with
  | zero => rfl
  | succ k ih => simp only [sumTo, ih (fun c hc => h c (by omega)), h k (by omega)]

/-- If no cluster in the preference list accepts, every listed cluster is saturated. -/
theorem tryAssign_none (limit : Nat) (s : St) (pref : List Nat) (h : tryAssign limit s pref = none) :
    ∀ c, c ∈ pref → limit ≤ s.cnt c ∧ (s.nover = 0 ∨ s.extra c ≠ 0) := by
  induction pref with
  | nil => intro c hc; cases hc
  | cons a as ih =>
    intro c hc
    simp only [tryAssign] at h
    split at h
    · cases h
    · split at h
      · cases h
      · rename_i h1 h2
        rcases List.mem_cons.mp hc with e | e
        · subst e
          refine ⟨by omega, ?_⟩
          by_cases hn : s.nover = 0
          · exact Or.inl hn
          · right; intro hx; exact h2 ⟨by omega, hx⟩
        · exact ih h c e

theorem tryAssign_some (k limit leftover : Nat) (s : St) (t : Nat) (inv : FillInv k limit leftover s t)
    (c : Nat) (s' : St) : ∀ (pref : List Nat), (∀ c, c ∈ pref → c < k) →
      tryAssign limit s pref = some (c, s') → c < k ∧ FillInv k limit leftover s' (t + 1) := by
  intro pref
  induction pref with
  | nil => intro _ h; cases h
  | cons a as ih =>
    intro hr h
    simp only [tryAssign] at h
    have hak : a < k := hr a (List.mem_cons_self ..)
    split at h
    · rename_i h1
      cases h
      refine ⟨hak, ⟨inv.bit, ?_, ?_, inv.bud, ?_⟩⟩
      · intro x hx
        by_cases e : x = c
        · subst e; simp only [bump_same]; have := inv.le x hx; omega
        · simp only [bump_other _ _ _ e]; exact inv.le x hx
      · intro x hx he
        by_cases e : x = c
        · subst e; simp only [bump_same]; have := inv.ex x hx he; omega
        · simp only [bump_other _ _ _ e]; exact inv.ex x hx he
      · show sumTo (bump s.cnt c) k = t + 1
        rw [sumTo_bump _ _ _ hak, inv.tot]
    · split at h
      · rename_i h1 h2
        cases h
        have hle := inv.le c hak
        have hca : s.cnt c = limit := by omega
        refine ⟨hak, ⟨?_, ?_, ?_, ?_, ?_⟩⟩
        · intro x hx
          by_cases e : x = c
          · subst e; show bump s.extra x x ≤ 1; rw [bump_same]; omega
          · show bump s.extra c x ≤ 1; rw [bump_other _ _ _ e]; exact inv.bit x hx
        · intro x hx
          by_cases e : x = c
          · subst e; show bump s.cnt x x ≤ limit + bump s.extra x x; rw [bump_same, bump_same]; omega
          · show bump s.cnt c x ≤ limit + bump s.extra c x
            rw [bump_other _ _ _ e, bump_other _ _ _ e]; exact inv.le x hx
        · intro x hx he
          by_cases e : x = c
          · subst e; show bump s.cnt x x = limit + 1; rw [bump_same]; omega
          · show bump s.cnt c x = limit + 1
            have he' : s.extra x = 1 := by
              have : bump s.extra c x = 1 := he
              rwa [bump_other _ _ _ e] at this
            rw [bump_other _ _ _ e]; exact inv.ex x hx he'
        · show sumTo (bump s.extra c) k + (s.nover - 1) = leftover
          rw [sumTo_bump _ _ _ hak]; have := inv.bud; omega
        · show sumTo (bump s.cnt c) k = t + 1
          rw [sumTo_bump _ _ _ hak, inv.tot]
      · exact ih (fun c hc => hr c (List.mem_cons_of_mem _ hc)) h

/-- Progress: while fewer than n = k*limit+leftover points are placed, the next point is placed,
    whatever its preference order (any list covering all k clusters), and the invariant is kept. -/
theorem progress (k limit leftover : Nat) (hlo : leftover < k) (s : St) (t : Nat)
    (inv : FillInv k limit leftover s t) (ht : t < k * limit + leftover)
    (pref : List Nat) (hcov : ∀ c, c < k → c ∈ pref) (hrng : ∀ c, c ∈ pref → c < k) :
    ∃ c s', tryAssign limit s pref = some (c, s') ∧ c < k ∧ FillInv k limit leftover s' (t + 1) := by
  cases hres : tryAssign limit s pref with
  | none =>
    exfalso
    have hsat := tryAssign_none limit s pref hres
    by_cases hn : s.nover = 0
    · have heq : ∀ c, c < k → s.cnt c = limit + s.extra c := by
        intro c hc
        have h1 := inv.le c hc
        have h2 := (hsat c (hcov c hc)).1
        have h3 := inv.bit c hc
        by_cases hx : s.extra c = 1
        · have := inv.ex c hc hx; omega
        · omega
      have h4 := sumTo_congr s.cnt (fun c => limit + s.extra c) k heq
      rw [sumTo_add_const] at h4
      have := inv.bud; have := inv.tot; omega
    · have hall : ∀ c, c < k → s.extra c = 1 := by
        intro c hc
        have h3 := inv.bit c hc
        rcases (hsat c (hcov c hc)).2 with h | h
        · exact absurd h hn
        · omega
      have := sumTo_all_one s.extra k hall
      have := inv.bud; omega
  | some r =>
    obtain ⟨c, s'⟩ := r
    exact ⟨c, s', rfl, tryAssign_some k limit leftover s t inv c s' pref hrng hres⟩

/-- Once all n points are placed every cluster holds floor(n/k) or ceil(n/k) points. -/
theorem balanced_final (k limit leftover : Nat) (s : St)
    (inv : FillInv k limit leftover s (k * limit + leftover)) :
    ∀ c, c < k → s.cnt c = limit ∨ s.cnt c = limit + 1 := by
  have h1 : sumTo (fun c => limit + s.extra c) k ≤ sumTo s.cnt k := by
    rw [sumTo_add_const, inv.tot]; have := inv.bud; omega
  have h2 := sumTo_eq_of_le s.cnt (fun c => limit + s.extra c) k inv.le h1
  intro c hc
  have := h2 c hc
  have := inv.bit c hc
  omega

#print axioms progress
#print axioms balanced_final
