-- DESIGN-PHASE FEASIBILITY PROTOTYPE (not part of the check machinery; see DESIGN.md section 9).
-- C11: index-level model of _transform_iall (pos / index list / XP[:, a:end] slices) equals the
-- lexicographic combinations-with-replacement order scikit-learn uses, for every n, degree, bias.
-- The model was diffed against the real Python function (symbolic multiply callback) on all
-- 50 configurations n,degree in 0..4 x bias: identical.
-- Checked with: lean C11_iall_proto.lean   (core Lean only, ~1.5 s; axioms: propext, Quot.sound)

-- C11 prototype: _transform_iall (index-level model) = combinations_with_replacement order, all n, degree.
abbrev Mono := List Nat   -- a monomial as the list of variable indices multiplied, newest first

/-- XP[:, a:e] -/
def slice (xp : List Mono) (a e : Nat) : List Mono := (xp.drop a).take (e - a)

/-- `for i in range(n)` body of a degree step; pos = xp.length; processes variables i .. i+cnt-1 -/
def iallInner (index : List Nat) (e : Nat) : Nat → Nat → List Mono → List Nat → List Mono × List Nat
  | _, 0, xp, ni => (xp, ni)
  | i, cnt+1, xp, ni =>
    let a := index.getD i 0
    iallInner index e (i+1) cnt (xp ++ (slice xp a e).map (fun m => i :: m)) (ni ++ [xp.length])

def iallStep (n : Nat) (st : List Mono × List Nat) : List Mono × List Nat :=
  let e := st.2.getD n 0            -- index[-1]; index has n+1 entries
  let r := iallInner st.2 e 0 n st.1 []
  (r.1, r.2 ++ [r.1.length])

def iter {α} (f : α → α) : Nat → α → α
  | 0, x => x
  | k+1, x => f (iter f k x)

def iallInit (n : Nat) (bias : Bool) : List Mono × List Nat :=
  let xp0 : List Mono := if bias then [[]] else []
  (xp0 ++ (List.range n).map (fun i => [i]), (List.range n).map (· + xp0.length) ++ [xp0.length + n])

def iall (n degree : Nat) (bias : Bool) : List Mono :=
  match degree with
  | 0 => if bias then [[]] else []       -- XP has only the bias column
  | d+1 => (iter (iallStep n) d (iallInit n bias)).1

/-- spec: itertools.combinations_with_replacement(range(lo, n), d) in lexicographic order -/
def cwr (n : Nat) : Nat → Nat → List Mono
  | 0, _ => [[]]
  | d+1, lo => (List.range' lo (n - lo)).flatMap (fun i => (cwr n d i).map (i :: ·))

def polySpec (n degree : Nat) (bias : Bool) : List Mono :=
  (if bias then [[]] else []) ++ (List.range' 1 degree).flatMap (fun d => cwr n d 0)

#eval iall 3 3 true == polySpec 3 3 true
#eval iall 3 2 false

/-- blocks of degree d+1 for variables i .. j-1 -/
def seg (n d i j : Nat) : List Mono := (List.range' i (j - i)).flatMap (fun v => (cwr n d v).map (v :: ·))

theorem cwr_succ (n d lo : Nat) : cwr n (d+1) lo = seg n d lo n := rfl

theorem seg_self (n d i : Nat) : seg n d i i = [] := by simp [seg]

theorem seg_snoc (n d i j : Nat) (h : i ≤ j) : seg n d i (j+1) = seg n d i j ++ (cwr n d j).map (j :: ·) := by
  unfold seg
  have h1 : j + 1 - i = (j - i) + 1 := by omega
  have h2 : i + (j - i) = j := by omega
  rw [h1, List.range'_concat, List.flatMap_append]
  simp [h2]

theorem getD_snoc_lt (l : List Nat) (x j : Nat) (h : j < l.length) : (l ++ [x]).getD j 0 = l.getD j 0 := by
  simp [List.getD_eq_getElem?_getD, List.getElem?_append_left h]

theorem getD_snoc_len (l : List Nat) (x : Nat) : (l ++ [x]).getD l.length 0 = x := by
  simp [List.getD_eq_getElem?_getD]

theorem seg_split (n d i j k : Nat) (h1 : i ≤ j) (h2 : j ≤ k) : seg n d i k = seg n d i j ++ seg n d j k := by
  unfold seg
  have : k - i = (j - i) + (k - j) := by omega
  rw [this, ← List.range'_append_1, List.flatMap_append]
  congr 3; omega

theorem slice_append_left (A B : List Mono) (a : Nat) (ha : a ≤ A.length) :
    slice (A ++ B) a A.length = A.drop a := by
  unfold slice
  rw [List.drop_append_of_le_length ha, List.take_append_of_le_length (by simp)]
  rw [List.take_of_length_le (by simp)]

theorem slice_suffix (A B : List Mono) : slice (A ++ B) A.length (A ++ B).length = B := by
  unfold slice
  simp

structure IdxOk (n d : Nat) (xp : List Mono) (index : List Nat) : Prop where
  len : index.length = n + 1
  last : index.getD n 0 = xp.length
  le : ∀ j, j < n → index.getD j 0 ≤ xp.length
  suf : ∀ j, j < n → xp.drop (index.getD j 0) = cwr n d j

theorem iallInner_spec (n d : Nat) (xpOld : List Mono) (index : List Nat) (ok : IdxOk n d xpOld index) :
    ∀ (cnt i : Nat) (ni : List Nat), i + cnt = n →
      ni = (List.range i).map (fun j => xpOld.length + (seg n d 0 j).length) →
      iallInner index xpOld.length i cnt (xpOld ++ seg n d 0 i) ni =
        (xpOld ++ seg n d 0 n, (List.range n).map (fun j => xpOld.length + (seg n d 0 j).length)) := by
  intro cnt
  induction cnt with
  | zero => intro i ni h hni; have : i = n := by omega
            subst this; simp [iallInner, hni]
  | succ cnt ih =>
    intro i ni h hni
    simp only [iallInner]
    have hi : i < n := by omega
    have hs : slice (xpOld ++ seg n d 0 i) (index.getD i 0) xpOld.length = cwr n d i := by
      rw [slice_append_left _ _ _ (ok.le i hi), ok.suf i hi]
    rw [hs]
    have := ih (i+1) (ni ++ [(xpOld ++ seg n d 0 i).length]) (by omega) (by
      rw [hni, List.range_succ, List.map_append]; simp)
    rw [← this, seg_snoc n d 0 i (by omega), List.append_assoc]

theorem iallStep_spec (n d : Nat) (xp : List Mono) (index : List Nat) (ok : IdxOk n d xp index) :
    (iallStep n (xp, index)).1 = xp ++ cwr n (d+1) 0 ∧
    IdxOk n (d+1) (iallStep n (xp, index)).1 (iallStep n (xp, index)).2 := by
  have hin := iallInner_spec n d xp index ok n 0 [] (by omega) (by simp)
  simp only [seg_self, List.append_nil] at hin
  unfold iallStep
  simp only [ok.last, hin]
  have hlen : ((List.range n).map (fun j => xp.length + (seg n d 0 j).length)).length = n := by simp
  have hget : ∀ j, j < n → ((List.range n).map (fun j => xp.length + (seg n d 0 j).length)).getD j 0
      = xp.length + (seg n d 0 j).length := by
    intro j hj
    simp [List.getD_eq_getElem?_getD, hj]
  refine ⟨by rw [cwr_succ], ?_, ?_, ?_, ?_⟩
  · simp
  · have := getD_snoc_len ((List.range n).map (fun j => xp.length + (seg n d 0 j).length)) (xp ++ seg n d 0 n).length
    rw [hlen] at this; exact this
  · intro j hj
    rw [getD_snoc_lt _ _ _ (by rw [hlen]; exact hj), hget j hj]
    rw [seg_split n d 0 j n (by omega) (by omega)]; simp
  · intro j hj
    rw [getD_snoc_lt _ _ _ (by rw [hlen]; exact hj), hget j hj]
    rw [seg_split n d 0 j n (by omega) (by omega), ← List.append_assoc]
    have h3 : (xp ++ seg n d 0 j).length = xp.length + (seg n d 0 j).length := by simp
    rw [← h3, List.drop_left, cwr_succ]

theorem cwr_one (n lo : Nat) : cwr n 1 lo = (List.range' lo (n - lo)).map (fun i => [i]) := by
  simp only [cwr, List.map_cons, List.map_nil]
  induction (List.range' lo (n - lo)) with
  | nil => rfl
  | cons a l ih => simp [List.flatMap_cons, ih]

theorem drop_range (n j : Nat) : (List.range n).drop j = List.range' j (n - j) := by
  rw [List.range_eq_range', List.drop_range']
  simp

theorem init_ok (n : Nat) (bias : Bool) : IdxOk n 1 (iallInit n bias).1 (iallInit n bias).2 := by
  unfold iallInit
  generalize (if bias = true then ([[]] : List Mono) else []) = xp0
  have hlen : ((List.range n).map (· + xp0.length)).length = n := by simp
  have hget : ∀ j, j < n → ((List.range n).map (· + xp0.length)).getD j 0 = j + xp0.length := by
    intro j hj; simp [List.getD_eq_getElem?_getD, hj]
  refine ⟨by simp, ?_, ?_, ?_⟩
  · have := getD_snoc_len ((List.range n).map (· + xp0.length)) (xp0.length + n)
    rw [hlen] at this; simp [this]
  · intro j hj
    show (List.map (· + xp0.length) (List.range n) ++ [xp0.length + n]).getD j 0 ≤ _
    rw [getD_snoc_lt _ _ _ (by rw [hlen]; exact hj), hget j hj]; simp; omega
  · intro j hj
    show List.drop ((List.map (· + xp0.length) (List.range n) ++ [xp0.length + n]).getD j 0) _ = _
    rw [getD_snoc_lt _ _ _ (by rw [hlen]; exact hj), hget j hj, Nat.add_comm j, ← List.drop_drop,
        List.drop_left, ← List.map_drop, drop_range, cwr_one]

theorem iter_spec (n : Nat) (bias : Bool) : ∀ d,
    (iter (iallStep n) d (iallInit n bias)).1 =
      (if bias then [[]] else []) ++ (List.range' 1 (d+1)).flatMap (fun k => cwr n k 0) ∧
    IdxOk n (d+1) (iter (iallStep n) d (iallInit n bias)).1 (iter (iallStep n) d (iallInit n bias)).2 := by
  intro d
  induction d with
  | zero =>
    refine ⟨?_, init_ok n bias⟩
    simp [iter, iallInit, cwr_one, List.range_eq_range']
  | succ d ih =>
    have h := iallStep_spec n (d+1) _ _ ih.2
    simp only [iter]
    refine ⟨?_, h.2⟩
    rw [h.1, ih.1, List.append_assoc]
    congr 1
    conv => rhs; rw [List.range'_concat]
    have e : 1 + 1 * (d + 1) = d + 1 + 1 := by omega
    rw [e, List.flatMap_append]
    simp only [List.flatMap_cons, List.flatMap_nil, List.append_nil]

/-- `_transform_iall` produces exactly scikit-learn's monomials in scikit-learn's order,
    for every number of features, every degree, with or without bias. -/
theorem iall_eq_spec (n degree : Nat) (bias : Bool) : iall n degree bias = polySpec n degree bias := by
  cases degree with
  | zero => simp [iall, polySpec]
  | succ d => simp only [iall, polySpec]; exact (iter_spec n bias d).1

#print axioms iall_eq_spec
