-- DESIGN-PHASE FEASIBILITY PROTOTYPE (not part of the check machinery; see DESIGN.md section 9).
-- C12: digitize2tree add_nodes recursion is correct for every bins length and every x (ascending bins).
-- Checked with: lean C12_digitize_proto.lean   (core Lean only, ~2 s; axioms: propext, Quot.sound)

inductive DTree where
  | leaf (v : Nat)
  | node (th : Int) (l r : DTree)

def DTree.eval : DTree → Int → Nat
  | .leaf v, _ => v
  | .node th l r, x => if x ≤ th then l.eval x else r.eval x

def addNodes (bins : Nat → Int) (i j : Nat) (isLeft : Bool) : DTree :=
  if isLeft then
    if i = j then .leaf i
    else if i + 1 = j then .node (bins i) (.leaf i) (.leaf j)
    else if h : i + 1 < j then
      let index := (i + j) / 2
      .node (bins index) (addNodes bins i index true) (addNodes bins index j false)
    else .leaf 0
  else
    if i + 1 = j then .leaf j
    else if h : i + 1 < j then
      let index := (i + j) / 2
      .node (bins index) (addNodes bins i index true) (addNodes bins index j false)
    else .leaf 0
termination_by j - i
decreasing_by all_goals omega

def countLt (bins : Nat → Int) (x : Int) : Nat → Nat
  | 0 => 0
  | n+1 => countLt bins x n + (if bins n < x then 1 else 0)

def StrictMonoOn (bins : Nat → Int) (n : Nat) : Prop := ∀ a b, a < b → b < n → bins a < bins b

theorem countLt_all (bins : Nat → Int) (x : Int) (k : Nat) (h : ∀ m, m < k → bins m < x) :
    countLt bins x k = k := by
  induction k with
  | zero => rfl
  | succ k ih =>
    have := ih (fun m hm => h m (by omega))
    have h2 := h k (by omega)
    simp [countLt, this, h2]

theorem countLt_split (bins : Nat → Int) (x : Int) (k n : Nat) (hk : k ≤ n)
    (hlo : ∀ m, m < k → bins m < x) (hhi : ∀ m, k ≤ m → m < n → x ≤ bins m) :
    countLt bins x n = k := by
  induction n with
  | zero =>
    have : k = 0 := by omega
    subst this; rfl
  | succ n ih =>
    by_cases hkn : k = n + 1
    · subst hkn; exact countLt_all bins x _ hlo
    · have hk' : k ≤ n := by omega
      have := ih hk' (fun m h1 h2 => hhi m h1 (by omega))
      have h2 : ¬ bins n < x := by
        have := hhi n hk' (by omega); omega
      simp [countLt, this, h2]

-- answer characterisation: k is the answer iff lower/upper bracket holds
theorem dig_bracket (bins : Nat → Int) (n : Nat) (hm : StrictMonoOn bins n) (x : Int) (k : Nat)
    (hk : k ≤ n) (hlo : k = 0 ∨ bins (k-1) < x) (hhi : k = n ∨ x ≤ bins k) :
    countLt bins x n = k := by
  apply countLt_split bins x k n hk
  · intro m hmk
    rcases hlo with h0 | h1
    · omega
    · by_cases e : m = k - 1
      · subst e; exact h1
      · have := hm m (k-1) (by omega) (by omega); omega
  · intro m h1 h2
    rcases hhi with h0 | h3
    · omega
    · by_cases e : m = k
      · subst e; exact h3
      · have := hm k m (by omega) h2; omega

theorem addNodes_correct (bins : Nat → Int) (n : Nat) (hm : StrictMonoOn bins n) (x : Int) :
    ∀ (d i j : Nat), j - i ≤ d →
      ((i ≤ j → j < n → x ≤ bins j → (i = 0 ∨ bins (i-1) < x) →
          (addNodes bins i j true).eval x = countLt bins x n) ∧
       (i < j → j ≤ n → bins i < x → (j = n ∨ x ≤ bins j) →
          (addNodes bins i j false).eval x = countLt bins x n)) := by
  intro d
  induction d with
  | zero =>
    intro i j hd
    constructor
    · intro hij hjn hx hlo
      have : i = j := by omega
      subst this
      unfold addNodes; simp [DTree.eval]
      exact (dig_bracket bins n hm x i (by omega) hlo (Or.inr hx)).symm
    · intro hij; omega
  | succ d ih =>
    intro i j hd
    constructor
    · intro hij hjn hx hlo
      unfold addNodes
      simp only [if_true]
      by_cases e1 : i = j
      · subst e1; simp [DTree.eval]
        exact (dig_bracket bins n hm x i (by omega) hlo (Or.inr hx)).symm
      · simp only [e1, if_false]
        by_cases e2 : i + 1 = j
        · simp only [e2, if_true, DTree.eval]
          subst e2
          by_cases hxi : x ≤ bins i
          · simp [hxi]
            exact (dig_bracket bins n hm x i (by omega) hlo (Or.inr hxi)).symm
          · simp [hxi]
            exact (dig_bracket bins n hm x (i+1) (by omega) (Or.inr (by simpa using (by omega : bins i < x))) (Or.inr hx)).symm
        · simp only [e2, if_false]
          have h3 : i + 1 < j := by omega
          simp only [h3, dite_true, DTree.eval]
          by_cases hxm : x ≤ bins ((i+j)/2)
          · simp only [hxm, if_true]
            exact (ih i ((i+j)/2) (by omega)).1 (by omega) (by omega) hxm hlo
          · simp only [hxm, if_false]
            exact (ih ((i+j)/2) j (by omega)).2 (by omega) (by omega) (by omega) (Or.inr hx)
    · intro hij hjn hx hhi
      unfold addNodes
      simp only [Bool.false_eq_true, if_false]
      by_cases e2 : i + 1 = j
      · simp only [e2, if_true, DTree.eval]
        subst e2
        exact (dig_bracket bins n hm x (i+1) (by omega) (Or.inr (by simpa using hx)) hhi).symm
      · simp only [e2, if_false]
        have h3 : i + 1 < j := by omega
        simp only [h3, dite_true, DTree.eval]
        by_cases hxm : x ≤ bins ((i+j)/2)
        · simp only [hxm, if_true]
          have hlo' : i = 0 ∨ bins (i-1) < x := by
            rcases Nat.eq_zero_or_pos i with h0 | hp
            · exact Or.inl h0
            · right
              have := hm (i-1) i (by omega) (by omega)
              omega
          have hmid : (i+j)/2 < n := by omega
          exact (ih i ((i+j)/2) (by omega)).1 (by omega) hmid hxm hlo'
        · simp only [hxm, if_false]
          exact (ih ((i+j)/2) j (by omega)).2 (by omega) (by omega) (by omega) hhi

#print axioms addNodes_correct
