-- DESIGN-PHASE FEASIBILITY PROTOTYPE (not part of the check machinery; see DESIGN.md section 9).
-- Scatter lemma (foundation of C04 / C08 / C10): numpy-style  p = f(X[mask]); pred[mask] = p  over the
-- masks (assoc == i), for any order of buckets, equals the row-by-row description.
-- Checked with: lean Scatter_proto.lean   (core Lean only; axioms: propext, Classical.choice, Quot.sound)

-- Scatter lemma prototype (foundation of C04 / C08 / C10):
-- numpy semantics  p = f(X[ind]);  pred[ind] = p   with a row-wise f, for a family of disjoint masks.

/-- X[ind] : keep the rows whose mask bit is true -/
def maskGet {α} : List α → List Bool → List α
  | x :: xs, true :: ms => x :: maskGet xs ms
  | _ :: xs, false :: ms => maskGet xs ms
  | _, _ => []

/-- pred[ind] = p : write the j-th element of p at the j-th true position -/
def maskSet {β} : List β → List Bool → List β → List β
  | _ :: os, true :: ms, p :: ps => p :: maskSet os ms ps
  | o :: os, true :: ms, [] => o :: maskSet os ms []        -- numpy would raise; unreachable below
  | o :: os, false :: ms, ps => o :: maskSet os ms ps
  | os, _, _ => os

def zw3 {α β γ δ} (f : β → γ → α → δ) : List β → List γ → List α → List δ
  | o :: os, m :: ms, x :: xs => f o m x :: zw3 f os ms xs
  | _, _, _ => []

theorem zw3_length {α β γ δ} (f : β → γ → α → δ) : ∀ (os : List β) (ms : List γ) (xs : List α),
    xs.length = ms.length → os.length = ms.length → (zw3 f os ms xs).length = ms.length := by
  intro os
  induction os with
  | nil => intro ms xs h1 h2; cases ms <;> simp_all [zw3]
  | cons o os ih =>
    intro ms xs h1 h2
    cases ms with
    | nil => simp at h2
    | cons m ms =>
      cases xs with
      | nil => simp at h1
      | cons x xs => simp [zw3]; exact ih ms xs (by simpa using h1) (by simpa using h2)

theorem maskSet_map_maskGet {α β} (g : α → β) :
    ∀ (xs : List α) (ms : List Bool) (old : List β), xs.length = ms.length → old.length = ms.length →
      maskSet old ms ((maskGet xs ms).map g) =
        zw3 (fun o m x => if m then g x else o) old ms xs := by
  intro xs
  induction xs with
  | nil => intro ms old h1 h2; cases ms <;> cases old <;> simp_all [maskSet, maskGet, zw3]
  | cons x xs ih =>
    intro ms old h1 h2
    cases ms with
    | nil => simp at h1
    | cons m ms =>
      cases old with
      | nil => simp at h2
      | cons o os =>
        have := ih ms os (by simpa using h1) (by simpa using h2)
        cases m <;> simp [maskSet, maskGet, zw3, this]

/-- One dispatch pass as in `_apply_predict_method`: for each bucket i (in any order given by `order`),
    mask = (assoc == i), pred[mask] = g_i applied row-wise to X[mask]. -/
def dispatch {α β} (g : Nat → α → β) (xs : List α) (assoc : List Nat) : List Nat → List β → List β
  | [], pred => pred
  | i :: rest, pred =>
    let mask := assoc.map (· == i)
    dispatch g xs assoc rest (maskSet pred mask ((maskGet xs mask).map (g i)))

/-- pointwise description of the result, row by row -/
def rowResult {β} (order : List Nat) (gi : Nat → β) (b : Nat) (o : β) : β :=
  if b ∈ order then gi b else o

theorem dispatch_rows {α β} (g : Nat → α → β) :
    ∀ (order : List Nat) (xs : List α) (assoc : List Nat) (pred : List β),
      xs.length = assoc.length → pred.length = assoc.length →
      dispatch g xs assoc order pred =
        zw3 (fun o b x => if b ∈ order then g b x else o) pred assoc xs := by
  intro order
  induction order with
  | nil =>
    intro xs assoc pred h1 h2
    simp only [dispatch, List.not_mem_nil, if_false]
    induction pred generalizing assoc xs with
    | nil => cases assoc <;> cases xs <;> simp [zw3]
    | cons o os ih =>
      cases assoc with
      | nil => simp at h2
      | cons b bs =>
        cases xs with
        | nil => simp at h1
        | cons x xs => simp [zw3]; exact ih xs bs (by simpa using h1) (by simpa using h2)
  | cons i rest ih =>
    intro xs assoc pred h1 h2
    simp only [dispatch]
    rw [maskSet_map_maskGet (g i) xs (assoc.map (· == i)) pred (by simpa using h1) (by simpa using h2)]
    rw [ih xs assoc _ h1 (by rw [zw3_length _ _ _ _ (by simpa using h1) (by simpa using h2)]; simp)]
    -- pointwise equality of the two zipWith3
    induction pred generalizing assoc xs with
    | nil => cases assoc <;> cases xs <;> simp [zw3]
    | cons o os ih2 =>
      cases assoc with
      | nil => simp at h2
      | cons b bs =>
        cases xs with
        | nil => simp at h1
        | cons x xs =>
          simp only [List.map_cons, zw3]
          have := ih2 xs bs (by simpa using h1) (by simpa using h2)
          rw [this]
          by_cases hb : b = i
          · subst hb; simp
          · have : (b == i) = false := by simpa using hb
            simp [this, hb]

#print axioms dispatch_rows
